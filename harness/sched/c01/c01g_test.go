package c01

// C01 (concurrent part) — header lists round-trip through an Encoder and a
// Decoder whatever other goroutines are doing with their own Encoders and
// Decoders.
//
// This package is virtual: every non-test file of http2/hpack of the current
// working tree is instrumented by vrewrite -globals (a scheduling point
// before each statement that mentions a written package-level variable,
// sync.Once / sync.Pool replaced by controlled shims) and compiled here.
// Expected transcripts come from the uninstrumented
// golang.org/x/net/http2/hpack, run sequentially; in addition every script
// checks by itself that the decoded fields equal the written ones.
//
// Every op builds its own Encoder (over its own bytes.Buffer) and its own
// Decoder; nothing the API does not declare safe for concurrent use is
// shared between the two threads.

import (
	"bytes"
	"fmt"
	"strings"
	"testing"

	real "golang.org/x/net/http2/hpack"
	"golang.org/x/net/internal/zzverif/vsched"
	"golang.org/x/net/internal/zzverif/vx"
)

type c01Field struct {
	n, v string
	sens bool
}

func c01F(name, value string, sens bool) string { return fmt.Sprintf("%q=%q/%v", name, value, sens) }

func c01Err(err error) string {
	if err == nil {
		return "<nil>"
	}
	t := fmt.Sprintf("%T", err)
	if i := strings.LastIndex(t, "."); i >= 0 {
		t = t[i+1:]
	}
	return fmt.Sprintf("%s(%v)", t, err)
}

// c01Codec is what a script sees of one Encoder + Decoder pair, of the
// instrumented or of the real package.
type c01Codec struct {
	writeField func(c01Field) error
	wire       func() []byte // bytes written since the last call
	peer       func(uint32)  // SETTINGS_HEADER_TABLE_SIZE: Decoder.SetAllowedMaxDynamicTableSize + Encoder.SetMaxDynamicTableSize
	limit      func(uint32)  // Encoder.SetMaxDynamicTableSizeLimit
	decWrite   func([]byte) (int, error)
	decClose   func() error
	decFull    func([]byte) ([]string, error)
	take       func() []string
	inv        func() string // white-box lock-step of the two tables (instrumented only)
}

func c01Inst() *c01Codec {
	var buf bytes.Buffer
	var got []string
	e := NewEncoder(&buf)
	d := NewDecoder(4096, func(f HeaderField) { got = append(got, c01F(f.Name, f.Value, f.Sensitive)) })
	limited := false
	return &c01Codec{
		writeField: func(f c01Field) error { return e.WriteField(HeaderField{Name: f.n, Value: f.v, Sensitive: f.sens}) },
		wire:       func() []byte { b := append([]byte(nil), buf.Bytes()...); buf.Reset(); return b },
		peer:       func(v uint32) { d.SetAllowedMaxDynamicTableSize(v); e.SetMaxDynamicTableSize(v) },
		limit:      func(v uint32) { limited = true; e.SetMaxDynamicTableSizeLimit(v) },
		decWrite:   d.Write, decClose: d.Close,
		decFull: func(p []byte) ([]string, error) {
			hf, err := d.DecodeFull(p)
			var out []string
			for _, f := range hf {
				out = append(out, c01F(f.Name, f.Value, f.Sensitive))
			}
			return out, err
		},
		take: func() []string { g := got; got = nil; return g },
		inv: func() string {
			// the encoder table is the newest part of the decoder table (equal
			// unless an encoder-local limit shrank the encoder's)
			ee, de := e.dynTab.table.ents, d.dynTab.table.ents
			ok := len(ee) <= len(de) && (limited || len(ee) == len(de))
			if ok {
				off := len(de) - len(ee)
				for i := range ee {
					if ee[i] != de[off+i] {
						ok = false
					}
				}
			}
			if !ok {
				return fmt.Sprintf(" TABLES-OUT-OF-STEP(enc=%v dec=%v)", ee, de)
			}
			return ""
		},
	}
}

func c01Real() *c01Codec {
	var buf bytes.Buffer
	var got []string
	e := real.NewEncoder(&buf)
	d := real.NewDecoder(4096, func(f real.HeaderField) { got = append(got, c01F(f.Name, f.Value, f.Sensitive)) })
	return &c01Codec{
		writeField: func(f c01Field) error {
			return e.WriteField(real.HeaderField{Name: f.n, Value: f.v, Sensitive: f.sens})
		},
		wire:     func() []byte { b := append([]byte(nil), buf.Bytes()...); buf.Reset(); return b },
		peer:     func(v uint32) { d.SetAllowedMaxDynamicTableSize(v); e.SetMaxDynamicTableSize(v) },
		limit:    e.SetMaxDynamicTableSizeLimit,
		decWrite: d.Write, decClose: d.Close,
		decFull: func(p []byte) ([]string, error) {
			hf, err := d.DecodeFull(p)
			var out []string
			for _, f := range hf {
				out = append(out, c01F(f.Name, f.Value, f.Sensitive))
			}
			return out, err
		},
		take: func() []string { g := got; got = nil; return g },
		inv:  func() string { return "" },
	}
}

type c01Env struct {
	mk    func() *c01Codec
	yield func()
	out   strings.Builder
}

// c01Clip keeps transcripts of long strings readable without losing
// information: a long hex string is shown as head…(len, FNV-1a)…tail.
func c01Clip(b []byte) string {
	if len(b) <= 48 {
		return fmt.Sprintf("%x", b)
	}
	h := uint64(14695981039346656037)
	for _, c := range b {
		h = (h ^ uint64(c)) * 1099511628211
	}
	return fmt.Sprintf("%x…(%d bytes, fnv %016x)…%x", b[:16], len(b), h, b[len(b)-8:])
}

// block writes one header list with one WriteField per field, gives the
// block to the Decoder in the stated way (mode 0: one Write; mode 1:
// DecodeFull; mode k>=2: Writes of k bytes) and records the wire bytes, what
// the Decoder emitted and whether that is the written list.
func (e *c01Env) block(c *c01Codec, mode int, fields ...c01Field) {
	var blk []byte
	var want []string
	for _, f := range fields {
		err := c.writeField(f)
		e.yield()
		w := c.wire()
		blk = append(blk, w...)
		want = append(want, c01F(f.n, f.v, f.sens))
		if err != nil {
			fmt.Fprintf(&e.out, "WriteField(%s)=%s ", c01F(f.n, f.v, f.sens), c01Err(err))
		}
	}
	var got []string
	var res string
	switch {
	case mode == 1:
		var err error
		got, err = c.decFull(blk)
		res = c01Err(err)
	default:
		step := len(blk)
		if mode >= 2 {
			step = mode
		}
		for p := 0; p < len(blk) || p == 0; p += step {
			q := min(p+step, len(blk))
			n, err := c.decWrite(blk[p:q])
			if mode >= 2 {
				e.yield()
			}
			if err != nil || n != q-p {
				res += fmt.Sprintf("write[%d:%d]=%d %s ", p, q, n, c01Err(err))
				break
			}
			if len(blk) == 0 {
				break
			}
		}
		res += c01Err(c.decClose())
		got = c.take()
	}
	e.yield()
	verdict := "round-trip-ok"
	if fmt.Sprint(got) != fmt.Sprint(want) || len(got) != len(want) {
		verdict = fmt.Sprintf("ROUND-TRIP-BROKEN(written %v)", want)
	}
	fmt.Fprintf(&e.out, "block %s -> %s %v %s%s; ", c01Clip(blk), res, got, verdict, c.inv())
}

type c01Script struct {
	name string
	run  func(e *c01Env)
}

func c01Scripts(thorough bool) []c01Script {
	F := func(n, v string) c01Field { return c01Field{n, v, false} }
	S := func(n, v string) c01Field { return c01Field{n, v, true} }
	long := strings.Repeat("z", 300) // 7 bits each: Huffman, 2-byte length
	bin := "\x00\xff\xfe\x01\xfd\xfc"
	sc := []c01Script{
		{"RFC C.4 requests (Huffman values, static hits, dynamic re-use), one Write per block", func(e *c01Env) {
			c := e.mk()
			e.block(c, 0, F(":method", "GET"), F(":scheme", "http"), F(":path", "/"), F(":authority", "www.example.com"))
			e.block(c, 0, F(":method", "GET"), F(":scheme", "http"), F(":path", "/"), F(":authority", "www.example.com"), F("cache-control", "no-cache"))
			e.block(c, 0, F(":method", "GET"), F(":scheme", "https"), F(":path", "/index.html"), F(":authority", "www.example.com"), F("custom-key", "custom-value"))
		}},
		{"RFC C.6 responses at table size 256 (eviction), DecodeFull", func(e *c01Env) {
			c := e.mk()
			c.peer(256)
			e.block(c, 1, F(":status", "302"), F("cache-control", "private"), F("date", "Mon, 21 Oct 2013 20:13:21 GMT"), F("location", "https://www.example.com"))
			e.block(c, 1, F(":status", "307"), F("cache-control", "private"), F("date", "Mon, 21 Oct 2013 20:13:21 GMT"), F("location", "https://www.example.com"))
			e.block(c, 1, F(":status", "200"), F("cache-control", "private"), F("date", "Mon, 21 Oct 2013 20:13:22 GMT"), F("location", "https://www.example.com"), F("content-encoding", "gzip"), F("set-cookie", "foo=ASDJKHQKBZXOQWEOPIUAXQWEOIU; max-age=3600; version=1"))
		}},
		{"sensitive and non-sensitive fields with equal pairs, Writes of 5 bytes", func(e *c01Env) {
			c := e.mk()
			e.block(c, 5, S("authorization", "Basic QWxhZGRpbjpvcGVu"), F("cookie", "sid=31d4d96e407aad42"), S("cookie", "sid=31d4d96e407aad42"), F("x", "y"))
			e.block(c, 5, F("cookie", "sid=31d4d96e407aad42"), S("x", "y"), F("x", "y"), S("authorization", "Basic QWxhZGRpbjpvcGVu"))
		}},
		{"table size 0 then 4096 between blocks (two size updates at the block start)", func(e *c01Env) {
			c := e.mk()
			e.block(c, 0, F("a", "b"), F("c", "d"))
			c.peer(0)
			c.peer(4096)
			e.block(c, 0, F("a", "b"), F("e", "f"), F("a", "b"))
			c.peer(70)
			e.block(c, 0, F("e", "f"), F("g", "hhhh"), F("e", "f"), F("a", "b"))
		}},
		{"encoder-local limit 64 below the peer's 4096, long names", func(e *c01Env) {
			c := e.mk()
			e.block(c, 0, F("first-header-name", "first-value"), F("k", "v"))
			c.limit(64)
			c.peer(4096)
			e.block(c, 0, F("k", "v"), F("first-header-name", "first-value"), F("second-name", "second-value"), F("k", "v"))
		}},
		{"empty, incompressible and 300-octet values, empty name", func(e *c01Env) {
			c := e.mk()
			e.block(c, 0, F("", ""), F("k", ""), F("bin", bin), F("long", long), F("", ""))
			e.block(c, 7, F("long", long), F("bin", bin), F("k", ""), S("long", long))
		}},
		{"three fields twice round at table size 100 (evict and re-add)", func(e *c01Env) {
			c := e.mk()
			c.peer(100)
			for r := 0; r < 2; r++ {
				e.block(c, 0, F("alpha", "one"), F("beta", "two-two"), F("gamma", "three-three-three"), F("alpha", "one"))
			}
		}},
		{"Huffman-favourable and Huffman-hostile values of equal length", func(e *c01Env) {
			c := e.mk()
			e.block(c, 1, F("fav", "aaaaaaaaaaaa"), F("hostile", "~~~~~~~~~~~~"), F("mixed", "a~a~a~a~a~a~"), F("accept-encoding", "gzip, deflate"))
			e.block(c, 1, F("hostile", "~~~~~~~~~~~~"), F("fav", "aaaaaaaaaaaa"), F("accept-encoding", "gzip, deflate"))
		}},
	}
	if thorough {
		sc = append(sc,
			c01Script{"table size 33 (nothing fits) then 4096, Writes of 2 bytes", func(e *c01Env) {
				c := e.mk()
				c.peer(33)
				e.block(c, 2, F("n", "1"), F("nn", "22"), F("n", "1"))
				c.peer(4096)
				e.block(c, 2, F("nn", "22"), F("nn", "22"), S("nn", "22"))
			}},
			c01Script{"limit raised above the default and peer 8192: 60 entries then index above 61+60", func(e *c01Env) {
				c := e.mk()
				c.limit(8192)
				c.peer(8192)
				var fs []c01Field
				for i := 0; i < 70; i++ {
					fs = append(fs, F(fmt.Sprintf("h%02d", i), fmt.Sprintf("value-%02d", i)))
				}
				e.block(c, 0, fs...)
				e.block(c, 0, fs[0], fs[1], fs[69], F("h00", "other"))
			}},
			c01Script{"empty header list between two lists", func(e *c01Env) {
				c := e.mk()
				e.block(c, 0, F("p", "q"))
				e.block(c, 0)
				c.peer(40)
				e.block(c, 0)
				e.block(c, 0, F("p", "q"), F("p", "q"))
			}},
		)
	}
	return sc
}

func c01Ops(thorough bool) []vsched.Op {
	var ops []vsched.Op
	for _, s := range c01Scripts(thorough) {
		s := s
		ref := &c01Env{mk: c01Real, yield: func() {}}
		s.run(ref)
		if strings.Contains(ref.out.String(), "ROUND-TRIP-BROKEN") {
			// the sequential parts of C01 judge this; here it would only blur the oracle
			panic("harness: the uninstrumented package does not round-trip script " + s.name + ": " + ref.out.String())
		}
		ops = append(ops, vsched.Op{Kind: "Encoder.WriteField+Decoder.Write", Name: s.name, Want: ref.out.String(),
			Run: func() string {
				e := &c01Env{mk: c01Inst, yield: vsched.Yield}
				s.run(e)
				return e.out.String()
			}})
	}
	return ops
}

// c01ColdIdx: the pairs of these scripts are also explored from the
// package's initial state (Huffman decoding tree not built, pool empty).
var c01ColdIdx = []int{0, 2}

// c01Warm puts the package into the state every call but the first sees:
// Huffman decoding tree built, one buffer in the pool (exported API only;
// runs on the program's main thread, so it adds steps but no schedules).
func c01Warm() {
	zzResetGlobals()
	if s, err := HuffmanDecodeToString([]byte{0x1f}); s != "a" || err != nil {
		panic(fmt.Sprintf("harness: warm-up decode returned %q %v", s, err))
	}
}

func TestVerif_C01_globals(t *testing.T) {
	vx.Run(t, "C01", func(c *vx.Ctx) {
		bounds := vx.Pick(c, []int{1}, []int{1, 2})
		c.Rule("concurrent part: for every unordered pair of scripts from a small alphabet (each script makes its own Encoder over its own buffer and its own Decoder, writes 2-3 header lists — RFC 7541 C.4 requests and C.6 responses, sensitive and non-sensitive fields with equal pairs, SETTINGS-style table sizes 0 / 70 / 100 / 256 / 4096 changed between lists incl. two changes in a row, an encoder-local limit, empty / incompressible / 300-octet / Huffman-favourable and -hostile values, eviction and re-adding; thorough adds size 33, a 70-entry table of 8192 and empty lists — and decodes each list with one Write, DecodeFull or fixed-size Writes) two threads run one script each (thorough: twice each) on the instrumented http2/hpack source, starting (programs warm/pair/…, all pairs) from the state after one Huffman decode and (programs pair/…, the three pairs of two of the scripts) from the package's initial state (decoding tree not built, pool empty); every schedule with at most B preemptions (quick B=1; thorough B=1 for every program, then B=2 as far as the budget reaches — the bound completed per program is recorded) at the scheduling points — before each statement mentioning a written package-level variable " + fmt.Sprint(zzWrittenGlobals) + ", sync.Once, sync.Pool Get/Put, and between any two Encoder / Decoder calls of a script — is executed; each script must produce its sequential transcript (wire bytes of every list, Decoder errors, emitted fields with Sensitive flags), the emitted fields must be the written ones, and (white-box) the encoder table must stay the newest part of the decoder table")
		c.Assume("concurrent part: statement granularity at mentions of written package-level variables; accesses to heap objects only reachable from them and mutation through method calls are not scheduling points; sync.Pool is one shared LIFO free list; the Encoder path mentions no written package-level variable today, so its calls interleave only at the harness's points between calls")
		seq := 0
		if !c.Quick() {
			seq = 1
		}
		ops := c01Ops(!c.Quick())
		// the cheap, broad programs first: a deadline then cuts the first-use programs only
		var progs []vsched.Program
		for _, p := range vsched.PairPrograms("C01", c01Warm, ops, seq) {
			p.Name = "warm/" + p.Name
			progs = append(progs, p)
		}
		// first use (decoding tree not built yet, pool empty): the pairs of two scripts, last
		var cold []vsched.Op
		for _, i := range c01ColdIdx {
			cold = append(cold, ops[i])
		}
		progs = append(progs, vsched.PairPrograms("C01", zzResetGlobals, cold, seq)...)
		c.Note("globals_programs", len(progs))
		c.Note("written_package_level_variables", zzWrittenGlobals)
		vsched.RunBounds(c, "globals", progs, bounds)
	})
}
