package c06

// C06 (concurrent part) — a Framer writes frames that read back identically
// whatever other goroutines are doing with their own Framers.
//
// This package is virtual: http2/frame.go and the files it needs
// (errors.go, http2.go, ascii.go) of the current working tree are
// instrumented by vrewrite -globals -pure (a scheduling point before each
// statement that mentions a written package-level variable, sync.Pool
// replaced by a controlled shim) and compiled here; the package state is
// reset before every execution. Expected results come from the
// uninstrumented golang.org/x/net/http2, driven by the same script.

import (
	"bytes"
	"fmt"
	"io"
	"reflect"
	"strings"
	"testing"

	real "golang.org/x/net/http2"
	"golang.org/x/net/internal/zzverif/vsched"
	"golang.org/x/net/internal/zzverif/vx"
)

// c06Step is one Framer.Write* call.
type c06Step struct {
	M string
	A []any
}

type c06Script struct {
	Kind  string // the Write method under test (signature class)
	Name  string // the concrete calls
	Steps []c06Step
}

// c06Run creates a fresh Framer over its own bytes.Buffer, performs the
// writes, then reads everything back. The result lists, per write, the
// returned error and the exact bytes that reached the writer, and per
// ReadFrame the rendered frame and error. The caller may be preempted
// between its own calls (vsched.Touch does nothing outside the explorer), in
// particular between ReadFrame and the use of the returned frame, which the
// API allows until the next ReadFrame on the same Framer.
func c06Run(api dynAPI, s c06Script) string {
	var buf bytes.Buffer
	var out strings.Builder
	fr := api.framer(&buf, &buf)
	for _, st := range s.Steps {
		before := buf.Len()
		err := dynErr(dynCall(fr, st.M, st.A...)[0])
		fmt.Fprintf(&out, "%s: err=%s wire=%x\n", st.M, dynErrString(err), buf.Bytes()[before:])
		vsched.Touch("caller:after-write")
	}
	for i := 0; i < len(s.Steps)+2; i++ {
		r := dynCall(fr, "ReadFrame")
		err := dynErr(r[1])
		if err == io.EOF && r[0].IsNil() {
			out.WriteString("EOF")
			break
		}
		vsched.Touch("caller:after-read")
		fmt.Fprintf(&out, "read: %s err=%s detail=%s\n", dynFrame(r[0]), dynErrString(err), dynErrString(dynErr(dynCall(fr, "ErrorDetail")[0])))
		if err != nil {
			break
		}
	}
	return out.String()
}

func c06Scripts() []c06Script {
	b := func(s string) []byte { return []byte(s) }
	w := func(m string, a ...any) c06Step { return c06Step{m, a} }
	one := func(kind, name string, st ...c06Step) c06Script { return c06Script{kind, name, st} }
	return []c06Script{
		one("WriteData", "WriteData(1,END_STREAM,19 bytes)", w("WriteData", uint32(1), true, b("hello-data-stream-1"))),
		one("WriteDataPadded", "WriteDataPadded(3,13 bytes,pad 5)", w("WriteDataPadded", uint32(3), false, b("padded\x00\xffbody"), make([]byte, 5))),
		one("WriteHeaders", "WriteHeaders(5,END_STREAM|END_HEADERS,pad 7,prio 3/excl/200)", w("WriteHeaders", dynS{"StreamID": uint32(5), "BlockFragment": b("\x82\x86\x84hdr-frag-5"), "EndStream": true, "EndHeaders": true, "PadLength": uint8(7),
			"Priority": dynS{"StreamDep": uint32(3), "Exclusive": true, "Weight": uint8(200)}})),
		one("WriteContinuation", "WriteHeaders(7)+WriteContinuation(7)x2", w("WriteHeaders", dynS{"StreamID": uint32(7), "BlockFragment": b("\x88first-7"), "EndStream": false, "EndHeaders": false}),
			w("WriteContinuation", uint32(7), false, b("middle-7")), w("WriteContinuation", uint32(7), true, b("last-7"))),
		one("WritePriority", "WritePriority(9,dep 0x7ffffffe/15)+WritePriority(0x7fffffff,dep 9/excl/255)", w("WritePriority", uint32(9), dynS{"StreamDep": uint32(0x7ffffffe), "Exclusive": false, "Weight": uint8(15)}),
			w("WritePriority", uint32(0x7fffffff), dynS{"StreamDep": uint32(9), "Exclusive": true, "Weight": uint8(255)})),
		one("WriteRSTStream", "WriteRSTStream(11,CANCEL)+WriteRSTStream(0x01020304,0xdeadbeef)", w("WriteRSTStream", uint32(11), uint32(8)), w("WriteRSTStream", uint32(0x01020304), uint32(0xdeadbeef))),
		one("WriteSettings", "WriteSettings(5 settings)+WriteSettingsAck+WriteSettings()", w("WriteSettings", []any{dynS{"ID": uint16(1), "Val": uint32(8192)}, dynS{"ID": uint16(3), "Val": uint32(250)}, dynS{"ID": uint16(4), "Val": uint32(0x7fffffff)}, dynS{"ID": uint16(5), "Val": uint32(16384)}, dynS{"ID": uint16(0xfff0), "Val": uint32(0xa1b2c3d4)}}),
			w("WriteSettingsAck"), w("WriteSettings", []any{})),
		one("WritePing", "WritePing(0102..08)+WritePing(ack,f8f7..f1)", w("WritePing", false, [8]byte{1, 2, 3, 4, 5, 6, 7, 8}), w("WritePing", true, [8]byte{0xf8, 0xf7, 0xf6, 0xf5, 0xf4, 0xf3, 0xf2, 0xf1})),
		one("WriteGoAway", "WriteGoAway(0x7fffffff,ENHANCE_YOUR_CALM,24 bytes)+WriteGoAway(0,NO_ERROR,nil)", w("WriteGoAway", uint32(0x7fffffff), uint32(11), b("debug: enhance your calm")), w("WriteGoAway", uint32(0), uint32(0), []byte(nil))),
		one("WriteWindowUpdate", "WriteWindowUpdate(0,0x7fffffff)+WriteWindowUpdate(13,1)", w("WriteWindowUpdate", uint32(0), uint32(0x7fffffff)), w("WriteWindowUpdate", uint32(13), uint32(1))),
		one("WritePushPromise", "WritePushPromise(15,promise 0x7ffffff0,pad 3)+WriteContinuation(15,END_HEADERS)", w("WritePushPromise", dynS{"StreamID": uint32(15), "PromiseID": uint32(0x7ffffff0), "BlockFragment": b("\x82push-frag-15"), "EndHeaders": false, "PadLength": uint8(3)}),
			w("WriteContinuation", uint32(15), true, b("push-cont-15"))),
		one("WritePriorityUpdate", "WritePriorityUpdate(17,\"u=1, i\")+WritePriorityUpdate(0x7fffffff,\"\")", w("WritePriorityUpdate", uint32(17), "u=1, i"), w("WritePriorityUpdate", uint32(0x7fffffff), "")),
		one("WriteRawFrame", "WriteRawFrame(0xfe,0xa5,19)+WriteRawFrame(DATA,PADDED|END_STREAM,21)", w("WriteRawFrame", uint8(0xfe), uint8(0xa5), uint32(19), b("raw-unknown-payload")), w("WriteRawFrame", uint8(0x0), uint8(0x9), uint32(21), b("\x02raw-padded-data\x00\x00"))),
		// documented-illegal arguments: refused, nothing written; the Framer stays usable
		one("Write-refused", "5 refused writes+WriteWindowUpdate(23,0x00010203)", w("WriteData", uint32(0), false, b("x")), w("WriteDataPadded", uint32(1), false, b("x"), b("\x00\x01")),
			w("WriteHeaders", dynS{"StreamID": uint32(0x80000001), "BlockFragment": b("y"), "EndHeaders": true}), w("WriteWindowUpdate", uint32(1), uint32(0)),
			w("WriteRSTStream", uint32(0), uint32(1)), w("WriteWindowUpdate", uint32(23), uint32(0x00010203))),
	}
}

func c06Ops() []vsched.Op {
	inst := dynAPI{reflect.ValueOf(NewFramer)}
	ref := dynAPI{reflect.ValueOf(real.NewFramer)}
	var ops []vsched.Op
	for _, s := range c06Scripts() {
		s := s
		want := c06Run(ref, s)
		ops = append(ops, vsched.Op{Kind: s.Kind, Name: s.Name, Want: want, Run: func() string { return dynFirstDiff(c06Run(inst, s), want) }})
	}
	return ops
}

func TestVerif_C06_globals(t *testing.T) {
	vx.Run(t, "C06", func(c *vx.Ctx) {
		bounds := vx.Pick(c, []int{2}, []int{3, 4})
		c.Rule("concurrent part: for every unordered pair of scripts from a small alphabet (one per Framer Write method with distinctive arguments — DATA, padded DATA, HEADERS with priority and padding, HEADERS+CONTINUATION train, PRIORITY, RST_STREAM, SETTINGS/ack/empty, PING/ack, GOAWAY, WINDOW_UPDATE, padded PUSH_PROMISE+CONTINUATION, PRIORITY_UPDATE, raw frames, refused writes) two threads each create their own Framer over their own bytes.Buffer, perform the writes and read everything back (thorough: twice each) on the instrumented http2 Framer source (frame.go, errors.go, http2.go, ascii.go) starting from the package's initial state; every schedule with at most B preemptions (quick B=2, thorough B=3 then 4) at the scheduling points — before each statement mentioning a written package-level variable " + fmt.Sprint(zzWrittenGlobals) + ", sync.Pool Get/Put, and in the caller after every Write call and between every ReadFrame and the use of its result — is executed; the write errors, the exact bytes written, and every read-back frame (Go type, header, all payload accessors), read error and ErrorDetail must equal what the same script yields alone on the uninstrumented package")
		c.Assume("concurrent part: statement granularity at mentions of written package-level variables; accesses to heap objects only reachable from them and mutation through method calls are not scheduling points; sync.Pool is one shared LIFO free list; only frame.go, errors.go, http2.go and ascii.go of package http2 are instrumented (the Framer needs nothing else); Framers and buffers are never shared between threads")
		seq := 0
		if !c.Quick() {
			seq = 1
		}
		progs := vsched.PairPrograms("C06", zzResetGlobals, c06Ops(), seq)
		c.Note("globals_programs", len(progs))
		c.Note("written_package_level_variables", zzWrittenGlobals)
		vsched.RunBounds(c, "globals", progs, bounds)
	})
}
