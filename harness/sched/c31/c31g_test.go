package c31

// C31 (concurrent part) — Retry tokens and stateless-reset tokens stay bound
// to their own context when other goroutines issue and validate tokens at the
// same time.
//
// This package is virtual: every non-test file of package quic of the current
// working tree is instrumented by vrewrite -globals -pure (a scheduling point
// before each statement that mentions a written package-level variable,
// sync.Pool / sync.Once / sync.Mutex replaced by controlled shims; channels,
// go statements and context are left alone) and compiled here. The API is
// unexported, so expected results cannot come from the uninstrumented
// package: for Retry tokens they are the accept/reject table the property
// states (never token bytes: the nonce is random, as in the sequential
// harness), for stateless-reset tokens an independent HMAC-SHA256.

import (
	"bytes"
	"crypto/hmac"
	"crypto/sha256"
	"fmt"
	"net/netip"
	"strings"
	"testing"
	"time"

	"golang.org/x/crypto/chacha20poly1305"
	"golang.org/x/net/internal/zzverif/vsched"
	"golang.org/x/net/internal/zzverif/vx"
)

func c31gKey(seed byte) (k [32]byte) {
	for i := range k {
		k[i] = seed + byte(i)*3
	}
	return k
}

func c31gRetryState(seed byte) *retryState {
	k := c31gKey(seed)
	aead, err := chacha20poly1305.NewX(k[:])
	if err != nil {
		panic(err)
	}
	return &retryState{aead: aead}
}

func c31gMAC(key [32]byte, cid []byte) string {
	m := hmac.New(sha256.New, key[:])
	m.Write(cid)
	return fmt.Sprintf("%x", m.Sum(nil)[:statelessResetTokenLen])
}

// The stateless-reset generator of an endpoint is shared by all its
// connections and guards its hash with a mutex: it is the one object two
// threads of a program do share. It is rebuilt before every execution.
var (
	c31gSharedKey = c31gKey(0xd1)
	c31gShared    *statelessResetTokenGenerator
)

func c31gReset() {
	zzResetGlobals()
	c31gShared = new(statelessResetTokenGenerator)
	c31gShared.init(c31gSharedKey)
}

// ---- Retry tokens

type c31gRetry struct {
	name      string
	key       byte // seed of the server's token key
	otherKey  byte
	addr      string
	src       []byte
	odcid     []byte
	frac      bool // issue time has a fractional second
	otherAddr string
	otherPort string
	otherFam  string
	otherSrc  []byte
}

func (x c31gRetry) run() string {
	rs, other := c31gRetryState(x.key), c31gRetryState(x.otherKey)
	addr := netip.MustParseAddrPort(x.addr)
	t0 := time.Unix(1_700_000_000, 0)
	if x.frac {
		t0 = t0.Add(500 * time.Millisecond)
	}
	var sb strings.Builder
	token, dst, err := rs.makeToken(t0, x.src, x.odcid, addr)
	fmt.Fprintf(&sb, "make err=%v token=%d dst=%d;", err, len(token), len(dst))
	if err != nil {
		return sb.String()
	}
	dst0 := bytes.Clone(dst) // what went on the wire in the Retry packet
	// the server derives the stateless-reset token of the connection ID it
	// has just chosen from the endpoint-wide generator
	rt := c31gShared.tokenForConnID(dst)
	fmt.Fprintf(&sb, " reset-token-is-hmac=%v;", fmt.Sprintf("%x", rt[:]) == c31gMAC(c31gSharedKey, dst))
	p := func(label string, r *retryState, now time.Time, tok, s, d []byte, a netip.AddrPort) {
		got, ok := r.validateToken(now, tok, s, d, a)
		fmt.Fprintf(&sb, " %s=%v", label, ok)
		if ok {
			fmt.Fprintf(&sb, ":%x", got)
		}
	}
	period := retryTokenValidityPeriod
	p("t0", rs, t0, token, x.src, dst, addr)
	p("t0+1s", rs, t0.Add(time.Second), token, x.src, dst, addr)
	p("t0+period-1s", rs, t0.Add(period-time.Second), token, x.src, dst, addr)
	p("t0+period+1ns", rs, t0.Add(period+time.Nanosecond), token, x.src, dst, addr)
	p("t0+1h", rs, t0.Add(time.Hour), token, x.src, dst, addr)
	p("t0-period-1s-1ns", rs, t0.Add(-period-time.Second-time.Nanosecond), token, x.src, dst, addr)
	p("other-address", rs, t0, token, x.src, dst, netip.MustParseAddrPort(x.otherAddr))
	p("other-port", rs, t0, token, x.src, dst, netip.MustParseAddrPort(x.otherPort))
	p("other-family", rs, t0, token, x.src, dst, netip.MustParseAddrPort(x.otherFam))
	p("other-src-cid", rs, t0, token, x.otherSrc, dst, addr)
	p("other-key", other, t0, token, x.src, dst, addr)
	for _, i := range []int{0, 3, 4, len(token) / 2, len(token) - 16, len(token) - 1} {
		m := bytes.Clone(token)
		m[i] ^= 0x01
		p(fmt.Sprintf("token[%d]^1", i), rs, t0, m, x.src, dst, addr)
	}
	p("token-truncated", rs, t0, token[:len(token)-1], x.src, dst, addr)
	p("token-extended", rs, t0, append(bytes.Clone(token), 0), x.src, dst, addr)
	p("token-empty", rs, t0, nil, x.src, dst, addr)
	for _, i := range []int{0, len(dst) - 1} {
		m := bytes.Clone(dst)
		m[i] ^= 0x80
		p(fmt.Sprintf("dst[%d]^80", i), rs, t0, token, x.src, m, addr)
	}
	p("dst-truncated", rs, t0, token, x.src, dst[:len(dst)-1], addr)
	p("dst=odcid", rs, t0, token, x.src, x.odcid, addr)
	// a second token for the same context: bound to its own connection ID
	token2, dst2, err := rs.makeToken(t0, x.src, x.odcid, addr)
	fmt.Fprintf(&sb, "; second err=%v", err)
	if err == nil {
		if !bytes.Equal(dst0, dst2) {
			p("second-with-first-dst", rs, t0, token2, x.src, dst0, addr)
		} else {
			sb.WriteString(" second-with-first-dst=false") // 2^-160
		}
		p("second", rs, t0, token2, x.src, dst2, addr)
		p("first-again", rs, t0, token, x.src, dst0, addr)
	}
	return sb.String()
}

func (x c31gRetry) want() string {
	var sb strings.Builder
	fmt.Fprintf(&sb, "make err=<nil> token=%d dst=%d; reset-token-is-hmac=true;", 4+8+len(x.odcid)+16, maxConnIDLen)
	fmt.Fprintf(&sb, " t0=true:%x t0+1s=true:%x t0+period-1s=true:%x", x.odcid, x.odcid, x.odcid)
	sb.WriteString(" t0+period+1ns=false t0+1h=false t0-period-1s-1ns=false other-address=false other-port=false other-family=false other-src-cid=false other-key=false")
	n := 4 + 8 + len(x.odcid) + 16
	for _, i := range []int{0, 3, 4, n / 2, n - 16, n - 1} {
		fmt.Fprintf(&sb, " token[%d]^1=false", i)
	}
	sb.WriteString(" token-truncated=false token-extended=false token-empty=false")
	fmt.Fprintf(&sb, " dst[0]^80=false dst[%d]^80=false dst-truncated=false dst=odcid=false", maxConnIDLen-1)
	fmt.Fprintf(&sb, "; second err=<nil> second-with-first-dst=false second=true:%x first-again=true:%x", x.odcid, x.odcid)
	return sb.String()
}

// ---- stateless-reset tokens

type c31gResetOp struct {
	name   string
	shared bool
	key    byte
	cids   [][]byte
}

func (x c31gResetOp) run() string {
	g := c31gShared
	if !x.shared {
		g = new(statelessResetTokenGenerator)
		g.init(c31gKey(x.key))
	}
	var sb strings.Builder
	fmt.Fprintf(&sb, "canReset=%v", g.canReset)
	for round := 0; round < 2; round++ { // the same connection ID again gives the same token
		for _, cid := range x.cids {
			t := g.tokenForConnID(cid)
			fmt.Fprintf(&sb, " %x:%x", cid, t[:])
		}
	}
	return sb.String()
}

func (x c31gResetOp) want() string {
	key := c31gSharedKey
	if !x.shared {
		key = c31gKey(x.key)
	}
	var sb strings.Builder
	sb.WriteString("canReset=true")
	for round := 0; round < 2; round++ {
		for _, cid := range x.cids {
			fmt.Fprintf(&sb, " %x:%s", cid, c31gMAC(key, cid))
		}
	}
	return sb.String()
}

func c31gOps(thorough bool) []vsched.Op {
	c8 := []byte{1, 2, 3, 4, 5, 6, 7, 8}
	c20 := []byte{1, 2, 3, 4, 5, 6, 7, 8, 9, 10, 11, 12, 13, 14, 15, 16, 17, 18, 19, 20}
	retries := []c31gRetry{
		{name: "retry[key1 1.2.3.4:5 src=8B odcid=1B]", key: 0x11, otherKey: 0x12, addr: "1.2.3.4:5", src: c8, odcid: []byte{9},
			otherAddr: "1.2.3.5:5", otherPort: "1.2.3.4:6", otherFam: "[::1]:5", otherSrc: []byte{1, 2, 3, 4, 5, 6, 7, 9}},
		{name: "retry[key2 [::1]:5 src=0B odcid=20B t0+.5s]", key: 0x12, otherKey: 0x11, addr: "[::1]:5", src: []byte{}, odcid: []byte{20, 19, 18, 17, 16, 15, 14, 13, 12, 11, 10, 9, 8, 7, 6, 5, 4, 3, 2, 1}, frac: true,
			otherAddr: "[::2]:5", otherPort: "[::1]:6", otherFam: "0.0.0.1:5", otherSrc: []byte{1}},
		{name: "retry[key1 1.2.3.4:6 src=20B odcid=0B]", key: 0x11, otherKey: 0x13, addr: "1.2.3.4:6", src: c20, odcid: []byte{},
			otherAddr: "1.2.3.5:6", otherPort: "1.2.3.4:5", otherFam: "[102:304:506:708:90a:b0c:102:304]:6", otherSrc: c20[:19]},
	}
	resets := []c31gResetOp{
		{name: "reset[own generator keyA]{1B,8B,0B}", key: 0xa1, cids: [][]byte{{1}, c8, {}}},
		{name: "reset[own generator keyB]{8B,20B,1B}", key: 0xb1, cids: [][]byte{c8, c20, {1}}},
		{name: "reset[shared generator]{8B,1B}", shared: true, cids: [][]byte{c8, {1}}},
		{name: "reset[shared generator]{20B,8B^1}", shared: true, cids: [][]byte{c20, {1, 2, 3, 4, 5, 6, 7, 9}}},
	}
	if thorough {
		retries = append(retries, c31gRetry{name: "retry[key3 [102:304:…]:5 src=12B odcid=8B t0+.5s]", key: 0x13, otherKey: 0x11, addr: "[102:304:506:708:90a:b0c:102:304]:5", src: c20[:12], odcid: c8, frac: true,
			otherAddr: "[102:304:506:708:90a:b0c:102:305]:5", otherPort: "[102:304:506:708:90a:b0c:102:304]:4", otherFam: "1.2.3.4:5", otherSrc: []byte{1, 2, 3, 4}})
		resets = append(resets, c31gResetOp{name: "reset[shared generator]{0B,19B,2B}", shared: true, cids: [][]byte{{}, c20[:19], {0xff, 0x00}}})
	}
	var ops []vsched.Op
	for _, x := range retries {
		ops = append(ops, vsched.Op{Kind: "retry-token", Name: x.name, Want: x.want(), Run: x.run})
	}
	for _, x := range resets {
		kind := "stateless-reset-token"
		if x.shared {
			kind = "stateless-reset-token-shared-generator"
		}
		ops = append(ops, vsched.Op{Kind: kind, Name: x.name, Want: x.want(), Run: x.run})
	}
	return ops
}

func TestVerif_C31_globals(t *testing.T) {
	vx.Run(t, "C31", func(c *vx.Ctx) {
		bounds := vx.Pick(c, []int{2}, []int{3})
		c.Rule("concurrent part: for every unordered pair of calls from a small alphabet — three (thorough: four) Retry-token histories, each with its own retryState (fixed distinct keys, two of them equal), client address, source and original destination connection IDs and issue time: makeToken, the stateless-reset token of the chosen connection ID from the endpoint-wide generator, then validateToken from the same context at t0, t0+1s, t0+period-1s (accepted, returning the original destination connection ID) and after/before the period, from another address, port, address family, source connection ID, under another key, with single token bytes changed in nonce tail / ciphertext / tag, truncated, extended, empty, with the retry connection ID changed or truncated (all rejected), and a second token for the same context; and four (thorough: five) stateless-reset histories, two on their own generators with distinct keys and two (three) on ONE generator shared by both threads, which the code guards with a mutex — two threads run one call each (thorough: twice each) on the instrumented source of package quic; every schedule (quick: at most 2 preemptions; thorough: at most 3) at the scheduling points — before each statement mentioning a written package-level variable " + fmt.Sprint(zzWrittenGlobals) + ", sync.Pool Get/Put, Mutex Lock/Unlock — is executed and each call must return exactly the accept/reject table the property states, resp. the HMAC-SHA256 of its connection ID under its key")
		c.Assume("concurrent part: token keys are fixed (retryState built around a fixed XChaCha20-Poly1305 key instead of init's random one); the nonce stays random (crypto/rand), so token bytes are never compared and outcomes are assumed independent of the nonce (2^-100), as in the sequential part; time is an argument; statement granularity at mentions of written package-level variables; heap objects only reachable from them and locals aliasing them are not scheduling points; sync.Pool is one shared LIFO free list; apart from the mutex-guarded stateless-reset generator the two threads share no object")
		seq := 0
		if !c.Quick() {
			seq = 1
		}
		progs := vsched.PairPrograms("C31", c31gReset, c31gOps(!c.Quick()), seq)
		c.Note("globals_programs", len(progs))
		c.Note("written_package_level_variables", zzWrittenGlobals)
		vsched.RunBounds(c, "globals", progs, bounds)
	})
}
