package c48

// C48 (concurrent part) — Assemble / Disassemble give the same answers when
// several goroutines use them at once.
//
// This package is virtual: every non-test file of bpf of the current working
// tree is instrumented by vrewrite -globals (a scheduling point before each
// statement that mentions a written package-level variable, sync.Once /
// sync.Pool / sync.Mutex replaced by controlled shims) and compiled here; the
// package state is reset before every execution. Expected results come from
// the uninstrumented golang.org/x/net/bpf.

import (
	"fmt"
	"reflect"
	"strings"
	"testing"

	real "golang.org/x/net/bpf"
	"golang.org/x/net/internal/zzverif/vsched"
	"golang.org/x/net/internal/zzverif/vx"
)

// c48Zero lists one zero value per typed instruction of the instrumented
// package; c48Conv rebuilds a value of the real package as the instrumented
// type of the same name (field by field), so that every program is written
// once, with the real package's types.
var c48Zero = []Instruction{
	LoadConstant{}, LoadScratch{}, LoadAbsolute{}, LoadIndirect{}, LoadMemShift{}, LoadExtension{},
	StoreScratch{}, ALUOpConstant{}, ALUOpX{}, NegateA{}, Jump{}, JumpIf{}, JumpIfX{}, RetA{}, RetConstant{},
	TXA{}, TAX{}, RawInstruction{},
}

func c48Conv(ri real.Instruction) Instruction {
	rv := reflect.ValueOf(ri)
	for _, z := range c48Zero {
		zt := reflect.TypeOf(z)
		if zt.Name() != rv.Type().Name() {
			continue
		}
		nv := reflect.New(zt).Elem()
		for i := 0; i < rv.NumField(); i++ {
			nv.Field(i).Set(rv.Field(i).Convert(nv.Field(i).Type()))
		}
		return nv.Interface().(Instruction)
	}
	panic(fmt.Sprintf("c48: no instrumented type for %T", ri))
}

func c48ConvAll(p []real.Instruction) []Instruction {
	out := make([]Instruction, len(p))
	for i, x := range p {
		out[i] = c48Conv(x)
	}
	return out
}

// c48Strip removes the package qualifier from a %#v rendering so that values
// of the real and of the instrumented package render alike.
var c48Strip = strings.NewReplacer("bpf.", "", "c48.", "")

func c48Show(v any, rest ...any) string {
	s := c48Strip.Replace(fmt.Sprintf("%#v", v))
	switch v.(type) {
	case []RawInstruction, []real.RawInstruction, RawInstruction, real.RawInstruction:
		s = fmt.Sprintf("%x", v) // {op jt jf k}, short enough for the report
	}
	for _, r := range rest {
		s += fmt.Sprintf(" | %v", r)
	}
	return s
}

func c48Ops(thorough bool) []vsched.Op {
	type prog struct {
		name string
		p    []real.Instruction
	}
	progs := []prog{
		// the classic "IPv4 over Ethernet" filter: absolute load, positive conditional jump, constant returns
		{"ether-ip", []real.Instruction{
			real.LoadAbsolute{Off: 12, Size: 2},
			real.JumpIf{Cond: real.JumpEqual, Val: 0x800, SkipTrue: 1},
			real.RetConstant{Val: 0},
			real.RetConstant{Val: 4096},
		}},
		// extensions (the ExtLen alias and an ancillary one), ALU with constant / X, neg, register moves, ret a
		{"ext-alu", []real.Instruction{
			real.LoadExtension{Num: real.ExtLen},
			real.LoadExtension{Num: real.ExtVLANTagPresent},
			real.ALUOpConstant{Op: real.ALUOpAnd, Val: 0xff},
			real.ALUOpX{Op: real.ALUOpShiftLeft},
			real.NegateA{},
			real.TAX{},
			real.TXA{},
			real.RetA{},
		}},
		// every jump form: unconditional, negated tests (encoded by swapping the skips), X operand
		{"jumps", []real.Instruction{
			real.Jump{Skip: 7},
			real.JumpIf{Cond: real.JumpNotEqual, Val: 1, SkipTrue: 3},
			real.JumpIfX{Cond: real.JumpGreaterThan, SkipTrue: 2, SkipFalse: 1},
			real.JumpIf{Cond: real.JumpLessThan, Val: 0xfffff000, SkipTrue: 255},
			real.JumpIfX{Cond: real.JumpBitsNotSet, SkipTrue: 1},
			real.JumpIf{Cond: real.JumpBitsSet, Val: 15, SkipTrue: 1, SkipFalse: 254},
			real.RetA{},
		}},
		// scratch memory and the X-register loads
		{"scratch-x", []real.Instruction{
			real.LoadScratch{Dst: real.RegA, N: 0},
			real.LoadScratch{Dst: real.RegX, N: 15},
			real.StoreScratch{Src: real.RegA, N: 15},
			real.StoreScratch{Src: real.RegX, N: 1},
			real.LoadConstant{Dst: real.RegX, Val: 0xffffffff},
			real.LoadConstant{Dst: real.RegA, Val: 16},
			real.LoadIndirect{Off: 2, Size: 4},
			real.LoadAbsolute{Off: 0, Size: 1},
			real.LoadMemShift{Off: 14},
		}},
	}
	if thorough {
		progs = append(progs, prog{"alu-all", []real.Instruction{
			real.ALUOpConstant{Op: real.ALUOpAdd, Val: 1}, real.ALUOpX{Op: real.ALUOpSub},
			real.ALUOpConstant{Op: real.ALUOpMul, Val: 2}, real.ALUOpX{Op: real.ALUOpDiv},
			real.ALUOpConstant{Op: real.ALUOpOr, Val: 4}, real.ALUOpX{Op: real.ALUOpShiftRight},
			real.ALUOpConstant{Op: real.ALUOpMod, Val: 16}, real.ALUOpX{Op: real.ALUOpXor},
		}})
	}
	var ops []vsched.Op
	for _, pr := range progs {
		pr := pr
		wraw, werr := real.Assemble(pr.p)
		if werr != nil {
			panic("c48: reference program rejected: " + werr.Error())
		}
		wback, wall := real.Disassemble(wraw)
		vp := c48ConvAll(pr.p)
		vraw := make([]RawInstruction, len(wraw))
		for i, r := range wraw {
			vraw[i] = RawInstruction(r)
		}
		ops = append(ops,
			vsched.Op{Kind: "Assemble", Name: "Assemble(" + pr.name + ")", Want: c48Show(wraw, werr),
				Run: func() string { r, err := Assemble(vp); return c48Show(r, err) }},
			vsched.Op{Kind: "Disassemble", Name: "Disassemble(asm(" + pr.name + "))", Want: c48Show(wback, wall),
				Run: func() string { is, all := Disassemble(vraw); return c48Show(is, all) }},
		)
	}
	// rejected programs: the error (with its instruction index) must be the sequential one
	bad := []prog{
		{"ret,ld M[16]", []real.Instruction{real.RetA{}, real.LoadScratch{Dst: real.RegA, N: 16}}},
		{"ldx #1,ld [0] size 3,st M[-1]", []real.Instruction{real.LoadConstant{Dst: real.RegX, Val: 1}, real.LoadAbsolute{Off: 0, Size: 3}, real.StoreScratch{Src: real.RegA, N: -1}}},
	}
	for _, pr := range bad {
		pr := pr
		wraw, werr := real.Assemble(pr.p)
		if werr == nil {
			panic("c48: bad program accepted")
		}
		vp := c48ConvAll(pr.p)
		ops = append(ops, vsched.Op{Kind: "Assemble", Name: "Assemble(" + pr.name + ")", Want: c48Show(wraw, werr),
			Run: func() string { r, err := Assemble(vp); return c48Show(r, err) }})
	}
	// raw instructions this package does not recognise are passed through; allDecoded is false
	mixed := []real.RawInstruction{{Op: 0x28, K: 12}, {Op: 0xffff, Jt: 1, Jf: 2, K: 3}, {Op: 0x15, Jt: 0, Jf: 5, K: 0x806}, {Op: 0xe0, K: 9}, {Op: 0x06, K: 0}}
	wmi, wmall := real.Disassemble(mixed)
	vmixed := make([]RawInstruction, len(mixed))
	for i, r := range mixed {
		vmixed[i] = RawInstruction(r)
	}
	ops = append(ops, vsched.Op{Kind: "Disassemble", Name: "Disassemble(ldh [12], raw ffff, jneq, raw e0, ret #0)", Want: c48Show(wmi, wmall),
		Run: func() string { is, all := Disassemble(vmixed); return c48Show(is, all) }})
	// the single-instruction methods, both directions in one call
	one := real.JumpIf{Cond: real.JumpLessOrEqual, Val: 0xfffff001, SkipTrue: 9}
	wone, woneErr := one.Assemble()
	vone := c48Conv(one)
	ops = append(ops, vsched.Op{Kind: "Instruction.Assemble", Name: "JumpIf{<=,0xfffff001,9,0}.Assemble().Disassemble()", Want: c48Show(wone, woneErr, c48Show(wone.Disassemble())),
		Run: func() string {
			r, err := vone.Assemble()
			return c48Show(r, err, c48Show(r.Disassemble()))
		}})
	return ops
}

func TestVerif_C48_globals(t *testing.T) {
	vx.Run(t, "C48", func(c *vx.Ctx) {
		bounds := vx.Pick(c, []int{2}, []int{3})
		c.Rule("concurrent part: for every unordered pair of calls from a small alphabet (Assemble of four programs (thorough five) that together use every instruction type, both registers, negated and X-operand jumps, extensions; Disassemble of each assembled program; Assemble of two rejected programs (error carries the instruction index); Disassemble of a program with unrecognised raw instructions; one single-instruction Assemble+Disassemble) two threads run one call each (thorough: twice each) on the instrumented bpf source starting from the package's initial state; every schedule (quick: at most 2 preemptions; thorough: at most 3) at the scheduling points — before each statement mentioning a written package-level variable " + fmt.Sprint(zzWrittenGlobals) + ", sync.Once, sync.Pool Get/Put, sync.Mutex — is executed and each call must return what it returns alone (complete rendering of the result slice, the allDecoded flag and the error text)")
		c.Assume("concurrent part: statement granularity at mentions of written package-level variables; accesses to heap objects only reachable from them and mutation through method calls are not scheduling points; if the package has no written package-level variable there is exactly one schedule per pair (the calls cannot interact through package state) and the part degenerates to a sequential differential test — it is kept because it is what catches a change that introduces shared state")
		seq := 0
		if !c.Quick() {
			seq = 1
		}
		progs := vsched.PairPrograms("C48", zzResetGlobals, c48Ops(!c.Quick()), seq)
		c.Note("globals_programs", len(progs))
		c.Note("written_package_level_variables", zzWrittenGlobals)
		vsched.RunBounds(c, "globals", progs, bounds)
	})
}
