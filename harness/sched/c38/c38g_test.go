package c38

// C38 (concurrent part) — SetEDNS0 / ExtendedRCode / DNSSECAllowed, alone and
// through Message.Pack/Unpack and Builder/Parser with an OPT record, give the
// same answers when several goroutines use the package at once on their own
// headers.
//
// This package is virtual: every non-test file of dns/dnsmessage of the
// current working tree is instrumented by vrewrite -globals (a scheduling
// point before each statement that mentions a written package-level
// variable, sync.Once / sync.Pool / sync.Mutex replaced by controlled shims)
// and compiled here; the package state is reset before every execution.
// Expected results come from the uninstrumented golang.org/x/net/dns/dnsmessage.
//
// Every op is written once against a small reflective "package handle"
// (c38gPkg) and run on the real package (Want) and on the instrumented one
// (Run); every call builds its own ResourceHeader / Message / Builder / Parser.

import (
	"fmt"
	"reflect"
	"testing"

	real "golang.org/x/net/dns/dnsmessage"
	"golang.org/x/net/internal/zzverif/vsched"
	"golang.org/x/net/internal/zzverif/vx"
)

type c38gPkg struct {
	msgType    reflect.Type  // Message
	rhType     reflect.Type  // ResourceHeader
	optType    reflect.Type  // OPTResource
	parserType reflect.Type  // Parser
	rcodeType  reflect.Type  // RCode
	newBuilder reflect.Value // NewBuilder
}

var c38gReal = c38gPkg{reflect.TypeOf(real.Message{}), reflect.TypeOf(real.ResourceHeader{}), reflect.TypeOf(real.OPTResource{}),
	reflect.TypeOf(real.Parser{}), reflect.TypeOf(real.RCode(0)), reflect.ValueOf(real.NewBuilder)}
var c38gInst = c38gPkg{reflect.TypeOf(Message{}), reflect.TypeOf(ResourceHeader{}), reflect.TypeOf(OPTResource{}),
	reflect.TypeOf(Parser{}), reflect.TypeOf(RCode(0)), reflect.ValueOf(NewBuilder)}

func c38gErr(v reflect.Value) error {
	if v.IsNil() {
		return nil
	}
	return v.Interface().(error)
}

// conv deep-copies src (a value of the real package) into dst (the
// corresponding type of package p). The only resource body is *OPTResource.
func (p c38gPkg) conv(dst, src reflect.Value) {
	switch src.Kind() {
	case reflect.Struct:
		for i := 0; i < src.NumField(); i++ {
			p.conv(dst.FieldByName(src.Type().Field(i).Name), src.Field(i))
		}
	case reflect.Slice:
		if src.IsNil() {
			return
		}
		dst.Set(reflect.MakeSlice(dst.Type(), src.Len(), src.Len()))
		for i := 0; i < src.Len(); i++ {
			p.conv(dst.Index(i), src.Index(i))
		}
	case reflect.Array:
		for i := 0; i < src.Len(); i++ {
			p.conv(dst.Index(i), src.Index(i))
		}
	case reflect.Interface:
		if src.IsNil() {
			return
		}
		if _, ok := src.Interface().(*real.OPTResource); !ok {
			panic("c38g: unexpected body " + src.Elem().Type().String())
		}
		n := reflect.New(p.optType)
		p.conv(n.Elem(), src.Elem().Elem())
		dst.Set(n)
	default:
		dst.Set(src.Convert(dst.Type()))
	}
}

type c38gArgs struct {
	size  int
	rcode uint16 // 12-bit extended RCode
	do    bool
	dirty bool // prior contents of the header
}

func (a c38gArgs) String() string {
	return fmt.Sprintf("size=%d,rcode=%#x,do=%v,dirty=%v", a.size, a.rcode, a.do, a.dirty)
}

func (p c38gPkg) rcode(v uint16) reflect.Value {
	return reflect.ValueOf(v).Convert(p.rcodeType)
}

// header returns a fresh *ResourceHeader of package p with the prior contents.
func (p c38gPkg) header(dirty bool) reflect.Value {
	var prior real.ResourceHeader
	if dirty {
		prior = real.ResourceHeader{Type: 0xffff, Class: 0xffff, TTL: 0xffffffff, Length: 77}
		for i := range prior.Name.Data {
			prior.Name.Data[i] = 'x'
		}
		prior.Name.Data[253] = '.'
		prior.Name.Length = 254
	}
	h := reflect.New(p.rhType)
	p.conv(h.Elem(), reflect.ValueOf(prior))
	return h
}

// observe renders a *ResourceHeader with its two EDNS(0) accessors.
func (p c38gPkg) observe(h reflect.Value, hdrRCode uint16) string {
	ext := h.MethodByName("ExtendedRCode").Call([]reflect.Value{p.rcode(hdrRCode)})[0].Uint()
	do := h.MethodByName("DNSSECAllowed").Call(nil)[0].Bool()
	return fmt.Sprintf("%s ExtendedRCode(%#x)=%#x DNSSECAllowed=%v", h.Interface().(fmt.GoStringer).GoString(), hdrRCode, ext, do)
}

func (p c38gPkg) setEDNS0(h reflect.Value, a c38gArgs) error {
	return c38gErr(h.MethodByName("SetEDNS0").Call([]reflect.Value{reflect.ValueOf(a.size), p.rcode(a.rcode), reflect.ValueOf(a.do)})[0])
}

// set renders SetEDNS0(args...) on fresh headers, one after the other on the
// same header when more than one argument set is given.
func (p c38gPkg) set(as ...c38gArgs) string {
	h := p.header(as[0].dirty)
	s := ""
	for _, a := range as {
		err := p.setEDNS0(h, a)
		s += fmt.Sprintf("%v %s | ", err, p.observe(h, a.rcode&0xf))
	}
	return s
}

func c38gOptions(v int) []real.Option {
	switch v {
	case 0:
		return nil
	case 1:
		return []real.Option{{Code: 0, Data: []byte{}}}
	}
	return []real.Option{{Code: 12, Data: []byte{0, 0}}, {Code: 10, Data: []byte{0x55, 0x5c, 0x63, 0x6a, 0x71, 0x78, 0x7f, 0x86}}, {Code: 65535, Data: []byte{0xc0, 0x0c}}}
}

// message renders the Message.Pack / Unpack round trip of a message whose
// header carries rcode&0xF and whose OPT record has the header SetEDNS0 made.
func (p c38gPkg) message(a c38gArgs, opts int) string {
	h := p.header(a.dirty)
	if err := p.setEDNS0(h, a); err != nil {
		return "SetEDNS0: " + err.Error()
	}
	src := real.Message{
		Header:      real.Header{ID: 0x1234, Response: true, RCode: real.RCode(a.rcode & 0xf)},
		Questions:   []real.Question{{Name: real.MustNewName("."), Type: real.TypeA, Class: real.ClassINET}},
		Additionals: []real.Resource{{Body: &real.OPTResource{Options: c38gOptions(opts)}}},
	}
	m := reflect.New(p.msgType)
	p.conv(m.Elem(), reflect.ValueOf(src))
	m.Elem().FieldByName("Additionals").Index(0).FieldByName("Header").Set(h.Elem())
	out := m.MethodByName("Pack").Call(nil)
	wire, err := out[0].Bytes(), c38gErr(out[1])
	s := fmt.Sprintf("%x %v", wire, err)
	if err != nil {
		return s
	}
	return s + " | " + p.unpackOPT(wire)
}

// unpackOPT renders Message.Unpack(wire) and the EDNS(0) accessors of the
// header of every additional record.
func (p c38gPkg) unpackOPT(wire []byte) string {
	u := reflect.New(p.msgType)
	err := c38gErr(u.MethodByName("Unpack").Call([]reflect.Value{reflect.ValueOf(wire)})[0])
	s := fmt.Sprintf("%s %v", u.Interface().(fmt.GoStringer).GoString(), err)
	low := uint16(u.Elem().FieldByName("Header").FieldByName("RCode").Uint())
	ads := u.Elem().FieldByName("Additionals")
	for i := 0; i < ads.Len(); i++ {
		s += " | " + p.observe(ads.Index(i).FieldByName("Header").Addr(), low)
	}
	return s
}

// builder renders the Builder / Parser round trip of the same message.
func (p c38gPkg) builder(a c38gArgs, opts int, compress bool) string {
	h := p.header(a.dirty)
	if err := p.setEDNS0(h, a); err != nil {
		return "SetEDNS0: " + err.Error()
	}
	hf, _ := p.msgType.FieldByName("Header")
	hdr := reflect.New(hf.Type)
	p.conv(hdr.Elem(), reflect.ValueOf(real.Header{ID: 0x1234, Response: true, RCode: real.RCode(a.rcode & 0xf)}))
	bv := p.newBuilder.Call([]reflect.Value{reflect.ValueOf([]byte(nil)), hdr.Elem()})[0]
	b := reflect.New(bv.Type())
	b.Elem().Set(bv)
	if compress {
		b.MethodByName("EnableCompression").Call(nil)
	}
	if err := c38gErr(b.MethodByName("StartAdditionals").Call(nil)[0]); err != nil {
		return "StartAdditionals: " + err.Error()
	}
	opt := reflect.New(p.optType)
	p.conv(opt.Elem(), reflect.ValueOf(real.OPTResource{Options: c38gOptions(opts)}))
	if err := c38gErr(b.MethodByName("OPTResource").Call([]reflect.Value{h.Elem(), opt.Elem()})[0]); err != nil {
		return "Builder.OPTResource: " + err.Error()
	}
	out := b.MethodByName("Finish").Call(nil)
	wire, err := out[0].Bytes(), c38gErr(out[1])
	s := fmt.Sprintf("%x %v", wire, err)
	if err != nil {
		return s
	}
	return s + " | " + p.parseOPT(wire)
}

// parseOPT renders a Parser walk to the first additional record: its header
// with the EDNS(0) accessors, then the typed OPTResource method.
func (p c38gPkg) parseOPT(wire []byte) string {
	ps := reflect.New(p.parserType)
	out := ps.MethodByName("Start").Call([]reflect.Value{reflect.ValueOf(wire)})
	if err := c38gErr(out[1]); err != nil {
		return "Start: " + err.Error()
	}
	low := uint16(out[0].FieldByName("RCode").Uint())
	for _, m := range []string{"SkipAllQuestions", "SkipAllAnswers", "SkipAllAuthorities"} {
		if err := c38gErr(ps.MethodByName(m).Call(nil)[0]); err != nil {
			return m + ": " + err.Error()
		}
	}
	out = ps.MethodByName("AdditionalHeader").Call(nil)
	if err := c38gErr(out[1]); err != nil {
		return "AdditionalHeader: " + err.Error()
	}
	h := reflect.New(p.rhType)
	h.Elem().Set(out[0])
	s := p.observe(h, low)
	out = ps.MethodByName("OPTResource").Call(nil)
	o := reflect.New(p.optType)
	o.Elem().Set(out[0])
	return s + fmt.Sprintf(" | %s %v", o.Interface().(fmt.GoStringer).GoString(), c38gErr(out[1]))
}

func c38gOp(kind, name string, f func(p c38gPkg) string) vsched.Op {
	return vsched.Op{Kind: kind, Name: name, Want: f(c38gReal), Run: func() string { return f(c38gInst) }}
}

func c38gOps(thorough bool) []vsched.Op {
	sets := []c38gArgs{
		{1232, 0xabc, true, false},
		{512, 0x000, false, true},
		{65535, 0xfff, true, true},
		{0, 0x010, false, false}, // BADVERS: only the upper bits
		{4096, 0x00f, true, false},
	}
	var ops []vsched.Op
	for _, a := range sets {
		a := a
		ops = append(ops, c38gOp("SetEDNS0", "SetEDNS0("+a.String()+")", func(p c38gPkg) string { return p.set(a) }))
	}
	// an OPT record of EDNS version 1 (ExtendedRCode must ignore it), with DO set and Z bits
	var v1 real.ResourceHeader
	v1.SetEDNS0(1400, 0x7f0, true)
	v1.TTL |= 0x00010001
	v1msg := real.Message{Header: real.Header{ID: 9, RCode: 5}, Additionals: []real.Resource{{Header: v1, Body: &real.OPTResource{Options: c38gOptions(2)}}}}
	v1wire, err := v1msg.Pack()
	if err != nil {
		panic(err)
	}
	ops = append(ops,
		c38gOp("SetEDNS0", "SetEDNS0 twice on one header", func(p c38gPkg) string { return p.set(sets[2], sets[0], sets[3]) }),
		c38gOp("SetEDNS0+Message", "SetEDNS0+Pack/Unpack("+sets[0].String()+",3 options)", func(p c38gPkg) string { return p.message(sets[0], 2) }),
		c38gOp("SetEDNS0+Message", "SetEDNS0+Pack/Unpack("+sets[2].String()+",no option)", func(p c38gPkg) string { return p.message(sets[2], 0) }),
		c38gOp("SetEDNS0+Builder+Parser", "SetEDNS0+Builder/Parser("+sets[1].String()+",3 options,compress)", func(p c38gPkg) string { return p.builder(sets[1], 2, true) }),
		c38gOp("SetEDNS0+Builder+Parser", "SetEDNS0+Builder/Parser("+sets[4].String()+",1 empty option)", func(p c38gPkg) string { return p.builder(sets[4], 1, false) }),
		c38gOp("OPT.Unpack", "Unpack+Parser(OPT of EDNS version 1)", func(p c38gPkg) string { return p.unpackOPT(v1wire) + " | " + p.parseOPT(v1wire) }),
	)
	if thorough {
		more := []c38gArgs{{1, 0x800, false, true}, {511, 0x7ff, true, false}}
		for _, a := range more {
			a := a
			ops = append(ops,
				c38gOp("SetEDNS0", "SetEDNS0("+a.String()+")", func(p c38gPkg) string { return p.set(a) }),
				c38gOp("SetEDNS0+Message", "SetEDNS0+Pack/Unpack("+a.String()+",1 empty option)", func(p c38gPkg) string { return p.message(a, 1) }),
			)
		}
	}
	return ops
}

func TestVerif_C38_globals(t *testing.T) {
	vx.Run(t, "C38", func(c *vx.Ctx) {
		bounds := vx.Pick(c, []int{2}, []int{-1})
		c.Rule("concurrent part: for every unordered pair of calls from a small alphabet (SetEDNS0 on a clean or dirty ResourceHeader followed by ExtendedRCode(rcode&0xF) and DNSSECAllowed, for five (payload size, extended RCode, DO) triples with distinct sizes, RCodes on both sides of the 4-bit split and both DO values; three SetEDNS0 calls on one header; the same header inside a message through Message.Pack/Unpack and through Builder/Parser (AdditionalHeader + OPTResource) with 0, 1 and 3 options; Unpack and Parser on an OPT record of EDNS version 1) two threads run one call each (thorough: twice each, four more calls) on their own fresh header / Message / Builder / Parser on the instrumented dns/dnsmessage source starting from the package's initial state; every schedule (quick: at most 2 preemptions; thorough: unbounded) at the scheduling points — before each statement mentioning a written package-level variable " + fmt.Sprint(zzWrittenGlobals) + ", sync.Once, sync.Pool Get/Put, sync.Mutex — is executed and each call must return exactly (the whole header, both accessors, bytes, errors, decoded message and options) what it returns alone on the uninstrumented package")
		c.Assume("concurrent part: statement granularity at mentions of written package-level variables; accesses to heap objects only reachable from them and mutation through method calls are not scheduling points, and there is no scheduling point after a call's last package-state access; if the package has no written package-level variable the only scheduling choice per pair is which call runs first (the calls cannot interact through package state) and the part degenerates to a sequential differential test of the instrumented against the uninstrumented package; headers, Messages, Builders and Parsers are never shared between the two threads")
		seq := 0
		if !c.Quick() {
			seq = 1
		}
		progs := vsched.PairPrograms("C38", zzResetGlobals, c38gOps(!c.Quick()), seq)
		c.Note("globals_programs", len(progs))
		c.Note("written_package_level_variables", zzWrittenGlobals)
		vsched.RunBounds(c, "globals", progs, bounds)
	})
}
