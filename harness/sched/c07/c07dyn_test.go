package c07

// Reflection driver shared by the instrumented copy of the Framer (this
// virtual package) and the real golang.org/x/net/http2: the two have
// distinct but identically shaped types, so one script is applied to either
// through reflect and rendered by one function. Nothing here knows which of
// the two it is driving.

import (
	"fmt"
	"io"
	"reflect"
	"strings"
)

// dynAPI is the package-level surface the scripts need.
type dynAPI struct {
	newFramer       reflect.Value // func(io.Writer, io.Reader) *Framer
	readFrameHeader reflect.Value // func(io.Reader) (FrameHeader, error)
}

// dynS describes a struct argument by exported field name.
type dynS map[string]any

func (a dynAPI) framer(w io.Writer, r io.Reader) reflect.Value {
	return a.newFramer.Call([]reflect.Value{reflect.ValueOf(&w).Elem(), reflect.ValueOf(&r).Elem()})[0]
}

// dynHeader renders a FrameHeader value (symbolic and numeric).
func dynHeader(h reflect.Value) string {
	return fmt.Sprintf("%v type=%#x flags=%#x len=%d stream=%d", h.Interface(),
		h.FieldByName("Type").Uint(), h.FieldByName("Flags").Uint(), h.FieldByName("Length").Uint(), h.FieldByName("StreamID").Uint())
}

// dynVal converts a plain description into a value of type t.
func dynVal(t reflect.Type, a any) reflect.Value {
	switch x := a.(type) {
	case dynS:
		v := reflect.New(t).Elem()
		for k, e := range x {
			f := v.FieldByName(k)
			if !f.IsValid() {
				panic("c07dyn: no field " + k + " in " + t.String())
			}
			f.Set(dynVal(f.Type(), e))
		}
		return v
	case []any:
		v := reflect.MakeSlice(t, len(x), len(x))
		for i, e := range x {
			v.Index(i).Set(dynVal(t.Elem(), e))
		}
		return v
	case nil:
		return reflect.Zero(t)
	}
	return reflect.ValueOf(a).Convert(t)
}

// dynCall calls recv.method(args...) converting each argument to the
// parameter type; a variadic method takes its last argument as a []any.
func dynCall(recv reflect.Value, method string, args ...any) []reflect.Value {
	m := recv.MethodByName(method)
	if !m.IsValid() {
		panic("c07dyn: no method " + method)
	}
	mt := m.Type()
	in := make([]reflect.Value, len(args))
	for i, a := range args {
		in[i] = dynVal(mt.In(i), a)
	}
	if mt.IsVariadic() {
		return m.CallSlice(in)
	}
	return m.Call(in)
}

func dynErr(v reflect.Value) error {
	if v.IsNil() {
		return nil
	}
	return v.Interface().(error)
}

// dynErrString renders an error with its unqualified dynamic type.
func dynErrString(err error) string {
	if err == nil {
		return "<nil>"
	}
	t := reflect.TypeOf(err)
	n := t.Name()
	if t.Kind() == reflect.Pointer {
		n = "*" + t.Elem().Name()
	}
	return fmt.Sprintf("%s(%q)", n, err.Error())
}

func dynGet(v reflect.Value, method string, args ...any) any {
	return dynCall(v, method, args...)[0].Interface()
}

func dynPrio(p reflect.Value) string {
	return fmt.Sprintf("dep=%d excl=%v weight=%d", p.FieldByName("StreamDep").Interface(), p.FieldByName("Exclusive").Interface(), p.FieldByName("Weight").Interface())
}

// dynFrame renders everything a caller can observe of a frame returned by
// ReadFrame: Go type, header (symbolic and numeric) and the payload
// accessors of that type.
func dynFrame(f reflect.Value) string {
	if !f.IsValid() || (f.Kind() == reflect.Interface && f.IsNil()) {
		return "<nil frame>"
	}
	if f.Kind() == reflect.Interface {
		f = f.Elem()
	}
	if f.Kind() != reflect.Pointer || f.IsNil() {
		return "<nil " + f.Type().String() + ">"
	}
	name := f.Type().Elem().Name()
	h := dynCall(f, "Header")[0]
	var b strings.Builder
	fmt.Fprintf(&b, "%s{%s", name, dynHeader(h))
	switch name {
	case "DataFrame":
		fmt.Fprintf(&b, " data=%q end=%v", dynGet(f, "Data"), dynGet(f, "StreamEnded"))
	case "HeadersFrame":
		fmt.Fprintf(&b, " frag=%x hasprio=%v prio(%s) endstream=%v endheaders=%v", dynGet(f, "HeaderBlockFragment"), dynGet(f, "HasPriority"),
			dynPrio(f.Elem().FieldByName("Priority")), dynGet(f, "StreamEnded"), dynGet(f, "HeadersEnded"))
	case "PriorityFrame":
		fmt.Fprintf(&b, " prio(%s)", dynPrio(f.Elem().FieldByName("PriorityParam")))
	case "RSTStreamFrame":
		fmt.Fprintf(&b, " code=%v", f.Elem().FieldByName("ErrCode").Interface())
	case "SettingsFrame":
		n := dynGet(f, "NumSettings").(int)
		fmt.Fprintf(&b, " ack=%v n=%d [", dynGet(f, "IsAck"), n)
		for i := 0; i < n; i++ {
			fmt.Fprintf(&b, "%v;", dynGet(f, "Setting", i))
		}
		r := dynCall(f, "Value", uint16(4))
		fmt.Fprintf(&b, "] value(INITIAL_WINDOW_SIZE)=%d,%v", r[0].Interface(), r[1].Interface())
	case "PushPromiseFrame":
		fmt.Fprintf(&b, " promise=%d frag=%x endheaders=%v", f.Elem().FieldByName("PromiseID").Interface(), dynGet(f, "HeaderBlockFragment"), dynGet(f, "HeadersEnded"))
	case "PingFrame":
		fmt.Fprintf(&b, " data=%x ack=%v", f.Elem().FieldByName("Data").Interface(), dynGet(f, "IsAck"))
	case "GoAwayFrame":
		fmt.Fprintf(&b, " last=%d code=%v debug=%q", f.Elem().FieldByName("LastStreamID").Interface(), f.Elem().FieldByName("ErrCode").Interface(), dynGet(f, "DebugData"))
	case "WindowUpdateFrame":
		fmt.Fprintf(&b, " incr=%d", f.Elem().FieldByName("Increment").Interface())
	case "ContinuationFrame":
		fmt.Fprintf(&b, " frag=%x endheaders=%v", dynGet(f, "HeaderBlockFragment"), dynGet(f, "HeadersEnded"))
	case "PriorityUpdateFrame":
		fmt.Fprintf(&b, " prioritized=%d priority=%q", f.Elem().FieldByName("PrioritizedStreamID").Interface(), f.Elem().FieldByName("Priority").Interface())
	case "UnknownFrame":
		fmt.Fprintf(&b, " payload=%x", dynGet(f, "Payload"))
	case "MetaHeadersFrame":
		// the embedded HeadersFrame is invalidated: only its header, flags and priority remain readable
		fmt.Fprintf(&b, " fields=%v truncated=%v hasprio=%v prio(%s) endstream=%v endheaders=%v :path=%q :status=%q pseudo=%v regular=%v",
			f.Elem().FieldByName("Fields").Interface(), f.Elem().FieldByName("Truncated").Interface(), dynGet(f, "HasPriority"),
			dynPrio(f.Elem().FieldByName("HeadersFrame").Elem().FieldByName("Priority")), dynGet(f, "StreamEnded"), dynGet(f, "HeadersEnded"),
			dynGet(f, "PseudoValue", "path"), dynGet(f, "PseudoValue", "status"), dynGet(f, "PseudoFields"), dynGet(f, "RegularFields"))
	default:
		b.WriteString(" ?unrendered-go-type")
	}
	b.WriteString("}")
	return b.String()
}

// dynFirstDiff returns got unchanged if it equals want; otherwise it puts the
// first differing line in front (messages show only the beginning of a
// result), which keeps it different from want.
func dynFirstDiff(got, want string) string {
	if got == want {
		return got
	}
	g, w := strings.Split(got, "\n"), strings.Split(want, "\n")
	for i := range g {
		if i >= len(w) || g[i] != w[i] {
			exp := "<nothing>"
			if i < len(w) {
				exp = w[i]
			}
			return fmt.Sprintf("[line %d is %s, alone it is %s] %s", i+1, g[i], exp, got)
		}
	}
	return fmt.Sprintf("[%d lines, alone %d lines] %s", len(g), len(w), got)
}
