package c07

// C07 (concurrent part) — what Framer.ReadFrame returns for a byte stream
// (frames, MetaHeadersFrames, errors, ErrorDetail) does not depend on what
// other goroutines are reading with their own Framers.
//
// This package is virtual: http2/frame.go and the files it needs
// (errors.go, http2.go, ascii.go) of the current working tree are
// instrumented by vrewrite -globals -pure and compiled here; the package
// state is reset before every execution. Expected results come from the
// uninstrumented golang.org/x/net/http2, driven by the same script. The
// HPACK decoder handed to ReadMetaHeaders is the real http2/hpack in both.

import (
	"bytes"
	"fmt"
	"io"
	"reflect"
	"strings"
	"testing"

	real "golang.org/x/net/http2"
	"golang.org/x/net/http2/hpack"
	"golang.org/x/net/internal/zzverif/vsched"
	"golang.org/x/net/internal/zzverif/vx"
)

// c07Session is one fresh Framer reading one byte string to its end (or to
// its first terminal error).
type c07Session struct {
	Label       string
	Meta        bool   // ReadMetaHeaders = hpack.NewDecoder(4096, nil)
	MaxList     uint32 // MaxHeaderListSize (with Meta)
	MaxRead     uint32 // SetMaxReadFrameSize if non-zero
	Reuse       bool   // SetReuseFrames
	HeadersOnly bool   // scan with the package-level ReadFrameHeader instead of a Framer
	Wire        []byte
}

type c07Input struct {
	Kind, Name string
	Sessions   []c07Session
}

func c07F(t, flags byte, stream uint32, payload []byte) []byte {
	n := len(payload)
	b := []byte{byte(n >> 16), byte(n >> 8), byte(n), t, flags, byte(stream >> 24), byte(stream >> 16), byte(stream >> 8), byte(stream)}
	return append(b, payload...)
}

func c07Cat(bs ...[]byte) []byte { return bytes.Join(bs, nil) }

// c07Enc encodes a field list with a fresh real HPACK encoder (incremental
// indexing, Huffman where shorter), so later blocks of one session may refer
// to the dynamic table built by earlier ones.
type c07Enc struct {
	buf bytes.Buffer
	enc *hpack.Encoder
}

func c07NewEnc() *c07Enc {
	e := &c07Enc{}
	e.enc = hpack.NewEncoder(&e.buf)
	return e
}

func (e *c07Enc) block(kv ...string) []byte {
	e.buf.Reset()
	for i := 0; i+1 < len(kv); i += 2 {
		e.enc.WriteField(hpack.HeaderField{Name: kv[i], Value: kv[i+1]})
	}
	return append([]byte(nil), e.buf.Bytes()...)
}

// c07Run reads every session with its own Framer. The caller may be
// preempted between ReadFrame and the use of the returned frame (the API
// keeps a frame valid until the next ReadFrame on the same Framer).
func c07Run(api dynAPI, in c07Input) string {
	var out strings.Builder
	for _, s := range in.Sessions {
		fmt.Fprintf(&out, "session %s:\n", s.Label)
		r := bytes.NewReader(s.Wire)
		if s.HeadersOnly {
			for i := 0; i < 16; i++ {
				var rd io.Reader = r
				res := api.readFrameHeader.Call([]reflect.Value{reflect.ValueOf(&rd).Elem()})
				err := dynErr(res[1])
				vsched.Touch("caller:after-read")
				fmt.Fprintf(&out, "header: %s err=%s\n", dynHeader(res[0]), dynErrString(err))
				if err != nil {
					break
				}
				r.Seek(int64(res[0].FieldByName("Length").Uint()), io.SeekCurrent)
			}
			continue
		}
		fr := api.framer(io.Discard, r)
		if s.Meta {
			fr.Elem().FieldByName("ReadMetaHeaders").Set(reflect.ValueOf(hpack.NewDecoder(4096, nil)))
			fr.Elem().FieldByName("MaxHeaderListSize").SetUint(uint64(s.MaxList))
		}
		if s.MaxRead != 0 {
			dynCall(fr, "SetMaxReadFrameSize", s.MaxRead)
		}
		if s.Reuse {
			dynCall(fr, "SetReuseFrames")
		}
		for i := 0; i < 16; i++ {
			res := dynCall(fr, "ReadFrame")
			err := dynErr(res[1])
			if err == io.EOF && res[0].IsNil() {
				out.WriteString("EOF\n")
				break
			}
			vsched.Touch("caller:after-read")
			fmt.Fprintf(&out, "read: %s err=%s detail=%s\n", dynFrame(res[0]), dynErrString(err), dynErrString(dynErr(dynCall(fr, "ErrorDetail")[0])))
			if err != nil && reflect.TypeOf(err).Name() != "StreamError" {
				break // terminal
			}
		}
	}
	return out.String()
}

func c07Inputs() []c07Input {
	b := func(s string) []byte { return []byte(s) }
	u32 := func(v uint32) []byte { return []byte{byte(v >> 24), byte(v >> 16), byte(v >> 8), byte(v)} }
	setting := func(id uint16, v uint32) []byte { return append([]byte{byte(id >> 8), byte(id)}, u32(v)...) }
	ping := c07F(6, 0, 0, b("pingPING"))

	// 1: a plain train of every common frame type, no MetaHeaders
	e1 := c07NewEnc()
	plain := c07Cat(
		c07F(4, 0, 0, c07Cat(setting(3, 100), setting(4, 65535))),
		c07F(1, 0x4|0x20, 1, c07Cat(u32(0x80000000|7), []byte{41}, e1.block(":method", "GET", ":scheme", "https", ":path", "/plain", ":authority", "one.example"))),
		c07F(0, 0x1|0x8, 1, c07Cat([]byte{3}, b("body-of-stream-1"), []byte{0, 0, 0})),
		c07F(2, 0, 3, c07Cat(u32(1), []byte{99})),
		c07F(3, 0, 1, u32(8)),
		c07F(6, 1, 0, b("\x01\x02\x03\x04\x05\x06\x07\x08")),
		c07F(8, 0, 0, u32(0x12345)),
		c07F(5, 0x4|0x8, 1, c07Cat([]byte{2}, u32(2), e1.block(":method", "GET", ":path", "/pushed"), []byte{0, 0})),
		c07F(0x10, 0, 0, c07Cat(u32(5), b("u=2"))),
		c07F(0xfa, 0x77, 9, b("unknown-type-payload")),
		c07F(7, 0, 0, c07Cat(u32(9), u32(2), b("goaway-debug"))),
	)

	// 2: request HEADERS (priority, padded) split over two CONTINUATIONs, then DATA, with MetaHeaders
	e2 := c07NewEnc()
	blk2 := e2.block(":method", "POST", ":scheme", "http", ":authority", "two.example:8080", ":path", "/meta/two?q=1", "content-type", "text/plain", "x-c07", "second-op", "cookie", "a=b; c=d")
	metaTrain := c07Cat(
		c07F(1, 0x8|0x20, 3, c07Cat([]byte{2}, u32(1), []byte{17}, blk2[:5], []byte{0, 0})),
		c07F(9, 0, 3, blk2[5:19]),
		c07F(9, 0x4, 3, blk2[19:]),
		c07F(0, 0x1, 3, b("posted-body-3")),
	)

	// 3: header list larger than MaxHeaderListSize: Truncated
	e3 := c07NewEnc()
	trunc := c07Cat(
		c07F(1, 0x4|0x1, 5, e3.block(":method", "GET", ":scheme", "https", ":path", "/truncated/five", ":authority", "three.example", "x-long", strings.Repeat("v", 40), "x-after", "dropped")),
		ping,
	)

	// 4: two response blocks; the second refers to the dynamic table built by the first
	e4 := c07NewEnc()
	resp := c07Cat(
		c07F(1, 0x4, 7, e4.block(":status", "200", "server", "c07-origin", "x-trace", "abcdef0123456789", "content-length", "7")),
		c07F(0, 0x1, 7, b("seven-7")),
		c07F(1, 0x4|0x1, 9, e4.block(":status", "404", "server", "c07-origin", "x-trace", "abcdef0123456789")),
	)

	// 5: field errors with MetaHeaders (stream errors: reading goes on)
	e5 := c07NewEnc()
	badFields := c07Cat(
		c07F(1, 0x4, 11, e5.block(":method", "GET", ":path", "/bad", "Bad-Name", "x")),
		c07F(1, 0x4, 13, e5.block(":method", "GET", "accept", "*/*", ":path", "/pseudo-after-regular")),
		c07F(1, 0x4, 15, e5.block(":method", "GET", ":method", "PUT")),
		c07F(1, 0x4, 17, e5.block(":status", "200", ":path", "/mixed")),
		c07F(1, 0x4, 19, e5.block(":unknown", "x")),
		c07F(1, 0x4, 21, e5.block(":path", "/ok", "x-value", "bad\x00value")),
		c07F(1, 0x4, 23, e5.block(":method", "HEAD", ":path", "/fine-23")),
	)

	// 6: HPACK garbage (index 0, then a truncated block)
	garbage := c07F(1, 0x4, 25, []byte{0x82, 0x80})
	garbage2 := c07F(1, 0x4, 27, []byte{0x82, 0x40, 0x05, 'a', 'b'})

	// 7: frame order violations, without and with MetaHeaders
	e7 := c07NewEnc()
	blk7 := e7.block(":method", "GET", ":path", "/order")
	unexpCont := c07Cat(ping, c07F(9, 0x4, 29, blk7))
	hdrThenData := c07Cat(c07F(1, 0, 31, blk7[:3]), c07F(0, 0, 31, b("not-a-continuation")))
	hdrThenOtherCont := c07Cat(c07F(1, 0, 33, blk7[:3]), c07F(9, 0x4, 35, blk7[3:]))

	// 8: a stream error (reading goes on) followed by connection errors of several parsers
	invalid := func(last []byte) []byte {
		return c07Cat(c07F(8, 0, 37, u32(0)), last)
	}

	// 9: size limits, an HTTP/1 response, a truncated payload (the HTTP/1 text parses to a 4.7 MB
	// frame: it is read with a 16384 limit so that no execution allocates that much)
	tooLarge := c07Cat(c07F(4, 1, 0, nil), []byte{0x00, 0x40, 0x01, 0, 0, 0, 0, 0, 41}, bytes.Repeat([]byte{'z'}, 64))
	http1 := b("HTTP/1.1 200 OK\r\nContent-Length: 0\r\n\r\n")
	short := c07Cat(ping, c07F(0, 0, 43, b("announces-more-than-it-has"))[:9+4])

	// 10: SetReuseFrames
	e10 := c07NewEnc()
	reuse := c07Cat(
		c07F(0, 0, 45, b("first-reused-data-frame")),
		c07F(0, 0x8, 45, c07Cat([]byte{1}, b("second"), []byte{0})),
		c07F(1, 0x4, 47, e10.block(":method", "GET", ":path", "/reuse")),
		c07F(0, 0x1, 47, b("third-47")),
	)

	return []c07Input{
		{"ReadFrame", "plain train of 11 frame types", []c07Session{{Label: "plain", Wire: plain}}},
		{"ReadFrame/meta", "meta: padded priority HEADERS+2 CONTINUATION+DATA", []c07Session{{Label: "meta", Meta: true, Wire: metaTrain}}},
		{"ReadFrame/meta", "meta: MaxHeaderListSize=150 truncates", []c07Session{{Label: "meta max-list=150", Meta: true, MaxList: 150, Wire: trunc}}},
		{"ReadFrame/meta", "meta: two responses sharing the dynamic table", []c07Session{{Label: "meta", Meta: true, Wire: resp}, {Label: "plain", Wire: resp}}},
		{"ReadFrame/meta", "meta: 6 malformed field lists then a valid one", []c07Session{{Label: "meta", Meta: true, Wire: badFields}}},
		{"ReadFrame/meta", "meta: HPACK index 0 / truncated block", []c07Session{{Label: "meta index-0", Meta: true, Wire: garbage}, {Label: "meta truncated-block", Meta: true, Wire: garbage2}}},
		{"ReadFrame/order", "order: stray CONTINUATION, HEADERS+DATA, HEADERS+CONTINUATION(other stream); plain and meta", []c07Session{
			{Label: "plain stray-continuation", Wire: unexpCont}, {Label: "plain headers+data", Wire: hdrThenData}, {Label: "meta headers+data", Meta: true, Wire: hdrThenData},
			{Label: "meta headers+continuation-other-stream", Meta: true, Wire: hdrThenOtherCont}}},
		{"ReadFrame/invalid", "invalid: WINDOW_UPDATE 0 (stream error), then DATA on stream 0 / bad padding / PING length 7 / SETTINGS INITIAL_WINDOW_SIZE=2^31 / PRIORITY_UPDATE of stream 0", []c07Session{
			{Label: "data-stream-0", Wire: invalid(c07F(0, 0, 0, b("zero")))},
			{Label: "pad-too-long", Wire: invalid(c07F(0, 0x8, 39, c07Cat([]byte{200}, b("short"))))},
			{Label: "ping-length-7", Wire: invalid(c07F(6, 0, 0, b("1234567")))},
			{Label: "initial-window-2^31", Wire: invalid(c07F(4, 0, 0, c07Cat(setting(2, 2), setting(4, 1<<31))))},
			{Label: "priority-update-0", Wire: invalid(c07F(0x10, 0, 0, c07Cat(u32(0), b("u=1"))))}}},
		{"ReadFrame/size", "size: frame of 16385 bytes with max 16384, HTTP/1.1 response, payload cut short", []c07Session{
			{Label: "max-read=16384", MaxRead: 16384, Wire: tooLarge}, {Label: "http1 max-read=16384", MaxRead: 16384, Wire: http1}, {Label: "cut-short", Wire: short}}},
		{"ReadFrame/reuse", "SetReuseFrames: DATA, padded DATA, HEADERS, DATA", []c07Session{{Label: "reuse", Reuse: true, Wire: reuse}, {Label: "reuse meta", Reuse: true, Meta: true, Wire: reuse}}},
		{"ReadFrameHeader", "package-level ReadFrameHeader over 3 frames and a cut header", []c07Session{{Label: "headers-only meta-train", HeadersOnly: true, Wire: metaTrain[:len(metaTrain)-22]}, {Label: "headers-only cut", HeadersOnly: true, Wire: c07Cat(ping, []byte{0, 0, 1, 2})}}},
	}
}

func c07Ops() []vsched.Op {
	inst := dynAPI{reflect.ValueOf(NewFramer), reflect.ValueOf(ReadFrameHeader)}
	ref := dynAPI{reflect.ValueOf(real.NewFramer), reflect.ValueOf(real.ReadFrameHeader)}
	var ops []vsched.Op
	for _, in := range c07Inputs() {
		in := in
		want := c07Run(ref, in)
		ops = append(ops, vsched.Op{Kind: in.Kind, Name: in.Name, Want: want, Run: func() string { return dynFirstDiff(c07Run(inst, in), want) }})
	}
	return ops
}

func TestVerif_C07_globals(t *testing.T) {
	vx.Run(t, "C07", func(c *vx.Ctx) {
		bounds := vx.Pick(c, []int{2}, []int{2, 3})
		c.Rule("concurrent part: for every unordered pair of inputs from a small alphabet (a valid train of 11 frame types; with ReadMetaHeaders: a padded priority HEADERS split over CONTINUATIONs, a list truncated by MaxHeaderListSize, two responses sharing the HPACK dynamic table, six malformed field lists, HPACK garbage; frame-order violations with and without ReadMetaHeaders; a stream error followed by five different connection errors; a frame above SetMaxReadFrameSize, an HTTP/1.1 response, a payload cut short; SetReuseFrames; the package-level ReadFrameHeader) two threads each read their byte strings with their own Framers to the end or the first terminal error (thorough: twice each) on the instrumented http2 Framer source (frame.go, errors.go, http2.go, ascii.go) starting from the package's initial state; every schedule with at most B preemptions (quick B=2, thorough B=2 then 3) at the scheduling points — before each statement mentioning a written package-level variable " + fmt.Sprint(zzWrittenGlobals) + ", sync.Pool Get/Put, and in the caller between every ReadFrame/ReadFrameHeader and the use of its result — is executed; every returned frame (Go type, header, all payload accessors, MetaHeadersFrame fields/Truncated/pseudo accessors), error (type and text) and ErrorDetail must equal what the same input yields alone on the uninstrumented package")
		c.Assume("concurrent part: statement granularity at mentions of written package-level variables; accesses to heap objects only reachable from them and mutation through method calls are not scheduling points; sync.Pool is one shared LIFO free list; only frame.go, errors.go, http2.go and ascii.go of package http2 are instrumented (the Framer needs nothing else), http2/hpack and http/httpguts are the real packages; Framers, readers and HPACK decoders are never shared between threads")
		seq := 0
		if !c.Quick() {
			seq = 1
		}
		progs := vsched.PairPrograms("C07", zzResetGlobals, c07Ops(), seq)
		c.Note("globals_programs", len(progs))
		c.Note("written_package_level_variables", zzWrittenGlobals)
		vsched.RunBounds(c, "globals", progs, bounds)
	})
}
