package c39

// C39 (concurrent part) — tokenization is a function of the input alone:
// two goroutines that each tokenize their own document with their own
// Tokenizer see exactly the tokens (type, Raw, Token()) and the final error
// they see alone.
//
// This package is virtual: every non-test file of html of the current
// working tree is instrumented by vrewrite -globals (a scheduling point
// before each statement that mentions a written package-level variable,
// sync.Once / sync.Pool / sync.Mutex replaced by controlled shims) and
// compiled here (it imports the real html/atom); the package state is reset
// before every execution. Expected results come from the uninstrumented
// golang.org/x/net/html.

import (
	"fmt"
	"io"
	"strings"
	"testing"

	real "golang.org/x/net/html"
	"golang.org/x/net/internal/zzverif/vsched"
	"golang.org/x/net/internal/zzverif/vx"
)

type c39gDoc struct {
	name   string
	in     string
	ctx    string // fragment context tag, "" none
	cdata  bool
	maxBuf int
	chunk  int  // reader hands out this many bytes at a time (0: all)
	tagAPI bool // use TagName/TagAttr/Text instead of Token()
}

// c39gReader hands out the input k bytes at a time.
type c39gReader struct {
	s string
	k int
}

func (r *c39gReader) Read(p []byte) (int, error) {
	if len(r.s) == 0 {
		return 0, io.EOF
	}
	n := len(p)
	if r.k > 0 && n > r.k {
		n = r.k
	}
	if n > len(r.s) {
		n = len(r.s)
	}
	copy(p, r.s[:n])
	r.s = r.s[n:]
	return n, nil
}

var c39gDocs = []c39gDoc{
	// attributes (quoted, unquoted, empty, duplicate, upper case), entities in values and text
	// (&nGt; / &nLt; expand to more bytes than their name: unescape leaves the in-place path)
	{name: "attrs+entities", in: `<A HREF="x&amp;y" b=c d e='&lt;&#65;&notit;&nGt;' B=dup/>t&eacute;xt &amp &#x80; &NotEqualTilde;&amp;&nGt;</a>`},
	// raw text elements: script with escaped comment, style, textarea/title (RCDATA) with entities
	{name: "rawtext", in: "<script><!--<script></script>--></script><style>a<b</style><title>&lt;<i></TITLE><textarea>\r\n&amp;</textarea>x"},
	// comments in all their terminations, doctype, bogus comments, processing instruction
	{name: "comments", in: "<!--a-->\r<!---->--!><!--b--!><!-->c<!doctype HTML public \"x\"><?pi?></ z><!--unterminated-"},
	// NUL, CR, invalid UTF-8, unterminated tag at the end
	{name: "nul+cr+bad-utf8", in: "a\x00b\r\nc\rd\xff<p\x00q r\x00='\x00\r'>\xc3<e", chunk: 1},
	// CDATA section in foreign content
	{name: "cdata", in: "<svg><![CDATA[x<y]]>z]]><![CDA", cdata: true, chunk: 3},
	// fragment contexts: the tokenizer starts in the raw text state of the context element
	{name: "ctx-title", in: "a&amp;<b></title>c<i>", ctx: "title"},
	{name: "ctx-script", in: "x<!--y</script>z", ctx: "script", chunk: 2},
	{name: "ctx-plaintext", in: "<plaintext>a</plaintext>&amp;<b>"},
	// SetMaxBuf: a token longer than the limit ends the run with ErrBufferExceeded
	{name: "maxbuf", in: "<a>ok<!--" + strings.Repeat("0123456789", 3) + "-->tail", maxBuf: 16},
	// low-level API
	{name: "tagapi", in: `<Div ID=1 class="a b">x &gt; y &gt;&nLt;</DIV><br/><input VALUE='&quot;&nLt;'>`, tagAPI: true},
}

// The two functions below are textually the same; one runs the instrumented
// copy of the package, the other the real one.

func c39gTokenize(d c39gDoc) string {
	var sb strings.Builder
	r := &c39gReader{s: d.in, k: d.chunk}
	var z *Tokenizer
	if d.ctx != "" {
		z = NewTokenizerFragment(r, d.ctx)
	} else {
		z = NewTokenizer(r)
	}
	z.AllowCDATA(d.cdata)
	if d.maxBuf > 0 {
		z.SetMaxBuf(d.maxBuf)
	}
	for i := 0; i < len(d.in)+3; i++ {
		tt := z.Next()
		fmt.Fprintf(&sb, "%v %q", tt, z.Raw())
		if tt == ErrorToken {
			fmt.Fprintf(&sb, " err=%v buffered=%q rest=%q", z.Err(), z.Buffered(), r.s)
			return sb.String()
		}
		if d.tagAPI {
			switch tt {
			case StartTagToken, EndTagToken, SelfClosingTagToken:
				name, more := z.TagName()
				fmt.Fprintf(&sb, " name=%q", name)
				for more {
					var k, v []byte
					k, v, more = z.TagAttr()
					fmt.Fprintf(&sb, " %q=%q", k, v)
				}
			default:
				fmt.Fprintf(&sb, " text=%q", z.Text())
			}
		} else {
			t := z.Token()
			fmt.Fprintf(&sb, " %v %q %v %q %q", t.Type, t.Data, t.DataAtom, fmt.Sprint(t.Attr), t.String())
		}
		sb.WriteString("\n")
	}
	sb.WriteString("too many tokens")
	return sb.String()
}

func c39gTokenizeReal(d c39gDoc) string {
	var sb strings.Builder
	r := &c39gReader{s: d.in, k: d.chunk}
	var z *real.Tokenizer
	if d.ctx != "" {
		z = real.NewTokenizerFragment(r, d.ctx)
	} else {
		z = real.NewTokenizer(r)
	}
	z.AllowCDATA(d.cdata)
	if d.maxBuf > 0 {
		z.SetMaxBuf(d.maxBuf)
	}
	for i := 0; i < len(d.in)+3; i++ {
		tt := z.Next()
		fmt.Fprintf(&sb, "%v %q", tt, z.Raw())
		if tt == real.ErrorToken {
			fmt.Fprintf(&sb, " err=%v buffered=%q rest=%q", z.Err(), z.Buffered(), r.s)
			return sb.String()
		}
		if d.tagAPI {
			switch tt {
			case real.StartTagToken, real.EndTagToken, real.SelfClosingTagToken:
				name, more := z.TagName()
				fmt.Fprintf(&sb, " name=%q", name)
				for more {
					var k, v []byte
					k, v, more = z.TagAttr()
					fmt.Fprintf(&sb, " %q=%q", k, v)
				}
			default:
				fmt.Fprintf(&sb, " text=%q", z.Text())
			}
		} else {
			t := z.Token()
			fmt.Fprintf(&sb, " %v %q %v %q %q", t.Type, t.Data, t.DataAtom, fmt.Sprint(t.Attr), t.String())
		}
		sb.WriteString("\n")
	}
	sb.WriteString("too many tokens")
	return sb.String()
}

func c39gOps() []vsched.Op {
	var ops []vsched.Op
	for _, d := range c39gDocs {
		d := d
		kind := "Tokenizer"
		if d.ctx != "" {
			kind = "TokenizerFragment"
		}
		ops = append(ops, vsched.Op{Kind: kind, Name: "tokenize(" + d.name + ")", Want: c39gTokenizeReal(d),
			Run: func() string { return c39gTokenize(d) }})
	}
	return ops
}

func TestVerif_C39_globals(t *testing.T) {
	vx.Run(t, "C39", func(c *vx.Ctx) {
		bounds := vx.Pick(c, []int{2}, []int{-1})
		c.Rule("concurrent part: for every unordered pair of 10 small documents (attributes + entities; script/style/title/textarea raw text; comments/doctype/bogus comments; NUL/CR/invalid UTF-8 with a 1-byte reader; CDATA; fragment contexts title/script; plaintext; SetMaxBuf overflow; the TagName/TagAttr/Text API) two threads each tokenize their document with their own Tokenizer and Reader (thorough: twice each) on the instrumented html source; every schedule (quick: at most 2 preemptions; thorough: unbounded) at the scheduling points — before each statement mentioning a written package-level variable " + fmt.Sprint(zzWrittenGlobals) + ", sync.Once/Pool/Mutex operations — is executed and each thread must see the token sequence (type, Raw, Token() fields and String, final Err/Buffered/unread rest) it sees alone")
		c.Assume("concurrent part: statement granularity at mentions of written package-level variables; accesses to heap objects only reachable from them and mutation through method calls are not scheduling points; if the tokenizer touches no written package-level variable there is exactly one schedule per pair (the calls cannot interact through package state as it is today) and the part degenerates to a sequential differential test that starts catching as soon as shared state is introduced; the two threads never share a Tokenizer or Reader")
		seq := 0
		if !c.Quick() {
			seq = 1
		}
		progs := vsched.PairPrograms("C39", zzResetGlobals, c39gOps(), seq)
		c.Note("globals_programs", len(progs))
		c.Note("written_package_level_variables", zzWrittenGlobals)
		vsched.RunBounds(c, "globals", progs, bounds)
	})
}
