package c23

// C23 (concurrent part) — packet-number encoding and decoding are pure:
// concurrent calls on unrelated numbers return what each returns alone.
//
// This package is virtual: quic/packet_number.go of the current working tree
// (self-contained) is instrumented by vrewrite -globals and compiled here.
// The functions are unexported, so expected results come from the sample
// algorithms of RFC 9000 Appendix A.2/A.3 written out below; the solo
// self-check of PairPrograms makes any disagreement between that reference
// and the code run alone a harness error, not a violation.

import (
	"fmt"
	"testing"

	"golang.org/x/net/internal/zzverif/vsched"
	"golang.org/x/net/internal/zzverif/vx"
)

// refLen is RFC 9000 A.2 (number of bytes so that twice the distance to the
// largest acknowledged number fits).
func refLen(pn, largestAck int64) int {
	d := pn
	if largestAck >= 0 {
		d = pn - largestAck
	} else {
		d = pn + 1
	}
	switch {
	case d < 1<<7:
		return 1
	case d < 1<<15:
		return 2
	case d < 1<<23:
		return 3
	}
	return 4
}

// refDecode is RFC 9000 A.3.
func refDecode(largest, trunc int64, nbytes int) int64 {
	expected := largest + 1
	win := int64(1) << (uint(nbytes) * 8)
	hwin := win / 2
	mask := win - 1
	cand := (expected &^ mask) | trunc
	if cand <= expected-hwin && cand < (1<<62)-win {
		return cand + win
	}
	if cand > expected+hwin && cand >= win {
		return cand - win
	}
	return cand
}

func c23Ops(thorough bool) []vsched.Op {
	type enc struct{ a, pn int64 }
	encs := []enc{{-1, 0}, {10, 100}, {1000, 1300}, {70000, 100000}, {5, 1 << 24}}
	type dec struct {
		l, pn int64
		n     int
	}
	decs := []dec{{0xa82f30ea, 0xa82f9b32, 2}, {300, 427, 1}, {1 << 20, 1<<20 + 40000, 3}, {1 << 40, 1<<40 + 5, 4}}
	if thorough {
		encs = append(encs, enc{1<<61 - 1, 1 << 61}, enc{0, 127}, enc{0, 128})
		decs = append(decs, dec{427, 301, 1}, dec{1<<62 - 10, 1<<62 - 3, 1}, dec{65535, 65536, 2})
	}
	var ops []vsched.Op
	for _, e := range encs {
		e := e
		n := refLen(e.pn, e.a)
		want := make([]byte, 0, 4)
		for i := n - 1; i >= 0; i-- {
			want = append(want, byte(e.pn>>(8*uint(i))))
		}
		ops = append(ops, vsched.Op{Kind: "appendPacketNumber", Name: fmt.Sprintf("appendPacketNumber(pn=%d,acked=%d)", e.pn, e.a), Want: fmt.Sprintf("%d %x", n, want),
			Run: func() string {
				return fmt.Sprintf("%d %x", packetNumberLength(packetNumber(e.pn), packetNumber(e.a)), appendPacketNumber(nil, packetNumber(e.pn), packetNumber(e.a)))
			}})
	}
	for _, d := range decs {
		d := d
		trunc := d.pn & (int64(1)<<(8*uint(d.n)) - 1)
		ops = append(ops, vsched.Op{Kind: "decodePacketNumber", Name: fmt.Sprintf("decodePacketNumber(largest=%d,trunc=%#x,len=%d)", d.l, trunc, d.n), Want: fmt.Sprint(refDecode(d.l, trunc, d.n)),
			Run: func() string {
				return fmt.Sprint(int64(decodePacketNumber(packetNumber(d.l), packetNumber(trunc), d.n)))
			}})
	}
	return ops
}

func TestVerif_C23_globals(t *testing.T) {
	vx.Run(t, "C23", func(c *vx.Ctx) {
		bounds := vx.Pick(c, []int{2}, []int{-1})
		c.Rule("concurrent part: for every unordered pair of calls from a small alphabet (packetNumberLength+appendPacketNumber for one (acked, pn) per length, decodePacketNumber for one (largest, truncated, length) per length incl. a reordered packet and numbers near 2^62) two threads run one call each (thorough: twice each) on the instrumented quic/packet_number.go; every schedule (quick: at most 2 preemptions; thorough: unbounded) at the scheduling points — before each statement mentioning a written package-level variable " + fmt.Sprint(zzWrittenGlobals) + " — is executed and each call must return what it returns alone (reference: RFC 9000 A.2/A.3)")
		c.Assume("concurrent part: only packet_number.go is instrumented (the header-protection call sites are covered by the sequential wire part); with no written package-level variable there is one schedule per pair and the part is what catches a change that introduces shared state")
		seq := 0
		if !c.Quick() {
			seq = 1
		}
		progs := vsched.PairPrograms("C23", zzResetGlobals, c23Ops(!c.Quick()), seq)
		c.Note("globals_programs", len(progs))
		vsched.RunBounds(c, "globals", progs, bounds)
	})
}
