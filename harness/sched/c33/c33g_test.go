package c33

// C33 (concurrent part) — the QPACK encoder and decoder give the same
// answers when several goroutines use their own encoder / decoder / stream at
// once, including the very first use (lazily built static-table maps).
//
// This package is virtual: the QPACK / stream subset of internal/http3 of the
// current working tree (errors.go http3.go qpack*.go stream.go) is
// instrumented by vrewrite -globals -pure (a scheduling point before each
// statement that mentions a written package-level variable, sync.Once
// replaced by a controlled shim) and compiled here; the package state is
// reset before every execution so that the static-table maps are rebuilt each
// time.
//
// internal/http3 exports nothing of its QPACK layer, so the sequential result
// of a call is not computed with the uninstrumented package but with the same
// instrumented source in a single-thread execution (c33Sequential). In
// addition the RFC's answer is written down here and compared (recorded only):
// c33Ref encodes a field list from an explicit per-line instruction (indexed
// line N / name reference N / literal name — taken from RFC 9204 Appendix A by
// hand) with its own prefixed-integer coder and hpack's Huffman coder, and the
// expected decoding of a section is the list it was built from.
//
// The decoder reads from a real *stream, i.e. a real *quic.Stream: each decode
// call gets a fresh receive stream of a process-wide in-memory QUIC connection
// pair (own net.PacketConn fake, no sockets) on which the frame, a sentinel
// and FIN were written before the decoder starts. The quic package is not
// instrumented; creating the stream contains no scheduling point, so it is
// atomic with respect to the explored interleavings.

import (
	"context"
	"crypto/tls"
	"errors"
	"fmt"
	"io"
	"net"
	"net/netip"
	"strings"
	"sync"
	"testing"
	"time"

	"golang.org/x/net/http2/hpack"
	"golang.org/x/net/internal/testcert"
	"golang.org/x/net/internal/zzverif/vsched"
	"golang.org/x/net/internal/zzverif/vx"
	"golang.org/x/net/quic"
)

// ------------------------------------------------ in-memory QUIC stream source

type c33Pkt struct {
	b   []byte
	src netip.AddrPort
}

type c33PC struct {
	nw     *c33Net
	addr   netip.AddrPort
	ch     chan c33Pkt
	closed chan struct{}
	once   sync.Once
}

type c33Net struct {
	mu    sync.Mutex
	conns map[netip.AddrPort]*c33PC
}

func (nw *c33Net) newPC() *c33PC {
	nw.mu.Lock()
	defer nw.mu.Unlock()
	a := netip.AddrPortFrom(netip.AddrFrom4([4]byte{127, 0, 0, byte(len(nw.conns) + 1)}), 443)
	pc := &c33PC{nw: nw, addr: a, ch: make(chan c33Pkt, 4096), closed: make(chan struct{})}
	nw.conns[a] = pc
	return pc
}

func (pc *c33PC) ReadFrom(p []byte) (int, net.Addr, error) {
	select {
	case <-pc.closed:
		return 0, nil, net.ErrClosed
	default:
	}
	select {
	case <-pc.closed:
		return 0, nil, net.ErrClosed
	case k := <-pc.ch:
		return copy(p, k.b), net.UDPAddrFromAddrPort(k.src), nil
	}
}

func (pc *c33PC) WriteTo(p []byte, dst net.Addr) (int, error) {
	select {
	case <-pc.closed:
		return 0, net.ErrClosed
	default:
	}
	var ap netip.AddrPort
	if u, ok := dst.(*net.UDPAddr); ok {
		ap = u.AddrPort()
	} else if x, err := netip.ParseAddrPort(dst.String()); err == nil {
		ap = x
	} else {
		return 0, err
	}
	ap = netip.AddrPortFrom(ap.Addr().Unmap(), ap.Port())
	pc.nw.mu.Lock()
	d := pc.nw.conns[ap]
	pc.nw.mu.Unlock()
	if d != nil {
		select {
		case d.ch <- c33Pkt{append([]byte(nil), p...), pc.addr}:
		default: // queue full: the datagram is lost, QUIC retransmits
		}
	}
	return len(p), nil
}

func (pc *c33PC) Close() error {
	pc.once.Do(func() {
		pc.nw.mu.Lock()
		delete(pc.nw.conns, pc.addr)
		pc.nw.mu.Unlock()
		close(pc.closed)
	})
	return nil
}
func (pc *c33PC) LocalAddr() net.Addr              { return net.UDPAddrFromAddrPort(pc.addr) }
func (pc *c33PC) SetDeadline(time.Time) error      { return errors.New("c33: unimplemented") }
func (pc *c33PC) SetReadDeadline(time.Time) error  { return errors.New("c33: unimplemented") }
func (pc *c33PC) SetWriteDeadline(time.Time) error { return errors.New("c33: unimplemented") }

// c33Mem hands out loaded receive streams. One connection pair per process
// (stream credit is replenished as streams are closed), opened before the
// exploration starts and renewed only after a failure.
type c33Mem struct {
	mu       sync.Mutex
	e1, e2   *quic.Endpoint
	c1, c2   *quic.Conn
	used     int
	streams  int64
	conns    int64
	failures []string
	slowest  time.Duration
}

var c33Streams c33Mem

func (m *c33Mem) shut() {
	ctx, cancel := context.WithCancel(context.Background())
	cancel()
	if m.e1 != nil {
		m.e1.Close(ctx)
	}
	if m.e2 != nil {
		m.e2.Close(ctx)
	}
	m.e1, m.e2, m.c1, m.c2, m.used = nil, nil, nil, nil, 0
}

func (m *c33Mem) open() error {
	m.shut()
	cert, err := tls.X509KeyPair(testcert.LocalhostCert, testcert.LocalhostKey)
	if err != nil {
		return err
	}
	cfg := &quic.Config{
		TLSConfig: &tls.Config{
			InsecureSkipVerify: true,
			MinVersion:         tls.VersionTLS13,
			Certificates:       []tls.Certificate{cert},
			NextProtos:         []string{"h3"},
		},
		MaxUniRemoteStreams: 1 << 40, // never wait for stream credit
		KeepAlivePeriod:     2 * time.Second,
	}
	nw := &c33Net{conns: map[netip.AddrPort]*c33PC{}}
	if m.e1, err = quic.NewEndpoint(nw.newPC(), cfg); err != nil {
		return err
	}
	if m.e2, err = quic.NewEndpoint(nw.newPC(), cfg); err != nil {
		return err
	}
	ctx, cancel := context.WithTimeout(context.Background(), 20*time.Second)
	defer cancel()
	if m.c1, err = m.e1.Dial(ctx, "udp", m.e2.LocalAddr().String(), cfg); err != nil {
		return fmt.Errorf("dial: %v", err)
	}
	if m.c2, err = m.e2.Accept(ctx); err != nil {
		return fmt.Errorf("accept: %v", err)
	}
	m.conns++
	return nil
}

func (m *c33Mem) try(data []byte) (*quic.Stream, error) {
	ctx, cancel := context.WithTimeout(context.Background(), 20*time.Second)
	defer cancel()
	q1, err := m.c1.NewSendOnlyStream(ctx)
	if err != nil {
		return nil, fmt.Errorf("NewSendOnlyStream: %v", err)
	}
	if _, err := q1.Write(data); err != nil {
		return nil, fmt.Errorf("write: %v", err)
	}
	if err := q1.Flush(); err != nil {
		return nil, fmt.Errorf("flush: %v", err)
	}
	q1.CloseWrite()
	q2, err := m.c2.AcceptStream(ctx)
	if err != nil {
		return nil, fmt.Errorf("AcceptStream: %v", err)
	}
	if q2.ID() != q1.ID() {
		return nil, fmt.Errorf("accepted stream %d, wrote stream %d", q2.ID(), q1.ID())
	}
	m.used++
	m.streams++
	return q2, nil
}

// loaded returns the receiving side of a fresh stream that carries data
// followed by FIN. nil means the harness itself failed (recorded).
func (m *c33Mem) loaded(data []byte) *quic.Stream {
	m.mu.Lock()
	defer m.mu.Unlock()
	t0 := time.Now()
	defer func() {
		if d := time.Since(t0); d > m.slowest {
			m.slowest = d
		}
	}()
	var last error
	for attempt := 0; attempt < 3; attempt++ {
		if m.c1 == nil {
			if err := m.open(); err != nil {
				last = err
				m.shut()
				continue
			}
		}
		q, err := m.try(data)
		if err == nil {
			return q
		}
		last = err
		m.shut()
	}
	m.failures = append(m.failures, last.Error())
	return nil
}

// ------------------------------------------------------------ reference coder

// c33F is one field line handed to the encoder together with what RFC 9204
// says a static-table-only encoder that prefers the first matching entry
// produces for it.
type c33F struct {
	never bool
	name  string // as handed to the encoder
	value string
	how   byte   // 'i' indexed line, 'n' literal with name reference, 'l' literal name, 's' skipped (non-ASCII name)
	idx   int    // static table index for 'i' / 'n' (RFC 9204 Appendix A)
	wire  string // lower-cased name on the wire ("" = name)
}

func (f c33F) wireName() string {
	if f.wire != "" {
		return f.wire
	}
	return f.name
}

func c33RefInt(b []byte, first byte, n uint, v uint64) []byte {
	max := uint64(1)<<n - 1
	if v < max {
		return append(b, first|byte(v))
	}
	b = append(b, first|byte(max))
	v -= max
	for v >= 128 {
		b = append(b, byte(v&0x7f)|0x80)
		v >>= 7
	}
	return append(b, byte(v))
}

func c33RefStr(b []byte, first byte, n uint, s string) []byte {
	if hl := hpack.HuffmanEncodeLength(s); hl < uint64(len(s)) {
		b = c33RefInt(b, first|1<<n, n, hl)
		return hpack.AppendHuffmanString(b, s)
	}
	b = c33RefInt(b, first, n, uint64(len(s)))
	return append(b, s...)
}

func c33Ref(fs []c33F) []byte {
	b := []byte{0, 0}
	for _, f := range fs {
		switch f.how {
		case 'i':
			b = c33RefInt(b, 0xc0, 6, uint64(f.idx))
		case 'n':
			first := byte(0x50)
			if f.never {
				first |= 0x20
			}
			b = c33RefInt(b, first, 4, uint64(f.idx))
			b = c33RefStr(b, 0, 7, f.value)
		case 'l':
			first := byte(0x20)
			if f.never {
				first |= 0x10
			}
			b = c33RefStr(b, first, 3, f.wireName())
			b = c33RefStr(b, 0, 7, f.value)
		case 's':
		default:
			panic("c33: bad instruction")
		}
	}
	return b
}

func c33Lines(fs []c33F) []string {
	var out []string
	for _, f := range fs {
		if f.how == 's' {
			continue
		}
		// an indexed line cannot carry the N bit; the encoder only uses it for mayIndex
		out = append(out, c33Line(f.never, f.wireName(), f.value))
	}
	return out
}

func c33Line(never bool, name, value string) string {
	n := ""
	if never {
		n = "!"
	}
	return fmt.Sprintf("%s%q=%q", n, name, value)
}

// ---------------------------------------------------------------- the calls

var c33Sentinel = []byte{0xa5, 0x5a, 0xc3, 0x3c, 0x96, 0x69, 0x0f, 0xf0}

func c33Varint(b []byte, v int) []byte {
	switch {
	case v < 64:
		return append(b, byte(v))
	case v < 16384:
		return append(b, 0x40|byte(v>>8), byte(v))
	}
	panic("c33: frame too long")
}

func c33Encode(fs []c33F) []byte {
	var enc qpackEncoder
	enc.init()
	return enc.encode(func(yield func(itype indexType, name, value string)) {
		for _, f := range fs {
			it := indexType(mayIndex)
			if f.never {
				it = neverIndex
			}
			yield(it, f.name, f.value)
		}
	})
}

func c33RenderDecode(lines []string, derr, eerr string, rest []byte) string {
	return fmt.Sprintf("lines=[%s] err=%s end=%s rest=%x", strings.Join(lines, " "), derr, eerr, rest)
}

// c33Decode runs the decoder exactly like parseHeader does (readFrameHeader,
// decode, endFrame) on a fresh stream carrying one HEADERS frame with the
// given payload, the sentinel and FIN, then drains the QUIC stream. ok=false:
// the harness could not set up the stream.
func c33Decode(payload []byte) (string, bool) {
	frame := c33Varint(nil, int(frameTypeHeaders))
	frame = c33Varint(frame, len(payload))
	frame = append(frame, payload...)
	frame = append(frame, c33Sentinel...)
	q := c33Streams.loaded(frame)
	if q == nil {
		return "", false
	}
	defer q.CloseRead()
	st := newStream(q)
	ft, err := st.readFrameHeader()
	if err != nil || ft != frameTypeHeaders || st.lim != int64(len(payload)) {
		return fmt.Sprintf("readFrameHeader = %v, %v, lim %d", ft, err, st.lim), true
	}
	var lines []string
	var dec qpackDecoder
	derr := dec.decode(st, func(it indexType, name, value string) error {
		switch it {
		case mayIndex:
			lines = append(lines, c33Line(false, name, value))
		case neverIndex:
			lines = append(lines, c33Line(true, name, value))
		default:
			lines = append(lines, fmt.Sprintf("<itype=%#x>%q=%q", byte(it), name, value))
		}
		return nil
	})
	eerr := "-"
	if derr == nil {
		eerr = fmt.Sprint(st.endFrame())
	}
	rest, rerr := io.ReadAll(q)
	if rerr != nil {
		c33Streams.mu.Lock()
		c33Streams.failures = append(c33Streams.failures, "draining: "+rerr.Error())
		c33Streams.mu.Unlock()
		return "", false
	}
	return c33RenderDecode(lines, fmt.Sprint(derr), eerr, rest), true
}

// c33Call is one call of the alphabet: run reports ok=false when the harness
// (not the code under test) failed; expect is the result RFC 9204 prescribes,
// written down by hand.
type c33Call struct {
	kind, name, expect string
	run                func() (string, bool)
}

func c33DecodeOp(name string, payload []byte, expect string) c33Call {
	return c33Call{"qpackDecoder.decode", name, expect, func() (string, bool) { return c33Decode(payload) }}
}

// c33Sequential turns the calls into vsched ops. The oracle of this part is
// "each call returns what it returns alone", so Want is the result of the call
// made alone on the same instrumented source from the reset package state (one
// controlled single-thread execution), not the hand-written expectation: a
// change of the sequential behaviour is the business of the sequential part
// of C33 and must not make this part fail or break. Calls whose sequential
// result differs from the expectation are listed in the evidence; calls that
// cannot complete alone are left out.
func c33Sequential(c *vx.Ctx, calls []c33Call) []vsched.Op {
	var ops []vsched.Op
	differ, dropped := []string{}, []string{}
	for _, k := range calls {
		k := k
		want := k.expect
		op := vsched.Op{Kind: k.kind, Name: k.name, Run: func() string {
			got, ok := k.run()
			if !ok {
				return want // harness failure: recorded, reported as a broken harness, never as a violation
			}
			return got
		}}
		if !vsched.Free { // the free-running pass evaluates no results
			var got string
			var ok bool
			_, out, err := vsched.Replay(vsched.Program{Name: "alone/" + k.name, MaxSteps: 20000, Body: func() func(vsched.Outcome) vsched.Verdict {
				zzResetGlobals()
				vsched.GoNamed("T1", func() { got, ok = k.run() })
				return func(vsched.Outcome) vsched.Verdict { return vsched.Verdict{} }
			}}, nil)
			if err != "" || out.Panic != "" || out.Deadlock || out.Horizon {
				dropped = append(dropped, k.name)
				continue
			}
			if ok {
				want = got
				if got != k.expect {
					differ = append(differ, k.name+" returns "+got)
				}
			}
		}
		op.Want = want
		ops = append(ops, op)
	}
	c.Note("globals_calls_whose_sequential_result_differs_from_the_rfc_expectation", differ)
	c.Note("globals_calls_left_out_because_they_fail_alone", dropped)
	return ops
}

func c33Ops(thorough bool) []c33Call {
	long := strings.Repeat("a", 300) // Huffman length 188 > 126: multi-byte length
	secA := []c33F{                  // every line is a full static-table hit
		{name: ":method", value: "GET", how: 'i', idx: 17},
		{name: ":scheme", value: "https", how: 'i', idx: 23},
		{name: ":path", value: "/", how: 'i', idx: 1},
		{name: "accept-encoding", value: "gzip, deflate, br", how: 'i', idx: 31},
		{name: "x-frame-options", value: "sameorigin", how: 'i', idx: 98},
	}
	secB := []c33F{ // name-only hits (first entry with that name), never-indexed full hit, Huffman and long values
		{name: ":authority", value: "www.example.com", how: 'n', idx: 0},
		{name: ":path", value: "/index.html", how: 'n', idx: 1},
		{name: ":method", value: "GET", never: true, how: 'n', idx: 15},
		{name: "content-type", value: "text/x-go", how: 'n', idx: 44},
		{name: "cookie", value: long, never: true, how: 'n', idx: 5},
		{name: "x-frame-options", value: "\xff\xfe\xfd", how: 'n', idx: 97},
	}
	secC := []c33F{ // literal names: Huffman, raw, lower-casing, skipped non-ASCII name, never-indexed
		{name: "custom-key", value: "custom-value", how: 'l'},
		{name: "j", value: "\x00\x01\xff", how: 'l'},
		{name: "X-Upper-Case", value: "V", how: 'l', wire: "x-upper-case"},
		{name: "näme", value: "skipped", how: 's'},
		{name: "secret-token", value: "hunter2", never: true, how: 'l'},
		{name: "empty-value", value: "", how: 'l'},
	}
	secD := []c33F{ // a response: mixture of all three forms
		{name: ":status", value: "200", how: 'i', idx: 25},
		{name: "content-type", value: "application/json", how: 'i', idx: 46},
		{name: "Content-Length", value: "1234", how: 'n', idx: 4, wire: "content-length"},
		{name: "server", value: "go", how: 'n', idx: 92},
		{name: "x-trace-id", value: "abc123", how: 'l'},
	}
	secs := []struct {
		n  string
		fs []c33F
	}{{"A:static-hits", secA}, {"B:name-refs", secB}, {"C:literal-names", secC}}

	var ops []c33Call
	for _, s := range secs {
		s := s
		ops = append(ops, c33Call{"qpackEncoder.encode", "encode(" + s.n + ")", fmt.Sprintf("%x", c33Ref(s.fs)),
			func() (string, bool) { return fmt.Sprintf("%x", c33Encode(s.fs)), true }})
	}
	for _, s := range secs {
		ops = append(ops, c33DecodeOp("decode(ref("+s.n+"))", c33Ref(s.fs), c33RenderDecode(c33Lines(s.fs), "<nil>", "<nil>", c33Sentinel)))
	}
	// encode with the instrumented encoder, decode what it produced
	wantD := fmt.Sprintf("%x | ", c33Ref(secD)) + c33RenderDecode(c33Lines(secD), "<nil>", "<nil>", c33Sentinel)
	ops = append(ops, c33Call{"qpack-roundtrip", "decode(encode(D:mixed))", wantD,
		func() (string, bool) {
			b := c33Encode(secD)
			got, ok := c33Decode(b)
			return fmt.Sprintf("%x | ", b) + got, ok
		}})
	// RFC 9204 B.1, then an indexed line with static index 99 (out of range):
	// the first line is delivered, the section is rejected, the decoder stopped
	// right after the bad index.
	bad := []byte{0x00, 0x00, 0x51, 0x0b, 0x2f, 0x69, 0x6e, 0x64, 0x65, 0x78, 0x2e, 0x68, 0x74, 0x6d, 0x6c, 0xff, 0x24, 0xd1}
	ops = append(ops, c33DecodeOp("decode(B.1 + static index 99)", bad,
		c33RenderDecode([]string{c33Line(false, ":path", "/index.html")}, "QPACK_DECOMPRESSION_FAILED", "-", append([]byte{0xd1}, c33Sentinel...))))
	if thorough {
		// a pseudo-header after a regular field
		pseudo := []byte{0x00, 0x00, 0xc0 | 29, 0xc0 | 17}
		ops = append(ops, c33DecodeOp("decode(accept, :method)", pseudo,
			c33RenderDecode([]string{c33Line(false, "accept", "*/*")}, "H3_MESSAGE_ERROR", "-", c33Sentinel)))
		// Huffman string containing EOS: literal name "a", value = 4 x 0xff Huffman
		huff := []byte{0x00, 0x00, 0x21, 'a', 0x84, 0xff, 0xff, 0xff, 0xff, 0xc1}
		ops = append(ops, c33DecodeOp("decode(literal with EOS in Huffman value)", huff,
			c33RenderDecode(nil, "QPACK_DECOMPRESSION_FAILED", "-", append([]byte{0xc1}, c33Sentinel...))))
		// non-zero Required Insert Count
		ric := []byte{0x01, 0x00, 0xd1}
		ops = append(ops, c33DecodeOp("decode(required insert count 1)", ric,
			c33RenderDecode(nil, "QPACK_DECOMPRESSION_FAILED", "-", append([]byte{0x00, 0xd1}, c33Sentinel...))))
	}
	return ops
}

// Free-running (-race) pass only: vsched.RunFree abandons an execution whose
// threads have not finished after 100 ms and goes on to the next program; a
// call that was merely slow (it waits for QUIC goroutines of a loaded machine)
// would then still be running instrumented code while the next execution
// resets and rebuilds the package state, which the detector would report
// although no two calls of ONE execution raced. In that mode every program
// body therefore first waits until all calls of the earlier executions have
// returned (2 s at most: a call that panicked never returns).
var c33Flight struct {
	mu       sync.Mutex
	expected int // calls the executions started so far will make
	done     int // calls that have returned
}

func c33GuardOps(ops []vsched.Op) []vsched.Op {
	if !vsched.Free {
		return ops
	}
	for i := range ops {
		run := ops[i].Run
		ops[i].Run = func() string {
			defer func() {
				c33Flight.mu.Lock()
				c33Flight.done++
				c33Flight.mu.Unlock()
			}()
			return run()
		}
	}
	return ops
}

func c33GuardProgs(progs []vsched.Program, seq int) []vsched.Program {
	if !vsched.Free {
		return progs
	}
	for i := range progs {
		body := progs[i].Body
		calls := 2 * (seq + 1)
		if strings.HasPrefix(progs[i].Name, "solo/") {
			calls = seq + 1
		}
		progs[i].Body = func() func(vsched.Outcome) vsched.Verdict {
			for limit := time.Now().Add(2 * time.Second); ; time.Sleep(200 * time.Microsecond) {
				c33Flight.mu.Lock()
				if c33Flight.done >= c33Flight.expected || time.Now().After(limit) {
					c33Flight.expected = c33Flight.done + calls
					c33Flight.mu.Unlock()
					break
				}
				c33Flight.mu.Unlock()
			}
			return body()
		}
	}
	return progs
}

func TestVerif_C33_globals(t *testing.T) {
	vx.Run(t, "C33", func(c *vx.Ctx) {
		bounds := vx.Pick(c, []int{1}, []int{2})
		c.Rule("concurrent part: for every unordered pair of calls from a small alphabet (qpackEncoder.init+encode of three field sections — all lines full static-table hits / name-only hits incl. never-indexed, Huffman, raw and 300-byte values / literal names incl. lower-casing, a skipped non-ASCII name, raw one-byte name, empty value —, qpackDecoder.decode of the reference encodings of the same three sections, one encode-then-decode of a mixed section, one section with an out-of-range static index after a valid line; thorough: also a pseudo-header after a regular field, EOS inside a Huffman string, Required Insert Count 1) two threads run one call each (thorough: twice each), each on its own encoder / decoder / *stream over its own fresh in-memory QUIC stream, on the instrumented internal/http3 QPACK+stream source starting from the package's initial state (static-table maps not built yet); every schedule with at most B preemptions (quick B=1, thorough B=2) at the scheduling points — before each statement mentioning a written package-level variable " + fmt.Sprint(zzWrittenGlobals) + ", sync.Once.Do — is executed and each call must return what the same call returns alone on the same source (one single-thread execution from the reset state): the encoder its bytes, the decoder the field lines, never-index flags, verdict, endFrame result and exact number of consumed stream bytes; the sequential results are also compared with a hand-instructed RFC 9204 reference coder, a difference there is only recorded (it belongs to the sequential part)")
		c.Assume("concurrent part: statement granularity at mentions of written package-level variables; accesses to heap objects only reachable from them and mutation through method calls are not scheduling points; only errors.go http3.go qpack*.go stream.go of internal/http3 are compiled (the decoder has no scheduling point on the unchanged tree: staticTableEntries is never written); golang.org/x/net/quic, hpack and httpcommon are not instrumented and the in-memory QUIC connection pair that supplies the streams is shared by the two threads (each stream is created and loaded atomically before its decoder starts); internal/http3 exports no QPACK entry point, so the sequential result of a call is computed on the instrumented source itself")
		seq := 0
		if !c.Quick() {
			seq = 1
		}
		// open the connection pair now: no handshake inside an execution
		if q := c33Streams.loaded([]byte{0}); q != nil {
			io.ReadAll(q)
			q.CloseRead()
		}
		progs := c33GuardProgs(vsched.PairPrograms("C33", zzResetGlobals, c33GuardOps(c33Sequential(c, c33Ops(!c.Quick()))), seq), seq)
		c.Note("globals_programs", len(progs))
		c.Note("written_package_level_variables", zzWrittenGlobals)
		vsched.RunBounds(c, "globals", progs, bounds)
		c33Streams.mu.Lock()
		fails := c33Streams.failures
		c.Note("globals_quic_streams", c33Streams.streams)
		c.Note("globals_quic_connections", c33Streams.conns)
		c.Note("globals_quic_slowest_stream_setup_ms", c33Streams.slowest.Milliseconds())
		c33Streams.shut()
		c33Streams.mu.Unlock()
		if len(fails) > 0 {
			t.Fatalf("harness error: the in-memory QUIC stream source failed %d times, first: %s", len(fails), fails[0])
		}
	})
}
