package c55

// C55 (concurrent part) — the header validity predicates of http/httpguts are
// pure: concurrent calls on unrelated inputs return what each returns alone.
//
// This package is virtual: every non-test file of http/httpguts of the
// current working tree is instrumented by vrewrite -globals (a scheduling
// point before each statement that mentions a written package-level variable,
// sync.Once / sync.Pool / sync.Mutex replaced by controlled shims) and
// compiled here; the package state is reset before every execution. Expected
// results come from the uninstrumented golang.org/x/net/http/httpguts.

import (
	"fmt"
	"testing"

	real "golang.org/x/net/http/httpguts"
	"golang.org/x/net/internal/zzverif/vsched"
	"golang.org/x/net/internal/zzverif/vx"
)

// c55Strs builds one op that applies a string predicate to every input in
// turn and renders the complete result vector.
func c55Strs(kind string, inst, ref func(string) bool, ins []string) vsched.Op {
	render := func(f func(string) bool) string {
		s := ""
		for _, x := range ins {
			s += fmt.Sprintf("%q:%v ", x, f(x))
		}
		return s
	}
	return vsched.Op{Kind: kind, Name: fmt.Sprintf("%s%q", kind, ins), Want: render(ref), Run: func() string { return render(inst) }}
}

type c55Contains struct {
	values []string
	token  string
}

func c55Tokens(cases []c55Contains) vsched.Op {
	render := func(f func([]string, string) bool) string {
		s := ""
		for _, x := range cases {
			s += fmt.Sprintf("%q has %q:%v ", x.values, x.token, f(x.values, x.token))
		}
		return s
	}
	name := "HeaderValuesContainsToken"
	for _, x := range cases {
		name += fmt.Sprintf("(%q,%q)", x.values, x.token)
	}
	return vsched.Op{Kind: "HeaderValuesContainsToken", Name: name, Want: render(real.HeaderValuesContainsToken), Run: func() string { return render(HeaderValuesContainsToken) }}
}

func c55Ops(thorough bool) []vsched.Op {
	ops := []vsched.Op{
		// field names: every tchar, the empty name, separators, control and non-ASCII bytes
		c55Strs("ValidHeaderFieldName", ValidHeaderFieldName, real.ValidHeaderFieldName,
			[]string{"Content-Type", "!#$%&'*+-.^_`|~09azAZ", "", "a b", "x:y"}),
		c55Strs("ValidHeaderFieldName", ValidHeaderFieldName, real.ValidHeaderFieldName,
			[]string{"Host\n", "(bad)", "ok", "X-\u00dcn\u00ef", "\x7f", "a\x00"}),
		// field values: HTAB is the only control byte allowed; CR, LF, NUL, DEL are not; high bytes are
		c55Strs("ValidHeaderFieldValue", ValidHeaderFieldValue, real.ValidHeaderFieldValue,
			[]string{"text/html; q=1", "a\tb", "a\r\nb", "a\x00", ""}),
		c55Strs("ValidHeaderFieldValue", ValidHeaderFieldValue, real.ValidHeaderFieldValue,
			[]string{"\x7f", "\u00e9\x80\xff", " lead", "x\x1f", "x\n"}),
		// token search: case folding is ASCII only, OWS trimmed, elements split on commas
		c55Tokens([]c55Contains{
			{[]string{"gzip, Chunked", " close"}, "chunked"},
			{[]string{"keep-alive ,\tUpgrade"}, "upgrade"},
			{[]string{"foo,bar"}, "ba"},
		}),
		c55Tokens([]c55Contains{
			{[]string{"\u212aeep-alive"}, "keep-alive"},
			{[]string{",, ,"}, "x"},
			{nil, "x"},
			{[]string{"a", "b,c ,  D\t"}, "d"},
			{[]string{"a;q=1, b"}, "a"},
		}),
	}
	// IsTokenRune on both sides of every boundary of the table
	runes := []rune{'a', 'Z', '0', '~', '|', ' ', ':', '"', 0, 0x7f, 0x80, 0xe9, 0x212a, 0x10ffff}
	rrender := func(f func(rune) bool) string {
		s := ""
		for _, r := range runes {
			s += fmt.Sprintf("%U:%v ", r, f(r))
		}
		return s
	}
	ops = append(ops, vsched.Op{Kind: "IsTokenRune", Name: fmt.Sprintf("IsTokenRune%U", runes), Want: rrender(real.IsTokenRune), Run: func() string { return rrender(IsTokenRune) }})
	// the other exported helpers of the package (not named by the property; they share its tables)
	ops = append(ops,
		c55Strs("ValidTrailerHeader", ValidTrailerHeader, real.ValidTrailerHeader,
			[]string{"X-Trailer", "Content-Length", "If-Match", "Proxy-Foo", "Trailer", "Etag"}),
		c55Strs("ValidHostHeader", ValidHostHeader, real.ValidHostHeader,
			[]string{"example.com:80", "[::1]:443", "a b", "\u00e9", "", "h\x7f"}),
	)
	hosts := []string{"b\u00fccher.example:8080", "ascii.example", "\u65e5\u672c.jp", "bad\xff:1", "[\u00fc]:1"}
	if thorough {
		hosts = append(hosts, "\uff21\uff22\uff23\u3002com:443", "xn--bcher-kva.\u00df")
	}
	hrender := func(f func(string) (string, error)) string {
		s := ""
		for _, h := range hosts {
			r, err := f(h)
			s += fmt.Sprintf("%q:%q,%v ", h, r, err)
		}
		return s
	}
	ops = append(ops, vsched.Op{Kind: "PunycodeHostPort", Name: fmt.Sprintf("PunycodeHostPort%q", hosts), Want: hrender(real.PunycodeHostPort), Run: func() string { return hrender(PunycodeHostPort) }})
	if thorough {
		ops = append(ops,
			c55Strs("ValidHeaderFieldName", ValidHeaderFieldName, real.ValidHeaderFieldName,
				[]string{"\u017f", "\u212a", "a\u00e9", "A,B", "a/b", "{", "[", "@"}),
			c55Tokens([]c55Contains{
				{[]string{"\u017f"}, "s"},
				{[]string{"S"}, "\u017f"},
				{[]string{"KEEP-alive"}, "keep-Alive"},
				{[]string{" \t close \t"}, "CLOSE"},
				{[]string{"close\n"}, "close"},
			}),
		)
	}
	return ops
}

func TestVerif_C55_globals(t *testing.T) {
	vx.Run(t, "C55", func(c *vx.Ctx) {
		bounds := vx.Pick(c, []int{2}, []int{3})
		c.Rule("concurrent part: for every unordered pair of calls from a small alphabet (each call applies one function to a short list of inputs and renders every result: ValidHeaderFieldName on two (thorough three) lists of names incl. all tchars, empty, separators, control and non-ASCII bytes; ValidHeaderFieldValue on two lists incl. HTAB, CR, LF, NUL, DEL, high bytes; HeaderValuesContainsToken on two (thorough three) lists of (values, token) incl. case folding, OWS trimming, empty elements, U+212A / U+017F; IsTokenRune on 14 runes around every boundary; ValidTrailerHeader, ValidHostHeader and PunycodeHostPort on a list each) two threads run one call each (thorough: twice each) on the instrumented http/httpguts source starting from the package's initial state; every schedule (quick: at most 2 preemptions; thorough: at most 3) at the scheduling points — before each statement mentioning a written package-level variable " + fmt.Sprint(zzWrittenGlobals) + ", sync.Once, sync.Pool Get/Put, sync.Mutex — is executed and each call must return what it returns alone")
		c.Assume("concurrent part: statement granularity at mentions of written package-level variables; accesses to heap objects only reachable from them and mutation through method calls are not scheduling points; golang.org/x/net/idna (used by PunycodeHostPort) is the uninstrumented package; if the package has no written package-level variable there is exactly one schedule per pair (the calls cannot interact through package state) and the part degenerates to a sequential differential test — it is kept because it is what catches a change that introduces shared state")
		seq := 0
		if !c.Quick() {
			seq = 1
		}
		ops := c55Ops(!c.Quick())
		wants := map[string]string{}
		for _, o := range ops {
			wants[o.Name] = o.Want
		}
		c.Note("globals_sequential_results", wants)
		progs := vsched.PairPrograms("C55", zzResetGlobals, ops, seq)
		c.Note("globals_programs", len(progs))
		c.Note("written_package_level_variables", zzWrittenGlobals)
		vsched.RunBounds(c, "globals", progs, bounds)
	})
}
