package c29

// C29 — QUIC gates and queues provide exclusion without lost wake-ups.
//
// This package is virtual: quic/gate.go, quic/queue.go and
// internal/gate/gate.go of the *current* working tree are instrumented by
// vrewrite at check time (channels, select, context -> vsched) and compiled
// here next to this harness. Every interleaving of the small thread programs
// below with at most B preemptions is executed under the vsched scheduler.

import (
	"errors"
	"fmt"
	"sort"
	"strings"
	"testing"

	context "golang.org/x/net/internal/zzverif/vctx"
	"golang.org/x/net/internal/zzverif/vsched"
	"golang.org/x/net/internal/zzverif/vx"
)

// gateAPI abstracts over quic's gate and internal/gate's Gate.
type gateAPI interface {
	lockG() bool
	waitAndLockG(ctx context.Context) error
	lockIfSetG() bool
	unlockG(set bool)
	tokens() (set, unset int)
}

type quicGate struct{ g gate }

func (q *quicGate) lockG() bool                            { return q.g.lock() }
func (q *quicGate) waitAndLockG(ctx context.Context) error { return q.g.waitAndLock(ctx) }
func (q *quicGate) lockIfSetG() bool                       { return q.g.lockIfSet() }
func (q *quicGate) unlockG(set bool)                       { q.g.unlock(set) }
func (q *quicGate) tokens() (int, int)                     { return q.g.set.Len(), q.g.unset.Len() }

type intGate struct{ g Gate }

func (q *intGate) lockG() bool                            { return q.g.Lock() }
func (q *intGate) waitAndLockG(ctx context.Context) error { return q.g.WaitAndLock(ctx) }
func (q *intGate) lockIfSetG() bool                       { return q.g.LockIfSet() }
func (q *intGate) unlockG(set bool)                       { q.g.Unlock(set) }
func (q *intGate) tokens() (int, int)                     { return q.g.set.Len(), q.g.unset.Len() }

type gateKind struct {
	name string
	new  func(set bool) gateAPI
}

var gateKinds = []gateKind{
	{"quic.gate", func(set bool) gateAPI {
		q := &quicGate{g: newLockedGate()}
		q.g.unlock(set)
		return q
	}},
	{"internal/gate.Gate", func(set bool) gateAPI { return &intGate{g: New(set)} }},
}

// gateMon is the harness-side model of one gate: who holds it and what the
// last unlock said.
type gateMon struct {
	g       gateAPI
	holders int
	cond    bool // value of the most recent unlock (initial state at creation)
	held    bool
	fail    string
	failSig string
}

func (m *gateMon) failf(sig, f string, a ...any) {
	if m.failSig == "" {
		m.failSig, m.fail = sig, fmt.Sprintf(f, a...)
	}
}

// acquired is called right after a lock operation reported success.
func (m *gateMon) acquired(how string, reported *bool) {
	m.holders++
	if m.holders > 1 {
		m.failf("C29/gate/exclusion/two-holders", "%s acquired the gate while another thread holds it", how)
	}
	if reported != nil && *reported != m.cond {
		m.failf("C29/gate/lock-reports-wrong-condition", "%s reported set=%v but the previous unlock set the condition to %v", how, *reported, m.cond)
	}
	if reported == nil && !m.cond {
		m.failf("C29/gate/conditional-lock-acquired-while-unset", "%s acquired the gate although the previous unlock left the condition unset", how)
	}
	m.held = true
	vsched.Yield() // let others run inside the critical section
	if m.holders != 1 {
		m.failf("C29/gate/exclusion/two-holders", "two threads inside the critical section after %s", how)
	}
}

func (m *gateMon) release(set bool) {
	m.holders--
	m.held = false
	m.cond = set
	m.g.unlockG(set)
}

func (m *gateMon) finalCheck(o vsched.Outcome) vsched.Verdict {
	if m.failSig != "" {
		return vsched.Verdict{Sig: m.failSig, What: m.fail, Obs: "fail"}
	}
	if o.Panic != "" {
		return vsched.Verdict{Sig: "C29/gate/panic", What: o.Panic, Obs: "panic"}
	}
	s, u := m.g.tokens()
	if !o.Deadlock {
		if m.held {
			return vsched.Verdict{Sig: "C29/harness/held-at-end", What: "harness bug: gate still held at the end", Obs: "harness"}
		}
		if s+u != 1 || (s == 1) != m.cond {
			return vsched.Verdict{Sig: "C29/gate/unlocked-state-inconsistent", What: fmt.Sprintf("all threads finished with the gate unlocked (condition %v) but the channels hold set=%d unset=%d tokens", m.cond, s, u), Obs: "fail"}
		}
	}
	return vsched.Verdict{}
}

func lockUnlock(m *gateMon, who string, set bool) {
	r := m.g.lockG()
	m.acquired(who+".lock", &r)
	m.release(set)
}

func gatePrograms(thorough bool) []vsched.Program {
	var ps []vsched.Program
	for _, k := range gateKinds {
		k := k
		nThreads := []int{2, 3}
		for _, n := range nThreads {
			n := n
			// G1: n threads, each lock/unlock twice with alternating values.
			ps = append(ps, vsched.Program{Name: fmt.Sprintf("G1/%s/%dthreads", k.name, n), Body: func() func(vsched.Outcome) vsched.Verdict {
				m := &gateMon{g: k.new(false)}
				done := 0
				for t := 0; t < n; t++ {
					t := t
					vsched.Go(func() {
						lockUnlock(m, fmt.Sprintf("T%d", t), t%2 == 0)
						lockUnlock(m, fmt.Sprintf("T%d", t), t%2 == 1)
						done++
					})
				}
				return func(o vsched.Outcome) vsched.Verdict {
					if v := m.finalCheck(o); v.Sig != "" {
						return v
					}
					if o.Deadlock || done != n {
						return vsched.Verdict{Sig: "C29/gate/deadlock/unconditional-lock", What: fmt.Sprintf("threads blocked in lock() forever: %v", o.Blocked), Obs: "deadlock"}
					}
					return vsched.Verdict{Obs: fmt.Sprintf("ok cond=%v", m.cond)}
				}
			}})
		}
		// G2: waiter (waitAndLock with cancellable ctx) | setter(s) | canceller.
		for _, setVal := range []bool{true, false} {
			for _, withCancel := range []bool{true, false} {
				if !setVal && !withCancel {
					continue // the waiter would legitimately wait forever
				}
				setVal, withCancel := setVal, withCancel
				ps = append(ps, vsched.Program{Name: fmt.Sprintf("G2/%s/set=%v/cancel=%v", k.name, setVal, withCancel), Body: func() func(vsched.Outcome) vsched.Verdict {
					m := &gateMon{g: k.new(false)}
					ctx, cancel := context.WithCancel(context.Background())
					var werr error
					wdone, cancelled := false, false
					vsched.GoNamed("waiter", func() {
						werr = m.g.waitAndLockG(ctx)
						if werr == nil {
							m.acquired("waitAndLock", nil)
							m.release(false)
						}
						wdone = true
					})
					vsched.GoNamed("setter", func() {
						lockUnlock(m, "setter", setVal)
						if thorough {
							lockUnlock(m, "setter", setVal)
						}
					})
					if withCancel {
						vsched.GoNamed("canceller", func() { cancel(); cancelled = true })
					}
					return func(o vsched.Outcome) vsched.Verdict {
						if v := m.finalCheck(o); v.Sig != "" {
							return v
						}
						if !wdone {
							// the waiter is blocked: legitimate only if nothing can wake it
							if withCancel || m.cond {
								return vsched.Verdict{Sig: "C29/gate/lost-wakeup/waitAndLock", What: fmt.Sprintf("waitAndLock is blocked forever although the condition is %v and cancel called=%v; blocked: %v", m.cond, cancelled, o.Blocked), Obs: "lost-wakeup"}
							}
							return vsched.Verdict{Obs: "waiter-waits-unset"}
						}
						if werr != nil {
							if !withCancel || !errors.Is(werr, context.Canceled) {
								return vsched.Verdict{Sig: "C29/gate/waitAndLock/spurious-error", What: fmt.Sprintf("waitAndLock returned %v without the context being done", werr), Obs: "fail"}
							}
							return vsched.Verdict{Obs: "waiter-cancelled"}
						}
						return vsched.Verdict{Obs: "waiter-acquired"}
					}
				}})
			}
		}
		// G3: lockIfSet | setter.
		ps = append(ps, vsched.Program{Name: fmt.Sprintf("G3/%s", k.name), Body: func() func(vsched.Outcome) vsched.Verdict {
			m := &gateMon{g: k.new(false)}
			res := ""
			vsched.GoNamed("trier", func() {
				for i := 0; i < 2; i++ {
					if m.g.lockIfSetG() {
						m.acquired("lockIfSet", nil)
						m.release(false)
						res += "A"
					} else {
						res += "n"
					}
				}
			})
			vsched.GoNamed("setter", func() { lockUnlock(m, "setter", true) })
			vsched.GoNamed("unsetter", func() { lockUnlock(m, "unsetter", false) })
			return func(o vsched.Outcome) vsched.Verdict {
				if v := m.finalCheck(o); v.Sig != "" {
					return v
				}
				if o.Deadlock {
					return vsched.Verdict{Sig: "C29/gate/deadlock/lockIfSet", What: fmt.Sprintf("deadlock: %v", o.Blocked), Obs: "deadlock"}
				}
				return vsched.Verdict{Obs: "tries=" + res}
			}
		}})
	}
	return ps
}

// ---- queue --------------------------------------------------------------------

type qOp struct {
	kind     string // put | get
	v        int
	ok       bool
	err      error
	call, rt int
}

type qMon struct {
	q     queue[int]
	clock int
	ops   []*qOp
}

func (m *qMon) put(v int) bool {
	o := &qOp{kind: "put", v: v}
	m.clock++
	o.call = m.clock
	m.ops = append(m.ops, o)
	o.ok = m.q.put(v)
	m.clock++
	o.rt = m.clock
	return o.ok
}

func (m *qMon) get(ctx context.Context) (int, error) {
	o := &qOp{kind: "get"}
	m.clock++
	o.call = m.clock
	m.ops = append(m.ops, o)
	o.v, o.err = m.q.get(ctx)
	o.ok = o.err == nil
	m.clock++
	o.rt = m.clock
	return o.v, o.err
}

// linearizable checks the completed put/get history against a sequential FIFO
// queue by brute force over the real-time-consistent orders; pending
// (unreturned) operations may or may not have taken effect.
func (m *qMon) linearizable() bool {
	var ops []*qOp
	for _, o := range m.ops {
		if o.rt != 0 && (o.kind == "put" && o.ok || o.kind == "get" && o.ok) {
			ops = append(ops, o)
		}
	}
	used := make([]bool, len(ops))
	var rec func(n int, q []int) bool
	rec = func(n int, q []int) bool {
		if n == len(ops) {
			return true
		}
		for i, o := range ops {
			if used[i] {
				continue
			}
			// o may be next only if no unused op returned before o was called
			okNext := true
			for j, p := range ops {
				if !used[j] && j != i && p.rt < o.call {
					okNext = false
					break
				}
			}
			if !okNext {
				continue
			}
			if o.kind == "put" {
				used[i] = true
				if rec(n+1, append(append([]int{}, q...), o.v)) {
					return true
				}
				used[i] = false
			} else if len(q) > 0 && q[0] == o.v {
				used[i] = true
				if rec(n+1, q[1:]) {
					return true
				}
				used[i] = false
			}
		}
		return false
	}
	return rec(0, nil)
}

var errQClosed = errors.New("queue closed by harness")

func (m *qMon) verdict(o vsched.Outcome, expectAllDone bool, doneCount, want int) vsched.Verdict {
	if o.Panic != "" {
		return vsched.Verdict{Sig: "C29/queue/panic", What: o.Panic, Obs: "panic"}
	}
	// exactly-once
	puts := map[int]int{}
	var gets []int
	for _, op := range m.ops {
		if op.kind == "put" && op.ok {
			puts[op.v]++
		}
		if op.kind == "get" && op.rt != 0 && op.ok {
			gets = append(gets, op.v)
		}
	}
	seen := map[int]int{}
	for _, g := range gets {
		seen[g]++
		if puts[g] == 0 {
			return vsched.Verdict{Sig: "C29/queue/get-returned-item-never-put", What: fmt.Sprintf("get returned %d which no successful put added; history %s", g, m.hist()), Obs: "fail"}
		}
		if seen[g] > 1 {
			return vsched.Verdict{Sig: "C29/queue/item-delivered-twice", What: fmt.Sprintf("item %d delivered twice; history %s", g, m.hist()), Obs: "fail"}
		}
	}
	if !m.linearizable() {
		return vsched.Verdict{Sig: "C29/queue/not-linearizable-fifo", What: "history is not linearizable w.r.t. a FIFO queue: " + m.hist(), Obs: "fail"}
	}
	// nothing lost: while the queue is open, every put item is delivered or still queued
	if m.q.err == nil {
		rest := map[int]int{}
		for _, v := range m.q.q {
			rest[v]++
		}
		for v := range puts {
			if seen[v]+rest[v] != 1 {
				return vsched.Verdict{Sig: "C29/queue/item-lost-or-duplicated", What: fmt.Sprintf("item %d: delivered %d times, %d copies still queued; history %s", v, seen[v], rest[v], m.hist()), Obs: "fail"}
			}
		}
	}
	if expectAllDone && (o.Deadlock || doneCount != want) {
		return vsched.Verdict{Sig: "C29/queue/lost-wakeup/get-blocked", What: fmt.Sprintf("threads blocked forever: %v; queue holds %v closed=%v; history %s", o.Blocked, m.q.q, m.q.err != nil, m.hist()), Obs: "lost-wakeup"}
	}
	sort.Ints(gets)
	return vsched.Verdict{}
}

func (m *qMon) hist() string {
	var b strings.Builder
	for _, o := range m.ops {
		fmt.Fprintf(&b, "[%s v=%d ok=%v err=%v @%d-%d]", o.kind, o.v, o.ok, o.err, o.call, o.rt)
	}
	return b.String()
}

func queuePrograms(thorough bool) []vsched.Program {
	var ps []vsched.Program
	bg := context.Background
	// Q1: two producers, one consumer taking everything.
	prodSets := [][][]int{{{1, 2}, {3}}}
	if thorough {
		prodSets = append(prodSets, [][]int{{1, 2}, {3}, {4}})
	}
	for _, prods := range prodSets {
		prods := prods
		total := 0
		for _, p := range prods {
			total += len(p)
		}
		ps = append(ps, vsched.Program{Name: fmt.Sprintf("Q1/%dproducers", len(prods)), MaxSteps: 600, Body: func() func(vsched.Outcome) vsched.Verdict {
			m := &qMon{q: newQueue[int]()}
			done := 0
			order := ""
			for _, items := range prods {
				items := items
				vsched.Go(func() {
					for _, v := range items {
						m.put(v)
					}
					done++
				})
			}
			vsched.GoNamed("consumer", func() {
				for i := 0; i < total; i++ {
					v, err := m.get(bg())
					if err != nil {
						return
					}
					order += fmt.Sprint(v)
				}
				done++
			})
			return func(o vsched.Outcome) vsched.Verdict {
				if v := m.verdict(o, true, done, len(prods)+1); v.Sig != "" {
					return v
				}
				if i, j := strings.Index(order, "1"), strings.Index(order, "2"); i > j {
					return vsched.Verdict{Sig: "C29/queue/fifo-per-producer", What: "items of one producer delivered out of order: " + order, Obs: "fail"}
				}
				return vsched.Verdict{Obs: "order=" + order}
			}
		}})
	}
	// Q2: two blocked getters, then close: both must return the close error; put after close is refused.
	ps = append(ps, vsched.Program{Name: "Q2/close-wakes-getters", Body: func() func(vsched.Outcome) vsched.Verdict {
		m := &qMon{q: newQueue[int]()}
		done := 0
		var errs [2]error
		var putAfter *bool
		for i := 0; i < 2; i++ {
			i := i
			vsched.Go(func() { _, errs[i] = m.get(bg()); done++ })
		}
		vsched.GoNamed("closer", func() {
			m.q.close(errQClosed)
			ok := m.put(9)
			putAfter = &ok
			done++
		})
		return func(o vsched.Outcome) vsched.Verdict {
			if v := m.verdict(o, true, done, 3); v.Sig != "" {
				return v
			}
			for _, e := range errs {
				if !errors.Is(e, errQClosed) {
					return vsched.Verdict{Sig: "C29/queue/close-error-not-delivered", What: fmt.Sprintf("get on a closed empty queue returned err=%v", e), Obs: "fail"}
				}
			}
			if putAfter == nil || *putAfter {
				return vsched.Verdict{Sig: "C29/queue/put-after-close-accepted", What: "put after close returned true", Obs: "fail"}
			}
			return vsched.Verdict{Obs: "both-woken"}
		}
	}})
	// Q3: get with a cancellable context | cancel | put: the item is returned or still queued.
	ps = append(ps, vsched.Program{Name: "Q3/get-cancel-put", Body: func() func(vsched.Outcome) vsched.Verdict {
		m := &qMon{q: newQueue[int]()}
		ctx, cancel := context.WithCancel(context.Background())
		done := 0
		var gerr error
		var gv int
		vsched.GoNamed("getter", func() { gv, gerr = m.get(ctx); done++ })
		vsched.GoNamed("canceller", func() { cancel(); done++ })
		vsched.GoNamed("putter", func() { m.put(7); done++ })
		return func(o vsched.Outcome) vsched.Verdict {
			if v := m.verdict(o, true, done, 3); v.Sig != "" {
				return v
			}
			if gerr == nil {
				if gv != 7 {
					return vsched.Verdict{Sig: "C29/queue/get-returned-wrong-item", What: fmt.Sprintf("get returned %d", gv), Obs: "fail"}
				}
				return vsched.Verdict{Obs: "got-item"}
			}
			if !errors.Is(gerr, context.Canceled) {
				return vsched.Verdict{Sig: "C29/queue/get-spurious-error", What: fmt.Sprintf("get returned %v", gerr), Obs: "fail"}
			}
			return vsched.Verdict{Obs: "cancelled-item-kept"}
		}
	}})
	// Q5: producer | closer | consumer: puts racing with close.
	ps = append(ps, vsched.Program{Name: "Q5/put-close-get", Body: func() func(vsched.Outcome) vsched.Verdict {
		m := &qMon{q: newQueue[int]()}
		done := 0
		res := ""
		vsched.GoNamed("producer", func() { m.put(1); m.put(2); done++ })
		vsched.GoNamed("closer", func() { m.q.close(errQClosed); done++ })
		vsched.GoNamed("consumer", func() {
			for i := 0; i < 2; i++ {
				v, err := m.get(bg())
				if err != nil {
					res += "E"
					break
				}
				res += fmt.Sprint(v)
			}
			done++
		})
		return func(o vsched.Outcome) vsched.Verdict {
			if v := m.verdict(o, true, done, 3); v.Sig != "" {
				return v
			}
			return vsched.Verdict{Obs: "res=" + res}
		}
	}})
	// Q6: bursts. The backing array of a queue grows and is reused; delivery
	// must stay exactly-once and FIFO whatever its capacity history (one
	// thread: fill K, drain K; fill, partly drain, refill, drain).
	bursts := [][]int{{40, -40}, {70, -55, 40, -55}}
	if thorough {
		bursts = append(bursts, []int{33, -33}, []int{130, -130}, []int{65, -49, 1, -17}, []int{40, -30, 40, -50})
	}
	for _, b := range bursts {
		b := b
		ps = append(ps, vsched.Program{Name: fmt.Sprintf("Q6/burst%v", b), MaxSteps: 4000, Body: func() func(vsched.Outcome) vsched.Verdict {
			q := newQueue[int]()
			done := false
			next, want, bad := 1, 1, ""
			vsched.GoNamed("burst", func() {
				for _, n := range b {
					for i := 0; i < n; i++ {
						if !q.put(next) {
							bad = fmt.Sprintf("put(%d) refused on an open queue", next)
							return
						}
						next++
					}
					for i := 0; i < -n; i++ {
						v, err := q.get(bg())
						if err != nil || v != want {
							if bad == "" {
								bad = fmt.Sprintf("get number %d returned (%d, %v), want item %d", want, v, err, want)
							}
							return
						}
						want++
					}
				}
				done = true
			})
			return func(o vsched.Outcome) vsched.Verdict {
				if o.Panic != "" {
					return vsched.Verdict{Sig: "C29/queue/panic", What: o.Panic, Obs: "panic"}
				}
				if bad != "" {
					return vsched.Verdict{Sig: "C29/queue/burst/not-exactly-once-in-fifo-order", What: fmt.Sprintf("burst pattern %v (positive: puts, negative: gets): %s", b, bad), Obs: "fail"}
				}
				if o.Deadlock || !done {
					return vsched.Verdict{Sig: "C29/queue/burst/get-blocked-with-items-queued", What: fmt.Sprintf("burst pattern %v: blocked %v after %d puts and %d gets", b, o.Blocked, next-1, want-1), Obs: "deadlock"}
				}
				return vsched.Verdict{Obs: fmt.Sprintf("burst-ok:%d", next-1)}
			}
		}})
	}
	// Q7: the same with the consumer on its own thread (quick: a burst that
	// crosses the first growth steps; thorough: beyond 64).
	conc := []int{12}
	if thorough {
		conc = append(conc, 40)
	}
	for _, k := range conc {
		k := k
		ps = append(ps, vsched.Program{Name: fmt.Sprintf("Q7/producer-consumer-%d", k), MaxSteps: 6000, Body: func() func(vsched.Outcome) vsched.Verdict {
			q := newQueue[int]()
			done := 0
			bad := ""
			vsched.GoNamed("producer", func() {
				for i := 1; i <= k; i++ {
					if !q.put(i) {
						bad = fmt.Sprintf("put(%d) refused on an open queue", i)
						return
					}
				}
				done++
			})
			vsched.GoNamed("consumer", func() {
				for i := 1; i <= k; i++ {
					v, err := q.get(bg())
					if err != nil || v != i {
						if bad == "" {
							bad = fmt.Sprintf("get number %d returned (%d, %v)", i, v, err)
						}
						return
					}
				}
				done++
			})
			return func(o vsched.Outcome) vsched.Verdict {
				if o.Panic != "" {
					return vsched.Verdict{Sig: "C29/queue/panic", What: o.Panic, Obs: "panic"}
				}
				if bad != "" {
					return vsched.Verdict{Sig: "C29/queue/burst/not-exactly-once-in-fifo-order", What: bad, Obs: "fail"}
				}
				if o.Deadlock || done != 2 {
					return vsched.Verdict{Sig: "C29/queue/lost-wakeup/getter-blocked", What: fmt.Sprintf("producer/consumer of %d items: blocked %v", k, o.Blocked), Obs: "deadlock"}
				}
				return vsched.Verdict{Obs: "stream-ok"}
			}
		}})
	}
	return ps
}

func TestVerif_C29(t *testing.T) {
	vx.Run(t, "C29", func(c *vx.Ctx) {
		bounds := vx.Pick(c, []int{2}, []int{3, -1})
		c.Rule("every schedule with at most B preemptions (quick B=2; thorough: B=3, then unbounded, the largest completed bound per program is recorded) of each small thread program over the instrumented quic gate, quic queue and internal/gate.Gate (plus single-thread and producer/consumer bursts of up to 130 items, so that every growth step of the queue's backing array up to capacity 256 is crossed); a scheduling point precedes every channel operation/select/context operation, a select with several ready arms is an explicit choice; evaluations = complete executions; distinct outcomes = distinct terminal observations per program")
		c.Assume("interleavings are at synchronisation-operation granularity; plain memory accesses between two operations are atomic (unsynchronised accesses are looked for separately: in the thorough tier the same thread programs run free-running on real goroutines/channels in a -race build, and a data race whose two accesses are both in the instrumented source is reported; that pass samples schedules)")
		c.Assume("send on unbuffered channels is not modelled (the instrumented files never do it)")
		progs := append(gatePrograms(!c.Quick()), queuePrograms(!c.Quick())...)
		c.Note("programs", len(progs))
		vsched.RunBounds(c, "sched", progs, bounds)
	})
}
