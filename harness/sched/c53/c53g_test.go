package c53

// C53 (concurrent part) — PerHost routing gives the same answers when several
// goroutines configure and use their own PerHost dialers at once.
//
// This package is virtual: every non-test file of package proxy of the
// current working tree is instrumented by vrewrite -globals -pure (a
// scheduling point before each statement that mentions a written
// package-level variable, sync.Once / sync.Pool / sync.Mutex replaced by
// controlled shims; channels, go statements and context left alone) and
// compiled here; the package state is reset before every execution.
// Expected results come from the uninstrumented golang.org/x/net/proxy.

import (
	"context"
	"errors"
	"fmt"
	"net"
	"net/url"
	"strings"
	"testing"

	"golang.org/x/net/internal/zzverif/vsched"
	"golang.org/x/net/internal/zzverif/vx"
	real "golang.org/x/net/proxy"
)

// c53gRec is a recording dialer (Dial and DialContext); it satisfies the
// Dialer / ContextDialer interfaces of both the instrumented and the real
// package. Every op owns its recorders.
type c53gRec struct {
	tag string
	log *strings.Builder
	err error
}

func (r *c53gRec) Dial(network, addr string) (net.Conn, error) {
	fmt.Fprintf(r.log, "%s.Dial(%s,%s) ", r.tag, network, addr)
	return nil, r.err
}

func (r *c53gRec) DialContext(ctx context.Context, network, addr string) (net.Conn, error) {
	fmt.Fprintf(r.log, "%s.DialContext(%v,%s,%s) ", r.tag, ctx.Value(c53gKey{}), network, addr)
	return nil, r.err
}

type c53gKey struct{}

// the part of the PerHost API the ops use, implemented by *PerHost and *real.PerHost
type c53gPerHost interface {
	Dial(network, addr string) (net.Conn, error)
	DialContext(ctx context.Context, network, addr string) (net.Conn, error)
	AddFromString(s string)
	AddIP(ip net.IP)
	AddNetwork(n *net.IPNet)
	AddZone(zone string)
	AddHost(host string)
}

type c53gCfg struct {
	name         string
	from         []string // AddFromString arguments, in order
	direct       bool     // then: AddIP(1.2.3.4 in 16-byte form) AddNetwork(1.2.0.0/16) AddZone("zone.com") AddHost("1.2.3.5")
	ctx          bool     // dial through DialContext
	addrs        []string
	thoroughOnly bool
}

// one configuration per branch of AddFromString / dialerForRequest; the
// dialled addresses differ between ops and sit on both sides of each rule,
// so that a rule or an address leaking from one call into the other changes
// an answer.
var c53gCfgs = []c53gCfg{
	{name: "ip4+zone+host", from: []string{"1.2.3.4,*.zone.com,host"},
		addrs: []string{"1.2.3.4:80", "1.2.3.5:80", "a.zone.com:443", "zone.com:80", "azone.com:80", "host:80", "ahost:80"}},
	{name: "cidr4+ip6", from: []string{"1.2.3.0/24, ::1"},
		addrs: []string{"1.2.3.5:443", "1.2.4.4:443", "[::1]:80", "[0:0:0:0:0:0:0:1]:80", "[::2]:80", "host:443"}},
	{name: "cidr6+dotted-host+spaced+bad;ctx", from: []string{"2001:db8::/32,zone.com, host2 ,1.2.3.0/33,"}, ctx: true,
		addrs: []string{"[2001:db8::1]:80", "[2001:db9::1]:80", "zone.com:443", "a.zone.com:80", "host2:80", "1.2.3.4:443"}},
	{name: "direct-Add*", direct: true,
		addrs: []string{"1.2.3.4:80", "1.2.9.9:80", "1.3.3.4:80", "b.a.zone.com:80", "zone.com.evil:80", "1.2.3.5:8080", "[102:304::]:80"}},
	{name: "empty+no-port", from: []string{""},
		addrs: []string{"zone.com:80", "1.2.3.4:80", "zone.com", "[::1]:443"}},
	{name: "numeric-zone+zone-id;ctx", from: []string{"*.3.5", "*.zone.com"}, ctx: true,
		addrs: []string{"x.3.5:80", "9.2.3.5:80", "[::1%a.zone.com]:80", "one.com:80", "a.zone.com.evil:80"}},
	{name: "cidr4-all+tld-zone", from: []string{"0.0.0.0/0,*.com"}, thoroughOnly: true,
		addrs: []string{"9.2.3.4:80", "[::2]:80", "com:80", "one.com:80", "host:80"}},
	{name: "cidr6-all+host-sub;ctx", from: []string{"::/0", "a.zone.com", "zone.com/8"}, ctx: true, thoroughOnly: true,
		addrs: []string{"[2001:db9::1]:80", "9.2.3.4:80", "a.zone.com:80", "b.a.zone.com:80", "zone.com:80"}},
	{name: "cidr4-hostbits+single", from: []string{"1.2.9.9/16,9.2.3.4/32"}, thoroughOnly: true,
		addrs: []string{"1.2.4.4:80", "1.3.3.4:80", "9.2.3.4:80", "9.2.3.5:80"}},
}

func c53gRun(k c53gCfg, mk func(def, byp *c53gRec) c53gPerHost) string {
	var log strings.Builder
	def := &c53gRec{tag: "default", log: &log, err: errors.New("default:" + k.name)}
	byp := &c53gRec{tag: "bypass", log: &log, err: errors.New("bypass:" + k.name)}
	p := mk(def, byp)
	for _, s := range k.from {
		p.AddFromString(s)
	}
	if k.direct {
		p.AddIP(net.IPv4(1, 2, 3, 4))
		p.AddNetwork(&net.IPNet{IP: net.IP{1, 2, 0, 0}, Mask: net.CIDRMask(16, 32)})
		p.AddZone("zone.com")
		p.AddHost("1.2.3.5")
	}
	for i, a := range k.addrs {
		var c net.Conn
		var err error
		if k.ctx {
			c, err = p.DialContext(context.WithValue(context.Background(), c53gKey{}, i), "tcp", a)
		} else {
			c, err = p.Dial("tcp", a)
		}
		fmt.Fprintf(&log, "=> %v %v; ", c, err)
	}
	return log.String()
}

func c53gOps(thorough bool) []vsched.Op {
	var ops []vsched.Op
	for _, k := range c53gCfgs {
		k := k
		if k.thoroughOnly && !thorough {
			continue
		}
		want := c53gRun(k, func(def, byp *c53gRec) c53gPerHost { return real.NewPerHost(def, byp) })
		ops = append(ops, vsched.Op{Kind: "PerHost", Want: want,
			Name: fmt.Sprintf("PerHost(%s)x%d", k.name, len(k.addrs)),
			Run: func() string {
				return c53gRun(k, func(def, byp *c53gRec) c53gPerHost { return NewPerHost(def, byp) })
			}})
	}
	// the package's own package-level state (proxySchemes, the environment
	// lookups behind sync.Once) is read by FromURL / FromEnvironmentUsing;
	// nothing is registered, the environment is whatever the process has
	// (the real package sees the same one).
	for _, us := range []string{"socks5://user:pw@proxy.example:1081", "c53g-unknown://proxy.example"} {
		us := us
		u, err := url.Parse(us)
		if err != nil {
			panic(err)
		}
		fwdR := &c53gRec{tag: "forward", log: new(strings.Builder)}
		wd, werr := real.FromURL(u, fwdR)
		want := fmt.Sprintf("%T %v forward-returned=%v", wd, werr, real.FromEnvironmentUsing(fwdR) == real.Dialer(fwdR))
		ops = append(ops, vsched.Op{Kind: "FromURL", Want: want,
			Name: fmt.Sprintf("FromURL(%s)+FromEnvironmentUsing", us),
			Run: func() string {
				fwd := &c53gRec{tag: "forward", log: new(strings.Builder)}
				d, err := FromURL(u, fwd)
				return fmt.Sprintf("%T %v forward-returned=%v", d, err, FromEnvironmentUsing(fwd) == Dialer(fwd))
			}})
	}
	return ops
}

func TestVerif_C53_globals(t *testing.T) {
	vx.Run(t, "C53", func(c *vx.Ctx) {
		bounds := vx.Pick(c, []int{2}, []int{-1})
		c.Rule("concurrent part: for every unordered pair of calls from a small alphabet (configure a fresh PerHost with two recording dialers — AddFromString with IPv4+zone+host / CIDR+IPv6 / IPv6 CIDR+dotted host+spaced+malformed / the direct AddIP AddNetwork AddZone AddHost calls / empty / numeric zone and IPv6 zone identifiers; thorough: also /0 ranges, TLD zone, host bits, /32 — and dial 4-7 addresses on both sides of each rule through Dial or DialContext; plus FromURL of a socks5 and of an unknown scheme followed by FromEnvironmentUsing) two threads run one call each (thorough: twice each), each on its own PerHost, on the instrumented proxy source starting from the package's initial state; every schedule (quick: at most 2 preemptions; thorough: unbounded) at the scheduling points — before each statement mentioning a written package-level variable " + fmt.Sprint(zzWrittenGlobals) + ", sync.Once, sync.Pool Get/Put, sync.Mutex — is executed and each call must produce the dialer calls and results it produces alone")
		c.Assume("concurrent part: statement granularity at mentions of written package-level variables; accesses to heap objects only reachable from them are not scheduling points; channels, go statements and context are not instrumented (pure mode), so DialContext is only driven with context-aware dialers (the goroutine of dialContext is never started); a PerHost is never shared between the two threads; RegisterDialerType (documented for registration, writes proxySchemes) is not called; the process environment (ALL_PROXY, NO_PROXY) is not varied")
		seq := 0
		if !c.Quick() {
			seq = 1
		}
		progs := vsched.PairPrograms("C53", zzResetGlobals, c53gOps(!c.Quick()), seq)
		c.Note("globals_programs", len(progs))
		c.Note("written_package_level_variables", zzWrittenGlobals)
		vsched.RunBounds(c, "globals", progs, bounds)
	})
}
