package httpguts

import (
	"fmt"
	"strings"
	"testing"

	"golang.org/x/net/internal/zzverif/vx"
)

// C55 — HTTP header validity checks match the RFC 9110 grammar.
//
//   token = 1*tchar                                            (RFC 9110 §5.6.2)
//   tchar = "!" / "#" / "$" / "%" / "&" / "'" / "*" / "+" / "-" / "." /
//           "^" / "_" / "`" / "|" / "~" / DIGIT / ALPHA
//   DIGIT = %x30-39, ALPHA = %x41-5A / %x61-7A                 (RFC 5234 B.1)
//
// Reference predicates are written from that grammar and from the property
// statement only; nothing of httplex.go is called from them.

// c55RefTchar is the tchar production.
func c55RefTchar(b byte) bool {
	switch {
	case b >= 0x30 && b <= 0x39: // DIGIT
		return true
	case b >= 0x41 && b <= 0x5a, b >= 0x61 && b <= 0x7a: // ALPHA
		return true
	}
	switch b {
	case '!', '#', '$', '%', '&', '\'', '*', '+', '-', '.', '^', '_', '`', '|', '~':
		return true
	}
	return false
}

// c55RefName: s is a non-empty token.
func c55RefName(s []byte) bool {
	if len(s) == 0 {
		return false
	}
	for _, b := range s {
		if !c55RefTchar(b) {
			return false
		}
	}
	return true
}

// c55RefValue: s contains no control byte (0x00-0x1f, 0x7f) other than HTAB.
func c55RefValue(s []byte) bool {
	for _, b := range s {
		if (b <= 0x1f || b == 0x7f) && b != 0x09 {
			return false
		}
	}
	return true
}

// c55RefFold is ASCII-only lower-casing.
func c55RefFold(b byte) byte {
	if b >= 0x41 && b <= 0x5a {
		return b + 0x20
	}
	return b
}

// c55RefContains: token equals, ASCII case-insensitively, some comma-separated
// element (surrounding SP/HTAB trimmed) of one of the values. Also reports
// whether any element had the token's length (the byte comparison was reached).
func c55RefContains(values []string, token string) (found, compared bool) {
	for _, v := range values {
		for _, el := range strings.Split(v, ",") {
			el = strings.Trim(el, " \t")
			if len(el) != len(token) {
				continue
			}
			compared = true
			eq := true
			for i := 0; i < len(el); i++ {
				if c55RefFold(el[i]) != c55RefFold(token[i]) {
					eq = false
					break
				}
			}
			if eq {
				found = true
			}
		}
	}
	return found, compared
}

// c55Class names the abstract class of a byte for signatures.
func c55Class(b byte) string {
	switch {
	case b == 0:
		return "NUL"
	case b == '\t':
		return "HT"
	case b == '\n':
		return "LF"
	case b == '\r':
		return "CR"
	case b < 0x20:
		return "CTL"
	case b == 0x7f:
		return "DEL"
	case b == ' ':
		return "SP"
	case b >= 0x80:
		return "obs-text"
	case c55RefTchar(b):
		return "tchar"
	}
	return "delimiter"
}

// c55FirstDiff returns the class of the first byte of s on which per-byte
// predicate p(real) and q(ref) would disagree, else the class of the last byte.
func c55Blame(s []byte, bad func(byte) bool) string {
	for _, b := range s {
		if bad(b) {
			return c55Class(b)
		}
	}
	if len(s) == 0 {
		return "empty"
	}
	return "none"
}

type c55Bytes struct {
	Prefix []byte `json:"prefix"`         // the case covers Prefix + every suffix of exactly Fill bytes
	Fill   int    `json:"suffix_len"`     // 0: just Prefix
	Reps   []int  `json:"reps,omitempty"` // part "reps": indices into c55Reps, Prefix unused
}

// Class representatives of DESIGN.md §3 C55 (one value on each side of every
// comparison in httplex.go, plus multi-byte sequences whose *runes* would be
// letters or fold to ASCII letters under Unicode rules).
var c55Reps = []string{"\x00", "\t", "\n", "\r", " ", "!", "\"", "(", ",", "/", ":", "A", "a", "~", "\x7f", "\x80", "\xff", "é", "K", "ſ",
	"\x1f", "@", "[", "`", "{", "0", "9", "Z", "z"}

// Padding pieces for the "pad" part: the two OWS bytes, the other ASCII
// whitespace / control bytes, raw high bytes that are Latin-1 spaces, and UTF-8
// encodings of Unicode spaces (and two non-space look-alikes), plus the comma.
var c55PadPieces = []string{" ", "\t", "\n", "\v", "\f", "\r", "\x00", "\x1f", "\x85", "\xa0", "\xc2",
	"\u0085", "\u00a0", "\u1680", "\u2003", "\u2028", "\u202f", "\u3000", "\u200b", "\ufeff", ","}

func c55CheckNameValue(w *vx.W, s []byte) (nameOK, valueOK bool) {
	wantN, wantV := c55RefName(s), c55RefValue(s)
	str := string(s)
	gotN, gotV := ValidHeaderFieldName(str), ValidHeaderFieldValue(str)
	if gotN != wantN {
		if gotN {
			w.Failf("C55/name/accepts-non-token:"+c55Blame(s, func(b byte) bool { return !c55RefTchar(b) }),
				"ValidHeaderFieldName(%q) = true, but it is not a non-empty RFC 9110 token", str)
		} else {
			w.Failf("C55/name/rejects-token", "ValidHeaderFieldName(%q) = false, but it is a non-empty RFC 9110 token", str)
		}
	}
	if gotV != wantV {
		if gotV {
			w.Failf("C55/value/accepts-control:"+c55Blame(s, func(b byte) bool { return (b <= 0x1f || b == 0x7f) && b != 0x09 }),
				"ValidHeaderFieldValue(%q) = true, but it contains a control byte other than HTAB", str)
		} else {
			w.Failf("C55/value/rejects-control-free", "ValidHeaderFieldValue(%q) = false, but it contains no control byte other than HTAB", str)
		}
	}
	return wantN, wantV
}

type c55TokCase struct {
	Values []string `json:"values"`
	Token  string   `json:"token"`
}

func c55CheckContains(w *vx.W, x c55TokCase) {
	want, compared := c55RefContains(x.Values, x.Token)
	got := HeaderValuesContainsToken(x.Values, x.Token)
	if got != want {
		if got {
			w.Failf("C55/contains/false-positive", "HeaderValuesContainsToken(%q, %q) = true; no comma-separated, OWS-trimmed element equals the token ASCII case-insensitively", x.Values, x.Token)
		} else {
			w.Failf("C55/contains/false-negative", "HeaderValuesContainsToken(%q, %q) = false; an element equals the token ASCII case-insensitively", x.Values, x.Token)
		}
		return
	}
	if compared {
		w.Nontrivial()
	}
	if want {
		w.Outcome("contains:found")
	} else if compared {
		w.Outcome("contains:same-length-differs")
	} else {
		w.Outcome("contains:no-candidate")
	}
}

func TestVerif_C55(t *testing.T) {
	vx.Run(t, "C55", func(c *vx.Ctx) {
		c.Rule("runes: IsTokenRune on every rune 0..0x10FFFF (surrogates included) vs the tchar production. " +
			"bytes: ValidHeaderFieldName and ValidHeaderFieldValue on EVERY byte string of length <= 3 (thorough: <= 4) — a case is a prefix of <= 2 bytes and covers all suffixes of the stated length; " +
			"reps: every string of <= 4 (thorough <= 5) representatives from {NUL HT LF CR SP ! \" ( , / : A a ~ DEL 0x80 0xff é U+212A U+017F 0x1f @ [ ` { 0 9 Z z}; non-trivial = at least one of the two predicates accepts (the whole string was scanned). " +
			"fold: HeaderValuesContainsToken([pad X pad], Y) for every byte X, every tchar Y, pad in {none, SP, HT}; " +
			"pad: L + element + R alone and inside a comma-separated list (shapes {E; a,E; E,b; a,SP E HT,b}), element/token pairs {tok/tok tok/TOK Tok/tok k/K}, with (L,R) ranging over every pair from {none, each single byte 0x00..0xff} and over every pair of strings of <= 2 pieces from {SP HT LF VT FF CR NUL 0x1f 0x85 0xa0 0xc2 U+0085 U+00A0 U+1680 U+2003 U+2028 U+202F U+3000 U+200B U+FEFF ,} (raw bytes and UTF-8) — only SP/HT padding may be trimmed; a case fixes L, shape and token and covers every R; " +
			"contains: one value of <= 5 fragments, or two values of <= 2 (thorough <= 3) fragments each, fragments {tok TOK to tokx SP HT , ; \" U+212A U+017F}, tokens {tok Tok k s}; also the nil and empty value lists; non-trivial = some trimmed element has the token's length (byte comparison reached)")
		c.Assume("IsTokenRune is checked for valid rune values 0..0x10FFFF only; negative int32 values (not runes) are excluded — note IsTokenRune(-223) is true because byte(r) wraps")
		c.Assume("HeaderValuesContainsToken: the token argument is a non-empty RFC 9110 token (ASCII); empty or non-ASCII 'tokens' are excluded because the statement does not define them")
		c.Assume("ValidHeaderFieldValue is checked against the statement (no control byte other than HTAB); leading/trailing SP/HTAB, which the function documents it does not reject, are not part of the oracle")

		// --- IsTokenRune over all runes
		type runeBlock struct {
			Lo int32 `json:"lo"` // covers Lo .. Lo+0xff
		}
		vx.Enumerate(c, "runes", vx.Opts{NoSample: true}, func(yield func(runeBlock) bool) {
			for lo := int32(0); lo <= 0x10ff00; lo += 0x100 {
				if !yield(runeBlock{lo}) {
					return
				}
			}
		}, func(w *vx.W, x runeBlock) {
			anyT := false
			for r := x.Lo; r < x.Lo+0x100; r++ {
				want := r >= 0 && r <= 0x7f && c55RefTchar(byte(r))
				got := IsTokenRune(r)
				if got != want {
					if got {
						cl := "non-ascii"
						if r <= 0x7f {
							cl = c55Class(byte(r))
						}
						w.Failf("C55/rune/accepts-non-tchar:"+cl, "IsTokenRune(%U) = true, not a tchar", r)
					} else {
						w.Failf("C55/rune/rejects-tchar", "IsTokenRune(%U %q) = false, it is a tchar", r, r)
					}
					return
				}
				anyT = anyT || want
			}
			if anyT {
				w.Nontrivial()
				w.Outcome("runes:block-with-tchars")
			} else {
				w.Outcome("runes:block-without-tchars")
			}
		})

		// --- name / value over every short byte string
		fill := vx.Pick(c, 1, 2)
		var nStrings int64
		vx.Enumerate(c, "bytes", vx.Opts{NoSample: true}, func(yield func(c55Bytes) bool) {
			// complete strings of length 0,1,2
			if !yield(c55Bytes{Prefix: []byte{}}) {
				return
			}
			nStrings++
			for a := 0; a < 256; a++ {
				if !yield(c55Bytes{Prefix: []byte{byte(a)}}) {
					return
				}
				nStrings++
			}
			for a := 0; a < 256; a++ {
				for b := 0; b < 256; b++ {
					if !yield(c55Bytes{Prefix: []byte{byte(a), byte(b)}}) {
						return
					}
					nStrings++
				}
			}
			// length 3 (quick) / 3 and 4 (thorough): prefix of 2 + every suffix
			for f := 1; f <= fill; f++ {
				for a := 0; a < 256; a++ {
					for b := 0; b < 256; b++ {
						if !yield(c55Bytes{Prefix: []byte{byte(a), byte(b)}, Fill: f}) {
							return
						}
						nStrings += int64(1) << (8 * f)
					}
				}
			}
		}, func(w *vx.W, x c55Bytes) {
			anyOK := false
			run := func(s []byte) bool {
				n, v := c55CheckNameValue(w, s)
				if w.Failed() {
					return false
				}
				anyOK = anyOK || n || v
				switch {
				case n && v:
					w.Outcome("name:ok value:ok")
				case !n && v:
					w.Outcome("name:bad value:ok")
				case !n && !v:
					w.Outcome("name:bad value:bad")
				default:
					w.Outcome("name:ok value:bad")
				}
				return true
			}
			switch x.Fill {
			case 0:
				run(x.Prefix)
			case 1:
				s := append(append([]byte{}, x.Prefix...), 0)
				for d := 0; d < 256; d++ {
					s[len(s)-1] = byte(d)
					if !run(s) {
						return
					}
				}
			case 2:
				s := append(append([]byte{}, x.Prefix...), 0, 0)
				for d := 0; d < 256; d++ {
					s[len(s)-2] = byte(d)
					for e := 0; e < 256; e++ {
						s[len(s)-1] = byte(e)
						if !run(s) {
							return
						}
					}
				}
			default:
				panic("c55: bad case")
			}
			if anyOK {
				w.Nontrivial()
			}
		})
		c.Note("bytes.strings_evaluated", nStrings)

		// --- name / value over strings of class representatives
		idx := make([]int, len(c55Reps))
		for i := range idx {
			idx[i] = i
		}
		vx.Enumerate(c, "reps", vx.Opts{}, func(yield func(c55Bytes) bool) {
			vx.Strings(idx, 0, vx.Pick(c, 4, 5), func(s []int) bool { return yield(c55Bytes{Reps: s}) })
		}, func(w *vx.W, x c55Bytes) {
			var s []byte
			for _, i := range x.Reps {
				s = append(s, c55Reps[i]...)
			}
			n, v := c55CheckNameValue(w, s)
			if w.Failed() {
				return
			}
			if n || v {
				w.Nontrivial()
			}
			w.Outcome(fmt.Sprintf("reps name:%v value:%v", n, v))
		})

		// --- ASCII-only folding: every byte against every tchar
		type foldCase struct {
			X   int `json:"element_byte"`
			Y   int `json:"token_byte"`
			Pad int `json:"pad"` // 0 none, 1 SP, 2 HT around the element
		}
		vx.Enumerate(c, "fold", vx.Opts{}, func(yield func(foldCase) bool) {
			for y := 0; y < 128; y++ {
				if !c55RefTchar(byte(y)) {
					continue
				}
				for x := 0; x < 256; x++ {
					for pad := 0; pad < 3; pad++ {
						if !yield(foldCase{x, y, pad}) {
							return
						}
					}
				}
			}
		}, func(w *vx.W, x foldCase) {
			pad := []string{"", " ", "\t"}[x.Pad]
			c55CheckContains(w, c55TokCase{Values: []string{pad + string([]byte{byte(x.X)}) + pad}, Token: string([]byte{byte(x.Y)})})
		})

		// --- trimming: only SP / HTAB around an element are removed
		// Every padding string from the stated family is put to the left and to
		// the right of an otherwise matching element, alone and inside a list.
		// A case fixes the left padding, the shape and the token and covers
		// every right padding of the family.
		var padBytes, padPairs []string
		padBytes = append(padBytes, "")
		for b := 0; b < 256; b++ {
			padBytes = append(padBytes, string([]byte{byte(b)}))
		}
		vx.Strings(c55PadPieces, 0, 2, func(f []string) bool { padPairs = append(padPairs, vx.Concat(f)); return true })
		padShapes := []struct{ pre, post string }{{"", ""}, {"a,", ""}, {"", ",b"}, {"a, ", "\t,b"}}
		padToks := []struct{ el, tok string }{{"tok", "tok"}, {"tok", "TOK"}, {"Tok", "tok"}, {"k", "K"}}
		type padCase struct {
			Family string `json:"family"` // "byte": right padding = none or any one byte; "pair": right padding = any <= 2 pieces
			Left   string `json:"left_pad"`
			Shape  int    `json:"shape"`
			Tok    int    `json:"token"`
		}
		var nPad int64
		vx.Enumerate(c, "pad", vx.Opts{NoSample: true}, func(yield func(padCase) bool) {
			for fi, fam := range [][]string{padBytes, padPairs} {
				for _, l := range fam {
					for sh := range padShapes {
						for tk := range padToks {
							if !yield(padCase{[]string{"byte", "pair"}[fi], l, sh, tk}) {
								return
							}
							nPad += int64(len(fam))
						}
					}
				}
			}
		}, func(w *vx.W, x padCase) {
			fam := padBytes
			if x.Family == "pair" {
				fam = padPairs
			}
			sh, tk := padShapes[x.Shape], padToks[x.Tok]
			for _, r := range fam {
				c55CheckContains(w, c55TokCase{Values: []string{sh.pre + x.Left + tk.el + r + sh.post}, Token: tk.tok})
				if w.Failed() {
					return
				}
			}
		})
		c.Note("pad.strings_evaluated", nPad)

		// --- HeaderValuesContainsToken over fragment strings
		frags := []string{"tok", "TOK", "to", "tokx", " ", "\t", ",", ";", "\"", "K", "ſ"}
		tokens := []string{"tok", "Tok", "k", "s"}
		vx.Enumerate(c, "contains", vx.Opts{}, func(yield func(c55TokCase) bool) {
			for _, tk := range tokens {
				if !yield(c55TokCase{Values: nil, Token: tk}) || !yield(c55TokCase{Values: []string{}, Token: tk}) {
					return
				}
			}
			// one value, <= 5 fragments
			if !vx.Strings(frags, 0, 5, func(f []string) bool {
				v := vx.Concat(f)
				for _, tk := range tokens {
					if !yield(c55TokCase{Values: []string{v}, Token: tk}) {
						return false
					}
				}
				return true
			}) {
				return
			}
			// two values, each <= 2 (3) fragments
			var vals []string
			vx.Strings(frags, 0, vx.Pick(c, 2, 3), func(f []string) bool { vals = append(vals, vx.Concat(f)); return true })
			for _, v1 := range vals {
				for _, v2 := range vals {
					for _, tk := range tokens {
						if !yield(c55TokCase{Values: []string{v1, v2}, Token: tk}) {
							return
						}
					}
				}
			}
		}, c55CheckContains)
	})
}
