package httpproxy_test

import (
	"fmt"
	"net/url"
	"strings"
	"testing"

	"golang.org/x/net/http/httpproxy"
	"golang.org/x/net/internal/zzverif/vx"
)

// C52 — proxy selection follows the documented NO_PROXY rules.
//
// Every Config built from NO_PROXY lists of <= 2 (thorough <= 3) entries of a
// structured alphabet x HTTP_PROXY x HTTPS_PROXY values x CGI is turned into a
// ProxyFunc and asked about every request URL of scheme x host x port. The
// reference never parses a NO_PROXY string: each alphabet entry carries its
// meaning (kind + bytes/bits/name/port) typed by hand from the Config.NoProxy
// documentation and the property statement.

type c52Kind int

const (
	c52Star c52Kind = iota
	c52IP
	c52CIDR
	c52Domain
	c52Empty
)

type c52Entry struct {
	text    string
	kind    c52Kind
	ip      []byte // c52IP, c52CIDR
	bits    int    // c52CIDR
	name    string // c52Domain, lower case unless the entry is about case
	subOnly bool   // c52Domain: leading "." or "*."
	port    string // "" = any port
	spaced  bool   // written with surrounding spaces: handling not documented
	label   string
}

var (
	c52V4      = []byte{1, 2, 3, 4}
	c52V6one   = []byte{0, 0, 0, 0, 0, 0, 0, 0, 0, 0, 0, 0, 0, 0, 0, 1}
	c52V6db8_1 = []byte{0x20, 0x01, 0x0d, 0xb8, 0, 0, 0, 0, 0, 0, 0, 0, 0, 0, 0, 1}
	c52V6db8_0 = []byte{0x20, 0x01, 0x0d, 0xb8, 0, 0, 0, 0, 0, 0, 0, 0, 0, 0, 0, 0}
)

// simplest first; the first c52QuickEntries are used in the quick tier
var c52Entries = []c52Entry{
	{text: "a.com", kind: c52Domain, name: "a.com", label: "domain"},
	{text: "*", kind: c52Star, label: "star"},
	{text: ".a.com", kind: c52Domain, name: "a.com", subOnly: true, label: "dot-domain"},
	{text: "1.2.3.4", kind: c52IP, ip: c52V4, label: "ip4"},
	{text: "1.2.3.0/24", kind: c52CIDR, ip: []byte{1, 2, 3, 0}, bits: 24, label: "cidr4"},
	{text: "a.com:80", kind: c52Domain, name: "a.com", port: "80", label: "domain-port"},
	{text: "*.a.com", kind: c52Domain, name: "a.com", subOnly: true, label: "star-dot-domain"},
	{text: "1.2.3.4:80", kind: c52IP, ip: c52V4, port: "80", label: "ip4-port"},
	{text: "b.a.com", kind: c52Domain, name: "b.a.com", label: "subdomain"},
	{text: "", kind: c52Empty, label: "empty"},
	{text: "2001:db8::1", kind: c52IP, ip: c52V6db8_1, label: "ip6"},
	{text: "[2001:db8::1]:80", kind: c52IP, ip: c52V6db8_1, port: "80", label: "ip6-port"},
	{text: "2001:db8::/32", kind: c52CIDR, ip: c52V6db8_0, bits: 32, label: "cidr6"},
	{text: " a.com ", kind: c52Domain, name: "a.com", spaced: true, label: "domain-spaced"},
	{text: "A.COM", kind: c52Domain, name: "A.COM", label: "domain-upper"},
	{text: "localhost", kind: c52Domain, name: "localhost", label: "domain-localhost"},
	{text: "bücher.example", kind: c52Domain, name: "bücher.example", label: "domain-idn-same-form"},
	// thorough only
	{text: "::1", kind: c52IP, ip: c52V6one, label: "ip6-loopback"},
	{text: "[::1]:80", kind: c52IP, ip: c52V6one, port: "80", label: "ip6-loopback-port"},
	{text: ".a.com:443", kind: c52Domain, name: "a.com", subOnly: true, port: "443", label: "dot-domain-port"},
	{text: "1.2.3.4:443", kind: c52IP, ip: c52V4, port: "443", label: "ip4-port443"},
	{text: "1.2.9.9/16", kind: c52CIDR, ip: []byte{1, 2, 9, 9}, bits: 16, label: "cidr4-hostbits"},
	{text: "com", kind: c52Domain, name: "com", label: "domain-tld"},
}

const c52QuickEntries = 17

type c52Host struct {
	host  string // as in URL.Host without port
	ip    []byte
	name  string
	label string
}

var c52Hosts = []c52Host{
	{host: "a.com", name: "a.com", label: "name"},
	{host: "b.a.com", name: "b.a.com", label: "name-sub"},
	{host: "c.b.a.com", name: "c.b.a.com", label: "name-sub-sub"},
	{host: "xa.com", name: "xa.com", label: "name-suffix-without-dot"},
	{host: "a.com.evil", name: "a.com.evil", label: "name-domain-not-at-end"},
	{host: "A.com", name: "A.com", label: "name-case-differs"},
	{host: "z.org", name: "z.org", label: "name-unrelated"},
	{host: "localhost", name: "localhost", label: "localhost"},
	{host: "127.0.0.1", ip: []byte{127, 0, 0, 1}, label: "loopback4"},
	{host: "127.0.0.2", ip: []byte{127, 0, 0, 2}, label: "loopback4"},
	{host: "1.2.3.4", ip: []byte{1, 2, 3, 4}, label: "ip4"},
	{host: "1.2.3.5", ip: []byte{1, 2, 3, 5}, label: "ip4"},
	{host: "1.2.4.4", ip: []byte{1, 2, 4, 4}, label: "ip4"},
	{host: "128.0.0.1", ip: []byte{128, 0, 0, 1}, label: "ip4-not-loopback"},
	{host: "[::1]", ip: c52V6one, label: "loopback6"},
	{host: "[::2]", ip: []byte{0, 0, 0, 0, 0, 0, 0, 0, 0, 0, 0, 0, 0, 0, 0, 2}, label: "ip6-not-loopback"},
	{host: "[2001:db8::1]", ip: c52V6db8_1, label: "ip6"},
	{host: "[2001:db8:0:0:0:0:0:1]", ip: c52V6db8_1, label: "ip6-long-form"},
	{host: "[2001:db9::1]", ip: []byte{0x20, 0x01, 0x0d, 0xb9, 0, 0, 0, 0, 0, 0, 0, 0, 0, 0, 0, 1}, label: "ip6"},
	{host: "bücher.example", name: "bücher.example", label: "name-idn"},
	{host: "www.bücher.example", name: "www.bücher.example", label: "name-idn-sub"},
}

var c52Ports = []string{"", "80", "443", "8080"}
var c52Schemes = []string{"http", "https"}

type c52ProxyVal struct {
	text    string
	want    string // expected URL.String(); "" = no proxy configured
	scheme  string
	host    string
	invalid bool
}

var c52HTTPVals = []c52ProxyVal{
	{text: ""},
	{text: "http://p1.example:3128", want: "http://p1.example:3128", scheme: "http", host: "p1.example:3128"},
	{text: "p2.example:3128", want: "http://p2.example:3128", scheme: "http", host: "p2.example:3128"},
	{text: "%zz", invalid: true},
}
var c52HTTPSVals = []c52ProxyVal{
	{text: ""},
	{text: "https://s1.example:8443", want: "https://s1.example:8443", scheme: "https", host: "s1.example:8443"},
	{text: "s2.example", want: "http://s2.example", scheme: "http", host: "s2.example"},
	{text: "%zz", invalid: true},
}

type c52Case struct {
	NoProxy []int `json:"no_proxy_entries"` // indices into c52Entries
	HTTP    int   `json:"http_proxy"`       // index into c52HTTPVals
	HTTPS   int   `json:"https_proxy"`      // index into c52HTTPSVals
	CGI     bool  `json:"cgi"`
	Scheme  int   `json:"scheme"`
	Host    int   `json:"host"`
	Port    int   `json:"port"`
}

func (x c52Case) noProxy() string {
	var p []string
	for _, i := range x.NoProxy {
		p = append(p, c52Entries[i].text)
	}
	return strings.Join(p, ",")
}

func (x c52Case) reqHost() string {
	h := c52Hosts[x.Host].host
	if p := c52Ports[x.Port]; p != "" {
		h += ":" + p
	}
	return h
}

func (x c52Case) String() string {
	return fmt.Sprintf("Config{HTTPProxy:%q HTTPSProxy:%q NoProxy:%q CGI:%v} request %s://%s/",
		c52HTTPVals[x.HTTP].text, c52HTTPSVals[x.HTTPS].text, x.noProxy(), x.CGI, c52Schemes[x.Scheme], x.reqHost())
}

func c52PrefixEqual(a, b []byte, bits int) bool {
	if len(a) != len(b) {
		return false
	}
	for i := 0; i < bits; i++ {
		if (a[i/8]>>(7-uint(i%8)))&1 != (b[i/8]>>(7-uint(i%8)))&1 {
			return false
		}
	}
	return true
}

// c52Match: does NO_PROXY entry e exclude (host h, effective port) from
// proxying? portOnly reports that it would but for the port restriction.
func c52Match(e c52Entry, h c52Host, port string, fold bool) (match bool, why string, portOnly bool) {
	eq := func(a, b string) bool {
		if fold {
			return strings.EqualFold(a, b)
		}
		return a == b
	}
	hostOK := false
	switch e.kind {
	case c52Star:
		return true, "star", false
	case c52IP:
		if h.ip != nil && c52PrefixEqual(e.ip, h.ip, 8*len(e.ip)) {
			hostOK, why = true, "ip-equal"
		}
	case c52CIDR:
		if h.ip != nil && c52PrefixEqual(e.ip, h.ip, e.bits) {
			hostOK, why = true, "cidr-contains"
		}
	case c52Domain:
		if h.ip == nil {
			if !e.subOnly && eq(h.name, e.name) {
				hostOK, why = true, "domain-itself"
			} else if len(h.name) > len(e.name)+1 && eq(h.name[len(h.name)-len(e.name)-1:], "."+e.name) {
				hostOK, why = true, "subdomain"
			}
		}
	}
	if !hostOK {
		return false, "", false
	}
	if e.port != "" && e.port != port {
		return false, "", true
	}
	if e.port != "" {
		why += "+port"
	}
	return true, why, false
}

func c52Loopback(h c52Host) bool {
	if h.ip == nil {
		return h.name == "localhost"
	}
	if len(h.ip) == 4 {
		return h.ip[0] == 127
	}
	return c52PrefixEqual(h.ip, c52V6one, 128)
}

// c52Bypass is the documented "no proxy" predicate under one reading of the
// two undocumented points (case folding, white space around entries).
func c52Bypass(x c52Case, fold, spacedCount bool) (bypass bool, why string, portOnly bool) {
	h := c52Hosts[x.Host]
	if c52Loopback(h) {
		return true, "loopback", false
	}
	port := c52Ports[x.Port]
	if port == "" {
		port = map[string]string{"http": "80", "https": "443"}[c52Schemes[x.Scheme]]
	}
	for _, i := range x.NoProxy {
		e := c52Entries[i]
		if e.spaced && !spacedCount {
			continue
		}
		m, w, po := c52Match(e, h, port, fold)
		if m {
			return true, e.label + ":" + w, false
		}
		portOnly = portOnly || po
	}
	return false, "", portOnly
}

func c52Check(w *vx.W, x c52Case) {
	cfg := httpproxy.Config{
		HTTPProxy:  c52HTTPVals[x.HTTP].text,
		HTTPSProxy: c52HTTPSVals[x.HTTPS].text,
		NoProxy:    x.noProxy(),
		CGI:        x.CGI,
	}
	scheme := c52Schemes[x.Scheme]
	req := &url.URL{Scheme: scheme, Host: x.reqHost(), Path: "/"}
	got, err := cfg.ProxyFunc()(req)

	pv := c52HTTPVals[x.HTTP]
	if scheme == "https" {
		pv = c52HTTPSVals[x.HTTPS]
	}
	if pv.invalid {
		w.Outcome("excluded:unparsable-proxy-value-for-this-scheme")
		return
	}
	if pv.text == "" {
		if got != nil || err != nil {
			w.Failf("C52/select/proxy-without-configuration", "%v: returned (%v, %v) although no proxy is configured for %s", x, got, err, scheme)
			return
		}
		w.Outcome("direct:none-configured")
		return
	}
	bypass, why, portOnly := c52Bypass(x, false, true)
	agree := true
	for _, fold := range []bool{false, true} {
		for _, sp := range []bool{false, true} {
			if b, _, _ := c52Bypass(x, fold, sp); b != bypass {
				agree = false
			}
		}
	}
	if scheme == "http" && x.CGI {
		if !agree || bypass {
			w.Outcome("excluded:cgi-with-bypassed-host")
			return
		}
		if err == nil || got != nil {
			w.Failf("C52/cgi/http-proxy-not-refused", "%v: returned (%v, %v); HTTP_PROXY applies and CGI is set, want an error", x, got, err)
			return
		}
		w.Nontrivial()
		w.Outcome("refused:cgi")
		return
	}
	if !agree {
		w.Outcome("excluded:depends-on-undocumented-case-or-space-handling")
		return
	}
	if err != nil {
		w.Failf("C52/result/unexpected-error", "%v: error %v", x, err)
		return
	}
	h := c52Hosts[x.Host]
	if bypass {
		if got != nil {
			w.Failf("C52/noproxy/proxied-want-direct:"+why, "%v: returned proxy %v, but the host is excluded from proxying (%s)", x, got, why)
			return
		}
		w.Nontrivial()
		w.Outcome("direct:" + why[strings.Index(why, ":")+1:])
		return
	}
	sit := h.label
	if portOnly {
		sit += "+port-differs"
	}
	if got == nil {
		w.Failf("C52/noproxy/direct-want-proxied:"+sit, "%v: returned no proxy, but the host is neither localhost/loopback nor matched by a NO_PROXY entry", x)
		return
	}
	if got.String() != pv.want || got.Scheme != pv.scheme || got.Host != pv.host {
		other := c52HTTPSVals[x.HTTPS]
		if scheme == "https" {
			other = c52HTTPVals[x.HTTP]
		}
		if other.want != "" && got.String() == other.want {
			w.Failf("C52/select/proxy-of-the-other-scheme", "%v: returned %v, want %s", x, got, pv.want)
		} else {
			w.Failf("C52/select/wrong-proxy-url", "%v: returned %v (scheme %q host %q), want %s", x, got, got.Scheme, got.Host, pv.want)
		}
		return
	}
	if len(x.NoProxy) > 0 {
		w.Nontrivial()
	}
	if portOnly {
		w.Outcome("proxied:port-differs")
	} else {
		w.Outcome("proxied")
	}
}

func TestVerif_C52(t *testing.T) {
	vx.Run(t, "C52", func(c *vx.Ctx) {
		nEnt := vx.Pick(c, c52QuickEntries, len(c52Entries))
		maxList := vx.Pick(c, 2, 3)
		var ents, hosts []string
		for _, e := range c52Entries[:nEnt] {
			ents = append(ents, fmt.Sprintf("%q", e.text))
		}
		for _, h := range c52Hosts {
			hosts = append(hosts, h.host)
		}
		c.Rule(fmt.Sprintf("every NO_PROXY list of <= %d entries (ordered, comma-joined) from {%s} x HTTPProxy {unset, http://p1.example:3128, p2.example:3128, %%zz} x HTTPSProxy {unset, https://s1.example:8443, s2.example, %%zz} x CGI {off,on} (lists of 3 entries: only with both proxies set to their URL form and CGI off); each Config is asked through ProxyFunc about scheme {http,https} x host {%s} x port {default,80,443,8080}. Oracle: no proxy configured for the scheme -> (nil,nil); http + CGI + HTTP_PROXY applies -> error; host is localhost / 127.0.0.0/8 / ::1 or matches an entry ('*'; IP equal, same family, optional port; CIDR contains, same family; domain itself-and-subdomains, subdomains only for '.x'/'*.x', optional port; port = explicit or the scheme default) -> (nil,nil); otherwise the proxy URL of the request's scheme ('host[:port]' form means http://host[:port]). non-trivial = a proxy is configured and the NO_PROXY/loopback decision was compared",
			maxList, strings.Join(ents, " "), strings.Join(hosts, " ")))
		c.Assume("undocumented points are excluded, not guessed: a case is skipped when the expected answer differs between case-sensitive and case-insensitive domain comparison, or between trimming and ignoring an entry written with surrounding spaces; with CGI set and an http URL whose host is excluded from proxying either answer is accepted; unparsable proxy values are only required not to disturb the other scheme")
		c.Assume("not enumerated because neither the statement nor the documentation settles them: IPv6 zone identifiers, IPv4-mapped IPv6, bracketed IPv6 entries without port, ports on CIDR entries, 'LOCALHOST'/'localhost.'/subdomains of localhost, trailing dots, IDNA hosts against entries in the other (A-label/U-label) form — IDN names appear only in identical form on both sides —, schemes other than http/https, '*' combined with a port")
		c.Note("no_proxy_entries", nEnt)
		c.Note("max_list_len", maxList)

		idx := make([]int, nEnt)
		for i := range idx {
			idx[i] = i
		}
		vx.Enumerate(c, "select", vx.Opts{}, func(yield func(c52Case) bool) {
			vx.Strings(idx, 0, maxList, func(np []int) bool {
				for hp := range c52HTTPVals {
					for sp := range c52HTTPSVals {
						if hp == 0 && sp == 0 && len(np) > 0 {
							continue // nothing configured: covered once with the empty list
						}
						if len(np) > 2 && (hp != 1 || sp != 1) {
							continue // longest lists: only the NO_PROXY decision varies
						}
						for _, cgi := range []bool{false, true} {
							if len(np) > 2 && cgi {
								continue
							}
							for s := range c52Schemes {
								for h := range c52Hosts {
									for p := range c52Ports {
										if !yield(c52Case{NoProxy: np, HTTP: hp, HTTPS: sp, CGI: cgi, Scheme: s, Host: h, Port: p}) {
											return false
										}
									}
								}
							}
						}
					}
				}
				return true
			})
		}, c52Check)
	})
}
