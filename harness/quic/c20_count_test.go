package quic

import (
	"fmt"
	"testing"
)

func TestC20Count(t *testing.T) {
	send := []string{"w100:0", "w5000:0", "fl:0", "w100:1", "w5000:1", "fl:1", "md:-50", "md:0", "md:120", "msd0:-50", "msd0:0", "msd0:120", "msd1:120", "ack", "loss", "pto"}
	recv := []string{"s0:+40", "s0:sl-1", "s0:sl0", "s0:sl1", "s0:cl-1", "s0:cl0", "s0:cl1", "s1:+40", "s1:sl1", "s1:cl0", "s1:cl1", "r0:sl1", "r0:cl0", "r1:cl1", "rd0", "rs0", "rd1", "cr0", "cr1", "ack", "loss"}
	for d := 4; d <= 6; d++ {
		n := 0
		qpeerEnumerate(c20SendGen{}, send, d, func([]string) bool { n++; return true })
		m := 0
		qpeerEnumerate(c20RecvGen{}, recv, d, func([]string) bool { m++; return true })
		fmt.Printf("depth %d: send %d recv %d\n", d, n, m)
	}
}
