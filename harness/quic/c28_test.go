package quic

import (
	"bytes"
	"encoding/binary"
	"fmt"
	"reflect"
	"testing"

	"golang.org/x/net/internal/zzverif/vx"
)

// C28 — QUIC frame, packet and transport-parameter codecs round-trip safely.
//
//	part "frames"   every frame type x boundary values of every field: written by
//	                packetWriter.append*Frame (through debugFrame.write) into a packet
//	                with ample / exactly enough / one byte too little room, compared byte
//	                for byte with an independent RFC 9000 §19 encoder, parsed back with
//	                parseDebugFrame (= the consume* functions); out-of-range encodings
//	                must be refused; every single-byte corruption and truncation of every
//	                valid encoding must parse without panic within the input.
//	part "rawframes" valid and out-of-range encodings the writer never produces:
//	                STREAM frames with every OFF/LEN/FIN type byte (data to the end of
//	                the packet, explicit zero offset) x offsets on both sides of
//	                offset+length = 2^62-1, and every frame with non-shortest varints.
//	part "ackranges" ACK frames from range sets of up to 321 (thorough: every count up
//	                to 330) ranges, around every boundary of the one-byte ACK Range
//	                Count the writer reserves, x every amount of packet space: whatever
//	                the writer emits parses back completely to ranges of the set.
//	part "bytes"    every byte string up to length 2 (thorough 3) into every parser.
//	parts "packets", "tparams": see c28_packets_test.go.

// ---- independent encoders

func c28V(b []byte, v uint64) []byte {
	switch {
	case v < 1<<6:
		return append(b, byte(v))
	case v < 1<<14:
		return append(b, 0x40|byte(v>>8), byte(v))
	case v < 1<<30:
		return append(b, 0x80|byte(v>>24), byte(v>>16), byte(v>>8), byte(v))
	case v < 1<<62:
		return append(b, 0xc0|byte(v>>56), byte(v>>48), byte(v>>40), byte(v>>32), byte(v>>24), byte(v>>16), byte(v>>8), byte(v))
	}
	panic("c28: varint out of range")
}

// c28VW encodes v as an RFC 9000 §16 varint: mode 0 in the shortest form, mode 1
// in the next longer form, mode 2 in 8 bytes (all are valid encodings of v).
func c28VW(b []byte, v uint64, mode int) []byte {
	if v >= 1<<62 {
		panic("c28: varint out of range")
	}
	lg := 0 // log2 of the length
	for _, lim := range []uint64{1 << 6, 1 << 14, 1 << 30} {
		if v >= lim {
			lg++
		}
	}
	switch mode {
	case 1:
		lg = min(lg+1, 3)
	case 2:
		lg = 3
	}
	n := 1 << lg
	for i := n - 1; i >= 0; i-- {
		by := byte(v >> (8 * uint(i)))
		if i == n-1 {
			by |= byte(lg) << 6
		}
		b = append(b, by)
	}
	return b
}

func c28Data(n int, salt byte) []byte {
	b := make([]byte, n)
	for i := range b {
		b[i] = byte(i*7) + salt
	}
	return b
}

// c28Exact returns a copy with cap == len so that reads past the end panic.
func c28Exact(b []byte) []byte {
	out := make([]byte, len(b))
	copy(out, b)
	return out[:len(b):len(b)]
}

// ---- frames

type c28F struct {
	K   string `json:"k"`
	A   uint64 `json:"a,omitempty"`
	B   uint64 `json:"b,omitempty"`
	C   uint64 `json:"c,omitempty"`
	L   int    `json:"len,omitempty"`
	Fin bool   `json:"flag,omitempty"` // stream: FIN; max_streams/streams_blocked: unidirectional
	M   uint32 `json:"mask,omitempty"` // ack: blocks received
	Ecn int    `json:"ecn,omitempty"`  // ack: 0 no counts, 1 small counts, 2 large counts
	// part rawframes only:
	T byte `json:"type,omitempty"`  // stream: the raw type byte 0x08..0x0f (0: the form the writer emits)
	W int  `json:"width,omitempty"` // varint encodings: 0 shortest, 1 next longer, 2 all 8 bytes
}

var c28AckWidths = []int64{1, 70, 1, 1, 70, 2, 1, 16400, 1}

func c28AckRanges(mask uint32) (out []i64range[packetNumber]) {
	pos := int64(3)
	for i, w := range c28AckWidths {
		if mask&(1<<uint(i)) != 0 {
			if n := len(out); n > 0 && int64(out[n-1].end) == pos {
				out[n-1].end = packetNumber(pos + w)
			} else {
				out = append(out, i64range[packetNumber]{packetNumber(pos), packetNumber(pos + w)})
			}
		}
		pos += w
	}
	return out
}

// c28Build returns the frame, its RFC 9000 encoding, whether it is a data frame
// (may be truncated to fit) and whether the encoding is out of range (a
// receiver must refuse it).
func c28Build(x c28F) (f debugFrame, ref []byte, data, invalid bool) {
	wv := func(b []byte, v uint64) []byte {
		if x.W == 0 {
			return c28V(b, v)
		}
		return c28VW(b, v, x.W)
	}
	switch x.K {
	case "ping":
		return debugFramePing{}, []byte{0x01}, false, false
	case "handshake_done":
		return debugFrameHandshakeDone{}, []byte{0x1e}, false, false
	case "ack":
		rs := c28AckRanges(x.M)
		var ecn ecnCounts
		typ := byte(0x02)
		switch x.Ecn {
		case 1:
			ecn, typ = ecnCounts{t0: 1, t1: 0, ce: 2}, 0x03
		case 2:
			ecn, typ = ecnCounts{t0: 1<<62 - 1, t1: 16384, ce: 64}, 0x03
		}
		top := rs[len(rs)-1]
		ref = append(ref, typ)
		ref = wv(ref, uint64(top.end-1))
		ref = wv(ref, x.A)
		ref = wv(ref, uint64(len(rs)-1))
		ref = wv(ref, uint64(top.end-top.start-1))
		for i := len(rs) - 2; i >= 0; i-- {
			ref = wv(ref, uint64(rs[i+1].start-rs[i].end-1))
			ref = wv(ref, uint64(rs[i].end-rs[i].start-1))
		}
		if typ == 0x03 {
			ref = wv(ref, uint64(ecn.t0))
			ref = wv(ref, uint64(ecn.t1))
			ref = wv(ref, uint64(ecn.ce))
		}
		return debugFrameAck{ackDelay: unscaledAckDelay(x.A), ranges: rs, ecn: ecn}, ref, false, false
	case "reset_stream":
		ref = wv(wv(wv([]byte{0x04}, x.A), x.B), x.C)
		return debugFrameResetStream{id: streamID(x.A), code: x.B, finalSize: int64(x.C)}, ref, false, false
	case "stop_sending":
		ref = wv(wv([]byte{0x05}, x.A), x.B)
		return debugFrameStopSending{id: streamID(x.A), code: x.B}, ref, false, false
	case "crypto":
		d := c28Data(x.L, 0x11)
		ref = append(wv(wv([]byte{0x06}, x.A), uint64(x.L)), d...)
		return debugFrameCrypto{off: int64(x.A), data: d}, ref, true, false
	case "new_token":
		d := c28Data(x.L, 0x22)
		ref = append(wv([]byte{0x07}, uint64(x.L)), d...)
		return debugFrameNewToken{token: d}, ref, false, x.L == 0
	case "stream":
		d := c28Data(x.L, 0x33)
		if x.T != 0 {
			// raw form: any of the 8 type bytes; without the LEN bit the data runs to the end of the packet
			if x.T&0xf8 != 0x08 || (x.T&0x04 == 0 && x.B != 0) {
				panic("c28: bad raw stream case")
			}
			ref = wv([]byte{x.T}, x.A)
			if x.T&0x04 != 0 {
				ref = wv(ref, x.B)
			}
			if x.T&0x02 != 0 {
				ref = wv(ref, uint64(x.L))
			}
			ref = append(ref, d...)
			return debugFrameStream{id: streamID(x.A), off: int64(x.B), fin: x.T&0x01 != 0, data: d}, ref, true, x.B+uint64(x.L) > 1<<62-1
		}
		typ := byte(0x08 | 0x02)
		if x.B != 0 {
			typ |= 0x04
		}
		if x.Fin {
			typ |= 0x01
		}
		ref = wv([]byte{typ}, x.A)
		if x.B != 0 {
			ref = wv(ref, x.B)
		}
		ref = append(wv(ref, uint64(x.L)), d...)
		return debugFrameStream{id: streamID(x.A), off: int64(x.B), fin: x.Fin, data: d}, ref, true, x.B+uint64(x.L) >= 1<<62
	case "max_data":
		return debugFrameMaxData{max: int64(x.A)}, wv([]byte{0x10}, x.A), false, false
	case "max_stream_data":
		return debugFrameMaxStreamData{id: streamID(x.A), max: int64(x.B)}, wv(wv([]byte{0x11}, x.A), x.B), false, false
	case "max_streams":
		typ, st := byte(0x12), bidiStream
		if x.Fin {
			typ, st = 0x13, uniStream
		}
		return debugFrameMaxStreams{streamType: st, max: int64(x.A)}, wv([]byte{typ}, x.A), false, x.A > 1<<60
	case "data_blocked":
		return debugFrameDataBlocked{max: int64(x.A)}, wv([]byte{0x14}, x.A), false, false
	case "stream_data_blocked":
		return debugFrameStreamDataBlocked{id: streamID(x.A), max: int64(x.B)}, wv(wv([]byte{0x15}, x.A), x.B), false, false
	case "streams_blocked":
		typ, st := byte(0x16), bidiStream
		if x.Fin {
			typ, st = 0x17, uniStream
		}
		return debugFrameStreamsBlocked{streamType: st, max: int64(x.A)}, wv([]byte{typ}, x.A), false, x.A > 1<<60
	case "new_connection_id":
		cid := c28Data(x.L, 0x44)
		var tok statelessResetToken
		copy(tok[:], c28Data(16, 0x55))
		ref = wv(wv([]byte{0x18}, x.A), x.B)
		ref = append(ref, byte(x.L))
		ref = append(ref, cid...)
		ref = append(ref, tok[:]...)
		return debugFrameNewConnectionID{seq: int64(x.A), retirePriorTo: int64(x.B), connID: cid, token: tok}, ref, false, x.L < 1 || x.L > 20 || x.B > x.A
	case "retire_connection_id":
		return debugFrameRetireConnectionID{seq: int64(x.A)}, wv([]byte{0x19}, x.A), false, false
	case "path_challenge", "path_response":
		var d pathChallengeData
		binary.BigEndian.PutUint64(d[:], x.A)
		if x.K == "path_challenge" {
			return debugFramePathChallenge{data: d}, append([]byte{0x1a}, d[:]...), false, false
		}
		return debugFramePathResponse{data: d}, append([]byte{0x1b}, d[:]...), false, false
	case "cc_transport":
		r := c28Data(x.L, 0x61)
		ref = append(wv(wv(wv([]byte{0x1c}, x.A), x.B), uint64(x.L)), r...)
		return debugFrameConnectionCloseTransport{code: transportError(x.A), frameType: x.B, reason: string(r)}, ref, false, false
	case "cc_app":
		r := c28Data(x.L, 0x62)
		ref = append(wv(wv([]byte{0x1d}, x.A), uint64(x.L)), r...)
		return debugFrameConnectionCloseApplication{code: x.A, reason: string(r)}, ref, false, false
	}
	panic("c28: unknown frame kind " + x.K)
}

// c28Norm makes nil and empty byte slices compare equal.
func c28Norm(f debugFrame) debugFrame {
	e := func(b []byte) []byte {
		if len(b) == 0 {
			return nil
		}
		return b
	}
	switch f := f.(type) {
	case debugFrameCrypto:
		f.data = e(f.data)
		return f
	case debugFrameNewToken:
		f.token = e(f.token)
		return f
	case debugFrameStream:
		f.data = e(f.data)
		return f
	case debugFrameNewConnectionID:
		f.connID = e(f.connID)
		return f
	case debugFrameAck:
		if len(f.ranges) == 0 {
			f.ranges = nil
		}
		return f
	}
	return f
}

func c28Write(f debugFrame, avail int) (added bool, out []byte, sentRecord int) {
	var w packetWriter
	w.reset(1200)
	w.start1RTTPacket(0, 0, nil)
	if avail >= 0 {
		w.pktLim = w.payOff + avail
	}
	before := len(w.b)
	added = f.write(&w)
	return added, append([]byte(nil), w.b[before:]...), len(w.sent.b)
}

func c28CheckFrame(w *vx.W, x c28F) {
	const id = "C28/frame/"
	f, ref, isData, invalid := c28Build(x)
	kind := x.K
	if invalid {
		g, n := parseDebugFrame(c28Exact(ref))
		if n >= 0 {
			w.Failf(id+"out-of-range-accepted:"+kind, "%+v: the encoding %x is outside the range RFC 9000 allows, parseDebugFrame returned n=%d %v", x, ref, n, g)
			return
		}
		w.Nontrivial()
		w.Outcome("out-of-range refused")
		return
	}
	// parse the reference encoding
	same := func(g debugFrame) bool { return reflect.DeepEqual(c28Norm(g), c28Norm(f)) }
	if fa, isAck := f.(debugFrameAck); isAck {
		// the primary parser first: ranges arrive highest first
		var got []i64range[packetNumber]
		largest, delay, ecn, an := consumeAckFrame(c28Exact(ref), func(idx int, s, e packetNumber) {
			got = append(got, i64range[packetNumber]{s, e})
		})
		okAck := an == len(ref) && len(got) == len(fa.ranges) && largest == fa.ranges[len(fa.ranges)-1].end-1 && delay == fa.ackDelay && ecn == fa.ecn
		for i := 0; okAck && i < len(got); i++ {
			okAck = got[i] == fa.ranges[len(fa.ranges)-1-i]
		}
		if !okAck {
			w.Failf(id+"reference-encoding-parses-differently:ack", "%+v: RFC encoding %x: consumeAckFrame gave n=%d largest=%d delay=%d ecn=%v ranges(high to low)=%v, want %v", x, ref, an, largest, delay, ecn, got, fa)
			return
		}
		// the debug parser (qlog, test helpers) must report the same ranges in ascending order
		same = func(g debugFrame) bool {
			ga, ok := g.(debugFrameAck)
			if !ok || ga.ackDelay != fa.ackDelay || ga.ecn != fa.ecn || len(ga.ranges) != len(fa.ranges) {
				return false
			}
			inOrder := true
			for i, r := range ga.ranges {
				found := false
				for _, q := range fa.ranges {
					found = found || q == r
				}
				if !found {
					return false
				}
				inOrder = inOrder && r == fa.ranges[i]
			}
			if !inOrder && !w.Failed() {
				w.Failf(id+"debug-ack-parser-ranges-misordered", "%+v: RFC encoding %x: parseDebugFrameAck reports ranges %v, the frame carries (ascending) %v", x, ref, ga.ranges, fa.ranges)
			}
			return true
		}
	}
	g, n := parseDebugFrame(c28Exact(ref))
	if n != len(ref) || !same(g) {
		sig := "reference-encoding-parses-differently:"
		if n < 0 {
			sig = "valid-encoding-refused:"
		}
		w.Failf(id+sig+kind, "%+v: RFC encoding %x parsed to n=%d %v, want n=%d %v", x, ref, n, g, len(ref), f)
		return
	}
	// trailing bytes must not be touched
	if g2, n2 := parseDebugFrame(c28Exact(append(append([]byte(nil), ref...), 0x01, 0xff))); n2 != len(ref) || !same(g2) {
		w.Failf(id+"parse-depends-on-following-bytes:"+kind, "%+v: %x followed by 01ff parsed to n=%d %v", x, ref, n2, g2)
		return
	}
	// write with ample room and with exactly enough room
	for _, avail := range []int{-1, len(ref)} {
		added, out, _ := c28Write(f, avail)
		if !added {
			if isData && avail >= 0 {
				if len(out) != 0 {
					w.Failf(id+"refused-but-wrote:"+kind, "%+v avail=%d: write returned false and left %x in the packet", x, avail, out)
					return
				}
				w.Outcome("data frame refused with exactly enough room")
				continue
			}
			w.Failf(id+"fitting-frame-refused:"+kind, "%+v: %d bytes needed, %d available, write returned false", x, len(ref), avail)
			return
		}
		if !bytes.Equal(out, ref) {
			w.Failf(id+"writer-differs-from-rfc-encoding:"+kind, "%+v avail=%d: wrote %x, RFC 9000 encoding is %x", x, avail, out, ref)
			return
		}
	}
	// too little room
	lo := len(ref) - 1
	if isData {
		lo = 0
	}
	for avail := len(ref) - 1; avail >= lo && avail >= 0; avail-- {
		added, out, sentRec := c28Write(f, avail)
		if !added {
			if len(out) != 0 || sentRec != 0 {
				w.Failf(id+"refused-but-wrote:"+kind, "%+v avail=%d: write returned false and left %x in the packet (sent record %d bytes)", x, avail, out, sentRec)
				return
			}
			continue
		}
		if _, isAck := f.(debugFrameAck); isAck {
			// an ACK frame may drop its oldest ranges to fit (checked in depth by C25 part ackframe)
			if _, an := parseDebugFrame(c28Exact(out)); len(out) > avail || an != len(out) {
				w.Failf(id+"truncated-ack-frame-wrong", "%+v avail=%d: wrote %x (parses n=%d)", x, avail, out, an)
				return
			}
			w.Outcome("ack frame shortened to fit")
			continue
		}
		if !isData {
			w.Failf(id+"written-without-room:"+kind, "%+v: needs %d bytes, %d available, wrote %x", x, len(ref), avail, out)
			return
		}
		if len(out) > avail {
			w.Failf(id+"exceeds-available-space:"+kind, "%+v avail=%d: wrote %d bytes %x", x, avail, len(out), out)
			return
		}
		h, hn := parseDebugFrame(c28Exact(out))
		ok := hn == len(out)
		if ok {
			switch h := h.(type) {
			case debugFrameStream:
				o := f.(debugFrameStream)
				ok = h.id == o.id && h.off == o.off && !h.fin && len(h.data) < len(o.data) && bytes.Equal(h.data, o.data[:len(h.data)])
			case debugFrameCrypto:
				o := f.(debugFrameCrypto)
				ok = h.off == o.off && len(h.data) < len(o.data) && len(h.data) > 0 && bytes.Equal(h.data, o.data[:len(h.data)])
			default:
				ok = false
			}
		}
		if !ok {
			w.Failf(id+"truncated-data-frame-wrong:"+kind, "%+v avail=%d: wrote %x which parses to n=%d %v; want the same id/offset, a proper prefix of the data and no FIN", x, avail, out, hn, h)
			return
		}
		w.Outcome("data frame truncated to fit")
	}
	// corruptions and truncations of the valid encoding: no panic, never consume beyond the input
	for i := 0; i <= len(ref); i++ {
		if _, tn := parseDebugFrame(c28Exact(ref[:i])); tn > i {
			w.Failf(id+"consumed-beyond-input:"+kind, "%+v: %x truncated to %d bytes, parser consumed %d", x, ref, i, tn)
			return
		}
	}
	if len(ref) <= 40 {
		for i := range ref {
			for _, v := range [3]byte{0x00, 0xff, ref[i] + 1} {
				m := c28Exact(ref)
				m[i] = v
				if _, mn := parseDebugFrame(m); mn > len(m) {
					w.Failf(id+"consumed-beyond-input:"+kind, "%+v: %x with byte %d set to %02x, parser consumed %d", x, ref, i, v, mn)
					return
				}
			}
		}
	}
	w.Nontrivial()
	w.Outcome("round trip " + kind)
}

var c28Vals = []uint64{0, 1, 63, 64, 16383, 16384, 1<<30 - 1, 1 << 30, 1<<62 - 1}

func c28GenFrames(c *vx.Ctx, yield func(c28F) bool) {
	V := c28Vals
	y := func(x c28F) bool { return yield(x) }
	for _, k := range []string{"ping", "handshake_done"} {
		if !y(c28F{K: k}) {
			return
		}
	}
	for _, a := range V {
		for _, k := range []string{"max_data", "data_blocked", "retire_connection_id", "path_challenge", "path_response"} {
			if !y(c28F{K: k, A: a}) {
				return
			}
		}
		for _, b := range V {
			for _, k := range []string{"stop_sending", "max_stream_data", "stream_data_blocked"} {
				if !y(c28F{K: k, A: a, B: b}) {
					return
				}
			}
			for _, cc := range V {
				if !y(c28F{K: "reset_stream", A: a, B: b, C: cc}) {
					return
				}
			}
			for _, l := range []int{0, 1, 63, 64} {
				if !y(c28F{K: "cc_transport", A: a, B: b, L: l}) {
					return
				}
			}
			for _, l := range []int{0, 1, 8, 20, 21} {
				if !y(c28F{K: "new_connection_id", A: a, B: b, L: l}) {
					return
				}
			}
			for _, l := range []int{0, 1, 63, 64, 100} {
				for _, fin := range []bool{false, true} {
					if !y(c28F{K: "stream", A: a, B: b, L: l, Fin: fin}) {
						return
					}
				}
			}
		}
		for _, l := range []int{0, 1, 63, 64} {
			if !y(c28F{K: "cc_app", A: a, L: l}) {
				return
			}
		}
		for _, l := range []int{0, 1, 63, 64, 100} {
			if !y(c28F{K: "crypto", A: a, L: l}) {
				return
			}
		}
	}
	for _, uni := range []bool{false, true} {
		for _, a := range append([]uint64{1<<60 - 1, 1 << 60, 1<<60 + 1}, V...) {
			if !y(c28F{K: "max_streams", A: a, Fin: uni}) || !y(c28F{K: "streams_blocked", A: a, Fin: uni}) {
				return
			}
		}
	}
	for _, l := range []int{0, 1, 63, 64, 300} {
		if !y(c28F{K: "new_token", L: l}) {
			return
		}
	}
	nb := len(c28AckWidths)
	for m := uint32(1); m < 1<<uint(nb); m++ {
		for _, d := range []uint64{0, 63, 64, 1<<62 - 1} {
			for ecn := 0; ecn < 3; ecn++ {
				if c.Quick() && (ecn == 2 || d == 63) {
					continue
				}
				if !y(c28F{K: "ack", A: d, M: m, Ecn: ecn}) {
					return
				}
			}
		}
	}
}

// ---- raw encodings (forms the library's own writer never produces)

// c28GenRaw yields, for part "rawframes": every STREAM type byte 0x08..0x0f (all
// OFF/LEN/FIN combinations; the writer only emits LEN-bit forms and never an
// explicit zero offset) x stream IDs x data lengths x offsets at the general
// boundary values and on both sides of offset+length = 2^62-1, and every other
// frame kind with varint fields at the boundary values of part "frames", each
// with its varints in the shortest (STREAM only; the others are in part
// "frames"), the next longer and the 8-byte encoding.
func c28GenRaw(c *vx.Ctx, yield func(c28F) bool) {
	const top = uint64(1<<62 - 1)
	for t := byte(0x08); t <= 0x0f; t++ {
		for w := 0; w <= 2; w++ {
			for _, a := range c28Vals {
				for _, l := range []int{0, 1, 2, 63, 64, 100} {
					offs := []uint64{0}
					if t&0x04 != 0 {
						offs = append(offs, c28Vals[1:]...)
						for _, o := range []uint64{top - 1, top - uint64(l) - 1, top - uint64(l), top - uint64(l) + 1} {
							dup := o > top
							for _, p := range offs {
								dup = dup || p == o
							}
							if !dup {
								offs = append(offs, o)
							}
						}
					}
					for _, b := range offs {
						if !yield(c28F{K: "stream", T: t, W: w, A: a, B: b, L: l}) {
							return
						}
					}
				}
			}
		}
	}
	stop := false
	for w := 1; w <= 2 && !stop; w++ {
		c28GenFrames(c, func(x c28F) bool {
			switch x.K {
			case "stream", "ping", "handshake_done", "path_challenge", "path_response":
				return true // STREAM: above; the others have no varint field
			}
			x.W = w
			if !yield(x) {
				stop = true
			}
			return !stop
		})
	}
}

func c28CheckRaw(w *vx.W, x c28F) {
	const id = "C28/rawframes/"
	f, ref, _, invalid := c28Build(x)
	kind := x.K
	// without a Length field a STREAM frame extends to the end of the packet
	toEnd := x.K == "stream" && x.T != 0 && x.T&0x02 == 0
	tail := append(append([]byte(nil), ref...), 0x01, 0xff)
	if invalid {
		if g, n := parseDebugFrame(c28Exact(ref)); n >= 0 {
			w.Failf(id+"out-of-range-accepted:"+kind, "%+v: the encoding %x is outside the range RFC 9000 allows (§19.8: offset + length above 2^62-1), parseDebugFrame returned n=%d %v", x, ref, n, g)
			return
		}
		if g, n := parseDebugFrame(c28Exact(tail)); n >= 0 {
			w.Failf(id+"out-of-range-accepted:"+kind, "%+v: the encoding %x followed by 01ff is outside the range RFC 9000 allows, parseDebugFrame returned n=%d %v", x, ref, n, g)
			return
		}
		w.Nontrivial()
		w.Outcome("raw: out-of-range refused")
		return
	}
	same := func(g debugFrame) bool { return reflect.DeepEqual(c28Norm(g), c28Norm(f)) }
	parse := parseDebugFrame
	if fa, isAck := f.(debugFrameAck); isAck {
		// the primary parser (ranges arrive highest first); the debug parser's order is part "frames"
		parse = func(b []byte) (debugFrame, int) {
			var got debugFrameAck
			var n int
			_, got.ackDelay, got.ecn, n = consumeAckFrame(b, func(idx int, s, e packetNumber) {
				got.ranges = append(got.ranges, i64range[packetNumber]{s, e})
			})
			return got, n
		}
		same = func(g debugFrame) bool {
			ga := g.(debugFrameAck)
			ok := ga.ackDelay == fa.ackDelay && ga.ecn == fa.ecn && len(ga.ranges) == len(fa.ranges)
			for i := 0; ok && i < len(ga.ranges); i++ {
				ok = ga.ranges[i] == fa.ranges[len(fa.ranges)-1-i]
			}
			return ok
		}
	}
	g, n := parse(c28Exact(ref))
	if n != len(ref) || !same(g) {
		sig := "valid-encoding-parses-differently:"
		if n < 0 {
			sig = "valid-encoding-refused:"
		}
		w.Failf(id+sig+kind, "%+v: RFC 9000 encoding %x parsed to n=%d %v, want n=%d %v", x, ref, n, g, len(ref), f)
		return
	}
	if !toEnd {
		if g2, n2 := parse(c28Exact(tail)); n2 != len(ref) || !same(g2) {
			w.Failf(id+"parse-depends-on-following-bytes:"+kind, "%+v: %x followed by 01ff parsed to n=%d %v", x, ref, n2, g2)
			return
		}
	}
	for i := 1; i <= len(ref); i++ {
		if _, tn := parseDebugFrame(c28Exact(ref[:i])); tn > i {
			w.Failf(id+"consumed-beyond-input:"+kind, "%+v: %x truncated to %d bytes, parser consumed %d", x, ref, i, tn)
			return
		}
	}
	w.Nontrivial()
	w.Outcome("raw: accepted " + kind)
	if x.K == "stream" {
		if toEnd {
			w.Outcome("raw: STREAM frame without Length field")
		}
		if x.T&0x04 != 0 && x.B == 0 {
			w.Outcome("raw: STREAM frame with explicit offset 0")
		}
		if x.B+uint64(x.L) == 1<<62-1 {
			w.Outcome("raw: STREAM frame ending exactly at 2^62-1")
		}
	}
}

// ---- ACK frames with many ranges (the one-byte ACK Range Count)

// c28AckN is one case of part "ackranges": an ACK frame for a range set of N
// disjoint ranges of a given shape, written into Avail bytes of packet space
// (Avail < 0: the untouched 1-RTT packet of a 1200-byte datagram).
type c28AckN struct {
	N     int `json:"ranges"`
	Shape int `json:"shape"`
	Ecn   int `json:"ecn"`
	Avail int `json:"avail"`
}

type c28AckShape struct {
	name   string
	base   int64
	widths []int64 // numbers in range i (cyclic)
	holes  []int64 // missing numbers above range i (cyclic)
	delay  uint64
}

// one- and multi-byte varints in every per-range field, and all-zero fields
var c28AckShapes = []c28AckShape{
	{"gap field 0, length field 0", 0, []int64{1}, []int64{1}, 0},
	{"gap field 1, length field 1", 0, []int64{2}, []int64{2}, 10},
	{"2-byte gap fields", 61, []int64{1}, []int64{65}, 64},
	{"2-byte length fields", 16380, []int64{70}, []int64{1}, 16384},
	{"mixed 1/2/4-byte fields", 3, []int64{1, 70, 2, 1}, []int64{1, 65, 2, 16385}, 1 << 30},
}

func c28AckShapeRanges(sh c28AckShape, n int) rangeset[packetNumber] {
	out := make(rangeset[packetNumber], 0, n)
	pos := sh.base
	for i := 0; i < n; i++ {
		w := sh.widths[i%len(sh.widths)]
		out = append(out, i64range[packetNumber]{packetNumber(pos), packetNumber(pos + w)})
		pos += w + sh.holes[i%len(sh.holes)]
	}
	return out
}

func c28AckEcn(k int) ecnCounts {
	switch k {
	case 1:
		return ecnCounts{t0: 1, t1: 0, ce: 2}
	case 2:
		return ecnCounts{t0: 1<<62 - 1, t1: 16384, ce: 64}
	}
	return ecnCounts{}
}

// c28AckFullLen is the length of the RFC 9000 §19.3 encoding of all n ranges
// (independent encoder).
func c28AckFullLen(rs rangeset[packetNumber], delay uint64, ecn ecnCounts) int {
	top := rs[len(rs)-1]
	b := c28V(c28V(c28V(c28V([]byte{0x02}, uint64(top.end-1)), delay), uint64(len(rs)-1)), uint64(top.end-top.start-1))
	for i := len(rs) - 2; i >= 0; i-- {
		b = c28V(c28V(b, uint64(rs[i+1].start-rs[i].end-1)), uint64(rs[i].end-rs[i].start-1))
	}
	if (ecn != ecnCounts{}) {
		b = c28V(c28V(c28V(b, uint64(ecn.t0)), uint64(ecn.t1)), uint64(ecn.ce))
	}
	return len(b)
}

// c28AckRoom is the payload space of the untouched 1-RTT packet c28Write uses.
func c28AckRoom() int {
	var w packetWriter
	w.reset(1200)
	w.start1RTTPacket(0, 0, nil)
	return w.avail()
}

func c28GenAckN(c *vx.Ctx, yield func(c28AckN) bool) {
	// range counts: small ones, both sides of every count the one-byte ACK Range
	// Count can hold (62, 63, 64 additional ranges = 63, 64, 65 ranges), of the
	// 1->2-byte varint step, and of the wrap of a byte counter (256 additional).
	ns := []int{1, 2, 3, 8, 32, 61, 62, 63, 64, 65, 66, 67, 100, 127, 128, 129, 130, 200, 255, 256, 257, 258, 300, 319, 320, 321}
	if !c.Quick() {
		ns = ns[:0]
		for n := 1; n <= 330; n++ {
			ns = append(ns, n)
		}
	}
	availCap := vx.Pick(c, 300, 1<<30)
	room := c28AckRoom()
	for _, n := range ns {
		for si, sh := range c28AckShapes {
			rs := c28AckShapeRanges(sh, n)
			for ecn := 0; ecn < 3; ecn++ {
				if c.Quick() && ecn == 1 {
					continue
				}
				if !yield(c28AckN{N: n, Shape: si, Ecn: ecn, Avail: -1}) {
					return
				}
				hi := min(c28AckFullLen(rs, sh.delay, c28AckEcn(ecn))+2, availCap, room)
				for a := 0; a <= hi; a++ {
					if !yield(c28AckN{N: n, Shape: si, Ecn: ecn, Avail: a}) {
						return
					}
				}
			}
		}
	}
}

func c28CheckAckN(w *vx.W, x c28AckN) {
	const id = "C28/ackranges/"
	sh := c28AckShapes[x.Shape]
	seen := c28AckShapeRanges(sh, x.N)
	ecn := c28AckEcn(x.Ecn)
	var pw packetWriter
	pw.reset(1200)
	pw.start1RTTPacket(0, 0, nil)
	if x.Avail >= 0 {
		pw.pktLim = pw.payOff + x.Avail
	}
	room := pw.avail()
	before, sentBefore := len(pw.b), len(pw.sent.b)
	added := pw.appendAckFrame(seen, unscaledAckDelay(sh.delay), ecn)
	if !added {
		if len(pw.b) != before || len(pw.sent.b) != sentBefore {
			w.Failf(id+"refused-but-wrote", "%+v (%s): appendAckFrame returned false but the packet grew by %d bytes (sent record by %d)", x, sh.name, len(pw.b)-before, len(pw.sent.b)-sentBefore)
			return
		}
		w.Outcome("ack frame refused for lack of room")
		return
	}
	frame := c28Exact(pw.b[before:])
	if len(frame) > room {
		w.Failf(id+"exceeds-available-space", "%+v (%s): frame of %d bytes written with %d available", x, sh.name, len(frame), room)
		return
	}
	// the primary parser: must consume exactly the bytes written
	var got []i64range[packetNumber] // highest first
	orderOK := true
	largest, delay, gotEcn, n := consumeAckFrame(frame, func(idx int, s, e packetNumber) {
		orderOK = orderOK && idx == len(got)
		got = append(got, i64range[packetNumber]{s, e})
	})
	if n != len(frame) || !orderOK || len(got) == 0 {
		w.Failf(id+"does-not-parse-back", "%+v (%s): wrote %d bytes %x, consumeAckFrame consumed %d and reported %d ranges", x, sh.name, len(frame), frame, n, len(got))
		return
	}
	if delay != unscaledAckDelay(sh.delay) || gotEcn != ecn {
		w.Failf(id+"delay-or-ecn-changed", "%+v (%s): parsed delay=%d ecn=%v, written delay=%d ecn=%v; frame %x", x, sh.name, delay, gotEcn, sh.delay, ecn, frame)
		return
	}
	top := seen[len(seen)-1]
	if got[0] != top || largest != top.end-1 {
		w.Failf(id+"largest-range-wrong", "%+v (%s): first range %v largest %d, the highest range given is %v; frame %x", x, sh.name, got[0], largest, top, frame)
		return
	}
	// every further range: below the previous one and inside one range of the input
	j := len(seen) - 1
	for i := 1; i < len(got); i++ {
		r := got[i]
		if r.start >= r.end || r.end >= got[i-1].start {
			w.Failf(id+"does-not-parse-back", "%+v (%s): parsed range %d = %v is empty or not below the previous one %v; frame %x", x, sh.name, i, r, got[i-1], frame)
			return
		}
		for j >= 0 && seen[j].start >= r.end {
			j--
		}
		if j < 0 || r.start < seen[j].start || r.end > seen[j].end {
			w.Failf(id+"acknowledges-number-not-in-set", "%+v (%s): parsed range %d = %v is not inside any range of the set given to the writer; frame %x", x, sh.name, i, r, frame)
			return
		}
	}
	// the debug parser (qlog, test helpers): same frame, ranges ascending, same length
	g, dn := parseDebugFrame(frame)
	ga, isAck := g.(debugFrameAck)
	okDebug := isAck && dn == len(frame) && ga.ackDelay == delay && ga.ecn == ecn && len(ga.ranges) == len(got)
	for i := 0; okDebug && i < len(got); i++ {
		okDebug = ga.ranges[i] == got[len(got)-1-i]
	}
	if !okDebug {
		w.Failf(id+"debug-parser-differs", "%+v (%s): wrote %d bytes %x; parseDebugFrame consumed %d and gave %v, consumeAckFrame gave (high to low) %v", x, sh.name, len(frame), frame, dn, g, got)
		return
	}
	w.Nontrivial()
	switch {
	case len(got) == len(seen):
		w.Outcome("ack frame carries all ranges")
	case x.Avail < 0:
		w.Outcome("ack frame with ample room limited to the newest ranges")
	default:
		w.Outcome("ack frame shortened to fit")
	}
	if len(got)-1 >= 63 {
		w.Outcome("ack frame with 63 or more additional ranges")
	}
}

// ---- arbitrary bytes

type c28B struct {
	P []byte `json:"prefix"`
	// Ext: additionally try every one-byte extension of the prefix
	Ext bool `json:"extend"`
}

func c28CheckBytes(w *vx.W, x c28B) {
	const id = "C28/bytes/"
	ik := initialKeys([]byte{1, 2, 3, 4, 5, 6, 7, 8}, serverSide)
	var k updatingKeyPair
	k.r.init(0x1301, []byte("c28 secret"))
	k.w = k.r
	try := func(in []byte) {
		if len(in) > 0 {
			if _, n := parseDebugFrame(c28Exact(in)); n > len(in) || n == 0 {
				w.Failf(id+"frame-parser-consumed-beyond-input", "parseDebugFrame(%x) consumed %d bytes", in, n)
			}
		}
		unmarshalTransportParams(c28Exact(in))
		if _, n := parseLongHeaderPacket(c28Exact(in), ik.r, 0); n > len(in) {
			w.Failf(id+"long-header-parser-consumed-beyond-input", "parseLongHeaderPacket(%x) = %d", in, n)
		}
		if _, n := parseLongHeaderPacket(c28Exact(in), fixedKeys{}, 0); n > len(in) {
			w.Failf(id+"long-header-parser-consumed-beyond-input", "parseLongHeaderPacket(%x) without keys = %d", in, n)
		}
		if n := skipLongHeaderPacket(c28Exact(in)); n > len(in) {
			w.Failf(id+"skip-long-header-beyond-input", "skipLongHeaderPacket(%x) = %d", in, n)
		}
		if _, err := parse1RTTPacket(c28Exact(in), &k, connIDLen, 0); err == nil {
			w.Failf(id+"short-packet-accepted", "parse1RTTPacket(%x) accepted a packet too short to carry an AEAD tag", in)
		}
		if cid, ok := dstConnIDForDatagram(c28Exact(in)); ok && len(cid) > len(in) {
			w.Failf(id+"dst-conn-id-beyond-input", "dstConnIDForDatagram(%x) = %x", in, cid)
		}
		parseVersionNegotiation(c28Exact(in))
		parseGenericLongHeaderPacket(c28Exact(in))
		getPacketType(c28Exact(in))
	}
	try(x.P)
	if x.Ext {
		for b := 0; b < 256; b++ {
			try(append(append([]byte(nil), x.P...), byte(b)))
		}
	}
	w.Nontrivial()
	if len(x.P) > 0 {
		if _, n := parseDebugFrame(c28Exact(x.P)); n > 0 {
			w.Outcome("short input is a complete frame")
		} else {
			w.Outcome("short input refused by the frame parser")
		}
	}
}

func TestVerif_C28(t *testing.T) {
	vx.Run(t, "C28", func(c *vx.Ctx) {
		c.Rule("part frames: for every frame type every combination of per-field values {0, 1, 63, 64, 16383, 16384, 2^30-1, 2^30, 2^62-1} (stream counts additionally 2^60-1, 2^60, 2^60+1), data/token/reason/connection-ID lengths {0, 1, 8, 20, 21, 63, 64, 100, 300 as applicable}, FIN on/off, ACK frames for every subset of 9 blocks of widths 1/2/70/16400 x ack delays x ECN counts: (1) the RFC 9000 §19 encoding produced by an independent encoder parses (parseDebugFrame, i.e. the consume* functions) to exactly the fields, also when followed by other bytes; (2) the writer emits exactly that encoding with ample and with exactly enough room, and with less room writes nothing (ACK frames may drop old ranges; data frames: for every smaller room a frame within the room carrying a proper prefix, same offset, no FIN, or nothing); (3) encodings outside RFC ranges (stream counts > 2^60, empty/over-long connection IDs, retire_prior_to > sequence, empty NEW_TOKEN, stream offset+length >= 2^62) are refused; (4) every truncation and every byte set to 00/ff/+1 of every valid encoding parses without panic and without consuming more than the input. Non-trivial = all applicable sub-checks ran for the case.")
		c.Rule(fmt.Sprintf("part bytes: every byte string of length <= %d into parseDebugFrame, unmarshalTransportParams, parseLongHeaderPacket (with and without keys), skipLongHeaderPacket, parse1RTTPacket, dstConnIDForDatagram, parseVersionNegotiation, parseGenericLongHeaderPacket, getPacketType, as slices with cap==len (a read past the end panics): no panic, nothing consumed beyond the input.", vx.Pick(c, 2, 3)))
		c.Assume("frame parsers are only called with at least the type byte present (Conn.handleFrames dispatches on payload[0]); the writer is only asked to emit frames RFC 9000 allows")
		vx.Enumerate(c, "frames", vx.Opts{}, func(yield func(c28F) bool) { c28GenFrames(c, yield) }, c28CheckFrame)
		c.Rule("part rawframes: encodings built by the independent encoder that packetWriter never produces, through parseDebugFrame (ACK: consumeAckFrame): (a) STREAM frames with every type byte 0x08..0x0f (every OFF/LEN/FIN combination; without LEN the data runs to the end of the input, with OFF the offset is explicit also when 0) x stream ID in the 9 boundary values x data length {0, 1, 2, 63, 64, 100} x offset in the boundary values + {2^62-2, 2^62-2-len, 2^62-1-len, 2^62-len} (both sides of offset+length = 2^62-1) x varints in the shortest / next longer / 8-byte form; (b) every other frame kind with a varint field, at all field/length combinations of part frames, with all varints in the next longer and in the 8-byte form. A frame inside RFC 9000 ranges must be consumed completely and yield exactly the fields (also when followed by other bytes, unless it has no Length field); a STREAM frame with offset+length > 2^62-1 (§19.8) and the out-of-range encodings of part frames must be refused; truncations consume no more than the input. Non-trivial = the case was parsed and compared.")
		vx.Enumerate(c, "rawframes", vx.Opts{}, func(yield func(c28F) bool) { c28GenRaw(c, yield) }, c28CheckRaw)
		c.Rule(fmt.Sprintf("part ackranges: packetWriter.appendAckFrame on range sets of N disjoint ranges, N in %s, x 5 shapes (per-range gap/length fields all 0; all 1; 2-byte gaps; 2-byte lengths; mixed 1/2/4-byte fields; largest acknowledged and ack delay from 1 to 4-byte varints) x ECN counts {none%s, large} x remaining packet space {every value 0..min(length of the complete RFC 9000 encoding + 2, %s), the untouched 1-RTT packet of a 1200-byte datagram (%d bytes)}. The writer reserves one byte for the ACK Range Count, so the family contains 62/63/64/65 additional ranges with room for all of them (and the counts where a 2-byte count or a wrapped byte counter would appear). An emitted frame must fit the space; consumeAckFrame must consume exactly the bytes written and report the written delay and ECN counts, the highest range of the set exactly, and below it only strictly descending non-empty ranges each inside a range of the set (older ranges may be dropped); parseDebugFrame must consume the same bytes and report the same ranges ascending; a refused frame leaves packet and sent record untouched. Non-trivial = frame emitted and parsed back.",
			vx.Pick(c, "{1, 2, 3, 8, 32, 61..67, 100, 127..130, 200, 255..258, 300, 319..321}", "1..330"), vx.Pick(c, "", ", small"), vx.Pick(c, "300", "the packet"), c28AckRoom()))
		vx.Enumerate(c, "ackranges", vx.Opts{}, func(yield func(c28AckN) bool) { c28GenAckN(c, yield) }, c28CheckAckN)
		vx.Enumerate(c, "bytes", vx.Opts{NoSample: true}, func(yield func(c28B) bool) {
			if !yield(c28B{P: nil, Ext: true}) {
				return
			}
			for a := 0; a < 256; a++ {
				if !yield(c28B{P: []byte{byte(a)}, Ext: true}) {
					return
				}
			}
			if c.Quick() {
				return
			}
			for a := 0; a < 256; a++ {
				for b := 0; b < 256; b++ {
					if !yield(c28B{P: []byte{byte(a), byte(b)}, Ext: true}) {
						return
					}
				}
			}
		}, c28CheckBytes)
		c28Packets(c)
		c28TParams(c)
	})
}
