package quic

import (
	"fmt"
	"sort"
	"strings"
	"sync"
	"testing"

	"golang.org/x/net/internal/zzverif/vx"
)

// C30 — the stream byte buffer (pipe) stores exactly the bytes written.
//
// Discipline SEQ with state deduplication: breadth-first search over operation
// sequences on a fresh real pipe (natural 4096-byte chunks) in lock-step with
// a reference model that is a plain array offset -> last writer (hence byte) plus the
// window [start, end).
//
// Operations:
//   w(off,len)   writeAt(data, off), off in P, len in LENS
//   we(len)      writeAt(data, p.end)                      (sequential write)
//   d(off)       discardBefore(off), off in P, off >= start
//   de           discardBefore(p.end)
//   f(len,mid)   the Stream.Write fast path: buf := availableBuffer(); optionally
//                a discardBefore(mid <= end) in between (an ack arriving);
//                write min(len, len(buf)) bytes into buf; p.end += n
//
// Every written byte is a function of the operation's position in the history
// (top 3 bits, never 0) and of its absolute stream offset (low 5 bits), so
// stale, misplaced or lost data is visible. After every operation start/end and
// the whole window are compared; on every new state additionally every
// sub-range read (copy and read with its callback), and peek.

const c30Poison = 0x0e // never produced by c30Fill

func c30Fill(seq int, abs int64) byte {
	return byte((seq-1)%7+1)<<5 | byte((abs+(abs>>5)*3+(abs>>12)*7)&31)
}

type c30Op struct {
	K   string `json:"op"`
	Off int64  `json:"off"`
	Len int64  `json:"len"`
	Mid int64  `json:"mid"` // f only: -1 no discard in between, -2 discardBefore(end), else discardBefore(mid)
}

func (o c30Op) String() string {
	switch o.K {
	case "w":
		return fmt.Sprintf("writeAt(off=%d,len=%d)", o.Off, o.Len)
	case "we":
		return fmt.Sprintf("writeAt(off=end,len=%d)", o.Len)
	case "d":
		return fmt.Sprintf("discardBefore(%d)", o.Off)
	case "de":
		return "discardBefore(end)"
	case "f":
		m := "none"
		if o.Mid == -2 {
			m = "discardBefore(end)"
		} else if o.Mid >= 0 {
			m = fmt.Sprintf("discardBefore(%d)", o.Mid)
		}
		return fmt.Sprintf("fastpath(len<=%d,between=%s)", o.Len, m)
	}
	return "?"
}

// c30Bufs are the model's arrays; they are recycled between explored histories
// (always cleared before reuse) only to keep the allocator out of the profile.
type c30Bufs struct {
	owner []uint8 // owner[abs] = position (1..) in the history of the operation that last wrote abs; 0 = never written
	hi    int64   // owner[hi:] is all zero
	data  []byte  // scratch for the bytes handed to writeAt
	rd    []byte  // scratch for reads
}

var c30Pool = sync.Pool{New: func() any {
	return &c30Bufs{owner: make([]uint8, 1<<16), data: make([]byte, 0, 1<<14), rd: make([]byte, 0, 1<<16)}
}}

type c30State struct {
	p          pipe
	start, end int64
	*c30Bufs
	seq      int
	lastKind string // kind of the last operation (for signatures)
	limit    int64  // closure part: the universe is [0, limit); 0 = unbounded
}

func c30New() *c30State { return &c30State{c30Bufs: c30Pool.Get().(*c30Bufs)} }

func c30Close(s *c30State) {
	b := s.c30Bufs
	if b == nil {
		return
	}
	s.c30Bufs = nil
	// Return the pipe's chunks to the package's chunk pool, as discarding the
	// whole pipe would (keeps the allocator quiet and makes recycled chunks the
	// common case). Their contents are poisoned first: a recycled chunk must
	// never carry bytes that equal what a later execution of the same history
	// expects at the same place, or a lost write would go unnoticed.
	for pb, i := s.p.head, 0; pb != nil && i < 64; i++ {
		next := pb.next
		for j := range pb.b {
			pb.b[j] = c30Poison
		}
		pb.recycle()
		pb = next
	}
	s.p = pipe{}
	clear(b.owner[:b.hi])
	b.hi = 0
	c30Pool.Put(b)
}

func (s *c30State) set(abs int64) {
	if abs >= int64(len(s.owner)) {
		s.owner = append(s.owner, make([]uint8, abs+1-int64(len(s.owner))+4096)...)
	}
	s.owner[abs] = uint8(s.seq)
	if abs >= s.hi {
		s.hi = abs + 1
	}
}

// get returns the byte last written at abs, if any.
func (s *c30State) get(abs int64) (byte, bool) {
	if abs >= s.hi || s.owner[abs] == 0 {
		return 0, false
	}
	return c30Fill(int(s.owner[abs]), abs), true
}

// scratch returns a zero-length slice with capacity >= n.
func c30Scratch(b *[]byte, n int) []byte {
	if cap(*b) < n {
		*b = make([]byte, 0, n+4096)
	}
	return (*b)[:0]
}

// c30Where classifies an absolute offset for signatures.
func c30Where(abs int64) string {
	switch abs % 4096 {
	case 0:
		return "first-byte-of-chunk"
	case 4095:
		return "last-byte-of-chunk"
	}
	return "inside-chunk"
}

// c30CopyCheck reads [a,b) with copy and compares every known byte.
func c30CopyCheck(w *vx.W, s *c30State, a, b int64, clause, ctx string) bool {
	n := int(b - a)
	const guard = 8
	buf := c30Scratch(&s.rd, n+guard)[:n+guard]
	for i := range buf {
		buf[i] = c30Poison
	}
	s.p.copy(a, buf[:n:n+guard])
	for i := n; i < n+guard; i++ {
		if buf[i] != c30Poison {
			w.Failf("C30/"+clause+"/writes-past-requested-length", "%s: copy(off=%d, %d bytes) stored data beyond the requested length; window [%d,%d)", ctx, a, n, s.start, s.end)
			return false
		}
	}
	for i := 0; i < n; i++ {
		if want, ok := s.get(a + int64(i)); ok && buf[i] != want {
			w.Failf("C30/"+clause+"/wrong-byte/"+c30Where(a+int64(i)), "%s: copy(off=%d, %d bytes): byte at stream offset %d is %#02x, last written %#02x; window [%d,%d), chunks %s", ctx, a, n, a+int64(i), buf[i], want, s.start, s.end, c30Chunks(&s.p))
			return false
		}
	}
	return true
}

func c30Chunks(p *pipe) string {
	var sb strings.Builder
	i := 0
	for pb := p.head; pb != nil; pb = pb.next {
		if i++; i > 64 {
			sb.WriteString("...")
			break
		}
		fmt.Fprintf(&sb, "%d", pb.off)
		if pb == p.tail {
			sb.WriteByte('T')
		}
		sb.WriteByte(',')
	}
	if p.head == nil {
		sb.WriteString("none")
		if p.tail != nil {
			sb.WriteString("+tail")
		}
	}
	return sb.String()
}

func c30Canon(s *c30State) string {
	// All diverged states are one state: the first one reached (the shortest
	// history, in operation order) is the one c30Final reports; a defect does
	// not fan out into one report per later operation.
	if c30Diverged(s) {
		return "DIVERGED"
	}
	var sb strings.Builder
	fmt.Fprintf(&sb, "%d,%d|%s|", s.p.start, s.p.end, c30Chunks(&s.p))
	// runs of known / unknown offsets inside the window
	run, cur := int64(0), false
	for o := s.start; o < s.end; o++ {
		_, k := s.get(o)
		if o == s.start {
			cur = k
		}
		if k != cur {
			fmt.Fprintf(&sb, "%v%d,", cur, run)
			run, cur = 0, k
		}
		run++
	}
	fmt.Fprintf(&sb, "%v%d", cur, run)
	return sb.String()
}

// c30Diverged reports whether some written byte of the window reads back
// differently (or reading the window panics).
func c30Diverged(s *c30State) (bad bool) {
	defer func() {
		if recover() != nil {
			bad = true
		}
	}()
	n := s.end - s.start
	if n < 0 || s.p.start != s.start || s.p.end != s.end {
		return true
	}
	buf := c30Scratch(&s.rd, int(n))[:n]
	s.p.copy(s.start, buf)
	for i, b := range buf {
		if want, ok := s.get(s.start + int64(i)); ok && want != b {
			return true
		}
	}
	return false
}

func c30Enabled(s *c30State, op c30Op) bool {
	switch op.K {
	case "d":
		return op.Off >= s.start
	case "f":
		// availableBuffer may be called in any state (Stream.Write does so after
		// an empty write too); without available space the operation changes
		// nothing and c30Apply prunes it.
		return op.Mid < 0 || (op.Mid >= s.start && op.Mid <= s.end)
	}
	return true
}

func c30Apply(w *vx.W, s *c30State, op c30Op) bool {
	s.seq++
	kind := op.K
	write := func(off, n int64) {
		data := c30Scratch(&s.data, int(n))[:n]
		for i := range data {
			data[i] = c30Fill(s.seq, off+int64(i))
		}
		s.p.writeAt(data, off)
		for i := range data {
			if a := off + int64(i); a >= s.start {
				s.set(a)
			}
			data[i] = c30Poison // the pipe must have copied it
		}
		s.end = max(s.end, off+n)
	}
	discard := func(off int64) {
		// Everything before off is dead once discardBefore returns; poison it
		// so that chunks the pipe recycles never carry plausible data (see c30Close).
		for pb, i := s.p.head, 0; pb != nil && i < 64; pb, i = pb.next, i+1 {
			for j := range pb.b {
				if pb.off+int64(j) >= off {
					break
				}
				pb.b[j] = c30Poison
			}
		}
		s.p.discardBefore(off)
		s.start = off
		s.end = max(s.end, off)
	}
	switch op.K {
	case "w":
		write(op.Off, op.Len)
	case "we":
		write(s.end, op.Len)
	case "d":
		discard(op.Off)
	case "de":
		discard(s.end)
	case "f":
		buf := s.p.availableBuffer()
		n := min(op.Len, int64(len(buf)))
		if s.limit > 0 {
			n = min(n, s.limit-s.end)
		}
		if n <= 0 {
			return false
		}
		if op.Mid == -2 {
			discard(s.end)
			kind = "f+discard"
		} else if op.Mid >= 0 {
			discard(op.Mid)
			kind = "f+discard"
		}
		for i := int64(0); i < n; i++ {
			buf[i] = c30Fill(s.seq, s.end+i)
			s.set(s.end + i)
		}
		s.p.end += n
		s.end += n
	}
	if s.p.start != s.start {
		w.Failf("C30/window/start/after-"+kind, "after %v: pipe.start=%d, reference %d", op, s.p.start, s.start)
		return false
	}
	if s.p.end != s.end {
		w.Failf("C30/window/end/after-"+kind, "after %v: pipe.end=%d, reference %d", op, s.p.end, s.end)
		return false
	}
	s.lastKind = kind
	// The whole-window comparison for this transition happens in c30Canon
	// (c30Diverged), which the explorer evaluates once per explored transition
	// but not while re-playing a prefix; a divergence makes a distinct state, on
	// which c30Final reports it.
	// recorded, not asserted: the struct comments' chunk-list relations
	nch := 0
	for pb := s.p.head; pb != nil && nch < 64; pb = pb.next {
		nch++
	}
	w.Outcome(fmt.Sprintf("chunks=%d", nch))
	if s.p.head != nil && s.p.head.end() <= s.p.start {
		w.Outcome("head chunk holds no live byte (struct comment says head.end > start)")
	}
	return true
}

// c30Final: every sub-range read with endpoints in P u {start, start+1, end-1,
// end}, through copy and through read's callback, and peek.
func c30Final(pts []int64) func(w *vx.W, s *c30State) {
	return func(w *vx.W, s *c30State) {
		var q []int64
		for _, x := range append([]int64{s.start, s.start + 1, s.end - 1, s.end}, pts...) {
			if x >= s.start && x <= s.end {
				q = append(q, x)
			}
		}
		sort.Slice(q, func(i, j int) bool { return q[i] < q[j] })
		ctx := "in the state reached by the history"
		got := make([]byte, 0, s.end-s.start)
		if !c30CopyCheck(w, s, s.start, s.end, "read-whole-window/after-"+s.lastKind, ctx) {
			return
		}
		for i, a := range q {
			if i > 0 && q[i-1] == a {
				continue
			}
			for j := i; j < len(q); j++ {
				b := q[j]
				if j > i && q[j-1] == b {
					continue
				}
				if !c30CopyCheck(w, s, a, b, "read-sub-range", ctx) {
					return
				}
				// read: the concatenation of the callback's slices is [a,b)
				got = got[:0]
				calls := 0
				err := s.p.read(a, int(b-a), func(c []byte) error {
					calls++
					got = append(got, c...)
					return nil
				})
				if err != nil || int64(len(got)) != b-a {
					w.Failf("C30/read-callback/length", "%s: read(off=%d, n=%d) delivered %d bytes in %d calls, err=%v; window [%d,%d), chunks %s", ctx, a, b-a, len(got), calls, err, s.start, s.end, c30Chunks(&s.p))
					return
				}
				for k := range got {
					if want, ok := s.get(a + int64(k)); ok && got[k] != want {
						w.Failf("C30/read-callback/wrong-byte/"+c30Where(a+int64(k)), "%s: read(off=%d, n=%d): byte at stream offset %d is %#02x, last written %#02x; chunks %s", ctx, a, b-a, a+int64(k), got[k], want, c30Chunks(&s.p))
						return
					}
				}
			}
		}
		// peek(n), n within the window: a prefix of the window, at most n bytes
		for _, n := range []int64{0, 1, 2, 4095, 4096, 4097, s.end - s.start} {
			if n > s.end-s.start {
				continue
			}
			b := s.p.peek(n)
			if int64(len(b)) > n {
				w.Failf("C30/peek/longer-than-requested", "%s: peek(%d) returned %d bytes", ctx, n, len(b))
				return
			}
			for k := range b {
				if want, ok := s.get(s.start + int64(k)); ok && b[k] != want {
					w.Failf("C30/peek/wrong-byte/"+c30Where(s.start+int64(k)), "%s: peek(%d): byte %d (stream offset %d) is %#02x, last written %#02x; window [%d,%d), chunks %s", ctx, n, k, s.start+int64(k), b[k], want, s.start, s.end, c30Chunks(&s.p))
					return
				}
			}
			if n > 0 && len(b) == 0 {
				w.Outcome("peek returned no bytes although the window is non-empty (allowed: [0,n])")
			}
		}
	}
}

// c30Ops builds the alphabet of the depth-bounded parts.
func c30Ops(P, L, WE, MID []int64) []c30Op {
	var ops []c30Op
	for _, n := range L {
		for _, off := range P {
			ops = append(ops, c30Op{K: "w", Off: off, Len: n, Mid: -1})
		}
	}
	for _, n := range WE {
		ops = append(ops, c30Op{K: "we", Len: n, Mid: -1})
	}
	for _, off := range P {
		ops = append(ops, c30Op{K: "d", Off: off, Mid: -1})
	}
	ops = append(ops, c30Op{K: "de", Mid: -1})
	for _, n := range []int64{1, 4096} {
		for _, mid := range MID {
			ops = append(ops, c30Op{K: "f", Len: n, Mid: mid})
		}
	}
	return ops
}

func c30Bounded(c *vx.Ctx, part string, depth int, P, L, WE, MID []int64) {
	ops := c30Ops(P, L, WE, MID)
	c.Rule(fmt.Sprintf("%s: breadth-first search to depth %d from the empty pipe over %d operations: writeAt(off in %v, len in %v), writeAt(end, len in %v), discardBefore(off in the same offsets, off >= start), discardBefore(end), and the Stream.Write fast path (buf := availableBuffer(); optional discardBefore in between: %v where -1 = none, -2 = end; write min(len, len(buf)) bytes for len in {1,4096}; end += n); pooled 4096-byte chunks (natural size)", part, depth, len(ops), P, L, WE, MID))
	vx.Seq(c, vx.SeqSpec[*c30State, c30Op]{
		Part:    part,
		New:     c30New,
		Close:   c30Close,
		Ops:     ops,
		Enabled: c30Enabled,
		Apply:   c30Apply,
		Canon:   c30Canon,
		Final:   c30Final(P),
		Depth:   depth,
	})
}

func TestVerif_C30(t *testing.T) {
	vx.Run(t, "C30", func(c *vx.Ctx) {
		c.Rule("all parts: real pipe and reference model (array: stream offset -> operation that last wrote it, hence the byte; window start/end) in lock-step. States are deduplicated on (start, end, chunk offsets and tail, runs of written/never-written offsets in the window). After every operation start and end are compared, and the whole window [start,end) is read with copy and compared (a divergence makes a distinct state, reported by the per-state check with the shortest history); on every new state: copy and read (concatenation of the callback's slices) of every sub-range with endpoints in the part's offsets u {start,start+1,end-1,end}, and peek(n) for n in {0,1,2,4095,4096,4097,end-start}. Every written byte encodes the position of its operation in the history and its stream offset; dead and recycled chunk bytes are poisoned, so stale, misplaced or lost data never equals an expected byte. Non-trivial = an operation that was applied and compared.")
		c.Assume("the pipe never branches on byte values, so states that agree on structure (and whose contents were just verified equal to the model's) have equal futures")
		c.Assume("never-written offsets inside the window (holes left by out-of-order writes or by advancing the window without data) have unspecified contents and are not compared; reads are only issued inside [start,end); discardBefore only moves forward; peek may return fewer than n bytes (documented range [0,n]); the chunk-list relations of the struct comments are recorded as outcomes, not asserted")

		// Part 1: full reachable-state closure (histories of every length) at
		// the natural chunk size over a coarse universe: all offsets and lengths
		// are multiples of 1024 bytes in [0, U*1024), so that a chunk is 4 cells
		// and the state space is finite.
		const cell = 1024
		U := int64(vx.Pick(c, 8, 10))
		var cops []c30Op
		var cpts []int64
		for off := int64(0); off <= U; off++ {
			cpts = append(cpts, off*cell)
			for n := int64(0); off+n <= U; n++ {
				cops = append(cops, c30Op{K: "w", Off: off * cell, Len: n * cell, Mid: -1})
			}
		}
		for off := int64(0); off <= U; off++ {
			cops = append(cops, c30Op{K: "d", Off: off * cell, Mid: -1})
		}
		for _, n := range []int64{cell, 1 << 20} {
			for _, mid := range []int64{-1, -2} {
				cops = append(cops, c30Op{K: "f", Len: n, Mid: mid})
			}
		}
		c.Rule(fmt.Sprintf("closure-1024: explored breadth-first until no new state is reachable (so histories of every length are covered) over the universe [0,%d) with %d operations: writeAt(off,len) for every off,len multiple of 1024 with off+len <= %d, discardBefore(every multiple of 1024 >= start), and the fast path (1024 bytes or all available space, clipped to the universe, with or without discardBefore(end) in between)", U*cell, len(cops), U*cell))
		vx.Seq(c, vx.SeqSpec[*c30State, c30Op]{
			Part: "closure-1024",
			New: func() *c30State {
				s := c30New()
				s.limit = U * cell
				return s
			},
			Close: c30Close,
			Ops:   cops,
			Enabled: func(s *c30State, op c30Op) bool {
				if op.K == "f" && s.end >= s.limit {
					return false
				}
				return c30Enabled(s, op)
			},
			Apply: c30Apply,
			Canon: c30Canon,
			Final: c30Final(cpts),
			Depth: 1 << 20,
		})

		// Part 2: byte-exact offsets on both sides of the chunk boundaries,
		// depth-bounded.
		c30Bounded(c, "natural-4096", vx.Pick(c, 4, 5),
			[]int64{0, 1, 4095, 4096, 4097, 8192}, []int64{0, 1, 4095, 4097, 8193},
			[]int64{1, 4096, 4097}, []int64{-1, -2, 4096})
		// Part 3 (thorough): the wider alphabet of DESIGN.md, one level less deep.
		if !c.Quick() {
			c30Bounded(c, "natural-4096-wide", 4,
				[]int64{0, 1, 4095, 4096, 4097, 8191, 8192, 8193, 12288}, []int64{0, 1, 2, 4095, 4096, 4097, 8193},
				[]int64{1, 4095, 4096, 4097}, []int64{-1, -2, 4096, 8192})
		}
	})
}
