package quic

import (
	"context"
	"crypto/tls"
	"fmt"
	"log/slog"
	"strings"
	"sync"
	"testing"

	"golang.org/x/net/internal/zzverif/vx"
)

// C25 part "peer-dup-hs": duplicate delivery while the handshake is in flight.
//
// The conn (server or client) is brought into a state in which the keys of two
// packet-number spaces are installed at the same time (Initial+Handshake, or
// Handshake+1-RTT on a client that has not yet seen HANDSHAKE_DONE); then every
// short history of deliveries of packet numbers 0/1 in either space, bursts
// that overflow the retained ranges, and acks of the conn's ACKs is played.
//
// Two observation points, both named by the property ("frames delivered to the
// connection"):
//   - the conn's own packet_received log (Config.QLogLogger): one entry per
//     packet the conn processed, with packet type and number;
//   - marker "crypto": every delivery carries one CRYPTO byte at an offset unique
//     to the delivery (far beyond the handshake messages, so it is only
//     buffered); whether that frame took effect is read from the space's
//     received-bytes set right after the delivery.
// For every (space, number) at most one delivery may be processed / take effect,
// and ACK frames on the wire may only cover numbers the peer sent in the space
// of the packet that carries the ACK.

// c25LogHandler collects the conn's transport:packet_received events.
type c25LogHandler struct {
	mu   sync.Mutex
	recv []c25Recv
	bad  int // packet_received events without a readable header
}

type c25Recv struct {
	ptype string
	num   packetNumber
}

func (h *c25LogHandler) Enabled(_ context.Context, l slog.Level) bool { return l >= QLogLevelPacket }
func (h *c25LogHandler) WithAttrs([]slog.Attr) slog.Handler           { return h }
func (h *c25LogHandler) WithGroup(string) slog.Handler                { return h }
func (h *c25LogHandler) Handle(_ context.Context, r slog.Record) error {
	if r.Message != "transport:packet_received" {
		return nil
	}
	var e c25Recv
	okT, okN := false, false
	r.Attrs(func(a slog.Attr) bool {
		if a.Key != "header" || a.Value.Kind() != slog.KindGroup {
			return true
		}
		for _, g := range a.Value.Group() {
			switch g.Key {
			case "packet_type":
				e.ptype, okT = g.Value.String(), true
			case "packet_number":
				if g.Value.Kind() == slog.KindUint64 {
					e.num, okN = packetNumber(g.Value.Uint64()), true
				}
			}
		}
		return false
	})
	h.mu.Lock()
	defer h.mu.Unlock()
	if !okT || !okN {
		h.bad++
		return nil
	}
	h.recv = append(h.recv, e)
	return nil
}

func (h *c25LogHandler) config(c *Config) { c.QLogLogger = slog.New(h) }

// take returns the events logged since the previous call.
func (h *c25LogHandler) take(t *testing.T) []c25Recv {
	h.mu.Lock()
	defer h.mu.Unlock()
	if h.bad != 0 {
		t.Fatalf("%d packet_received log events without packet type/number", h.bad)
	}
	out := h.recv
	h.recv = nil
	return out
}

type c25Long struct {
	Side   string   `json:"side"`    // server | client
	Prefix string   `json:"prefix"`  // client-hello | server-hello | server-finished
	Marker string   `json:"marker"`  // crypto | ping
	H      []string `json:"history"` // <S><k> deliver number k in space S (I, H, A); burst<S>; ack<S>
}

type c25SpaceInfo struct {
	letter string
	space  numberSpace
	ptype  packetType
	qlog   string
	level  tls.QUICEncryptionLevel
}

var c25Spaces = []c25SpaceInfo{
	{"I", initialSpace, packetTypeInitial, "initial", tls.QUICEncryptionLevelInitial},
	{"H", handshakeSpace, packetTypeHandshake, "handshake", tls.QUICEncryptionLevelHandshake},
	{"A", appDataSpace, packetType1RTT, "1RTT", tls.QUICEncryptionLevelApplication},
}

func c25SpaceByLetter(l string) *c25SpaceInfo {
	for i := range c25Spaces {
		if c25Spaces[i].letter == l {
			return &c25Spaces[i]
		}
	}
	return nil
}

// c25WritePacket sends the conn one datagram holding one packet of the given type and number.
func c25WritePacket(tc *testConn, ptype packetType, num packetNumber, frames ...debugFrame) {
	if ptype == packetType1RTT {
		c25Write1RTT(tc, num, frames...)
		return
	}
	dst := tc.conn.connIDState.local[0].cid
	if tc.conn.connIDState.local[0].seq == -1 && ptype != packetTypeInitial {
		dst = tc.conn.connIDState.local[1].cid // the transient connection ID is for Initial packets only
	}
	d := &testDatagram{
		packets: []*testPacket{{
			ptype:     ptype,
			num:       num,
			frames:    frames,
			version:   quicVersion1,
			dstConnID: dst,
			srcConnID: tc.peerConnID,
		}},
		addr: tc.conn.peerAddr,
	}
	if ptype == packetTypeInitial && tc.conn.side == serverSide {
		d.paddedSize = 1200
	}
	tc.write(d)
}

const (
	c25LongBurstBase = 10 // burst: numbers 10, 12, ..., 26
	c25LongAckBase   = 30 // the packet carrying the ACK of event e has number 30+e
	c25MarkerBase    = 16384
)

func c25CheckLong(w *vx.W, x c25Long) {
	const id = "C25/peer-dup-hs/"
	c25Bubble(w, "peer-dup-hs", func(t *testing.T) {
		lh := &c25LogHandler{}
		side := serverSide
		if x.Side == "client" {
			side = clientSide
		}
		tc := newTestConn(t, side, lh.config)

		// what the scripted peer put on the wire, per space
		var peerSent [numberSpaceCount]map[packetNumber]bool
		for i := range peerSent {
			peerSent[i] = map[packetNumber]bool{}
		}
		connSentMax := [numberSpaceCount]packetNumber{-1, -1, -1}
		failed := false
		closed, closeCode := false, transportError(0)
		observe := func(fr debugFrame, pt packetType) {
			sp := spaceForPacketType(pt)
			if tc.lastPacket != nil && tc.lastPacket.num > connSentMax[sp] {
				connSentMax[sp] = tc.lastPacket.num
			}
			switch f := fr.(type) {
			case debugFrameAck:
				for _, r := range f.ranges {
					for n := r.start; n < r.end; n++ {
						if !peerSent[sp][n] && !failed {
							failed = true
							w.Failf(id+"ack-on-wire-acknowledges-unreceived-number", "%+v: the conn sent %v in a %v packet but the peer never sent packet %d in that space", x, f, pt, n)
						}
					}
				}
				w.Outcome("ACK frame observed in " + pt.qlogString() + " packet")
			case debugFrameConnectionCloseTransport:
				closed, closeCode = true, f.code
			}
		}

		// ---- prefix
		send := func(si *c25SpaceInfo, num packetNumber, frames ...debugFrame) {
			peerSent[si.space][num] = true
			c25WritePacket(tc, si.ptype, num, frames...)
		}
		spI, spH := c25SpaceByLetter("I"), c25SpaceByLetter("H")
		wantI, wantH, wantA := true, true, false
		switch x.Side + "/" + x.Prefix {
		case "server/client-hello":
			send(spI, 0, debugFrameCrypto{data: tc.cryptoDataIn[tls.QUICEncryptionLevelInitial]})
		case "client/server-hello", "client/server-finished":
			c25Drain(tc, observe) // the client's first flight
			if connSentMax[initialSpace] < 0 {
				t.Fatalf("client did not send an Initial packet")
			}
			send(spI, 0, debugFrameAck{ranges: []i64range[packetNumber]{{0, connSentMax[initialSpace] + 1}}},
				debugFrameCrypto{data: tc.cryptoDataIn[tls.QUICEncryptionLevelInitial]})
			if x.Prefix == "server-finished" {
				c25Drain(tc, observe)
				send(spH, 0, debugFrameCrypto{data: tc.cryptoDataIn[tls.QUICEncryptionLevelHandshake]})
				wantI, wantA = false, true
			}
		default:
			t.Fatalf("unknown prefix %q for side %q", x.Prefix, x.Side)
		}
		c25Drain(tc, observe)
		if closed || failed {
			t.Fatalf("prefix did not unfold as scripted: closed=%v (%v) failed=%v", closed, closeCode, failed)
		}
		c25OnLoop(t, tc, func(c *Conn) {
			if c.keysInitial.canRead() != wantI || c.keysHandshake.canRead() != wantH || c.keysAppData.canRead() != wantA {
				t.Errorf("prefix %s/%s: read keys installed: initial=%v handshake=%v 1-RTT=%v, want %v %v %v", x.Side, x.Prefix,
					c.keysInitial.canRead(), c.keysHandshake.canRead(), c.keysAppData.canRead(), wantI, wantH, wantA)
			}
		})
		if t.Failed() {
			return
		}
		// first[space][number] = index of the event whose delivery was processed (-1: during the prefix)
		var first [numberSpaceCount]map[packetNumber]int
		for i := range first {
			first[i] = map[packetNumber]int{}
		}
		spaceOfLog := func(s string) numberSpace {
			for _, si := range c25Spaces {
				if si.qlog == s {
					return si.space
				}
			}
			t.Fatalf("packet_received log event with packet type %q", s)
			return 0
		}
		for _, e := range lh.take(t) {
			sp := spaceOfLog(e.ptype)
			if _, dup := first[sp][e.num]; dup || !peerSent[sp][e.num] {
				t.Fatalf("prefix: the conn logged processing %s packet %d (sent by peer: %v, logged before: %v)", e.ptype, e.num, peerSent[sp][e.num], dup)
			}
			first[sp][e.num] = -1
		}
		if _, ok := first[initialSpace][0]; !ok || (x.Prefix == "server-finished" && first[handshakeSpace][0] != -1) || len(first[handshakeSpace])+len(first[appDataSpace]) > 1 {
			t.Fatalf("prefix: processed packets %v differ from the script", first)
		}

		between := func(e0, e1 int, letter string) string {
			b := "plain"
			for _, ev := range x.H[e0+1 : e1] {
				switch ev {
				case "burst" + letter:
					b = "after-range-pruning"
				case "ack" + letter:
					if b == "plain" {
						b = "after-ack-of-ack"
					}
				}
			}
			return b
		}

		// ---- history
		ndeliv, nproc := 0, 0
		for ev, name := range x.H {
			var si *c25SpaceInfo
			deliveredNum := packetNumber(-1)
			var markerOff int64 = -1
			switch {
			case strings.HasPrefix(name, "burst"):
				si = c25SpaceByLetter(name[5:])
				if si == nil {
					t.Fatalf("bad event %q", name)
				}
				for i := 0; i < 9; i++ {
					send(si, c25LongBurstBase+packetNumber(2*i), debugFramePing{})
				}
			case strings.HasPrefix(name, "ack"):
				si = c25SpaceByLetter(name[3:])
				if si == nil {
					t.Fatalf("bad event %q", name)
				}
				if connSentMax[si.space] >= 0 {
					send(si, c25LongAckBase+packetNumber(ev), debugFrameAck{ranges: []i64range[packetNumber]{{0, connSentMax[si.space] + 1}}})
				}
			case len(name) == 2 && c25SpaceByLetter(name[:1]) != nil && name[1] >= '0' && name[1] <= '9':
				si = c25SpaceByLetter(name[:1])
				deliveredNum = packetNumber(name[1] - '0')
				ndeliv++
				if x.Marker == "crypto" {
					markerOff = c25MarkerBase + 64*int64(ev)
					send(si, deliveredNum, debugFrameCrypto{off: markerOff, data: []byte{byte(0x40 + ev)}})
				} else {
					send(si, deliveredNum, debugFramePing{})
				}
			default:
				t.Fatalf("bad event %q", name)
			}
			c25Drain(tc, observe)
			if failed {
				return
			}
			// the conn's own account of what it processed
			for _, e := range lh.take(t) {
				sp := spaceOfLog(e.ptype)
				if !peerSent[sp][e.num] {
					t.Fatalf("%+v: event %d: the conn logged processing %s packet %d which the peer never sent", x, ev, e.ptype, e.num)
				}
				if e0, dup := first[sp][e.num]; dup {
					w.Failf(id+"number-processed-twice/"+between(e0, ev, si.letter), "%+v: %s packet number %d was processed at event %d (-1 = handshake prefix) and the conn logged processing it again at event %d (%s)", x, e.ptype, e.num, e0, ev, name)
					return
				}
				first[sp][e.num] = ev
				if sp == si.space && e.num == deliveredNum {
					nproc++
				}
			}
			if closed {
				// A conn that discards the keys of a space while out-of-order CRYPTO data is
				// buffered in it closes with a TLS unexpected_message alert; that is the only
				// close these histories can legitimately provoke.
				if x.Marker == "crypto" && closeCode == errTLSBase+10 {
					w.Outcome("closed: buffered CRYPTO marker at key discard")
					break
				}
				t.Fatalf("%+v: conn closed unexpectedly at event %d: %v", x, ev, closeCode)
			}
			if markerOff >= 0 {
				took := false
				c25OnLoop(t, tc, func(c *Conn) {
					took = c.crypto[si.space].inset.contains(markerOff)
				})
				if took {
					if e0, dup := first[si.space][deliveredNum]; dup && e0 != ev {
						w.Failf(id+"number-processed-twice/"+between(e0, ev, si.letter), "%+v: %s packet number %d was processed at event %d (-1 = handshake prefix); delivered again at event %d its CRYPTO frame (offset %d) took effect", x, si.qlog, deliveredNum, e0, ev, markerOff)
						return
					}
					first[si.space][deliveredNum] = ev
				}
			}
		}
		if ndeliv > 0 {
			if nproc > 0 {
				w.Nontrivial()
			}
			w.Outcome(fmt.Sprintf("handshake-time deliveries processed: %d of %d", nproc, ndeliv))
		}
	})
}

type c25LongPrefix struct {
	side, prefix string
	letters      [2]string
	markers      []string
}

var c25LongPrefixes = []c25LongPrefix{
	{"server", "client-hello", [2]string{"I", "H"}, []string{"crypto", "ping"}},
	{"client", "server-hello", [2]string{"I", "H"}, []string{"crypto", "ping"}},
	{"client", "server-finished", [2]string{"H", "A"}, []string{"crypto"}},
}

func c25PartD(c *vx.Ctx) {
	maxLen := vx.Pick(c, 3, 4)
	c.Rule(fmt.Sprintf("part peer-dup-hs: a real Conn is stopped mid-handshake in one of three states with the read keys of two packet-number spaces installed: server after the client's Initial 0 (Initial+Handshake), client after the server's Initial 0 (Initial+Handshake), client after the server's Handshake 0 / before HANDSHAKE_DONE (Handshake+1-RTT). Then every history of length <= %d over, for each of the two spaces S: deliver number 0, deliver number 1, burst of nine single-packet ranges 10,12..26, peer acknowledges everything the conn sent in S (packet 30+i). Deliveries carry a PING (marker ping; only for the two states with the Initial space) or one CRYPTO byte at an offset unique to the delivery (marker crypto). After every event: each (packet type, number) may appear at most once in the conn's packet_received log (numbers processed during the handshake prefix included), a delivered CRYPTO marker may have taken effect (cryptoStream.inset, white-box) only if no other delivery of that number in that space was processed, and every ACK frame on the wire covers only numbers the peer sent in the space of the carrying packet. Non-trivial = at least one delivery of the history was processed.", maxLen))
	c.Assume("part peer-dup-hs: no time passes (no PTO, no delayed ACK); marker crypto: once a space's keys are discarded with marker bytes buffered the conn closes (TLS unexpected_message) and the history ends there, marker ping covers those cross-space histories; 0-RTT and Retry packets are not sent")
	vx.Enumerate(c, "peer-dup-hs", vx.Opts{Serial: true, Crumb: true}, func(yield func(c25Long) bool) {
		for _, p := range c25LongPrefixes {
			var deliv, alpha []string
			for _, l := range p.letters {
				deliv = append(deliv, l+"0", l+"1")
			}
			alpha = append(alpha, deliv...)
			for _, l := range p.letters {
				alpha = append(alpha, "burst"+l)
			}
			for _, l := range p.letters {
				alpha = append(alpha, "ack"+l)
			}
			for _, m := range p.markers {
				ok := vx.Strings(alpha, 1, maxLen, func(h []string) bool {
					return yield(c25Long{p.side, p.prefix, m, h})
				})
				if !ok {
					return
				}
			}
		}
	}, c25CheckLong)
}
