package quic

import (
	"bytes"
	"crypto/tls"
	"fmt"
	"sync/atomic"
	"time"

	"golang.org/x/net/internal/zzverif/vx"
)

// C23, part "wire": the round trip along the path a packet really takes.
//
// The other parts call packetNumberLength / appendPacketNumber /
// decodePacketNumber directly. Here a real protected packet carrying packet
// number pn is built by the real packetWriter for a sender whose largest
// acknowledged number is A (start/finish1RTTPacket for the short header,
// start/finishProtectedLongHeaderPacket for Initial, 0-RTT and Handshake), and
// handed to the real receive path (parse1RTTPacket / parseLongHeaderPacket, as
// conn_recv.go does, with pnumMax taken from a real ackState whose largest
// received number is L). Whenever L is in the property's domain the parser must
// hand back exactly pn; a packet that fails authentication because the number
// was reconstructed wrongly counts as a wrong decode.
//
// Nothing of the code under test computes the expectation (it is pn).

type c23Wire struct {
	Space string `json:"space"` // initial | 0rtt | handshake | 1rtt
	Suite uint16 `json:"suite"`
	A     int64  `json:"largest_acked"`
	PN    int64  `json:"pn"`
	L     int64  `json:"receiver_largest"`
}

var (
	c23WireDstID   = []byte{0xd0, 0xd1, 0xd2, 0xd3, 0xd4, 0xd5, 0xd6, 0xd7} // connIDLen bytes
	c23WireSrcID   = []byte{0x50, 0x51, 0x52, 0x53}
	c23WireToken   = []byte{0x70, 0x71, 0x72}
	c23WirePayload = []byte{0x01, 0x00, 0x00, 0x00, 0x00, 0x00, 0x00, 0x00} // PING + PADDING
)

func c23WireSecret(suite uint16) []byte {
	if suite == tls.TLS_AES_256_GCM_SHA384 {
		return bytes.Repeat([]byte{0x23}, 48)
	}
	return bytes.Repeat([]byte{0x23}, 32)
}

func c23WireSuiteName(s uint16) string {
	switch s {
	case tls.TLS_AES_128_GCM_SHA256:
		return "AES128"
	case tls.TLS_AES_256_GCM_SHA384:
		return "AES256"
	case tls.TLS_CHACHA20_POLY1305_SHA256:
		return "CHACHA20"
	}
	return fmt.Sprint(s)
}

// c23WireRoundTrip builds the packet for (A, pn) and parses it with a receiver
// whose largest received number is L. It returns the parsed number, whether the
// receive path accepted the packet, and (diagnostics only) what the header
// unprotection alone reconstructs.
func c23WireRoundTrip(x c23Wire, n int) (got int64, ok bool, hdrOnly int64, diag string) {
	pn, A := packetNumber(x.PN), packetNumber(x.A)
	var space numberSpace
	var pw packetWriter
	pw.reset(1200)

	// The receiver's state: it has received packet L in this number space.
	recvLargest := func() packetNumber {
		var acks ackState
		acks.receive(time.Unix(1_000_000, 0), space, packetNumber(x.L), false, ecnNotECT)
		return acks.largestSeen()
	}

	if x.Space == "1rtt" {
		space = appDataSpace
		var snd, rcv updatingKeyPair
		snd.w.init(x.Suite, c23WireSecret(x.Suite))
		rcv.r.init(x.Suite, c23WireSecret(x.Suite))
		// Key updates are a different property: keep both ends in phase 0.
		snd.updateAfter = maxPacketNumber
		rcv.updateAfter = maxPacketNumber
		pw.start1RTTPacket(pn, A, c23WireDstID)
		pw.b = append(pw.b, c23WirePayload...)
		pnumOff := pw.payOff - n
		if pw.finish1RTTPacket(pn, A, c23WireDstID, &snd) == nil {
			panic("c23 harness: finish1RTTPacket wrote no packet")
		}
		pkt := bytes.Clone(pw.datagram())
		pkt2 := bytes.Clone(pkt)
		L := recvLargest()
		p, err := parse1RTTPacket(pkt, &rcv, len(c23WireDstID), L)
		if _, _, h, herr := rcv.r.hdr.unprotect(pkt2, pnumOff, L); herr == nil {
			hdrOnly = int64(h)
		}
		if err != nil {
			return 0, false, hdrOnly, fmt.Sprintf("parse1RTTPacket(pnumMax=%d): %v", L, err)
		}
		return int64(p.num), true, hdrOnly, fmt.Sprintf("parse1RTTPacket(pnumMax=%d)", L)
	}

	var sk, rk fixedKeys
	p := longPacket{version: quicVersion1, num: pn, dstConnID: c23WireDstID, srcConnID: c23WireSrcID}
	switch x.Space {
	case "initial":
		space = initialSpace
		p.ptype = packetTypeInitial
		p.extra = c23WireToken
		// Client -> server Initial with the real Initial key derivation.
		sk = initialKeys(c23WireDstID, clientSide).w
		rk = initialKeys(c23WireDstID, serverSide).r
	case "0rtt":
		space = appDataSpace
		p.ptype = packetType0RTT
		sk.init(x.Suite, c23WireSecret(x.Suite))
		rk.init(x.Suite, c23WireSecret(x.Suite))
	case "handshake":
		space = handshakeSpace
		p.ptype = packetTypeHandshake
		sk.init(x.Suite, c23WireSecret(x.Suite))
		rk.init(x.Suite, c23WireSecret(x.Suite))
	default:
		panic("c23 harness: unknown space " + x.Space)
	}
	pw.startProtectedLongHeaderPacket(A, p)
	pw.b = append(pw.b, c23WirePayload...)
	pnumOff := pw.payOff - n
	if pw.finishProtectedLongHeaderPacket(A, sk, p) == nil {
		panic("c23 harness: finishProtectedLongHeaderPacket wrote no packet")
	}
	pkt := bytes.Clone(pw.datagram())
	pkt2 := bytes.Clone(pkt)
	L := recvLargest()
	q, m := parseLongHeaderPacket(pkt, rk, L)
	if _, _, h, herr := rk.hdr.unprotect(pkt2, pnumOff, L); herr == nil {
		hdrOnly = int64(h)
	}
	if m < 0 {
		return 0, false, hdrOnly, fmt.Sprintf("parseLongHeaderPacket(pnumMax=%d) = -1 (rejected)", L)
	}
	return int64(q.num), true, hdrOnly, fmt.Sprintf("parseLongHeaderPacket(pnumMax=%d)", L)
}

func c23WireCheck(decodes *atomic.Int64) func(w *vx.W, x c23Wire) {
	return func(w *vx.W, x c23Wire) {
		n := c23Sender(w, x.A, x.PN)
		if n == 0 {
			return
		}
		h := c23HalfWin(n)
		delta := x.L + 1 - x.PN
		clause := ""
		switch {
		case x.A <= x.L && x.L < x.PN:
			clause = "sender-domain"
		case -h < delta && delta < h:
			clause = "in-window"
		case delta == -h:
			clause = "rfc-a3-tie-upper-edge"
		}
		got, ok, hdrOnly, diag := c23WireRoundTrip(x, n)
		form := "long"
		if x.Space == "1rtt" {
			form = "short"
		}
		if clause == "" {
			// Outside the property's domain: executed (must not crash), not compared.
			w.Outcome("wire outside-window not-compared")
			return
		}
		if !ok || got != x.PN {
			res := fmt.Sprintf("returned packet number %d", got)
			if !ok {
				res = fmt.Sprintf("packet dropped; header unprotection reconstructed packet number %d", hdrOnly)
			}
			w.Failf("C23/wire-decode/"+clause+"/"+c23Branch(x.L, x.PN, n),
				"%s packet (%s, %s header) sent with pn=%d, sender's largest acked A=%d => %d-byte number %#x; receiver's largest received L=%d (L+1-pn = %d, half window %d): %s: %s",
				x.Space, c23WireSuiteName(x.Suite), form, x.PN, x.A, n, c23RefTrunc(x.PN, n), x.L, delta, h, diag, res)
			return
		}
		w.Nontrivial()
		decodes.Add(1)
		w.Outcome(fmt.Sprintf("wire %s len=%d", form, n))
	}
}

// c23WirePairs yields the (A, pn) pairs for encoding length n: the smallest and
// the largest distance pn-A that select n bytes; A = -1 (nothing acknowledged),
// A = 0, and pn on both sides of the window-aligned block edges and of the
// middle of a block, in low blocks and in the last block of the 62-bit space.
func c23WirePairs(n int, thorough bool, f func(A, pn int64)) {
	h := c23HalfWin(n)
	win := 2 * h
	dmin := int64(1)
	if n > 1 {
		dmin = c23HalfWin(n - 1)
	}
	top := (c23Max+1)/win - 1
	ks := []int64{1, 3, top}
	rs := []int64{0, 1, h - 1, h, win - 1}
	if thorough {
		ks = []int64{1, 2, 3, 1 << 20, top - 1, top}
		rs = []int64{0, 1, 2, h - 2, h - 1, h, h + 1, win - 2, win - 1}
	}
	seen := map[[2]int64]bool{}
	emit := func(A, pn int64) {
		if A < -1 || pn <= A || pn > c23Max || seen[[2]int64{A, pn}] {
			return
		}
		seen[[2]int64{A, pn}] = true
		f(A, pn)
	}
	for _, d := range []int64{dmin, h - 1} {
		emit(-1, d-1)
		emit(0, d)
		for _, k := range ks {
			for _, r := range rs {
				pn := k*win + r
				emit(pn-d, pn)
			}
		}
	}
}

// c23WireLs: receiver states for (A, pn): L == A, A+1, and pn-L, L-pn in
// {0, 1, h-2, h-1, h, h+1} for every half window h (both sides of both edges of
// the decoding window of every length).
func c23WireLs(A, pn int64) []int64 {
	var ls []int64
	seen := map[int64]bool{}
	add := func(L int64) {
		if L < 0 || L > c23Max || seen[L] {
			return
		}
		seen[L] = true
		ls = append(ls, L)
	}
	add(A)
	add(A + 1)
	for n := 1; n <= 4; n++ {
		h := c23HalfWin(n)
		for _, d := range []int64{0, 1, h - 2, h - 1, h, h + 1} {
			add(pn - d)
			add(pn + d)
		}
	}
	return ls
}

func c23WirePart(c *vx.Ctx, decodes *atomic.Int64) {
	type combo struct {
		space string
		suite uint16
	}
	all := []uint16{tls.TLS_AES_128_GCM_SHA256, tls.TLS_AES_256_GCM_SHA384, tls.TLS_CHACHA20_POLY1305_SHA256}
	combos := []combo{{"initial", tls.TLS_AES_128_GCM_SHA256}}
	for _, s := range all {
		combos = append(combos, combo{"1rtt", s}, combo{"handshake", s})
		if s == tls.TLS_AES_128_GCM_SHA256 || !c.Quick() {
			combos = append(combos, combo{"0rtt", s})
		}
	}
	vx.Enumerate(c, "wire", vx.Opts{}, func(yield func(c23Wire) bool) {
		for n := 1; n <= 4; n++ {
			stop := false
			c23WirePairs(n, !c.Quick(), func(A, pn int64) {
				if stop {
					return
				}
				for _, L := range c23WireLs(A, pn) {
					for _, cb := range combos {
						if !yield(c23Wire{Space: cb.space, Suite: cb.suite, A: A, PN: pn, L: L}) {
							stop = true
							return
						}
					}
				}
			})
			if stop {
				return
			}
		}
	}, c23WireCheck(decodes))
}
