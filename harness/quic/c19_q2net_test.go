package quic

// Shared "q2" machinery for C19 and C27: two real Endpoints with real TLS in
// one testing/synctest bubble on a harness-owned network.
//
// Every datagram an endpoint writes is parked in an outbox. The controller
// (the bubble's root goroutine) repeatedly waits for quiescence
// (synctest.Wait), moves the outbox into a FIFO, gives every datagram a global
// index in emission order, and handles exactly one datagram per step:
// the default action is "deliver"; a plan attaches a deviation to at most k
// indices. When the FIFO is empty the controller blocks, so the bubble's fake
// clock jumps to the next timer of either endpoint. All identifiers carry the
// c19 prefix because the file is shared.

import (
	"context"
	"encoding/json"
	"fmt"
	"hash/fnv"
	"log/slog"
	"net/netip"
	"sort"
	"sync"
	"testing/synctest"
	"time"

	"golang.org/x/net/internal/zzverif/vx"
)

var (
	c19ClientAddr = netip.MustParseAddrPort("10.0.0.1:1111")
	c19ServerAddr = netip.MustParseAddrPort("10.0.0.2:443")
	c19SpoofAddr  = netip.MustParseAddrPort("10.6.6.6:6666")
)

// c19Dev is one deviation from the default network, attached to the datagram
// with global index At.
//
//	drop    the datagram is lost
//	dup     delivered twice, back to back
//	dup3    delivered, and a copy is delivered again after 3 more datagrams of
//	        the same direction (or when the network is otherwise idle)
//	hold1   held back past the next 1 datagram of the same direction (or until
//	        the network is otherwise idle): reordering without delay
//	hold3   same with 3 datagrams
//	late    held back until the network is idle AND an endpoint timer has
//	        produced a new datagram (or c19LateMax fake time has passed); it is
//	        then delivered behind the timer-driven datagrams
//	part    this and every later datagram is dropped for c19PartFor of fake
//	        time, then the network heals
//	dead    this and every later datagram is dropped forever
//	trunc   (C27) only the first Arg bytes are delivered
//	spoof   (C27) delivered with source address c19SpoofAddr
type c19Dev struct {
	At   int    `json:"at"`
	Kind string `json:"kind"`
	Arg  int    `json:"arg,omitempty"`
}

const (
	c19LateMax = 3 * time.Second
	c19PartFor = 4 * time.Second
)

// c19Fail is one oracle failure collected inside a bubble (reported through
// vx after the bubble has ended).
type c19Fail struct{ sig, what string }

type c19Dgram struct {
	idx      int // global index, -1 for harness-made copies
	from, to netip.AddrPort
	b        []byte
	dir      int // 0 client->server, 1 server->client, 2 other
	seq      int // per-outbox sequence, for canonical ordering
}

type c19Held struct {
	d *c19Dgram
	n int // remaining same-direction deliveries to wait for
}

// c19PC is the packetConn handed to newEndpoint.
type c19PC struct {
	net    *c19Net
	addr   netip.AddrPort
	recv   chan *datagram
	closed chan struct{}
	once   sync.Once
}

func (p *c19PC) Close() error {
	p.once.Do(func() { close(p.closed) })
	return nil
}

func (p *c19PC) LocalAddr() netip.AddrPort { return p.addr }

func (p *c19PC) Read(f func(*datagram)) {
	for {
		select {
		case d := <-p.recv:
			f(d)
		case <-p.closed:
			return
		}
	}
}

func (p *c19PC) Write(d datagram) error {
	select {
	case <-p.closed:
		return fmt.Errorf("c19: packet conn closed")
	default:
	}
	n := p.net
	dg := &c19Dgram{idx: -1, from: p.addr, to: d.peerAddr, b: append([]byte(nil), d.b...)}
	switch {
	case p.addr == c19ClientAddr && d.peerAddr == c19ServerAddr:
		dg.dir = 0
	case p.addr == c19ServerAddr && d.peerAddr == c19ClientAddr:
		dg.dir = 1
	default:
		dg.dir = 2
	}
	n.mu.Lock()
	dg.seq = n.seq
	n.seq++
	n.outbox = append(n.outbox, dg)
	n.mu.Unlock()
	select {
	case n.notify <- struct{}{}:
	default:
	}
	return nil
}

type c19TraceEnt struct {
	Idx  int
	Dir  int
	Size int
	Act  string
}

// c19Net is the harness-owned network.
type c19Net struct {
	mu     sync.Mutex
	outbox []*c19Dgram
	seq    int
	notify chan struct{}

	pcs map[netip.AddrPort]*c19PC

	devs    map[int]c19Dev
	applied int // deviations that really took effect
	nextIdx int
	queue   []*c19Dgram
	held    []*c19Held
	late    []*c19Dgram
	holeTo  time.Time // datagrams are black-holed while now < holeTo
	dead    bool      // black-holed forever

	trace []c19TraceEnt
	dbg   func(string) // development aid

	// Monitor hooks (all called on the controller goroutine at a quiescent point).
	onWrite   func(d *c19Dgram)                                // every datagram written, in canonical order
	onDeliver func(d *c19Dgram, size int, from netip.AddrPort) // just before it is handed to the destination
}

func c19NewNet(devs []c19Dev) *c19Net {
	n := &c19Net{notify: make(chan struct{}, 1), pcs: map[netip.AddrPort]*c19PC{}, devs: map[int]c19Dev{}}
	for _, d := range devs {
		n.devs[d.At] = d
	}
	return n
}

func (n *c19Net) listen(addr netip.AddrPort) *c19PC {
	p := &c19PC{net: n, addr: addr, recv: make(chan *datagram), closed: make(chan struct{})}
	n.pcs[addr] = p
	return p
}

// collect moves the outbox into the FIFO in canonical order (client's
// datagrams first, then the server's, each in write order) and numbers them.
func (n *c19Net) collect() {
	n.mu.Lock()
	out := n.outbox
	n.outbox = nil
	n.mu.Unlock()
	sort.SliceStable(out, func(i, j int) bool {
		if out[i].dir != out[j].dir {
			return out[i].dir < out[j].dir
		}
		return out[i].seq < out[j].seq
	})
	for _, d := range out {
		if n.onWrite != nil {
			n.onWrite(d)
		}
		if d.dir == 2 {
			// Addressed to nobody we know (a reply to a spoofed source): it
			// is counted by the monitor and vanishes.
			n.trace = append(n.trace, c19TraceEnt{-1, d.dir, len(d.b), "void"})
			continue
		}
		d.idx = n.nextIdx
		n.nextIdx++
		n.queue = append(n.queue, d)
	}
}

func (n *c19Net) deliver(d *c19Dgram, size int, from netip.AddrPort, act string) {
	n.trace = append(n.trace, c19TraceEnt{d.idx, d.dir, size, act})
	if n.dbg != nil {
		n.dbg(fmt.Sprintf("deliver idx=%d dir=%d size=%d %s", d.idx, d.dir, size, act))
	}
	if n.onDeliver != nil {
		n.onDeliver(d, size, from)
	}
	p := n.pcs[d.to]
	if p == nil {
		return
	}
	m := newDatagram()
	m.b = m.b[:size]
	copy(m.b, d.b[:size])
	m.peerAddr = from
	m.localAddr = d.to
	select {
	case p.recv <- m:
	case <-p.closed:
	}
	synctest.Wait()
	// A delivery in this direction lets held-back datagrams of the same
	// direction move forward.
	var keep []*c19Held
	var rel []*c19Dgram
	for _, h := range n.held {
		if h.d.dir == d.dir {
			h.n--
		}
		if h.n <= 0 {
			rel = append(rel, h.d)
		} else {
			keep = append(keep, h)
		}
	}
	n.held = keep
	if len(rel) > 0 {
		n.queue = append(rel, n.queue...)
	}
}

func (n *c19Net) copyOf(d *c19Dgram) *c19Dgram {
	c := *d
	c.idx = -1
	return &c
}

// step handles the datagram at the head of the FIFO.
func (n *c19Net) step() {
	d := n.queue[0]
	n.queue = n.queue[1:]
	if n.dead || time.Now().Before(n.holeTo) {
		n.trace = append(n.trace, c19TraceEnt{d.idx, d.dir, len(d.b), "hole"})
		return
	}
	dev, ok := n.devs[d.idx]
	if !ok || d.idx < 0 {
		n.deliver(d, len(d.b), d.from, "ok")
		return
	}
	delete(n.devs, d.idx)
	switch dev.Kind {
	case "drop":
		n.applied++
		n.trace = append(n.trace, c19TraceEnt{d.idx, d.dir, len(d.b), "drop"})
	case "dup":
		n.applied++
		cp := n.copyOf(d)
		n.deliver(d, len(d.b), d.from, "dup")
		n.deliver(cp, len(cp.b), cp.from, "dup2")
	case "dup3":
		n.applied++
		n.held = append(n.held, &c19Held{d: n.copyOf(d), n: 4}) // 4: the original's own delivery counts once
		n.deliver(d, len(d.b), d.from, "dup3")
	case "hold1", "hold3":
		n.applied++
		k := 1
		if dev.Kind == "hold3" {
			k = 3
		}
		cp := n.copyOf(d)
		n.trace = append(n.trace, c19TraceEnt{d.idx, d.dir, len(d.b), dev.Kind})
		n.held = append(n.held, &c19Held{d: cp, n: k})
	case "late":
		n.applied++
		n.trace = append(n.trace, c19TraceEnt{d.idx, d.dir, len(d.b), "late"})
		n.late = append(n.late, n.copyOf(d))
	case "part":
		n.applied++
		n.holeTo = time.Now().Add(c19PartFor)
		n.trace = append(n.trace, c19TraceEnt{d.idx, d.dir, len(d.b), "part"})
	case "dead":
		n.applied++
		n.dead = true
		n.trace = append(n.trace, c19TraceEnt{d.idx, d.dir, len(d.b), "dead"})
	case "trunc":
		if d.dir == 0 && dev.Arg < len(d.b) {
			n.applied++
			n.deliver(d, dev.Arg, d.from, "trunc")
		} else {
			n.deliver(d, len(d.b), d.from, "ok")
		}
	case "spoof":
		if d.dir == 0 {
			n.applied++
			n.deliver(d, len(d.b), c19SpoofAddr, "spoof")
		} else {
			n.deliver(d, len(d.b), d.from, "ok")
		}
	default:
		panic("c19: unknown deviation kind " + dev.Kind)
	}
}

// run drives the network until done is closed (returns "done"), the fake-time
// horizon passes with the applications still not finished ("stall"), or more
// than maxDgrams datagrams have been emitted ("storm"). afterStep, if not
// nil, runs at every quiescent point.
func (n *c19Net) run(done <-chan struct{}, horizon time.Duration, maxDgrams int, afterStep func()) string {
	deadline := time.Now().Add(horizon)
	for {
		synctest.Wait()
		n.collect()
		if afterStep != nil {
			afterStep()
		}
		select {
		case <-done:
			return "done"
		default:
		}
		if n.nextIdx > maxDgrams {
			return "storm"
		}
		if len(n.queue) > 0 {
			n.step()
			continue
		}
		if len(n.held) > 0 {
			// The network is otherwise idle: reordering must not turn into delay.
			n.queue = append(n.queue, n.held[0].d)
			n.held = n.held[1:]
			continue
		}
		// Nothing in flight: let fake time pass until an endpoint emits
		// something or the applications finish.
		select {
		case <-n.notify:
		default:
		}
		wait := time.Until(deadline)
		if wait <= 0 {
			return "stall"
		}
		if len(n.late) > 0 && wait > c19LateMax {
			wait = c19LateMax
		}
		if !n.dead && time.Now().Before(n.holeTo) {
			if w := time.Until(n.holeTo); w < wait {
				wait = w
			}
		}
		tm := time.NewTimer(wait)
		select {
		case <-n.notify:
		case <-done:
		case <-tm.C:
		}
		tm.Stop()
		if len(n.late) > 0 {
			synctest.Wait()
			n.collect()
			n.queue = append(n.queue, n.late...)
			n.late = nil
		}
	}
}

// traceHash is a hash of the (direction, size, action) sequence of the run.
func (n *c19Net) traceHash(withSizes bool) uint64 {
	h := fnv.New64a()
	for _, e := range n.trace {
		if withSizes {
			fmt.Fprintf(h, "%d/%d/%s;", e.Dir, e.Size, e.Act)
		} else {
			fmt.Fprintf(h, "%d/%s;", e.Dir, e.Act)
		}
	}
	return h.Sum64()
}

// c19QLog is a slog.Handler that records, per stream, which byte ranges (and
// FIN) the owning endpoint has *received* in STREAM frames, from the public
// QLogLogger hook ("transport:packet_received" at QLogLevelFrame).
type c19QLog struct {
	mu   *sync.Mutex
	recv map[int64]*c19Cover
	pkts *int
	dbg  func(string) // development aid: every qlog event as text
}

type c19Cover struct {
	got []bool // got[i]: byte i was received
	fin int64  // final size announced by a FIN, -1 if none
}

func c19NewQLog() *c19QLog {
	return &c19QLog{mu: new(sync.Mutex), recv: map[int64]*c19Cover{}, pkts: new(int)}
}

func (h *c19QLog) Enabled(context.Context, slog.Level) bool { return true }
func (h *c19QLog) WithAttrs([]slog.Attr) slog.Handler       { return h }
func (h *c19QLog) WithGroup(string) slog.Handler            { return h }

func (h *c19QLog) Handle(_ context.Context, r slog.Record) error {
	if h.dbg != nil {
		line := r.Message
		r.Attrs(func(a slog.Attr) bool {
			if vs, ok := a.Value.Any().([]slog.Value); ok {
				for _, v := range vs {
					line += fmt.Sprintf(" {%v}", v.Any())
				}
			} else {
				line += " " + a.String()
			}
			return true
		})
		h.dbg(line)
	}
	if r.Message != "transport:packet_received" {
		return nil
	}
	r.Attrs(func(a slog.Attr) bool {
		if a.Key != "frames" {
			return true
		}
		vs, ok := a.Value.Any().([]slog.Value)
		if !ok {
			return true
		}
		h.mu.Lock()
		defer h.mu.Unlock()
		*h.pkts++
		for _, v := range vs {
			f, ok := v.Any().(debugFrameStream)
			if !ok {
				continue
			}
			cv := h.recv[int64(f.id)]
			if cv == nil {
				cv = &c19Cover{fin: -1}
				h.recv[int64(f.id)] = cv
			}
			end := f.off + int64(len(f.data))
			for int64(len(cv.got)) < end {
				cv.got = append(cv.got, false)
			}
			for i := f.off; i < end; i++ {
				cv.got[i] = true
			}
			if f.fin {
				cv.fin = end
			}
		}
		return true
	})
	return nil
}

// covered reports whether every byte of [0,total) and a FIN at total were received on stream id.
func (h *c19QLog) covered(id int64, total int64) (bool, string) {
	h.mu.Lock()
	defer h.mu.Unlock()
	cv := h.recv[id]
	if cv == nil {
		return false, "no STREAM frame received at all"
	}
	for i := int64(0); i < total; i++ {
		if i >= int64(len(cv.got)) || !cv.got[i] {
			return false, fmt.Sprintf("byte %d of %d not received", i, total)
		}
	}
	if cv.fin != total {
		return false, fmt.Sprintf("FIN not received (fin=%d, want %d)", cv.fin, total)
	}
	return true, ""
}

// c19Pair is a client and a server endpoint on one c19Net.
type c19Pair struct {
	net      *c19Net
	cliEP    *Endpoint
	srvEP    *Endpoint
	cliQ     *c19QLog
	srvQ     *c19QLog
	cliConf  *Config
	srvConf  *Config
	setupErr error
}

// c19NewPair must be called inside a bubble.
func c19NewPair(devs []c19Dev, cliConf, srvConf Config) *c19Pair {
	p := &c19Pair{net: c19NewNet(devs), cliQ: c19NewQLog(), srvQ: c19NewQLog()}
	cc, sc := cliConf, srvConf
	if cc.TLSConfig == nil {
		cc.TLSConfig = newTestTLSConfig(clientSide)
	}
	if sc.TLSConfig == nil {
		sc.TLSConfig = newTestTLSConfig(serverSide)
	}
	cc.QLogLogger = slog.New(p.cliQ)
	sc.QLogLogger = slog.New(p.srvQ)
	p.cliConf, p.srvConf = &cc, &sc
	var err error
	p.srvEP, err = newEndpoint(p.net.listen(c19ServerAddr), p.srvConf, nil)
	if err != nil {
		p.setupErr = err
		return p
	}
	p.cliEP, err = newEndpoint(p.net.listen(c19ClientAddr), p.cliConf, nil)
	if err != nil {
		p.setupErr = err
	}
	return p
}

// shutdown tears both endpoints down without waiting for the peer.
func (p *c19Pair) shutdown() {
	ctx, cancel := context.WithCancel(context.Background())
	cancel()
	if p.cliEP != nil {
		p.cliEP.Close(ctx)
	}
	if p.srvEP != nil {
		p.srvEP.Close(ctx)
	}
}

// c19ServerConns lists the server endpoint's live conns (call at a quiescent point).
func (p *c19Pair) serverConns() []*Conn {
	p.srvEP.connsMu.Lock()
	defer p.srvEP.connsMu.Unlock()
	var cs []*Conn
	for c := range p.srvEP.conns {
		cs = append(cs, c)
	}
	return cs
}

// c19Sharded wraps a case generator so that a case is owned by the shard its
// *content* hashes to, not by its position in the enumeration. The datagram
// count N of a default run is measured by every shard process itself and is
// not perfectly deterministic (goroutine scheduling inside the endpoints can
// shift it by one), so positions may differ between shards; content
// ownership keeps the partition consistent. vx assigns case index i to shard
// i % n, therefore the wrapper yields zero-value fillers at indices it does
// not own (vx skips those without executing them) until the next index is
// its own.
func c19Sharded[T any](c *vx.Ctx, inner func(yield func(T) bool)) func(yield func(T) bool) {
	return func(yield func(T) bool) {
		shard, n := c.Shard()
		if n <= 1 {
			inner(yield)
			return
		}
		var i int64
		var zero T
		inner(func(x T) bool {
			b, _ := json.Marshal(x)
			if int(vx.Hash64(string(b))%uint64(n)) != shard {
				return true
			}
			for int(i%int64(n)) != shard {
				if !yield(zero) {
					return false
				}
				i++
			}
			ok := yield(x)
			i++
			return ok
		})
	}
}
