package quic

import (
	"fmt"
	"testing"
	"time"

	"golang.org/x/net/internal/zzverif/vx"
)

// C25 — QUIC acknowledges only received packets and never processes one twice.
//
//	part "ackstate" (SEQ): every history of packet arrivals (any order, duplicates),
//	    ACK transmissions and peer acknowledgements of those ACKs on a real ackState,
//	    against the set of processed numbers.
//	part "ackframe" (IN): every range set over a small universe x every amount of
//	    remaining packet space through packetWriter.appendAckFrame, parsed back.
//	parts "peer-ack", "peer-dup" (scripted peer against a real Conn, one synctest
//	    bubble per case): see c25_peer_test.go.
//	part "peer-dup-hs" (duplicates in the Initial/Handshake spaces while the
//	    handshake is in flight, both sides): see c25_peer_long_test.go.

// ---------------------------------------------------------------- part a

type c25Op struct {
	K  string `json:"k"` // recv | sendack | peeracked
	N  int    `json:"n"` // recv: packet number; peeracked: which of the ACKs we sent (0 = most recent)
	AE bool   `json:"ae,omitempty"`
}

type c25State struct {
	impl      ackState
	processed uint64
	sentAcks  []packetNumber // Largest Acknowledged of the ACK frames sent, most recent first (at most 3 kept)
	now       time.Time
	u         int
}

func c25Apply(w *vx.W, s *c25State, op c25Op) bool {
	const id = "C25/"
	switch op.K {
	case "recv":
		n := packetNumber(op.N)
		if s.impl.shouldProcess(n) {
			// Conn.handle1RTT: frames are handled, then the number is recorded.
			s.impl.receive(s.now, appDataSpace, n, op.AE, ecnNotECT)
			if s.processed&(1<<uint(op.N)) != 0 {
				where := "above-floor"
				if len(s.impl.seen) > 0 && n < s.impl.seen.min() {
					where = "below-floor"
				}
				w.Failf(id+"process-twice/"+where, "packet %d was processed before and shouldProcess accepted it again; seen=%v processed=%b", n, s.impl.seen, s.processed)
				return false
			}
			s.processed |= 1 << uint(op.N)
			w.Outcome("processed")
		} else {
			if s.processed&(1<<uint(op.N)) == 0 && n >= s.impl.seen.min() {
				w.Failf(id+"reject/fresh-number-above-floor", "packet %d was never processed and is not below the lowest retained number %d, yet shouldProcess refused it; seen=%v", n, s.impl.seen.min(), s.impl.seen)
				return false
			}
			if s.processed&(1<<uint(op.N)) != 0 {
				w.Outcome("duplicate dropped")
			} else {
				w.Outcome("old unprocessed number dropped (below floor)")
			}
		}
	case "sendack":
		nums, _ := s.impl.acksToSend(s.now)
		if len(nums) == 0 {
			w.Outcome("nothing to acknowledge")
			return true
		}
		for _, r := range nums {
			for n := r.start; n < r.end; n++ {
				if n < 0 || int(n) >= 64 || s.processed&(1<<uint(n)) == 0 {
					w.Failf(id+"ack/acknowledges-unreceived-number", "acksToSend returned %v which contains %d; processed=%b", nums, n, s.processed)
					return false
				}
			}
		}
		s.sentAcks = append([]packetNumber{nums.max()}, s.sentAcks...)
		if len(s.sentAcks) > 3 {
			s.sentAcks = s.sentAcks[:3]
		}
		s.impl.sentAck()
		w.Outcome(fmt.Sprintf("ack sent ranges=%d", min(len(nums), 8)))
	case "peeracked":
		before := len(s.impl.seen)
		s.impl.handleAck(s.sentAcks[op.N])
		if len(s.impl.seen) < before {
			w.Outcome("ranges discarded on ack of ack")
		}
	}
	// invariants after every operation
	for i, r := range s.impl.seen {
		if r.start >= r.end || (i > 0 && s.impl.seen[i-1].end > r.start) {
			w.Failf(id+"seen/malformed", "after %+v: seen=%v is not a sorted list of disjoint non-empty ranges", op, s.impl.seen)
			return false
		}
		for n := r.start; n < r.end; n++ {
			if n < 0 || int(n) >= 64 || s.processed&(1<<uint(n)) == 0 {
				w.Failf(id+"seen/contains-unreceived-number", "after %+v: seen=%v contains %d which was never processed (processed=%b)", op, s.impl.seen, n, s.processed)
				return false
			}
		}
	}
	for n := 0; n <= s.u; n++ {
		if n < 64 && s.processed&(1<<uint(n)) != 0 && s.impl.shouldProcess(packetNumber(n)) {
			where := "above-floor"
			if len(s.impl.seen) == 0 || packetNumber(n) < s.impl.seen.min() {
				where = "below-floor"
			}
			w.Failf(id+"process-twice/"+where, "after %+v: packet %d was processed and shouldProcess would accept it again; seen=%v processed=%b", op, n, s.impl.seen, s.processed)
			return false
		}
	}
	if len(s.impl.seen) >= 8 {
		w.Outcome("eight ranges retained")
	}
	return true
}

func c25PartA(c *vx.Ctx) {
	u := vx.Pick(c, 18, 20)
	depth := vx.Pick(c, 4, 5)
	var ops []c25Op
	for n := 0; n < u; n++ {
		ops = append(ops, c25Op{K: "recv", N: n, AE: true})
	}
	for n := 0; n < u; n++ {
		if c.Quick() && n%4 != 1 {
			continue
		}
		ops = append(ops, c25Op{K: "recv", N: n})
	}
	ops = append(ops, c25Op{K: "sendack"}, c25Op{K: "peeracked", N: 0}, c25Op{K: "peeracked", N: 1}, c25Op{K: "peeracked", N: 2})
	rv := func(ns ...int) (out []c25Op) {
		for _, n := range ns {
			out = append(out, c25Op{K: "recv", N: n, AE: true})
		}
		return out
	}
	cat := func(xs ...[]c25Op) (out []c25Op) {
		for _, x := range xs {
			out = append(out, x...)
		}
		return out
	}
	sa := []c25Op{{K: "sendack"}}
	seeds := [][]c25Op{
		nil,
		rv(0, 2, 4, 6, 8, 10, 12, 14),     // eight ranges: the next new range prunes
		rv(0, 2, 4, 6, 8, 10, 12, 14, 16), // pruning just happened (0 dropped)
		cat(rv(0, 1, 3), sa, rv(5, 6), sa, []c25Op{{K: "peeracked", N: 1}}), // ack of the older ACK: ranges below 3 discarded
		cat(rv(1, 3, 5, 7, 9, 11, 13, 15), sa, rv(17), sa),                  // pruned with two ACKs outstanding
	}
	c.Rule(fmt.Sprintf("part ackstate: breadth-first search over recv(n, ack-eliciting?) for every n in [0,%d) (the operation calls shouldProcess and, like Conn, receive only when it says yes), sendack (acksToSend+sentAck) and peeracked(i) (handleAck with the Largest Acknowledged of one of the last three ACKs sent) on a real ackState; depth %d beyond each of 5 seeds (empty; 8 ranges; 9th range just pruned; after an ack of an ACK; pruned with ACKs outstanding); states deduplicated on (seen, processed set, ACKs outstanding, counters). After every transition, for every n in the universe: shouldProcess(n) implies n was never processed; seen and every acksToSend result contain only processed numbers. Non-trivial = transition applied and compared.", u, depth))
	c.Assume("part ackstate: packets are recorded with receive() right after shouldProcess() said yes, as Conn.handleLongHeader/handle1RTT do; time does not advance (it influences only when an ACK is sent)")
	vx.Seq(c, vx.SeqSpec[*c25State, c25Op]{
		Part:  "ackstate",
		New:   func() *c25State { return &c25State{now: time.Date(2001, 2, 3, 4, 5, 6, 0, time.UTC), u: u} },
		Ops:   ops,
		Depth: depth,
		Seeds: seeds,
		Enabled: func(s *c25State, op c25Op) bool {
			return op.K != "peeracked" || op.N < len(s.sentAcks)
		},
		Apply: c25Apply,
		Canon: func(s *c25State) string {
			return fmt.Sprint(s.impl.seen, s.processed, s.sentAcks, s.impl.nextAck.IsZero(), s.impl.unackedAckEliciting, s.impl.maxAckEliciting)
		},
	})
}

// ---------------------------------------------------------------- part b

type c25Frame struct {
	Mask  uint32 `json:"mask"`    // bit i set <=> block i received
	Avail int    `json:"avail"`   // bytes left in the packet
	Var   int    `json:"variant"` // index into c25Variants
}

type c25Variant struct {
	base   int64   // number of block 0
	widths []int64 // block i holds widths[i%len] consecutive numbers
	delay  unscaledAckDelay
	ecn    ecnCounts
}

var c25Variants = []c25Variant{
	{0, []int64{1}, 0, ecnCounts{}},
	{61, []int64{1}, 100, ecnCounts{}},                      // largest acknowledged on both sides of the 1/2-byte varint boundary
	{0, []int64{70}, 3, ecnCounts{}},                        // 2-byte gaps and range lengths
	{16380, []int64{1}, 0, ecnCounts{t0: 1, t1: 0, ce: 70}}, // ECN counts follow the ranges
	{0, []int64{1, 70, 1, 1, 70}, 0, ecnCounts{}},           // 1- and 2-byte gaps and lengths mixed: a lower range can fit where a higher one does not
}

// c25Block returns the numbers [start,end) of block i.
func c25Block(v c25Variant, i int) (start, end int64) {
	start = v.base
	for j := 0; j < i; j++ {
		start += v.widths[j%len(v.widths)]
	}
	return start, start + v.widths[i%len(v.widths)]
}

func c25Contains(x c25Frame, v c25Variant, n packetNumber) bool {
	for i := 0; i < 32; i++ {
		if s, e := c25Block(v, i); int64(n) >= s && int64(n) < e {
			return x.Mask&(1<<uint(i)) != 0
		}
	}
	return false
}

func c25PartB(c *vx.Ctx) {
	bitsN := vx.Pick(c, 12, 16)
	c.Rule(fmt.Sprintf("part ackframe: every non-empty set of blocks over %d positions (all range sets of <= %d ranges) x every remaining packet space 3..40 bytes x 5 variants (numbers from 0; from 61; 70-number blocks; from 16380 with ECN counts; blocks of 1 and 70 numbers mixed) through packetWriter.appendAckFrame; an emitted frame must fit the space, parse back completely with consumeAckFrame, start with the highest range exactly and contain no number outside the set; a refused frame must leave the packet untouched. Non-trivial = frame emitted and parsed back.", bitsN, (bitsN+1)/2))
	vx.Enumerate(c, "ackframe", vx.Opts{NoSample: false}, func(yield func(c25Frame) bool) {
		for v := range c25Variants {
			for m := uint32(1); m < 1<<uint(bitsN); m++ {
				for a := 3; a <= 40; a++ {
					if !yield(c25Frame{m, a, v}) {
						return
					}
				}
			}
		}
	}, func(w *vx.W, x c25Frame) {
		const id = "C25/ackframe/"
		v := c25Variants[x.Var]
		var seen rangeset[packetNumber]
		for i := 0; i < 32; i++ {
			if x.Mask&(1<<uint(i)) == 0 {
				continue
			}
			bs, be := c25Block(v, i)
			s, e := packetNumber(bs), packetNumber(be)
			if n := len(seen); n > 0 && seen[n-1].end == s {
				seen[n-1].end = e
			} else {
				seen = append(seen, i64range[packetNumber]{s, e})
			}
		}
		var pw packetWriter
		pw.reset(1200)
		pw.start1RTTPacket(0, 0, nil)
		pw.pktLim = pw.payOff + x.Avail
		before := len(pw.b)
		sentBefore := len(pw.sent.b)
		added := pw.appendAckFrame(seen, v.delay, v.ecn)
		if !added {
			if len(pw.b) != before || len(pw.sent.b) != sentBefore {
				w.Failf(id+"refused-but-wrote", "%+v: appendAckFrame returned false but the packet grew by %d bytes (sent record by %d)", x, len(pw.b)-before, len(pw.sent.b)-sentBefore)
			}
			w.Outcome("refused")
			return
		}
		frame := append([]byte(nil), pw.b[before:]...)
		if len(frame) > x.Avail {
			w.Failf(id+"exceeds-available-space", "%+v: frame of %d bytes written with %d available: %x", x, len(frame), x.Avail, frame)
			return
		}
		var got []i64range[packetNumber]
		orderOK := true
		largest, _, _, n := consumeAckFrame(frame, func(idx int, s, e packetNumber) {
			if idx != len(got) {
				orderOK = false
			}
			got = append(got, i64range[packetNumber]{s, e})
		})
		if n != len(frame) || !orderOK || len(got) == 0 {
			w.Failf(id+"does-not-parse-back", "%+v: emitted %x, consumeAckFrame consumed %d of %d bytes, ranges %v", x, frame, n, len(frame), got)
			return
		}
		top := seen[len(seen)-1]
		if got[0] != top || largest != top.end-1 {
			w.Failf(id+"largest-range-wrong", "%+v: first range %v largest %d, the highest received range is %v; frame %x", x, got[0], largest, top, frame)
			return
		}
		for _, r := range got {
			for p := r.start; p < r.end; p++ {
				if !c25Contains(x, v, p) {
					w.Failf(id+"acknowledges-unreceived-number", "%+v: the frame %x acknowledges %d (range %v) which is not in the received set %v", x, frame, p, r, seen)
					return
				}
			}
		}
		w.Nontrivial()
		if len(got) == len(seen) {
			w.Outcome("frame complete")
		} else {
			w.Outcome("frame truncated to newest ranges")
		}
	})
}

func TestVerif_C25(t *testing.T) {
	vx.Run(t, "C25", func(c *vx.Ctx) {
		c25PartA(c)
		c25PartB(c)
		c25PartC(c)
		c25PartD(c)
	})
}
