package quic

// Shared machinery of the q-peer checks (C20, C21, C32): one real Conn driven
// by a scripted peer through the package's own testConn helpers, one case per
// synctest bubble, every packet the conn sends recorded for the monitors.

import (
	"fmt"
	"runtime/debug"
	"strings"
	"testing"
	"testing/synctest"
	"time"

	"golang.org/x/net/internal/zzverif/vx"
)

// qpeerBubble runs body as a sub-test of the harness test inside a fresh
// synctest bubble. A t.Fatal raised by one of the package's test helpers, or a
// panic on the harness goroutine, is turned into a failure of the case (never
// ignored): on the unchanged tree the helpers do not fail, so such a failure
// means the conn did something the helpers could not even parse/expect.
func qpeerBubble(c *vx.Ctx, w *vx.W, prop string, body func(t *testing.T)) {
	done := false
	c.T.Run("case", func(t *testing.T) {
		synctest.Test(t, func(t *testing.T) {
			defer func() {
				if r := recover(); r != nil {
					st := string(debug.Stack())
					w.Failf(prop+"/panic:"+qpeerPanicSite(st), "panic on the harness goroutine: %v\n%s", r, qpeerTrunc(st, 3000))
					done = true
				}
			}()
			body(t)
			done = true
		})
	})
	if !done && !w.Failed() {
		w.Failf(prop+"/harness/helper-fatal", "a testConn helper called t.Fatal while executing this case (run the replay with -test.v to see its message)")
	}
}

func qpeerTrunc(s string, n int) string {
	if len(s) > n {
		return s[:n] + "…"
	}
	return s
}

// qpeerPanicSite names the first repository (non-harness) frame of a stack.
func qpeerPanicSite(st string) string {
	lines := strings.Split(st, "\n")
	for i := 0; i+1 < len(lines); i++ {
		l := lines[i]
		if strings.HasPrefix(l, "golang.org/x/net/") && !strings.Contains(l, "zzverif") &&
			!strings.Contains(lines[i+1], "zz_verif_") && !strings.Contains(lines[i+1], "_test.go") {
			if j := strings.LastIndex(l, "("); j > 0 {
				l = l[:j]
			}
			return strings.TrimPrefix(l, "golang.org/x/net/")
		}
	}
	return "harness"
}

// qpeerPacket is one 1-RTT packet the conn sent.
type qpeerPacket struct {
	num    packetNumber
	frames []debugFrame
}

// qpeerConn wraps a handshaken testConn and records what the conn sends.
type qpeerConn struct {
	t  *testing.T
	tc *testConn

	sent     []qpeerPacket // every 1-RTT packet read so far, in order
	maxPnum  packetNumber  // highest 1-RTT packet number seen (-1: none)
	closed   bool          // a CONNECTION_CLOSE was seen
	closeErr transportError
	closeApp bool // the CONNECTION_CLOSE was an application close
}

// qpeerNew creates the conn, completes the handshake and drains whatever the
// conn sends right after it.
func qpeerNew(t *testing.T, side connSide, opts ...any) *qpeerConn {
	tc := newTestConn(t, side, opts...)
	tc.handshake()
	q := &qpeerConn{t: t, tc: tc, maxPnum: -1}
	q.drain()
	return q
}

// drain reads every datagram the conn wants to send at this instant and
// returns the new 1-RTT packets.
func (q *qpeerConn) drain() []qpeerPacket {
	start := len(q.sent)
	for i := 0; ; i++ {
		if i > 10000 {
			q.t.Fatalf("conn keeps sending datagrams without any input")
		}
		d := q.tc.readDatagram()
		if d == nil {
			break
		}
		for _, p := range d.packets {
			if p.ptype != packetType1RTT {
				continue
			}
			q.sent = append(q.sent, qpeerPacket{num: p.num, frames: p.frames})
			if p.num > q.maxPnum {
				q.maxPnum = p.num
			}
			for _, f := range p.frames {
				switch f := f.(type) {
				case debugFrameConnectionCloseTransport:
					if !q.closed {
						q.closed, q.closeErr = true, f.code
					}
				case debugFrameConnectionCloseApplication:
					if !q.closed {
						q.closed, q.closeApp = true, true
					}
				}
			}
		}
	}
	return q.sent[start:]
}

// write sends the conn one 1-RTT packet with the given frames.
func (q *qpeerConn) write(frames ...debugFrame) {
	q.tc.writeFrames(packetType1RTT, frames...)
}

// ackRange acknowledges the 1-RTT packets [lo, hi).
func (q *qpeerConn) ackRange(lo, hi packetNumber) {
	if hi <= lo {
		return
	}
	q.write(debugFrameAck{ranges: []i64range[packetNumber]{{lo, hi}}})
}

// ackAll acknowledges every packet seen so far.
func (q *qpeerConn) ackAll() {
	q.ackRange(0, q.maxPnum+1)
}

func qpeerSide(s string) connSide {
	if s == "client" {
		return clientSide
	}
	return serverSide
}

func qpeerStype(s string) streamType {
	if s == "uni" {
		return uniStream
	}
	return bidiStream
}

func qpeerFrames(ps []qpeerPacket) string {
	var b strings.Builder
	for _, p := range ps {
		fmt.Fprintf(&b, "[pkt %d:", p.num)
		for _, f := range p.frames {
			if _, ok := f.(debugFrameAck); ok {
				continue
			}
			fmt.Fprintf(&b, " %v;", f)
		}
		b.WriteString("]")
	}
	return b.String()
}

// qpeerDeadlineYield wraps an Enumerate yield so that every shard notices the
// internal deadline (the serial Enumerate loop only polls it on case indices
// that are multiples of 64, which most shards never own).
func qpeerDeadlineYield[T any](c *vx.Ctx, yield func(T) bool) func(T) bool {
	var i, own int64
	return func(x T) bool {
		mine := c.Mine(i)
		i++
		if mine {
			own++
			if own&15 == 0 && c.Expired() {
				return false
			}
		}
		return yield(x)
	}
}

// qpeerGen is a pure generator-side model used to prune an enumeration of
// operation sequences; it never takes part in an oracle.
type qpeerGen interface {
	Enabled(op string) bool
	// Apply returns the model after op; terminal means no operation may follow.
	Apply(op string) (next qpeerGen, terminal bool)
}

// qpeerEnumerate yields every enabled operation sequence of length 1..depth,
// shortest first, in alphabet order.
func qpeerEnumerate(root qpeerGen, ops []string, depth int, yield func(path []string) bool) bool {
	return qpeerEnumerateFrom(root, nil, ops, depth, yield)
}

// qpeerEnumerateFrom is qpeerEnumerate behind a fixed seed prefix (which is
// part of every yielded path and does not count towards depth).
func qpeerEnumerateFrom(root qpeerGen, seed []string, ops []string, depth int, yield func(path []string) bool) bool {
	type node struct {
		g    qpeerGen
		path []string
	}
	for _, op := range seed {
		root, _ = root.Apply(op)
	}
	level := []node{{g: root, path: seed}}
	for d := 1; d <= depth; d++ {
		var next []node
		for _, nd := range level {
			for _, op := range ops {
				if !nd.g.Enabled(op) {
					continue
				}
				path := append(append([]string(nil), nd.path...), op)
				if !yield(path) {
					return false
				}
				if d < depth {
					if g, terminal := nd.g.Apply(op); !terminal {
						next = append(next, node{g: g, path: path})
					}
				}
			}
		}
		level = next
	}
	return true
}

// loseOutstanding makes the conn declare every unacknowledged 1-RTT packet
// sent so far lost: three PINGs are sent and only the last one is acknowledged
// (packet threshold 3). The packets read meanwhile are returned.
func (q *qpeerConn) loseOutstanding() []qpeerPacket {
	start := len(q.sent)
	for i := 0; i < 3; i++ {
		q.tc.conn.ping(appDataSpace)
		q.drain()
	}
	if len(q.sent) > start {
		q.ackRange(q.maxPnum, q.maxPnum+1)
	}
	q.drain()
	return q.sent[start:]
}

// advanceToPTO advances fake time until a PTO has fired: if no loss-detection
// timer is pending a PING is sent first (so that something ack-eliciting is in
// flight); a pending time-threshold loss timer is run through on the way.
// Everything the conn sends meanwhile is drained into q.sent.
func (q *qpeerConn) advanceToPTO() bool {
	for i := 0; i < 4; i++ {
		var armed bool
		var when time.Time
		if err := q.tc.conn.runOnLoop(q.t.Context(), func(now time.Time, c *Conn) {
			armed = c.loss.ptoTimerArmed
			when = c.loss.timer
		}); err != nil {
			return false
		}
		if when.IsZero() {
			q.tc.conn.ping(appDataSpace)
			q.drain()
			continue
		}
		time.Sleep(time.Until(when))
		synctest.Wait()
		q.drain()
		if armed {
			return true
		}
	}
	return false
}
