package quic

// C21 — QUIC stream-count limits are never exceeded.
//
// q-peer SEQ: one real Conn (testConn, fake time, scripted peer). One case =
// one configuration + one operation sequence, executed on a fresh conn in its
// own synctest bubble. Sequences are enumerated depth-bounded, shortest first,
// pruned by a small reference model. A monitor looks at every frame the conn
// sends. Plus a q-unit search on remoteStreamLimits itself.

import (
	"context"
	"fmt"
	"strconv"
	"strings"
	"testing"
	"testing/synctest"
	"time"

	"golang.org/x/net/internal/zzverif/vx"
)

type c21Cfg struct {
	Side      string `json:"side"`       // side of the conn under test
	Styp      string `json:"styp"`       // stream type in focus
	MaxRemote int64  `json:"max_remote"` // configured Max{Bidi,Uni}RemoteStreams for the focus type (0 = none allowed)
	PeerInit  int64  `json:"peer_init"`  // peer's initial_max_streams_{bidi,uni} for the focus type
}

// Other stream type: the conn allows 1 remote stream, the peer allows 0 local streams.
const (
	c21OtherMaxRemote = 1
	c21OtherPeerInit  = 0
)

type c21Case struct {
	Cfg c21Cfg   `json:"cfg"`
	Ops []string `json:"ops"`
}

// Operation grammar (strings, so that replay files are readable):
//
//	new / newb / onew      local NewStream|NewSendOnlyStream of the focus type with a cancelled ctx / with a live ctx
//	                       in a goroutine (blocked opener) / of the other type with a cancelled ctx
//	max:V / omax:V         peer MAX_STREAMS(focus type, V) / (other type, V)
//	p<k><t>                peer frame of kind k on the peer-initiated focus-type stream t;
//	                       k: s STREAM, f STREAM+FIN, r RESET_STREAM, m MAX_STREAM_DATA, t STOP_SENDING (m, t: bidi only)
//	                       t: #N absolute stream number N, @D number = (limit last advertised by the conn) + D
//	ops#N                  peer STREAM on the peer-initiated other-type stream N
//	acc                    AcceptStream with a cancelled ctx
//	close:I                Close() of the I-th accepted stream
//	cread:I / cwrite:I     CloseRead() / CloseWrite() of the I-th accepted stream (cwrite: bidi only): the application
//	                       gives up one half only; it has closed the stream once it gave up every half it has
//	ack                    peer acknowledges every packet sent so far
//	lclose:I               Close() of the I-th locally opened stream
//	lpf:I                  peer STREAM+FIN on the I-th locally opened stream (bidi)
//	lreset:I               Reset(0) + CloseRead() of the I-th locally opened stream
//	forgot:I               not an event but a precondition (used in fixed prefixes only): the conn no longer tracks
//	                       the I-th locally opened stream; if it still does, the case ends here (truncated)
//	nclosed:K              a precondition too (fixed prefixes only): the conn counts exactly K peer streams of the focus
//	                       type as closed; otherwise the case ends here (truncated)
//	l<k>#N                 peer frame of kind k (as above; s, f, r: bidi only) on the LOCALLY-initiated focus-type
//	                       stream number N, whatever its state: open, closed and forgotten by the conn, never opened

type c21Run struct {
	w    *vx.W
	cfg  c21Cfg
	q    *qpeerConn
	side connSide
	ft   streamType // focus type
	ot   streamType // other type

	// local streams (opened by the conn under test)
	lmax    [streamTypeCount]int64 // largest MAX_STREAMS received (initial transport parameter included)
	lopened [streamTypeCount]int64 // streams successfully opened
	locals  []*Stream
	pending []*asyncOp[*Stream] // blocked openers (focus type)

	// remote streams (opened by the scripted peer)
	maxRemote [streamTypeCount]int64
	adv       [streamTypeCount]int64          // limit advertised by the conn (transport parameter, then MAX_STREAMS frames)
	framed    [streamTypeCount]map[int64]bool // the peer sent a frame on this stream while it was within the limit
	finKnown  [streamTypeCount]map[int64]bool // the peer told the final size (FIN or RESET_STREAM)
	finPkts   [streamTypeCount]map[int64][]packetNumber
	sendDone  [streamTypeCount]map[int64]bool // the conn's FIN / RESET_STREAM for the stream was acknowledged
	delivered map[streamID]bool
	accepted  []*Stream
	appRead   map[streamID]bool // the application called CloseRead / Close on the (accepted) peer stream
	appWrite  map[streamID]bool // the application called CloseWrite / Close on it
	nMaxSent  int
	expClosed bool
}

func (r *c21Run) closable(t streamType) int64 {
	var n int64
	for num := range r.finKnown[t] {
		if t == uniStream || r.sendDone[t][num] {
			n++
		}
	}
	return n
}

// released says whether the local application has closed the peer stream
// (every half it has: Close, or CloseRead and - bidi - CloseWrite). A stream
// it never accepted is not closed.
func (r *c21Run) released(t streamType, num int64) bool {
	id := r.peerID(t, num)
	return r.appRead[id] && (t == uniStream || r.appWrite[id])
}

// closableReleased counts the peer streams that are finished on the wire (as
// in closable) and that the local application has closed as well.
func (r *c21Run) closableReleased(t streamType) int64 {
	var n int64
	for num := range r.finKnown[t] {
		if (t == uniStream || r.sendDone[t][num]) && r.released(t, num) {
			n++
		}
	}
	return n
}

// observe runs the monitor over newly sent packets.
func (r *c21Run) observe(after string) {
	w := r.w
	for _, p := range r.q.drain() {
		for _, f := range p.frames {
			var id streamID
			hasID := true
			switch f := f.(type) {
			case debugFrameMaxStreams:
				hasID = false
				t := f.streamType
				r.nMaxSent++
				if f.max < r.adv[t] {
					w.Failf("C21/max-streams-sent-decreased", "after %s: conn sent MAX_STREAMS(%v, %d) after having advertised %d; cfg=%+v", after, t, f.max, r.adv[t], r.cfg)
					return
				}
				r.adv[t] = f.max
			case debugFrameStream:
				id = f.id
				if f.fin && id.initiator() != r.side {
					t := id.streamType()
					r.finPkts[t][id.num()] = append(r.finPkts[t][id.num()], p.num)
				}
			case debugFrameResetStream:
				id = f.id
				if id.initiator() != r.side {
					t := id.streamType()
					r.finPkts[t][id.num()] = append(r.finPkts[t][id.num()], p.num)
				}
			case debugFrameStopSending:
				id = f.id
			case debugFrameMaxStreamData:
				id = f.id
			case debugFrameStreamDataBlocked:
				id = f.id
			default:
				hasID = false
			}
			if hasID && id.initiator() == r.side {
				t := id.streamType()
				if id.num() >= r.lmax[t] {
					w.Failf("C21/local-stream-beyond-peer-limit/on-wire", "after %s: conn sent %v for its own %v stream number %d, but the largest MAX_STREAMS it received is %d; cfg=%+v", after, f, t, id.num(), r.lmax[t], r.cfg)
					return
				}
			}
		}
	}
	for _, t := range []streamType{bidiStream, uniStream} {
		if open := r.adv[t] - r.closable(t); open > r.maxRemote[t] {
			w.Failf("C21/peer-may-hold-more-than-configured/"+t.String(), "after %s: conn advertised MAX_STREAMS %d for %v streams while only %d peer streams are finished (final size known and, for bidi, the conn's FIN/RESET acknowledged): the peer may hold %d open streams, configured maximum %d; cfg=%+v", after, r.adv[t], t, r.closable(t), open, r.maxRemote[t], r.cfg)
			return
		}
	}
	// The same bound with the streams the local application still holds counted as open: a peer stream that
	// is finished on the wire (e.g. reset by the peer) but not yet closed by the application on this side
	// still occupies one of the configured slots.
	for _, t := range []streamType{bidiStream, uniStream} {
		if open := r.adv[t] - r.closableReleased(t); open > r.maxRemote[t] {
			w.Failf("C21/peer-may-hold-more-than-configured/stream-not-closed-by-application/"+t.String(), "after %s: conn advertised MAX_STREAMS %d for %v streams while only %d peer streams are both finished on the wire and closed by the local application (%d are finished on the wire): %d peer streams may be open or still held by the application at once, configured maximum %d; cfg=%+v", after, r.adv[t], t, r.closableReleased(t), r.closable(t), open, r.maxRemote[t], r.cfg)
			return
		}
	}
}

// checkOpened validates a stream returned by NewStream/NewSendOnlyStream.
func (r *c21Run) checkOpened(op string, t streamType, s *Stream) {
	if s.id.initiator() != r.side || s.id.streamType() != t {
		r.w.Failf("C21/local-stream-wrong-id", "%s returned stream id %d (initiator %v, %v)", op, s.id, s.id.initiator(), s.id.streamType())
		return
	}
	if s.id.num() >= r.lmax[t] {
		r.w.Failf("C21/local-stream-beyond-peer-limit/api", "%s returned %v stream number %d, but the largest MAX_STREAMS received is %d; cfg=%+v", op, t, s.id.num(), r.lmax[t], r.cfg)
		return
	}
	s.SetReadContext(canceledContext())
	s.SetWriteContext(canceledContext())
	r.lopened[t]++
	r.locals = append(r.locals, s)
	s.Flush() // puts the stream on the wire (empty STREAM frame)
}

// reapPending collects blocked openers that completed.
func (r *c21Run) reapPending(op string, want int) {
	synctest.Wait()
	got := 0
	var still []*asyncOp[*Stream]
	for _, a := range r.pending {
		s, err := a.result()
		switch {
		case err == errNotDone:
			still = append(still, a)
		case err != nil:
			r.w.Failf("C21/blocked-open-failed", "after %s: blocked NewStream returned error %v", op, err)
			return
		default:
			got++
			r.checkOpened("blocked NewStream (after "+op+")", r.ft, s)
			if r.w.Failed() {
				return
			}
		}
	}
	r.pending = still
	if got < want {
		r.w.Failf("C21/blocked-open-not-woken", "after %s: %d blocked NewStream calls completed, %d should (limit %d, opened %d); cfg=%+v", op, got, want, r.lmax[r.ft], r.lopened[r.ft]-int64(got), r.cfg)
	}
	// got > want is reported by checkOpened (number beyond the limit).
}

func (r *c21Run) peerID(t streamType, num int64) streamID {
	return newStreamID(r.side.peer(), t, num)
}

// step executes one operation; it returns false when the case ends here
// (connection closed as expected, operation not applicable, or failure).
func (r *c21Run) step(op string) bool {
	w, q := r.w, r.q
	name, arg, _ := strings.Cut(op, ":")
	switch {
	case op == "new" || op == "onew":
		t := r.ft
		if op == "onew" {
			t = r.ot
		}
		s, err := q.tc.conn.newLocalStream(canceledContext(), t)
		room := r.lopened[t] < r.lmax[t]
		if err != nil {
			if room {
				w.Failf("C21/open-refused-below-limit", "%s: NewStream failed (%v) with %d opened and limit %d; cfg=%+v", op, err, r.lopened[t], r.lmax[t], r.cfg)
				return false
			}
			w.Outcome("new:blocked")
		} else {
			r.checkOpened(op, t, s)
			w.Outcome("new:opened")
		}
	case op == "newb":
		a := runAsync(q.tc, func(ctx context.Context) (*Stream, error) {
			return q.tc.conn.newLocalStream(ctx, r.ft)
		})
		r.pending = append(r.pending, a)
		want := 0
		if r.lopened[r.ft] < r.lmax[r.ft] {
			want = 1
		} else {
			w.Outcome("newb:blocked")
		}
		r.reapPending(op, want)
	case name == "max" || name == "omax":
		v, _ := strconv.ParseInt(arg, 10, 64)
		t := r.ft
		if name == "omax" {
			t = r.ot
		}
		if v > r.lmax[t] {
			r.lmax[t] = v
			w.Outcome("max:raised")
		} else {
			w.Outcome("max:stale")
		}
		q.write(debugFrameMaxStreams{streamType: t, max: v})
		want := int(min(int64(len(r.pending)), r.lmax[r.ft]-r.lopened[r.ft]))
		r.reapPending(op, max(want, 0))
	case strings.HasPrefix(op, "p") || strings.HasPrefix(op, "ops"):
		t := r.ft
		kind := op[1]
		tgt := op[2:]
		if strings.HasPrefix(op, "ops") {
			t, kind, tgt = r.ot, 's', op[3:]
		}
		var num int64
		d, _ := strconv.ParseInt(tgt[1:], 10, 64)
		if tgt[0] == '#' {
			num = d
		} else {
			num = r.adv[t] + d
		}
		if num < 0 {
			return false // not applicable with this advertised limit
		}
		id := r.peerID(t, num)
		var f debugFrame
		switch kind {
		case 's':
			f = debugFrameStream{id: id}
		case 'f':
			f = debugFrameStream{id: id, fin: true}
		case 'r':
			f = debugFrameResetStream{id: id}
		case 'm':
			f = debugFrameMaxStreamData{id: id, max: 1 << 20}
		case 't':
			f = debugFrameStopSending{id: id}
		}
		lim := r.adv[t]
		over := num >= lim
		if !over {
			// the model learns about the frame before the monitor looks at the conn's reaction
			r.framed[t][num] = true
			if kind == 'f' || kind == 'r' {
				r.finKnown[t][num] = true
			}
		}
		q.write(f)
		r.observe(op)
		if w.Failed() {
			return false
		}
		if over {
			if !q.closed || q.closeApp || q.closeErr != errStreamLimit {
				got := "no CONNECTION_CLOSE"
				if q.closed {
					got = fmt.Sprintf("CONNECTION_CLOSE %v", q.closeErr)
				}
				w.Failf("C21/over-limit-stream-not-rejected/"+string(kind), "peer sent %v on its %v stream number %d with the advertised limit %d: want CONNECTION_CLOSE STREAM_LIMIT_ERROR, got %s; cfg=%+v", f, t, num, lim, got, r.cfg)
				return false
			}
			w.Outcome("peer-frame:STREAM_LIMIT_ERROR")
			if r.closable(t)+r.maxRemote[t] > lim {
				// finished peer streams would allow a larger limit, but no MAX_STREAMS
				// carrying it is on the wire: the advertised limit is the one that counts
				w.Outcome("peer-frame:STREAM_LIMIT_ERROR:limit-update-withheld")
			}
			r.expClosed = true
			return false
		}
		if q.closed {
			w.Failf("C21/in-limit-stream-rejected/"+string(kind), "peer sent %v on its %v stream number %d, below the advertised limit %d, and the conn closed with %v; cfg=%+v", f, t, num, lim, q.closeErr, r.cfg)
			return false
		}
		w.Outcome("peer-frame:accepted")
		if num == lim-1 && r.closable(t)+r.maxRemote[t] > lim {
			w.Outcome("peer-frame:accepted:last-advertised-number:limit-update-withheld")
		}
		return true
	case op == "acc":
		s, err := q.tc.conn.AcceptStream(canceledContext())
		undelivered := 0
		for _, t := range []streamType{bidiStream, uniStream} {
			for num := range r.framed[t] {
				if !r.delivered[r.peerID(t, num)] {
					undelivered++
				}
			}
		}
		if err != nil {
			if undelivered > 0 {
				w.Failf("C21/accept/peer-stream-not-delivered", "AcceptStream failed (%v) with %d peer streams opened by a frame and never delivered; cfg=%+v", err, undelivered, r.cfg)
				return false
			}
			w.Outcome("acc:none")
			return true
		}
		t := s.id.streamType()
		if s.id.initiator() == r.side || !r.framed[t][s.id.num()] || r.delivered[s.id] {
			w.Failf("C21/accept/unknown-or-duplicate-stream", "AcceptStream returned stream id %d (%v number %d): not a peer stream that received a frame, or delivered twice; cfg=%+v", s.id, t, s.id.num(), r.cfg)
			return false
		}
		r.delivered[s.id] = true
		s.SetReadContext(canceledContext())
		s.SetWriteContext(canceledContext())
		r.accepted = append(r.accepted, s)
		w.Outcome("acc:stream")
	case name == "close" || name == "lclose":
		i, _ := strconv.Atoi(arg)
		l := r.accepted
		if name == "lclose" {
			l = r.locals
		}
		if i >= len(l) {
			return false
		}
		l[i].Close()
		if name == "close" {
			r.appRead[l[i].id], r.appWrite[l[i].id] = true, true
		}
	case name == "cread" || name == "cwrite":
		i, _ := strconv.Atoi(arg)
		if i >= len(r.accepted) {
			return false
		}
		s := r.accepted[i]
		if name == "cread" {
			s.CloseRead()
			r.appRead[s.id] = true
		} else {
			if s.IsReadOnly() {
				return false // a receive-only stream has no send half to close
			}
			s.CloseWrite()
			r.appWrite[s.id] = true
		}
	case name == "lreset":
		i, _ := strconv.Atoi(arg)
		if i >= len(r.locals) {
			return false
		}
		r.locals[i].Reset(0)
		r.locals[i].CloseRead()
	case name == "forgot":
		i, _ := strconv.Atoi(arg)
		if i >= len(r.locals) {
			return false
		}
		synctest.Wait()
		if q.tc.conn.streamForID(r.locals[i].id) != nil {
			w.Outcome("prefix:local-stream-not-forgotten")
			return false
		}
		w.Outcome("prefix:local-stream-forgotten")
	case name == "nclosed":
		k, _ := strconv.ParseInt(arg, 10, 64)
		synctest.Wait()
		var got int64
		if err := q.tc.conn.runOnLoop(q.t.Context(), func(now time.Time, c *Conn) {
			got = c.streams.remoteLimit[r.ft].closed
		}); err != nil || got != k {
			w.Outcome("prefix:peer-streams-not-closed")
			return false
		}
		w.Outcome("prefix:peer-streams-closed")
	case len(op) >= 4 && op[0] == 'l' && op[2] == '#':
		kind := op[1]
		num, _ := strconv.ParseInt(op[3:], 10, 64)
		t := r.ft
		if t == uniStream && kind != 'm' && kind != 't' {
			return false // not a legal frame for a send-only stream
		}
		id := newStreamID(r.side, t, num)
		var f debugFrame
		switch kind {
		case 's':
			f = debugFrameStream{id: id}
		case 'f':
			f = debugFrameStream{id: id, fin: true}
		case 'r':
			f = debugFrameResetStream{id: id}
		case 'm':
			f = debugFrameMaxStreamData{id: id, max: 1 << 20}
		case 't':
			f = debugFrameStopSending{id: id}
		default:
			r.q.t.Fatalf("unknown op %q", op)
		}
		q.write(f)
		if num >= r.lopened[t] {
			// A frame for a local stream the conn never opened: the property
			// says nothing about the reaction; the history ends here.
			r.observe(op)
			if w.Failed() {
				return false
			}
			if q.closed {
				w.Outcome("local-frame:never-opened:conn-closed")
			} else {
				w.Outcome("local-frame:never-opened:conn-open")
			}
			r.expClosed = true
			return false
		}
		// Every frame sent here is legal on an opened local stream in any state
		// (no data, final size 0), so the generic checks below apply.
		w.Outcome("local-frame:opened-stream")
		// a late frame neither opens nor wakes anything
		r.reapPending(op, 0)
	case name == "lpf":
		i, _ := strconv.Atoi(arg)
		if i >= len(r.locals) || r.locals[i].id.streamType() != bidiStream {
			return false
		}
		q.write(debugFrameStream{id: r.locals[i].id, fin: true})
	case op == "ack":
		q.ackAll()
		for _, t := range []streamType{bidiStream, uniStream} {
			for num, pk := range r.finPkts[t] {
				if len(pk) > 0 {
					r.sendDone[t][num] = true
				}
			}
		}
	default:
		r.q.t.Fatalf("unknown op %q", op)
	}
	if w.Failed() {
		return false
	}
	r.observe(op)
	if w.Failed() {
		return false
	}
	if q.closed {
		w.Failf("C21/unexpected-connection-close", "after %s the conn sent CONNECTION_CLOSE %v; cfg=%+v", op, q.closeErr, r.cfg)
		return false
	}
	return true
}

func c21Exec(c *vx.Ctx, w *vx.W, cs c21Case) {
	qpeerBubble(c, w, "C21", func(t *testing.T) {
		r := &c21Run{w: w, cfg: cs.Cfg, side: qpeerSide(cs.Cfg.Side), ft: qpeerStype(cs.Cfg.Styp), delivered: map[streamID]bool{}, appRead: map[streamID]bool{}, appWrite: map[streamID]bool{}}
		r.ot = bidiStream + uniStream - r.ft
		r.maxRemote[r.ft], r.maxRemote[r.ot] = cs.Cfg.MaxRemote, c21OtherMaxRemote
		r.lmax[r.ft], r.lmax[r.ot] = cs.Cfg.PeerInit, c21OtherPeerInit
		for t := range r.framed {
			r.framed[t], r.finKnown[t], r.sendDone[t] = map[int64]bool{}, map[int64]bool{}, map[int64]bool{}
			r.finPkts[t] = map[int64][]packetNumber{}
		}
		cfgVal := func(v int64) int64 {
			if v == 0 {
				return -1 // Config: negative means zero, zero means default
			}
			return v
		}
		r.q = qpeerNew(t, r.side, func(cf *Config) {
			cf.MaxBidiRemoteStreams = cfgVal(r.maxRemote[bidiStream])
			cf.MaxUniRemoteStreams = cfgVal(r.maxRemote[uniStream])
		}, func(p *transportParameters) {
			p.initialMaxStreamsBidi = r.lmax[bidiStream]
			p.initialMaxStreamsUni = r.lmax[uniStream]
			p.initialMaxData = 1 << 20
			p.initialMaxStreamDataBidiLocal = 1 << 20
			p.initialMaxStreamDataBidiRemote = 1 << 20
			p.initialMaxStreamDataUni = 1 << 20
		})
		tp := r.q.tc.sentTransportParameters
		if tp == nil {
			t.Fatalf("no transport parameters seen")
		}
		r.adv[bidiStream], r.adv[uniStream] = tp.initialMaxStreamsBidi, tp.initialMaxStreamsUni
		r.observe("handshake")
		if w.Failed() {
			return
		}
		ran := 0
		for _, op := range cs.Ops {
			if !r.step(op) {
				break
			}
			ran++
		}
		if w.Failed() {
			return
		}
		c.AddTransitions(int64(ran))
		c.AddTraces(1)
		if ran == len(cs.Ops) || (r.expClosed && ran == len(cs.Ops)-1) {
			w.Nontrivial()
			c.AddStates(1) // stateless search: one explored history
		} else {
			w.Outcome("case-truncated")
		}
		if r.nMaxSent > 0 {
			w.Outcome("conn-sent-MAX_STREAMS")
		}
	})
}

// ---- enumeration ----------------------------------------------------------

// c21Gen is the generator-side prediction used only to prune the enumeration
// (the oracle never uses it; a wrong prediction costs coverage, never an alarm).
type c21Gen struct {
	cfg      c21Cfg
	ops      map[string]bool
	accepted int
	framed   map[int64]bool // focus-type peer streams known to have received a frame
	framedX  int            // further streams that may have received one (unresolved targets, other type)
	closed   map[int]bool
	halves   map[string]bool // cread:I / cwrite:I already applied
	nClose   int
	locals   int
	lclosed  map[int]bool
	lmaxPred int64
	pendingB int // predicted blocked openers (newb)
	last     string
	terminal bool
}

func (g *c21Gen) clone() *c21Gen {
	n := *g
	n.closed, n.lclosed, n.framed, n.halves = map[int]bool{}, map[int]bool{}, map[int64]bool{}, map[string]bool{}
	for k := range g.halves {
		n.halves[k] = true
	}
	for k := range g.closed {
		n.closed[k] = true
	}
	for k := range g.lclosed {
		n.lclosed[k] = true
	}
	for k := range g.framed {
		n.framed[k] = true
	}
	return &n
}

// c21GenStable is the largest configured limit for which the generator
// predicts the advertised limit: beyond it the initial limit is capped and
// may grow by opening streams alone, so relative targets stay unresolved.
const c21GenStable = 99

// resolve predicts the stream number of a target. While no accepted stream
// has been closed the advertised limit is still the initial one.
func (g *c21Gen) resolve(tgt string) (num int64, known bool) {
	d, _ := strconv.ParseInt(tgt[1:], 10, 64)
	if tgt[0] == '#' {
		return d, true
	}
	if g.nClose == 0 && g.cfg.MaxRemote <= c21GenStable {
		return g.cfg.MaxRemote + d, true
	}
	return d, false
}

// enabled says whether op is worth generating after the current prefix.
func (g *c21Gen) enabled(op string) bool {
	if g.terminal {
		return false
	}
	name, arg, _ := strings.Cut(op, ":")
	switch {
	case op == "acc":
		return !(g.last == "acc" && g.accepted >= len(g.framed)+g.framedX)
	case op == "ack":
		return g.last != "ack"
	case name == "close":
		i, _ := strconv.Atoi(arg)
		return i < g.accepted && !g.closed[i]
	case name == "cread" || name == "cwrite":
		i, _ := strconv.Atoi(arg)
		return i < g.accepted && !g.closed[i] && !g.halves[op] && (name == "cread" || g.cfg.Styp == "bidi")
	case name == "lclose" || name == "lreset":
		i, _ := strconv.Atoi(arg)
		return i < g.locals && !g.lclosed[i]
	case len(op) >= 4 && op[0] == 'l' && op[2] == '#':
		return op[1] == 'm' || op[1] == 't' || g.cfg.Styp == "bidi"
	case name == "lpf":
		i, _ := strconv.Atoi(arg)
		return i < g.locals && g.cfg.Styp == "bidi"
	case strings.HasPrefix(op, "p") && !strings.HasPrefix(op, "ops"):
		if (op[1] == 'm' || op[1] == 't') && g.cfg.Styp != "bidi" {
			return false
		}
		if op[2] == '@' {
			num, known := g.resolve(op[2:])
			if known && (num < 0 || g.ops[fmt.Sprintf("p%c#%d", op[1], num)]) {
				return false // not applicable, or the same frame as an absolute-target op
			}
		}
	}
	return true
}

func (g *c21Gen) apply(op string) {
	name, arg, _ := strings.Cut(op, ":")
	switch {
	case op == "acc":
		if g.accepted < len(g.framed)+g.framedX {
			g.accepted++
		}
	case name == "close":
		i, _ := strconv.Atoi(arg)
		g.closed[i] = true
		g.nClose++
	case name == "cread" || name == "cwrite":
		// closing a half may finish the stream: from here on the advertised limit is not predicted
		// (nClose is an upper bound of the streams the conn may count as closed)
		g.halves[op] = true
		if i, _ := strconv.Atoi(arg); g.halves[fmt.Sprintf("cread:%d", i)] && (g.cfg.Styp != "bidi" || g.halves[fmt.Sprintf("cwrite:%d", i)]) {
			g.closed[i] = true
		}
		g.nClose++
	case name == "lclose" || name == "lreset":
		i, _ := strconv.Atoi(arg)
		g.lclosed[i] = true
	case len(op) >= 4 && op[0] == 'l' && op[2] == '#':
		if n, _ := strconv.Atoi(op[3:]); n >= g.locals {
			g.terminal = true // never-opened local stream: the history ends
		}
	case op == "new" || op == "newb":
		if int64(g.locals) < g.lmaxPred {
			g.locals++
		} else if op == "newb" {
			g.pendingB++
		}
	case name == "max":
		v, _ := strconv.ParseInt(arg, 10, 64)
		g.lmaxPred = max(g.lmaxPred, v)
		for g.pendingB > 0 && int64(g.locals) < g.lmaxPred {
			g.pendingB--
			g.locals++
		}
	case strings.HasPrefix(op, "ops"):
		n, _ := strconv.ParseInt(op[4:], 10, 64)
		if n >= c21OtherMaxRemote {
			g.terminal = true
		} else {
			g.framedX++ // upper bound
		}
	case strings.HasPrefix(op, "p"):
		num, known := g.resolve(op[2:])
		switch {
		case !known && num >= 0: // limit+D, D >= 0
			g.terminal = true
		case !known:
			g.framedX++ // upper bound
		case g.cfg.MaxRemote <= c21GenStable && num >= g.cfg.MaxRemote+int64(g.nClose):
			// the advertised limit is at most MaxRemote + (streams closed so far)
			g.terminal = true
		default:
			g.framed[num] = true
		}
	}
	g.last = op
}

// c21Enumerate yields, behind the fixed prefix seed (part of every yielded
// case, not counted in depth), every enabled op sequence of length 1..depth,
// shortest first.
func c21Enumerate(cfg c21Cfg, seed []string, ops []string, depth int, yield func(c21Case) bool) bool {
	type node struct {
		g    *c21Gen
		path []string
	}
	opset := map[string]bool{}
	for _, o := range ops {
		opset[o] = true
	}
	root := &c21Gen{cfg: cfg, ops: opset, closed: map[int]bool{}, halves: map[string]bool{}, lclosed: map[int]bool{}, framed: map[int64]bool{}, lmaxPred: cfg.PeerInit}
	for _, op := range seed {
		root.apply(op)
	}
	level := []node{{g: root, path: append([]string(nil), seed...)}}
	for d := 1; d <= depth; d++ {
		var next []node
		for _, nd := range level {
			for _, op := range ops {
				if !nd.g.enabled(op) {
					continue
				}
				path := append(append([]string(nil), nd.path...), op)
				if !yield(c21Case{Cfg: cfg, Ops: path}) {
					return false
				}
				if d < depth {
					g := nd.g.clone()
					g.apply(op)
					if !g.terminal {
						next = append(next, node{g: g, path: path})
					}
				}
			}
		}
		level = next
	}
	return true
}

// ---- q-unit: remoteStreamLimits on its own ---------------------------------

type c21UnitState struct {
	lim     remoteStreamLimits
	maxOpen int64
	adv     int64 // last limit "sent" (initial, then every value taken by appendFrame's condition)
	closedN int64 // close() calls
	openedN int64 // model: highest accepted number + 1
}

func c21Unit(c *vx.Ctx, maxOpen int64, depth int) {
	type op struct {
		Kind string `json:"k"` // "open" (number = adv+D or absolute), "close", "send"
		D    int64  `json:"d"`
		Abs  bool   `json:"abs"`
	}
	ops := []op{{"open", 0, true}, {"open", 1, true}, {"open", -1, false}, {"open", 0, false}, {"open", 5, false}, {"close", 0, false}, {"send", 0, false}}
	vx.Seq(c, vx.SeqSpec[*c21UnitState, op]{
		Part: fmt.Sprintf("unit/maxOpen=%d", maxOpen),
		New: func() *c21UnitState {
			s := &c21UnitState{maxOpen: maxOpen}
			s.lim.init(maxOpen)
			s.adv = s.lim.max
			return s
		},
		Ops:   ops,
		Depth: depth,
		Enabled: func(s *c21UnitState, o op) bool {
			switch o.Kind {
			case "close":
				return s.closedN < s.openedN // only opened streams can finish
			case "open":
				return o.Abs || s.adv+o.D >= 0
			}
			return true
		},
		Apply: func(w *vx.W, s *c21UnitState, o op) bool {
			switch o.Kind {
			case "open":
				num := o.D
				if !o.Abs {
					num += s.adv
				}
				// the peer acts on the limit it was sent (s.adv), the endpoint checks lim.max >= s.adv;
				// only while a MAX_STREAMS frame is queued and not yet written may the endpoint
				// already accept numbers up to the value that frame will carry
				queued := s.lim.sendMax.shouldSend()
				err := s.lim.open(newStreamID(clientSide, bidiStream, num))
				if num >= s.adv && num >= s.lim.max && err == nil {
					w.Failf("C21/unit/over-limit-open-accepted", "open(number %d) accepted with limit %d (sent %d)", num, s.lim.max, s.adv)
					return false
				}
				if num >= s.adv && err == nil && !queued {
					w.Failf("C21/unit/over-limit-open-accepted/no-frame-queued", "open(number %d) accepted although the last limit sent is %d and no MAX_STREAMS frame is queued (%d opened, %d closed, configured %d)", num, s.adv, s.openedN, s.closedN, s.maxOpen)
					return false
				}
				if num >= s.adv && err != nil && s.closedN+s.maxOpen > s.adv {
					w.Outcome("open:rejected:limit-update-withheld")
				}
				if num < s.adv && err != nil {
					w.Failf("C21/unit/in-limit-open-rejected", "open(number %d) rejected (%v) with sent limit %d", num, err, s.adv)
					return false
				}
				if err != nil {
					w.Outcome("open:rejected")
					return false // connection error: end of history
				}
				if num+1 > s.openedN {
					s.openedN = num + 1
				}
				w.Outcome("open:ok")
			case "close":
				s.lim.close()
				s.closedN++
			case "send":
				if s.lim.sendMax.shouldSend() {
					if s.lim.max < s.adv {
						w.Failf("C21/unit/max-streams-decreased", "MAX_STREAMS %d after %d", s.lim.max, s.adv)
						return false
					}
					s.adv = s.lim.max
					s.lim.sendMax.setSent(0)
					w.Outcome("send:frame")
				} else {
					w.Outcome("send:nothing")
				}
			}
			if s.lim.max-s.closedN > s.maxOpen {
				w.Failf("C21/unit/peer-may-hold-more-than-configured", "after %+v: limit %d with %d streams closed allows %d open streams, configured %d", o, s.lim.max, s.closedN, s.lim.max-s.closedN, s.maxOpen)
				return false
			}
			if s.lim.max < s.adv {
				w.Failf("C21/unit/limit-below-sent", "after %+v: limit %d below the value already sent %d", o, s.lim.max, s.adv)
				return false
			}
			return true
		},
		Canon: func(s *c21UnitState) string {
			return fmt.Sprint(s.lim.max, s.lim.opened, s.lim.closed, s.lim.sendMax.state(), s.adv, s.closedN, s.openedN)
		},
	})
}

type c21Part struct {
	name  string
	cfgs  []c21Cfg
	ops   []string
	depth int
	seeds func(cfg c21Cfg) [][]string // fixed prefixes (nil: the empty prefix only)
}

// c21SeedOpens: the conn has opened every stream the peer's initial limit allows.
func c21SeedOpens(cfg c21Cfg) [][]string {
	var seed []string
	for i := int64(0); i < cfg.PeerInit; i++ {
		seed = append(seed, "new")
	}
	return [][]string{seed}
}

// c21SeedForgotten: the conn has opened n local streams, n = the peer's limit
// and n = the limit - 1 (n >= 1), and stream 0 has been closed completely and
// forgotten, either gracefully (for bidi the peer's FIN first; Close; the
// conn's FIN acknowledged) or abruptly (Reset + CloseRead; for bidi the peer's
// RESET_STREAM; the conn's RESET_STREAM acknowledged).
func c21SeedForgotten(cfg c21Cfg) (seeds [][]string) {
	hows := [][]string{{"lclose:0", "ack", "forgot:0"}, {"lreset:0", "ack", "forgot:0"}}
	if cfg.Styp == "bidi" {
		hows = [][]string{{"lf#0", "lclose:0", "ack", "forgot:0"}, {"lreset:0", "lr#0", "ack", "forgot:0"}}
	}
	for n := cfg.PeerInit; n >= max(cfg.PeerInit-1, 1); n-- {
		for _, how := range hows {
			var seed []string
			for i := int64(0); i < n; i++ {
				seed = append(seed, "new")
			}
			seeds = append(seeds, append(seed, how...))
		}
	}
	return seeds
}

// c21SeedPeerClosed: the peer has opened and finished its streams 0..k-1 and
// the conn has accepted and closed each of them completely (Close, then
// everything acknowledged), checked on the real conn by nclosed:k.
func c21SeedPeerClosed(k int) func(cfg c21Cfg) [][]string {
	return func(cfg c21Cfg) [][]string {
		var seed []string
		for i := 0; i < k; i++ {
			seed = append(seed, fmt.Sprintf("pf#%d", i), "acc", fmt.Sprintf("close:%d", i))
		}
		return [][]string{append(seed, "ack", fmt.Sprintf("nclosed:%d", k))}
	}
}

// c21SeedHeld: the peer has opened its stream 0 and the local application has
// accepted it (and holds it, with both halves open).
func c21SeedHeld(cfg c21Cfg) [][]string {
	return [][]string{{"ps#0", "acc"}}
}

func c21Parts(c *vx.Ctx) []c21Part {
	sides := vx.Pick(c, []string{"server"}, []string{"server", "client"})
	types := []string{"bidi", "uni"}
	cfgs := func(maxRemote, peerInit []int64) (l []c21Cfg) {
		for _, side := range sides {
			for _, styp := range types {
				for _, mr := range maxRemote {
					for _, pi := range peerInit {
						l = append(l, c21Cfg{Side: side, Styp: styp, MaxRemote: mr, PeerInit: pi})
					}
				}
			}
		}
		return l
	}
	// every frame kind on every target, for short histories
	var kinds []string
	for _, k := range "sfrmt" {
		for _, tg := range []string{"#0", "#1", "#2", "@-1", "@0", "@5"} {
			kinds = append(kinds, fmt.Sprintf("p%c%s", k, tg))
		}
	}
	kinds = append(kinds, "acc", "close:0", "ack")
	// every frame kind on the conn's own stream numbers 0, 1, 2, plus the operations that matter afterwards
	var lkinds []string
	for _, tg := range []string{"#0", "#1", "#2"} {
		for _, k := range "sfrmt" {
			lkinds = append(lkinds, fmt.Sprintf("l%c%s", k, tg))
		}
	}
	lkinds = append(lkinds, "new", "newb", "max:2", "max:3", "ack", "lclose:1")
	remote := []string{"ps#0", "pf#0", "pr#0", "ps@-1", "pf@-1", "acc", "close:0", "close:1", "ack", "ps@0", "pr@0"}
	var extra []c21Part
	// Configured limits large enough that the conn may withhold a MAX_STREAMS update after a peer stream
	// finished (8 / 9: the two sides of its "fewer than 8 stream numbers left" rule with one stream opened;
	// 16, 20: well inside; 100, 101, 120: at / beyond the cap on the initial limit, where opening a stream
	// alone raises the limit the conn aims for). The limit that counts is the one on the wire: the peer
	// opens a few streams, they are closed completely in any order, and then the peer uses the numbers
	// limit-1 and limit of the last limit it was actually sent. (Thorough widens the configurations, not the
	// depth: the deeper parts below already use up the thorough budget.)
	batched := cfgs(vx.Pick(c, []int64{9, 20, 120}, []int64{8, 9, 16, 20, 100, 101, 120}), []int64{1})
	extra = append(extra, c21Part{"remote-batched", batched,
		[]string{"pf#0", "pf#1", "acc", "close:0", "close:1", "ack", "ps@-1", "ps@0"}, 5, nil})
	// ... and the same boundary behind fixed prefixes with k = 1, 2, 3 peer streams closed completely
	for k := 1; k <= 3; k++ {
		extra = append(extra, c21Part{fmt.Sprintf("remote-batched-closed-%d", k), batched,
			[]string{fmt.Sprintf("ps#%d", k), fmt.Sprintf("pf#%d", k), "acc", fmt.Sprintf("close:%d", k), "ack",
				"ps@-2", "ps@-1", "pf@-1", "pr@-1", "ps@0", "pr@0", "pm@0", "ps@5"},
			3, c21SeedPeerClosed(k)})
	}
	parts := []c21Part{
		// local stream creation against the peer's MAX_STREAMS
		{"local", cfgs([]int64{1}, []int64{0, 1, 2}),
			[]string{"new", "newb", "max:1", "max:2", "max:3", "omax:3", "onew"}, vx.Pick(c, 4, 5), nil},
		// peer-created streams against the conn's advertised limit
		{"remote-kinds", cfgs([]int64{0, 1, 2}, []int64{1}), kinds, vx.Pick(c, 2, 3), nil},
		extra[1], // remote-batched-closed-1 (the order of the parts only matters when the deadline cuts the run: small parts first)
		// the two stream types do not share a limit
		{"cross-type", cfgs([]int64{1}, []int64{1}),
			[]string{"pf#0", "ops#0", "ops#1", "acc", "close:0", "close:1", "ps@0", "ps@-1", "omax:3", "onew", "new"}, vx.Pick(c, 4, 5), nil},
		// finishing local streams must not extend the peer's limit
		{"mixed", cfgs([]int64{1}, []int64{1}),
			[]string{"new", "lclose:0", "lpf:0", "ack", "pf#0", "acc", "close:0", "ps@0", "ps@-1", "max:1"}, vx.Pick(c, 5, 6), nil},
		// a peer stream ends on the wire (FIN / RESET_STREAM from the peer, the conn's own FIN acknowledged)
		// BEFORE, between or after the application's CloseRead / CloseWrite / Close of it, in every order,
		// with the peer at / one below a small limit: the slot is the peer's again only once both happened
		{"remote-held", cfgs([]int64{1, 2}, []int64{1}),
			[]string{"pr#0", "pf#0", "cread:0", "cwrite:0", "close:0", "ack", "ps@-1", "pr@-1", "ps@0", "acc"},
			vx.Pick(c, 4, 5), c21SeedHeld},
		extra[2], extra[3], extra[0], // remote-batched-closed-2, -3, remote-batched
		// deeper histories of peer-created streams
		{"remote-0-2-3", cfgs([]int64{0, 2, 3}, []int64{1}), remote, vx.Pick(c, 4, 6), nil},
		{"remote-1", cfgs([]int64{1}, []int64{1}), remote, vx.Pick(c, 6, 7), nil},
		// peer frames addressed to the conn's own streams in every life-cycle state (open, closed and
		// forgotten, never opened) with the conn at / one below the peer's limit: every frame kind on
		// every target for short histories behind a prefix that closes stream 0 completely ...
		{"local-kinds", cfgs([]int64{1}, []int64{1, 2}), lkinds, vx.Pick(c, 3, 4), c21SeedForgotten},
		// ... and deeper histories where the closing steps themselves are explored in any order,
		// interleaved with late frames, behind a prefix that only reaches the limit
		{"local-late", cfgs([]int64{1}, []int64{1}),
			vx.Pick(c,
				[]string{"new", "lclose:0", "lreset:0", "ack", "lf#0", "lr#0", "lm#0", "max:2"},
				[]string{"new", "newb", "lclose:0", "lreset:0", "ack", "lf#0", "lr#0", "lm#0", "lt#0", "max:2"}),
			vx.Pick(c, 5, 6), c21SeedOpens},
		// the same with two local streams at a limit of 2, either of which may be the one that is closed
		{"local-late-2", cfgs([]int64{1}, []int64{2}),
			[]string{"new", "lclose:0", "lclose:1", "ack", "lf#1", "lm#0", "lm#1", "max:3"},
			vx.Pick(c, 4, 6), c21SeedOpens},
	}
	return parts
}

func TestVerif_C21(t *testing.T) {
	vx.Run(t, "C21", func(c *vx.Ctx) {
		c.Rule("q-peer: for every configuration (conn side, stream type in focus, configured Max*RemoteStreams 0..3 and, in the remote-batched* parts, {9, 20, 120} quick / {8, 9, 16, 20, 100, 101, 120} thorough, peer initial_max_streams 0..2) every sequence of enabled operations up to the depth of the part, shortest first, each on a fresh handshaken Conn in its own synctest bubble; operations: local NewStream with cancelled / live context, peer MAX_STREAMS (any order, stale values), peer STREAM/FIN/RESET_STREAM/MAX_STREAM_DATA/STOP_SENDING on stream numbers {0,1,2,limit-1,limit,limit+5}, AcceptStream, Close of accepted/local streams, Reset+CloseRead of local streams, ACK of everything sent, and peer STREAM/FIN/RESET_STREAM/MAX_STREAM_DATA/STOP_SENDING addressed to the conn's OWN stream numbers {0,1,2} in every life-cycle state (open, half closed, completely closed and forgotten, never opened) with the conn exactly at / one below the peer's limit; a monitor reads every frame the conn sends after every step. The parts local-kinds / local-late / local-late-2 enumerate behind fixed prefixes (not counted in the depth): local-kinds behind each of {n opens, n = limit and limit-1} x {peer FIN, Close, ACK | Reset+CloseRead, peer RESET_STREAM, ACK} with the precondition that the conn has forgotten stream 0 (checked on the real conn; it held in every case or the outcome prefix:local-stream-not-forgotten is listed); local-late* behind 'limit' opens, so that the closing steps themselves are explored in every order interleaved with late frames and further opens. The remote-batched* parts use configured limits large enough that the conn may withhold a MAX_STREAMS update after peer streams finished (8 | 9: either side of 'fewer than 8 numbers left' with one stream opened; 100 | 101, 120: at and beyond the cap of the initial limit): remote-batched enumerates peer STREAM+FIN on streams 0, 1, AcceptStream, Close of either, ACK and a peer STREAM on the numbers limit-1 and limit in every order from a fresh conn; remote-batched-closed-k (k = 1, 2, 3) enumerates behind the fixed prefix 'streams 0..k-1 opened with FIN by the peer, accepted, closed, everything acknowledged' (precondition checked on the real conn: it counts k closed peer streams, else outcome prefix:peer-streams-not-closed) the operations open / open+FIN stream k, AcceptStream, Close, ACK, STREAM on limit-2, STREAM / STREAM+FIN / RESET_STREAM on limit-1, STREAM / RESET_STREAM / MAX_STREAM_DATA on limit, STREAM on limit+5. The remote-held part (configured limits 1, 2) enumerates behind the fixed prefix 'the peer opened its stream 0, the application accepted it' every order of: peer RESET_STREAM / STREAM+FIN on stream 0, the application's CloseRead / CloseWrite (bidi) / Close of it, ACK, peer STREAM / RESET_STREAM on limit-1, peer STREAM on limit, AcceptStream - so a stream ends on the wire before, between and after the application's close calls, with the conn's own FIN acknowledged or not. In all parts 'limit' is computed from the wire only: the conn's initial_max_streams transport parameter, then the largest MAX_STREAMS frame it actually sent; the outcomes *:limit-update-withheld count boundary probes made while finished streams would already allow a larger limit that is not on the wire. Non-trivial = the whole sequence was executed on the real conn (or ended in the expected STREAM_LIMIT_ERROR at its last step). q-unit: BFS with state dedup over open (numbers 0, 1, sent limit-1, sent limit, sent limit+5) / close / send on remoteStreamLimits with maxOpen in {0, 1, 2, 3, 8, 9, 16, 20, 100, 120}; a number at or beyond the last limit sent must be refused unless a MAX_STREAMS frame is queued and not yet written. Counters: states = histories explored completely (stateless search, no deduplication), transitions = operations applied to the real conn and checked, traces = cases executed.")
		c.Assume("a peer stream counts as no longer open once its final size is known to the conn (FIN or RESET_STREAM received) and, for bidirectional streams, a packet carrying the conn's FIN or RESET_STREAM was acknowledged; this is the weakest reading of 'closed', so the simultaneous-streams bound is not over-strict")
		c.Assume("second reading of the same bound, checked in addition (signature .../stream-not-closed-by-application): a peer stream the local application has not closed yet (no Close, or not CloseRead and - bidi - CloseWrite; a stream it never accepted included) still occupies one of the configured slots even if it is finished on the wire (e.g. reset by the peer), because the application still holds it: advertised limit minus streams that are finished on the wire AND closed by the application never exceeds the configured maximum. This is the library's documented behaviour ('We don't increase MAX_STREAMS until the user calls ReadClose or Close')")
		c.Assume("a peer frame for a local stream the conn never opened ends the history without a verdict (the property does not say how the conn reacts); frames addressed to local streams carry no data and final size 0, so they are legal in every state of an opened stream")
		c.Assume("no packet loss or reordering of the conn's own packets in this check (C20/C32 cover loss); late/duplicate peer frames for finished streams are in the alphabet; the advertised limit is the one in frames the scripted peer has actually read; the other stream type is fixed at 1 remote / 0 local streams")

		if s, _ := c.Shard(); s == 0 {
			for _, mo := range []int64{0, 1, 2, 3, 8, 9, 16, 20, 100, 120} {
				c21Unit(c, mo, vx.Pick(c, 8, 12))
			}
		}
		check := func(w *vx.W, cs c21Case) { c21Exec(c, w, cs) }
		for _, p := range c21Parts(c) {
			vx.Enumerate(c, p.name, vx.Opts{Serial: true, Crumb: true}, func(yield0 func(c21Case) bool) {
				yield := qpeerDeadlineYield(c, yield0)
				for _, cfg := range p.cfgs {
					seeds := [][]string{nil}
					if p.seeds != nil {
						seeds = p.seeds(cfg)
					}
					for _, seed := range seeds {
						if !c21Enumerate(cfg, seed, p.ops, p.depth, yield) {
							return
						}
					}
				}
			}, check)
			c.Note("depth."+p.name, p.depth)
		}
	})
}
