package quic

// C27 — until a server has validated a client's address, the bytes it sends
// to that address never exceed three times the bytes it received from it.
//
// Fault enumeration over the handshake on two real Endpoints with real TLS
// (network and deviations: c19_q2net_test.go). The monitor sits at the
// harness-owned network and counts whole datagrams per remote address.

import (
	"bytes"
	"context"
	"crypto/tls"
	"encoding/binary"
	"fmt"
	"net/netip"
	"sort"
	"strings"
	"sync"
	"testing"
	"testing/synctest"
	"time"

	"golang.org/x/net/internal/quic/quicwire"
	"golang.org/x/net/internal/zzverif/vx"
)

type c27Scn struct {
	RAV      bool `json:"rav"`       // server Config.RequireAddressValidation (Retry)
	BigHello bool `json:"big_hello"` // client offers many ALPN names: the ClientHello needs two Initial datagrams
	Chain    int  `json:"chain"`     // certificates in the server's chain (1 = flight fits one datagram, 10 = flight exceeds 3 x 1200 bytes)
	// Token is what the token field of the client's Initial packets carries
	// when it reaches the network (the packets are re-protected with the
	// public Initial keys, as any sender can do):
	//	""          what the real client wrote: empty, or the token of a Retry
	//	"junk"      an empty token field is replaced by c27JunkToken, a token no
	//	            server ever issued (a Retry token is left alone)
	//	"badretry"  a non-empty token (the one from a Retry) has its last byte
	//	            flipped; only meaningful with RAV
	Token string `json:"token,omitempty"`
}

// c27JunkToken is long enough to pass validateToken's length check and reach
// the AEAD.
var c27JunkToken = []byte{0xc2, 0x7c, 0x27, 0xc2, 0x7c, 0x27, 0xc2, 0x7c}

type c27Case struct {
	Scn  c27Scn   `json:"scn"`
	Devs []c19Dev `json:"devs"`
}

type c27Run struct {
	fails     []c19Fail
	ndgrams   int
	applied   int
	hashN     uint64
	hashS     uint64
	minSlack  int  // least 3*received - sent seen for an unvalidated address after a server write
	blocked   bool // a server conn was seen at its anti-amplification limit (white-box)
	validated bool // some address became validated
	dialOK    bool
	voidBytes int // bytes the server sent to the spoofed address
	retry     bool
	retok     int  // client Initial packets whose token field was rewritten (Scn.Token)
	tokValid  bool // a token the server had issued to an address came back from it
	trace     []c19TraceEnt
	dbg       func(string)
}

const (
	c27RunFor  = 12 * time.Second // fake time each run lasts (> the 10 s handshake timeout)
	c27Horizon = 30 * time.Second
)

func c27Bubble(r *c27Run, cs c27Case) {
	sc := cs.Scn
	cliConf := Config{TLSConfig: newTestTLSConfig(clientSide)}
	srvConf := Config{TLSConfig: newTestTLSConfig(serverSide), RequireAddressValidation: sc.RAV}
	if sc.BigHello {
		var protos []string
		for i := 0; i < 12; i++ {
			protos = append(protos, fmt.Sprintf("c27-%02d-%s", i, strings.Repeat("x", 90)))
		}
		cliConf.TLSConfig.NextProtos = protos
		srvConf.TLSConfig.NextProtos = protos[len(protos)-1:]
	}
	if sc.Chain > 1 {
		cert := srvConf.TLSConfig.Certificates[0]
		var chain [][]byte
		for i := 0; i < sc.Chain; i++ {
			chain = append(chain, cert.Certificate[0])
		}
		srvConf.TLSConfig.Certificates = []tls.Certificate{{Certificate: chain, PrivateKey: cert.PrivateKey}}
	}
	start := time.Now()
	p := c19NewPair(cs.Devs, cliConf, srvConf)
	defer p.shutdown()
	if p.setupErr != nil {
		r.fails = append(r.fails, c19Fail{"C27/harness/setup", p.setupErr.Error()})
		return
	}
	if r.dbg != nil {
		p.cliQ.dbg = func(s string) { r.dbg(fmt.Sprintf("%v CLI %s", time.Since(start), s)) }
		p.srvQ.dbg = func(s string) { r.dbg(fmt.Sprintf("%v SRV %s", time.Since(start), s)) }
		p.net.dbg = func(s string) { r.dbg(fmt.Sprintf("%v NET %s", time.Since(start), s)) }
	}

	// ---- the monitor
	sent := map[netip.AddrPort]int{}
	recv := map[netip.AddrPort]int{}
	valid := map[netip.AddrPort]bool{}
	r.minSlack = 1 << 30
	refresh := func() {
		for _, c := range p.serverConns() {
			if c.side != serverSide {
				continue
			}
			if c.loss.antiAmplificationLimit == antiAmplificationUnlimited {
				valid[c.peerAddr] = true
				r.validated = true
			} else if c.loss.antiAmplificationLimit < minPacketSize {
				r.blocked = true
			}
		}
	}
	hsFrom := map[netip.AddrPort]bool{}
	issued := map[netip.AddrPort][][]byte{} // tokens of the Retry packets the server wrote to the address
	tokFrom := map[netip.AddrPort]bool{}    // a complete Initial carrying one of them was delivered from the address
	p.net.onDeliver = func(d *c19Dgram, size int, from netip.AddrPort) {
		if d.to == c19ServerAddr {
			recv[from] += size
			hs, toks := c27WalkDatagram(d.b[:size])
			if hs {
				hsFrom[from] = true
			}
			for _, tk := range toks {
				for _, is := range issued[from] {
					if len(tk) > 0 && bytes.Equal(tk, is) {
						tokFrom[from] = true
						r.tokValid = true
					}
				}
			}
		}
	}
	var retokCIDs [][]byte
	p.net.onWrite = func(d *c19Dgram) {
		if d.from == c19ClientAddr && sc.Token != "" {
			// The client's datagram enters the network with the scenario's
			// token field (before any deviation is applied to it).
			var n int
			d.b, n = c27Retoken(d.b, sc.Token, &retokCIDs)
			r.retok += n
		}
		if d.from != c19ServerAddr {
			return
		}
		// All writes collected here happened after the last delivery to the
		// server was processed (one delivery per step, the conn handles the
		// datagram before it sends), so the validation state read now is the
		// state they were sent under.
		refresh()
		a := d.to
		sent[a] += len(d.b)
		if a == c19SpoofAddr {
			r.voidBytes += len(d.b)
		}
		if len(d.b) > 0 && d.b[0]&0xf0 == 0xf0 {
			r.retry = true
			if tk := c27RetryToken(d.b); len(tk) > 0 {
				issued[a] = append(issued[a], tk)
			}
		}
		// Validated = the implementation says so (white-box) AND, black-box,
		// one of the two events RFC 9000 section 8.1 accepts as validation
		// can have happened: a datagram carrying a complete Handshake packet
		// has been delivered from that address, or a complete Initial packet
		// delivered from it carried, byte for byte, the token of a Retry
		// packet the server had written to that very address (necessary
		// conditions, so that a conn that lifts its limit on anything less,
		// e.g. on a token nobody issued, is caught).
		if valid[a] && (hsFrom[a] || tokFrom[a]) {
			return
		}
		slack := 3*recv[a] - sent[a]
		if slack < r.minSlack {
			r.minSlack = slack
		}
		if slack < 0 {
			r.fails = append(r.fails, c19Fail{"C27/3x-exceeded", fmt.Sprintf("server has sent %d bytes to unvalidated %v after this %d-byte datagram but received only %d bytes from it (3x = %d) at fake time %v", sent[a], a, len(d.b), recv[a], 3*recv[a], time.Since(start))})
		}
	}

	ctx, cancel := context.WithCancel(context.Background())
	defer cancel()
	var wg sync.WaitGroup
	wg.Add(2)
	go func() {
		defer wg.Done()
		c, err := p.cliEP.Dial(ctx, "udp", c19ServerAddr.String(), p.cliConf)
		if err == nil && c != nil {
			r.dialOK = true
		}
	}()
	go func() {
		defer wg.Done()
		p.srvEP.Accept(ctx)
	}()
	done := make(chan struct{})
	go func() {
		select {
		case <-time.After(c27RunFor):
		case <-ctx.Done():
		}
		close(done)
	}()
	end := p.net.run(done, c27Horizon, 2000, refresh)
	if end == "storm" {
		r.fails = append(r.fails, c19Fail{"C27/harness/datagram-storm", "more than 2000 datagrams during a handshake"})
	}
	r.ndgrams = p.net.nextIdx
	r.applied = p.net.applied
	r.hashN = p.net.traceHash(false)
	r.hashS = p.net.traceHash(true)
	r.trace = p.net.trace
	cancel()
	p.shutdown()
	wg.Wait()
	<-done
	synctest.Wait()
}

// c27HasHandshakePacket reports whether a complete Handshake packet is among
// the coalesced packets of a datagram.
func c27HasHandshakePacket(b []byte) bool {
	hs, _ := c27WalkDatagram(b)
	return hs
}

// c27WalkDatagram walks the coalesced long-header packets of a datagram
// in clear text (RFC 9000 section 17.2) and reports whether a complete
// Handshake packet is among them, and the token fields of the complete
// Initial packets before it.
func c27WalkDatagram(b []byte) (hasHandshake bool, initialTokens [][]byte) {
	toks := [][]byte(nil)
	return c27walk(b, &toks), toks
}

// c27RetryToken returns the token of a Retry packet (RFC 9000 section 17.2.5:
// everything between the source connection ID and the 16-byte integrity tag).
func c27RetryToken(b []byte) []byte {
	if len(b) < 7 || b[0]&0xf0 != 0xf0 {
		return nil
	}
	i := 5
	i += 1 + int(b[i]) // dcid
	if len(b) < i+1 {
		return nil
	}
	i += 1 + int(b[i]) // scid
	if len(b) < i+16 {
		return nil
	}
	return append([]byte(nil), b[i:len(b)-16]...)
}

func c27walk(b []byte, toks *[][]byte) bool {
	varint := func(b []byte) (uint64, int) {
		if len(b) == 0 {
			return 0, -1
		}
		n := 1 << (b[0] >> 6)
		if len(b) < n {
			return 0, -1
		}
		v := uint64(b[0] & 0x3f)
		for i := 1; i < n; i++ {
			v = v<<8 | uint64(b[i])
		}
		return v, n
	}
	for len(b) > 0 {
		if b[0]&0x80 == 0 {
			return false // short header: extends to the end of the datagram
		}
		typ := (b[0] >> 4) & 3
		i := 5 // first byte + version
		if len(b) < i+1 {
			return false
		}
		i += 1 + int(b[i]) // dcid
		if len(b) < i+1 {
			return false
		}
		i += 1 + int(b[i]) // scid
		if typ == 3 {
			return false // Retry
		}
		var tok []byte
		if typ == 0 { // Initial: token
			tl, n := varint(b[min(i, len(b)):])
			if n < 0 {
				return false
			}
			if i+n+int(tl) <= len(b) {
				tok = b[i+n : i+n+int(tl)]
			}
			i += n + int(tl)
		}
		if i > len(b) {
			return false
		}
		l, n := varint(b[i:])
		if n < 0 {
			return false
		}
		end := i + n + int(l)
		if end > len(b) {
			return false // truncated packet
		}
		if typ == 2 {
			return true
		}
		if typ == 0 {
			*toks = append(*toks, append([]byte(nil), tok...))
		}
		b = b[end:]
	}
	return false
}

// c27Retoken returns the client datagram b with the token field of its
// Initial packets set according to mode (see c27Scn.Token), and how many
// packets were changed. Initial packets are protected with keys derived from
// a connection ID that travels in clear (RFC 9001 section 5.2), so this is
// what any sender, including one that never talked to the server, can
// produce. cids collects the destination connection IDs seen in the client's
// Initial packets: the keys come from the first one, or from the first one
// after a Retry. The added header bytes are taken out of the padding (trailing PADDING
// frames of the packet, zero bytes behind the last packet) when there is any,
// so a padded datagram keeps its size. Packets that cannot be opened are passed through unchanged.
func c27Retoken(b []byte, mode string, cids *[][]byte) ([]byte, int) {
	var out []byte
	changed, grown := 0, 0
	rest := b
	for len(rest) > 0 {
		if !isLongHeader(rest[0]) || getPacketType(rest) == packetTypeVersionNegotiation {
			break
		}
		n := skipLongHeaderPacket(rest)
		if n < 0 {
			break
		}
		pkt := rest[:n]
		rest = rest[n:]
		if getPacketType(pkt) != packetTypeInitial {
			out = append(out, pkt...)
			continue
		}
		g, ok := parseGenericLongHeaderPacket(pkt)
		if !ok {
			out = append(out, pkt...)
			continue
		}
		seen := false
		for _, c := range *cids {
			seen = seen || bytes.Equal(c, g.dstConnID)
		}
		if !seen {
			*cids = append(*cids, append([]byte(nil), g.dstConnID...))
		}
		var p longPacket
		var keys fixedKeys
		var clear []byte
		opened := false
		for i := len(*cids) - 1; i >= 0 && !opened; i-- {
			keys = initialKeys((*cids)[i], clientSide).w // fresh: keys carry scratch state
			clear = append([]byte(nil), pkt...)
			var m int
			p, m = parseLongHeaderPacket(clear, keys, 0)
			opened = m == n
		}
		if !opened {
			out = append(out, pkt...)
			continue
		}
		var tok []byte
		switch {
		case mode == "junk" && len(p.extra) == 0:
			tok = c27JunkToken
		case mode == "badretry" && len(p.extra) > 0:
			tok = append([]byte(nil), p.extra...)
			tok[len(tok)-1] ^= 0xff
		default:
			out = append(out, pkt...)
			continue
		}
		pnumLen := int(clear[0]&3) + 1
		oldHdr := n - len(p.payload) - 16 // header incl. packet number
		pnumBytes := clear[oldHdr-pnumLen : oldHdr]
		hdr := []byte{clear[0]}
		hdr = binary.BigEndian.AppendUint32(hdr, p.version)
		hdr = quicwire.AppendUint8Bytes(hdr, p.dstConnID)
		hdr = quicwire.AppendUint8Bytes(hdr, p.srcConnID)
		hdr = quicwire.AppendVarintBytes(hdr, tok)
		pay := p.payload
		grow := len(hdr) + 2 + pnumLen - oldHdr
		for grow > 0 && len(pay) > 4 && pay[len(pay)-1] == 0 {
			pay = pay[:len(pay)-1]
			grow--
		}
		grown += max(grow, 0)
		plen := pnumLen + len(pay) + 16
		hdr = append(hdr, 0x40|byte(plen>>8), byte(plen))
		pnumOff := len(hdr)
		hdr = append(hdr, pnumBytes...)
		out = append(out, keys.protect(hdr, append([]byte(nil), pay...), pnumOff, p.num)...)
		changed++
	}
	// (the client pads its Initial datagrams with zero bytes behind the last packet)
	for grown > 0 && len(rest) > 0 && rest[0] == 0 && rest[len(rest)-1] == 0 {
		rest = rest[:len(rest)-1]
		grown--
	}
	out = append(out, rest...)
	if changed == 0 {
		return b, 0
	}
	return out, changed
}

func c27Exec(t *testing.T, cs c27Case, dbg func(string)) *c27Run {
	r := &c27Run{dbg: dbg}
	t.Run("b", func(t *testing.T) {
		synctest.Test(t, func(t *testing.T) { c27Bubble(r, cs) })
	})
	return r
}

// Deviations: the ones that make sense for a client->server datagram are
// no-ops (plain delivery, counted as not applied) on a server->client one.
var c27Kinds = []c19Dev{
	{Kind: "drop"}, {Kind: "dup"}, {Kind: "hold1"}, {Kind: "late"},
	{Kind: "trunc", Arg: 1199}, {Kind: "trunc", Arg: 600}, {Kind: "trunc", Arg: 100}, {Kind: "trunc", Arg: 1},
	{Kind: "spoof"},
	{Kind: "dead"}, // the client is silent from this datagram on (nothing is delivered in either direction any more; the server's writes are still counted)
}

func c27Report(w *vx.W, cs c27Case, r *c27Run) {
	for _, f := range r.fails {
		sig := f.sig
		if sig == "C27/3x-exceeded" {
			if cs.Scn.RAV {
				sig += "/retry-on"
			} else {
				sig += "/retry-off"
			}
			switch cs.Scn.Token {
			case "junk":
				sig += "/unissued-token"
			case "badretry":
				sig += "/damaged-retry-token"
			}
		}
		w.Fail(sig, f.what+fmt.Sprintf(" [datagrams=%d applied=%d]", r.ndgrams, r.applied))
	}
	// Non-trivial: every deviation took effect and the limit was really
	// binding (the server came within one full-size datagram of it, or was
	// seen blocked).
	if r.applied == len(cs.Devs) && (r.minSlack < 1200 || r.blocked) && (cs.Scn.Token == "" || r.retok > 0) {
		w.Nontrivial()
	}
	sl := "slack>=1200"
	switch {
	case r.minSlack == 0:
		sl = "slack=0"
	case r.minSlack < 128:
		sl = "slack<128"
	case r.minSlack < 1200:
		sl = "slack<1200"
	}
	rt := "false"
	if r.tokValid {
		rt = "token-returned"
	} else if r.retry {
		rt = "true"
	}
	w.Outcome(fmt.Sprintf("dial=%v/validated=%v/blocked=%v/%s/void=%v/retry=%s", r.dialOK, r.validated, r.blocked, sl, r.voidBytes > 0, rt))
}

func TestVerif_C27(t *testing.T) {
	vx.Run(t, "C27", func(c *vx.Ctx) {
		var scns []c27Scn
		for _, big := range []bool{false, true} {
			for _, chain := range []int{1, 10} {
				for _, rav := range []bool{false, true} {
					scns = append(scns, c27Scn{RAV: rav, BigHello: big, Chain: chain})
				}
			}
		}
		// The Initial-token dimension of the client's input: on both server
		// configurations a token nobody issued; with Retry also a damaged
		// copy of the issued one (the intact one is what the real client
		// returns in the scenarios above).
		for _, big := range []bool{false, true} {
			for _, chain := range []int{1, 10} {
				for _, rav := range []bool{false, true} {
					scns = append(scns, c27Scn{RAV: rav, BigHello: big, Chain: chain, Token: "junk"})
					if rav {
						scns = append(scns, c27Scn{RAV: rav, BigHello: big, Chain: chain, Token: "badretry"})
					}
				}
			}
		}
		kSmall := vx.Pick(c, 2, 3)
		kBig := vx.Pick(c, 1, 2)
		c.Rule(fmt.Sprintf("fault enumeration over the handshake of two real quic Endpoints (real TLS, synctest bubble, harness-owned network): scenarios = RequireAddressValidation {off,on} x ClientHello {one, two Initial datagrams} x server certificate chain {1, 10 certificates: the server flight exceeds 3x1200 bytes} x token field of the client's Initial packets {as the real client writes it: empty, or the intact token of a Retry; every empty token field replaced by an 8-byte token nobody issued; with RequireAddressValidation also: the returned Retry token with its last byte flipped} (20 scenarios; the token is rewritten when the client's datagram enters the network, before any deviation, by re-protecting the Initial packet with the public Initial keys); per scenario the default run plus every placement of <= k deviations at increasing datagram indices 0..N+2 (both directions; N = largest datagram count of three default runs; cases are assigned to shards by content hash), kinds {drop, dup, hold1, late (timer first), trunc to 1199/600/100/1 bytes, spoofed source address, dead = the client is silent from that datagram on for the rest of the run (only as the last deviation of a case)} (quick tier: pairs use {drop, dup, late, trunc600, spoof, dead}); trunc/spoof only take effect on client->server datagrams; k=%d for the one-datagram-ClientHello scenarios (3 deviations: kinds {drop, late, trunc600, trunc100, spoof, dead}), k=%d for the others; every run lasts 12 s of fake time (past the handshake timeout) so that all server PTOs fire. Monitor at the network, per remote address a: after every datagram the server endpoint writes to a, bytes written to a <= 3 x bytes delivered to the server from a, unless a server conn for a has antiAmplificationLimit==unlimited (white-box, read at the quiescent point) and one of the validation events of RFC 9000 section 8.1 can have happened (clear-text header walk): a datagram carrying a complete Handshake packet was delivered from a, or a complete Initial packet delivered from a carried byte for byte the token of a Retry packet the server had written to a. Retry packets and datagrams to the spoofed address are counted. Non-trivial = all deviations took effect (and, in the rewritten-token scenarios, at least one Initial packet was rewritten) and the server came within one full datagram (1200 bytes) of the limit or was seen blocked by it", kSmall, kBig))
		c.Assume("'validated' needs both the implementation's own flag and a black-box necessary condition (Handshake packet delivered, or a Retry token the server issued to that address returned from it); the pinned implementation only lifts the limit on a processed Handshake packet, which is stricter than RFC 9000 requires and is accepted; the server never sends NEW_TOKEN frames, so a Retry packet is the only way it issues a token")
		c.Assume("stateless resets are not enabled (no StatelessResetKey) and version negotiation is not triggered (both endpoints speak version 1)")

		nOf := map[c27Scn]int{}
		{
			det, detS := true, true
			var counts []int
			for _, sc := range scns {
				if c.Replaying() {
					break
				}
				a := c27Exec(c.T, c27Case{Scn: sc}, nil)
				nOf[sc] = a.ndgrams
				for rep := 0; rep < 2; rep++ {
					b := c27Exec(c.T, c27Case{Scn: sc}, nil)
					nOf[sc] = max(nOf[sc], b.ndgrams)
					if a.ndgrams != b.ndgrams || a.hashN != b.hashN {
						det = false
					}
					if a.hashS != b.hashS {
						detS = false
					}
				}
				counts = append(counts, nOf[sc])
			}
			c.Note("deterministic", det)
			c.Note("deterministic_including_datagram_sizes", detS)
			c.Note("default_run_datagrams_per_scenario", counts)
		}
		check := func(w *vx.W, cs c27Case) {
			r := c27Exec(w.Ctx().T, cs, nil)
			c27Report(w, cs, r)
		}
		opts := vx.Opts{Serial: true, Crumb: true}
		kinds3 := []c19Dev{{Kind: "drop"}, {Kind: "late"}, {Kind: "trunc", Arg: 600}, {Kind: "trunc", Arg: 100}, {Kind: "spoof"}, {Kind: "dead"}}
		multi := func(part string, k int, scs []c27Scn, kinds []c19Dev) {
			vx.Enumerate(c, part, opts, c19Sharded(c, func(yield func(c27Case) bool) {
				for _, sc := range scs {
					n := nOf[sc] + 3
					var rec func(devs []c19Dev, from int) bool
					rec = func(devs []c19Dev, from int) bool {
						if len(devs) == k {
							return yield(c27Case{Scn: sc, Devs: append([]c19Dev(nil), devs...)})
						}
						for at := from; at < n; at++ {
							for _, kd := range kinds {
								if kd.Kind == "dead" && len(devs) != k-1 {
									continue // nothing is delivered after it: only as the last deviation
								}
								kd.At = at
								if !rec(append(devs, kd), at+1) {
									return false
								}
							}
						}
						return true
					}
					if !rec(nil, 0) {
						return
					}
				}
			}), check)
			// (shards overwrite each other's notes, so only the negative is recorded)
			if !c.Replaying() && c.Expired() {
				c.Note("part_"+part+"_cut_by_deadline_in_some_shard", true)
			}
		}
		var smallS, bigS []c27Scn
		for _, sc := range scns {
			if sc.BigHello {
				bigS = append(bigS, sc)
			} else {
				smallS = append(smallS, sc)
			}
		}
		sort.SliceStable(smallS, func(i, j int) bool { return nOf[smallS[i]] < nOf[smallS[j]] })
		multi("k0", 0, scns, c27Kinds)
		multi("k1", 1, scns, c27Kinds)
		kinds2 := c27Kinds
		if c.Quick() {
			kinds2 = []c19Dev{{Kind: "drop"}, {Kind: "dup"}, {Kind: "late"}, {Kind: "trunc", Arg: 600}, {Kind: "spoof"}, {Kind: "dead"}}
		}
		multi("k2-small", 2, smallS, kinds2)
		if kBig >= 2 {
			multi("k2-big", 2, bigS, c27Kinds)
		}
		if kSmall >= 3 {
			multi("k3-small", 3, smallS, kinds3)
		}
	})
}
