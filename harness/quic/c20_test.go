package quic

// C20 — QUIC never sends stream data beyond the peer's flow-control limits;
// advertised limits never decrease; an over-limit peer gets FLOW_CONTROL_ERROR.
//
// Half (b) of the design: q-peer SEQ. One real Conn per case (own synctest
// bubble) against a scripted peer.
//
// send: two local streams, peer limits small (stream 150, connection 200);
// Write/Flush, peer MAX_DATA / MAX_STREAM_DATA smaller/equal/larger in any
// order, ack / loss / PTO. Monitor over every STREAM frame the conn sends
// (retransmissions included) against the largest limits received so far.
//
// recv: two peer streams, conn windows small (stream 100, connection 150);
// peer STREAM frames ending at {limit-1, limit, limit+1} of the stream and of
// the connection limit, Read, CloseRead, ack, loss. Reference model of both
// limit sets as advertised in the frames the conn actually sent.
//
// recv-packets: the recv alphabet plus packets with two frames (credit-returning
// RESET_STREAM / data on one stream, then data on the other stream around the
// connection limit that was on the wire before the packet).

import (
	"fmt"
	"strconv"
	"strings"
	"testing"
	"time"

	"golang.org/x/net/internal/zzverif/vx"
)

type c20Case struct {
	Side string   `json:"side"`
	Styp string   `json:"styp"`
	Ops  []string `json:"ops"`
}

const (
	c20PeerStreamWin = 150 // send half: peer's initial MAX_STREAM_DATA
	c20PeerConnWin   = 200 // send half: peer's initial MAX_DATA
	c20OwnStreamWin  = 100 // recv half: MaxStreamReadBufferSize
	c20OwnConnWin    = 150 // recv half: MaxConnReadBufferSize
)

// c20AdvMon checks that the limits the conn advertises never decrease.
type c20AdvMon struct {
	advC  int64
	advS  map[streamID]int64
	nUpd  int
	idx   int
	defS  int64
	nLoss int
}

// observe drains the conn and processes MAX_DATA / MAX_STREAM_DATA frames; f is called for every frame.
func (a *c20AdvMon) observe(w *vx.W, q *qpeerConn, after string, cs c20Case, each func(p qpeerPacket, f debugFrame)) {
	q.drain()
	ps := q.sent[a.idx:]
	a.idx = len(q.sent)
	for _, p := range ps {
		for _, f := range p.frames {
			switch f := f.(type) {
			case debugFrameMaxData:
				a.nUpd++
				if f.max < a.advC {
					w.Failf("C20/advertised-MAX_DATA-decreased", "after %s: conn sent %v after having advertised %d; case=%+v", after, f, a.advC, cs)
					return
				}
				a.advC = f.max
			case debugFrameMaxStreamData:
				a.nUpd++
				prev, ok := a.advS[f.id]
				if !ok {
					prev = a.defS
				}
				if f.max < prev {
					w.Failf("C20/advertised-MAX_STREAM_DATA-decreased", "after %s: conn sent %v after having advertised %d for that stream; case=%+v", after, f, prev, cs)
					return
				}
				a.advS[f.id] = f.max
			}
			if each != nil {
				each(p, f)
				if w.Failed() {
					return
				}
			}
		}
	}
}

func c20OpClass(op string) string {
	name, _, _ := strings.Cut(op, ":")
	if strings.HasPrefix(name, "w") {
		return "write"
	}
	return name
}

// ---- send half --------------------------------------------------------------
//
// ops: w<N>:<i> Write(N) on local stream i | fl:<i> Flush | md:<D> peer MAX_DATA(largest so far + D) |
//      msd<i>:<D> peer MAX_STREAM_DATA(stream i, largest so far + D) | ack | loss | pto

func c20ExecSend(c *vx.Ctx, w *vx.W, cs c20Case) {
	qpeerBubble(c, w, "C20", func(t *testing.T) {
		side := qpeerSide(cs.Side)
		q := qpeerNew(t, side, func(p *transportParameters) {
			p.initialMaxStreamsBidi = 4
			p.initialMaxStreamsUni = 4
			p.initialMaxData = c20PeerConnWin
			// only the parameter that applies to the streams of this case is small
			p.initialMaxStreamDataBidiLocal = 1 << 20
			p.initialMaxStreamDataBidiRemote = 1 << 20
			p.initialMaxStreamDataUni = 1 << 20
			switch cs.Styp {
			case "uni":
				p.initialMaxStreamDataUni = c20PeerStreamWin
			case "bidi": // opened by the conn: "remote" for the peer that sends the parameter
				p.initialMaxStreamDataBidiRemote = c20PeerStreamWin
			case "accepted": // opened by the peer
				p.initialMaxStreamDataBidiLocal = c20PeerStreamWin
			}
		})
		tp := q.tc.sentTransportParameters
		if tp == nil {
			t.Fatalf("no transport parameters seen")
		}
		adv := &c20AdvMon{advC: tp.initialMaxData, advS: map[streamID]int64{}, defS: tp.initialMaxStreamDataBidiLocal}
		var streams [2]*Stream
		for i := range streams {
			var s *Stream
			var err error
			if cs.Styp == "accepted" {
				q.write(debugFrameStream{id: newStreamID(side.peer(), bidiStream, int64(i))})
				s, err = q.tc.conn.AcceptStream(canceledContext())
			} else {
				s, err = q.tc.conn.newLocalStream(canceledContext(), qpeerStype(cs.Styp))
			}
			if err != nil {
				t.Fatalf("cannot create stream %d: %v", i, err)
			}
			s.SetReadContext(canceledContext())
			s.SetWriteContext(canceledContext())
			streams[i] = s
		}
		idx := func(id streamID) int {
			for i, s := range streams {
				if s.id == id {
					return i
				}
			}
			return -1
		}
		md := int64(c20PeerConnWin)                         // largest MAX_DATA received
		msd := [2]int64{c20PeerStreamWin, c20PeerStreamWin} // largest MAX_STREAM_DATA received
		var maxSent, written [2]int64                       // highest offset sent / bytes accepted by Write
		nStale, nRaise, nRetrans, lossy := 0, 0, 0, false
		after := "setup"
		each := func(p qpeerPacket, f debugFrame) {
			sf, ok := f.(debugFrameStream)
			if !ok {
				return
			}
			i := idx(sf.id)
			if i < 0 {
				return
			}
			e := sf.off + int64(len(sf.data))
			if e <= maxSent[i] && len(sf.data) > 0 {
				nRetrans++
			}
			if e > msd[i] {
				w.Failf("C20/send/stream-limit-exceeded/after-"+c20OpClass(after), "after %s: conn sent %v (packet %d) ending at %d, beyond the largest MAX_STREAM_DATA received for the stream, %d; case=%+v", after, sf, p.num, e, msd[i], cs)
				return
			}
			if e > maxSent[i] {
				maxSent[i] = e
			}
			if tot := maxSent[0] + maxSent[1]; tot > md {
				w.Failf("C20/send/connection-limit-exceeded/after-"+c20OpClass(after), "after %s: conn sent %v (packet %d); highest offsets now %v, sum %d beyond the largest MAX_DATA received, %d; case=%+v", after, sf, p.num, maxSent, tot, md, cs)
			}
		}
		adv.observe(w, q, after, cs, each)
		if w.Failed() {
			return
		}
		ran := 0
		for _, op := range cs.Ops {
			after = op
			name, arg, _ := strings.Cut(op, ":")
			n, _ := strconv.ParseInt(arg, 10, 64)
			switch {
			case strings.HasPrefix(name, "w"):
				sz, _ := strconv.Atoi(name[1:])
				got, _ := streams[n].Write(make([]byte, sz))
				written[n] += int64(got)
			case name == "fl":
				streams[n].Flush()
			case name == "md":
				v := md + n
				if v > md {
					md = v
					nRaise++
				} else {
					nStale++
				}
				q.write(debugFrameMaxData{max: v})
			case strings.HasPrefix(name, "msd"):
				i, _ := strconv.Atoi(name[3:])
				v := msd[i] + n
				if v > msd[i] {
					msd[i] = v
					nRaise++
				} else {
					nStale++
				}
				q.write(debugFrameMaxStreamData{id: streams[i].id, max: v})
			case op == "ack":
				q.ackAll()
			case op == "loss":
				lossy = true
				q.loseOutstanding()
			case op == "pto":
				lossy = true
				if !q.advanceToPTO() {
					w.Outcome("pto:not-armed")
					goto done
				}
			default:
				t.Fatalf("unknown op %q", op)
			}
			adv.observe(w, q, after, cs, each)
			if w.Failed() {
				return
			}
			if q.closed {
				w.Failf("C20/send/unexpected-connection-close", "after %s the conn sent CONNECTION_CLOSE %v; case=%+v", op, q.closeErr, cs)
				return
			}
			ran++
		}
	done:
		c.AddTransitions(int64(ran))
		c.AddTraces(1)
		if ran == len(cs.Ops) {
			w.Nontrivial()
			c.AddStates(1) // stateless search: one explored history
			if !lossy {
				// Everything written is flushed; without loss the conn must use the limits it was given
				// (a stale MAX_* must not have lowered them).
				after = "final-flush"
				for _, s := range streams {
					s.Flush()
				}
				adv.observe(w, q, after, cs, each)
				time.Sleep(20 * time.Millisecond) // pacing
				adv.observe(w, q, after, cs, each)
				if w.Failed() {
					return
				}
				want := min(min(written[0], msd[0])+min(written[1], msd[1]), md)
				if got := maxSent[0] + maxSent[1]; got < want {
					w.Failf("C20/send/sends-less-than-limits-allow", "all data flushed, no loss: highest offsets sent %v (sum %d), but written %v with MAX_STREAM_DATA %v and MAX_DATA %d allow %d; stale updates seen: %d; case=%+v", maxSent, got, written, msd, md, want, nStale, cs)
					return
				}
			}
		} else {
			w.Outcome("case-truncated")
		}
		tot := maxSent[0] + maxSent[1]
		w.Outcome(fmt.Sprintf("send:conn-limit-reached=%v,stream-limit-reached=%v,stale=%v,raised=%v,retransmitted=%v",
			tot == md, maxSent[0] == msd[0] || maxSent[1] == msd[1], nStale > 0, nRaise > 0, nRetrans > 0))
	})
}

type c20SendGen struct {
	unflushed [2]bool
	inflight  bool
	last      string
}

func (g c20SendGen) Enabled(op string) bool {
	name, arg, _ := strings.Cut(op, ":")
	switch {
	case name == "fl":
		i, _ := strconv.Atoi(arg)
		return g.unflushed[i]
	case op == "ack":
		return g.inflight
	case op == "loss":
		return g.inflight
	case op == "pto":
		return g.inflight && g.last != "pto"
	}
	return true
}

func (g c20SendGen) Apply(op string) (qpeerGen, bool) {
	name, arg, _ := strings.Cut(op, ":")
	i, _ := strconv.Atoi(arg)
	switch {
	case strings.HasPrefix(name, "w"):
		g.unflushed[i] = true
		if name == "w5000" {
			g.inflight = true
		}
	case name == "fl":
		g.unflushed[i] = false
		g.inflight = true
	case name == "md" || strings.HasPrefix(name, "msd"):
		g.inflight = true // may release blocked data
	case op == "ack":
		g.inflight = false
	case op == "loss" || op == "pto":
		g.inflight = true
	}
	g.last = op
	return g, false
}

// ---- receive half -----------------------------------------------------------
//
// ops: s<i>:+N   peer STREAM on its stream i, new contiguous data up to (highest offset so far)+N
//      s<i>:slD  ... up to (stream limit advertised)+D
//      s<i>:clD  ... up to the offset that makes the connection total (connection limit advertised)+D
//      r<i>:slD / r<i>:clD  peer RESET_STREAM with that final size
//      r<i>:+0    peer RESET_STREAM with final size = highest offset sent so far
//      A&B        frames A and B (any of the s/r forms) in ONE packet, in that order
//      rd<i> Read(1000) | rs<i> Read(10) | cr<i> CloseRead | ack | loss

func c20ExecRecv(c *vx.Ctx, w *vx.W, cs c20Case) {
	qpeerBubble(c, w, "C20", func(t *testing.T) {
		side := qpeerSide(cs.Side)
		styp := qpeerStype(cs.Styp)
		q := qpeerNew(t, side, permissiveTransportParameters, func(cf *Config) {
			cf.MaxStreamReadBufferSize = c20OwnStreamWin
			cf.MaxConnReadBufferSize = c20OwnConnWin
		})
		tp := q.tc.sentTransportParameters
		if tp == nil {
			t.Fatalf("no transport parameters seen")
		}
		defS := tp.initialMaxStreamDataUni
		if styp == bidiStream {
			defS = tp.initialMaxStreamDataBidiRemote // streams initiated by the receiver of the parameters, i.e. the scripted peer
		}
		adv := &c20AdvMon{advC: tp.initialMaxData, advS: map[streamID]int64{}, defS: defS}
		var ids [2]streamID
		var streams [2]*Stream
		for i := range ids {
			ids[i] = newStreamID(side.peer(), styp, int64(i))
			q.write(debugFrameStream{id: ids[i]})
			s, err := q.tc.conn.AcceptStream(canceledContext())
			if err != nil || s.id != ids[i] {
				t.Fatalf("AcceptStream: %v", err)
			}
			s.SetReadContext(canceledContext())
			s.SetWriteContext(canceledContext())
			streams[i] = s
		}
		adv.observe(w, q, "setup", cs, nil)
		if w.Failed() {
			return
		}
		advS := func(i int) int64 {
			if v, ok := adv.advS[ids[i]]; ok {
				return v
			}
			return adv.defS
		}
		var hw [2]int64        // highest offset the peer has sent per stream (final sizes included)
		var closedRead [2]bool // CloseRead was called
		var isReset [2]bool
		tainted := false // the peer sent data on a stream after the application closed its read side
		nRead := 0
		ran := 0
		for _, op := range cs.Ops {
			name, _, _ := strings.Cut(op, ":")
			switch {
			case op == "ack":
				q.ackAll()
			case op == "loss":
				q.loseOutstanding()
			case strings.HasPrefix(op, "rd") || strings.HasPrefix(op, "rs"):
				i, _ := strconv.Atoi(op[2:])
				n := 1000
				if op[1] == 's' {
					n = 10
				}
				got, _ := streams[i].Read(make([]byte, n))
				nRead += got
			case strings.HasPrefix(op, "cr"):
				i, _ := strconv.Atoi(op[2:])
				streams[i].CloseRead()
				closedRead[i] = true
			case name[0] == 's' || name[0] == 'r':
				// One packet carrying one frame, or several ("A&B", in that order). Every frame is
				// resolved and judged against the limits the conn had put on the wire BEFORE the
				// packet (the only ones the peer can know), with the offsets of the earlier frames
				// of the packet counted.
				subs := strings.Split(op, "&")
				limC := adv.advC
				limS := [2]int64{advS(0), advS(1)}
				nhw, nReset, nTainted := hw, isReset, tainted
				var frames []debugFrame
				over, overWhich, overSfx, overDesc := -1, "", "", ""
				for k, sub := range subs {
					name, arg, _ := strings.Cut(sub, ":")
					i, _ := strconv.Atoi(name[1:])
					total := nhw[0] + nhw[1]
					var end int64
					d, _ := strconv.ParseInt(arg[2:], 10, 64)
					switch {
					case arg[0] == '+':
						d, _ = strconv.ParseInt(arg[1:], 10, 64)
						end = nhw[i] + d
					case strings.HasPrefix(arg, "sl"):
						end = limS[i] + d
					case strings.HasPrefix(arg, "cl"):
						end = nhw[i] + (limC + d - total)
					}
					// a RESET_STREAM may carry the current highest offset as its final size (no new bytes)
					if end < nhw[i] || (end == nhw[i] && !(name[0] == 'r' && arg == "+0")) || nReset[i] {
						goto done // no new data: not applicable here
					}
					var f debugFrame
					if name[0] == 's' {
						f = debugFrameStream{id: ids[i], off: nhw[i], data: make([]byte, end-nhw[i])}
					} else {
						f = debugFrameResetStream{id: ids[i], code: 3, finalSize: end}
					}
					frames = append(frames, f)
					overS := end > limS[i]
					overC := total+(end-nhw[i]) > limC
					if overS || overC {
						over, overWhich = k, "connection"
						if overS {
							overWhich = "stream"
						}
						if closedRead[i] && name[0] == 's' {
							overSfx = "/on-read-closed-stream"
						} else if nTainted {
							overSfx = "/after-data-on-read-closed-stream"
						} else if k > 0 {
							overSfx = "/after-other-frames-in-same-packet"
						}
						overDesc = fmt.Sprintf("%T on stream %d ending at %d (highest offsets before that frame %v): stream limit on the wire %d, connection limit on the wire %d, connection total would be %d", f, i, end, nhw, limS[i], limC, total+(end-nhw[i]))
						break // the peer stops here; later frames of the op are not sent
					}
					if closedRead[i] && name[0] == 's' {
						nTainted = true
					}
					nhw[i] = end
					if name[0] == 'r' {
						nReset[i] = true
					}
				}
				sentBefore := len(q.sent)
				q.write(frames...)
				adv.observe(w, q, op, cs, nil)
				if w.Failed() {
					return
				}
				if over >= 0 {
					if q.closed && !q.closeApp && q.closeErr == errFlowControl {
						w.Outcome("FLOW_CONTROL_ERROR:" + overWhich)
						if over > 0 {
							w.Outcome("FLOW_CONTROL_ERROR:after-other-frames-in-same-packet")
						}
						ran++
						goto done
					}
					got := "no CONNECTION_CLOSE"
					if q.closed {
						got = fmt.Sprintf("CONNECTION_CLOSE %v", q.closeErr)
					}
					w.Failf("C20/recv/over-limit-not-rejected/"+overWhich+overSfx, "peer sent one packet with %d frame(s) %v, frame %d being %s: want FLOW_CONTROL_ERROR, got %s; frames the conn sent in answer: %s; case=%+v", len(frames), frames, over+1, overDesc, got, qpeerFrames(q.sent[sentBefore:]), cs)
					return
				}
				if q.closed {
					w.Failf("C20/recv/in-limit-frame-rejected", "peer sent one packet with frame(s) %v (highest offsets before %v, after %v), within the stream limits %v and the connection limit %d on the wire, and the conn closed with %v; case=%+v", frames, hw, nhw, limS, limC, q.closeErr, cs)
					return
				}
				hw, isReset, tainted = nhw, nReset, nTainted
				w.Outcome("frame-accepted")
				if len(frames) > 1 {
					w.Outcome("multi-frame-packet-accepted")
				}
			default:
				t.Fatalf("unknown op %q", op)
			}
			adv.observe(w, q, op, cs, nil)
			if w.Failed() {
				return
			}
			if q.closed {
				w.Failf("C20/recv/unexpected-connection-close", "after %s the conn sent CONNECTION_CLOSE %v; case=%+v", op, q.closeErr, cs)
				return
			}
			ran++
		}
	done:
		c.AddTransitions(int64(ran))
		c.AddTraces(1)
		if ran == len(cs.Ops) {
			w.Nontrivial()
			c.AddStates(1) // stateless search: one explored history
		} else {
			w.Outcome("case-truncated")
		}
		if adv.nUpd > 0 {
			w.Outcome("conn-sent-window-updates")
		}
	})
}

type c20RecvGen struct {
	hw      [2]int64
	touched bool // a Read/CloseRead happened: advertised limits are no longer predictable
	cr      [2]bool
	rst     [2]bool
	last    string
}

func (g c20RecvGen) resolve(op string) (i int, end int64, known bool) {
	name, arg, _ := strings.Cut(op, ":")
	i, _ = strconv.Atoi(name[1:])
	if arg[0] == '+' {
		d, _ := strconv.ParseInt(arg[1:], 10, 64)
		return i, g.hw[i] + d, true
	}
	if g.touched {
		return i, 0, false
	}
	d, _ := strconv.ParseInt(arg[2:], 10, 64)
	if strings.HasPrefix(arg, "sl") {
		return i, c20OwnStreamWin + d, true
	}
	return i, g.hw[i] + (c20OwnConnWin + d - g.hw[0] - g.hw[1]), true
}

func (g c20RecvGen) Enabled(op string) bool {
	switch {
	case op == "ack" || op == "loss":
		return g.last != op
	case strings.HasPrefix(op, "rd") || strings.HasPrefix(op, "rs"):
		i, _ := strconv.Atoi(op[2:])
		return g.hw[i] > 0 && !g.cr[i] && g.last != op
	case strings.HasPrefix(op, "cr"):
		i, _ := strconv.Atoi(op[2:])
		return !g.cr[i]
	}
	if a, b, ok := strings.Cut(op, "&"); ok { // several frames in one packet
		if !g.Enabled(a) {
			return false
		}
		g1, terminal := g.Apply(a)
		return !terminal && g1.Enabled(b)
	}
	i, end, known := g.resolve(op)
	if g.rst[i] {
		return false
	}
	if op[0] == 'r' && strings.HasSuffix(op, ":+0") {
		return true // RESET_STREAM with the current highest offset as final size
	}
	return !known || end > g.hw[i]
}

func (g c20RecvGen) Apply(op string) (qpeerGen, bool) {
	g.last = op
	switch {
	case op == "ack" || op == "loss":
		return g, false
	case strings.HasPrefix(op, "rd") || strings.HasPrefix(op, "rs"):
		g.touched = true
		return g, false
	case strings.HasPrefix(op, "cr"):
		i, _ := strconv.Atoi(op[2:])
		g.cr[i], g.touched = true, true
		return g, false
	}
	if a, b, ok := strings.Cut(op, "&"); ok {
		g1, terminal := g.Apply(a)
		if terminal {
			return g1, true
		}
		g2, terminal := g1.Apply(b)
		g3 := g2.(c20RecvGen)
		g3.last = op
		return g3, terminal
	}
	i, end, known := g.resolve(op)
	if !known {
		arg := op[strings.Index(op, ":")+1:]
		d, _ := strconv.ParseInt(arg[2:], 10, 64)
		if d > 0 {
			return g, true // beyond a limit by construction
		}
		g.hw[i] += 1 // something was received; exact value unknown to the generator
		return g, false
	}
	if !g.touched && (end > c20OwnStreamWin || g.hw[0]+g.hw[1]+end-g.hw[i] > c20OwnConnWin) {
		return g, true
	}
	if op[0] == 'r' {
		g.rst[i] = true
		if strings.HasSuffix(op, ":+0") {
			g.touched = true // discarding unread data returns connection credit: a MAX_DATA may follow
		}
	}
	g.hw[i] = end
	return g, false
}

// c20Pairs lists the two-frame packets "a&b" for every a of first and b of second.
func c20Pairs(first, second []string) []string {
	var out []string
	for _, a := range first {
		for _, b := range second {
			out = append(out, a+"&"+b)
		}
	}
	return out
}

func TestVerif_C20(t *testing.T) {
	vx.Run(t, "C20", func(c *vx.Ctx) {
		c.Rule("q-peer, each case on a fresh handshaken Conn in its own synctest bubble, every enabled operation sequence up to the depth of the part, shortest first. send: two local streams, peer stream window 150 / connection window 200; Write(100|5000)/Flush per stream, peer MAX_DATA and MAX_STREAM_DATA with values {largest so far -50, +0, +120} in any order, ack-all / all-outstanding-lost / PTO; every STREAM frame sent (retransmissions included) is checked against the largest limits received so far. recv: two peer streams, own stream window 100 / connection window 150; peer STREAM (and RESET_STREAM) ending at {limit-1, limit, limit+1} of the advertised stream limit and of the advertised connection limit, +40 increments, Read(1000), Read(10), CloseRead, ack, loss; reference model of the limits as advertised in the frames the conn sent. recv-packets (depth 3 quick / 4 thorough): the same alphabet plus RESET_STREAM with the current highest offset as final size (discards unread bytes, returns connection credit) and packets carrying TWO frames, first on stream 0 {+40 data, RESET_STREAM at current size, RESET_STREAM up to the connection limit}, second on stream 1 {+40, ending at connection limit, limit+1, RESET_STREAM to limit+1} (thorough: also stream 1 first, stream 0 second); each frame of a packet is judged against the limits that were on the wire before the packet, earlier frames of the packet counted. Non-trivial = whole sequence executed (or ended in the expected FLOW_CONTROL_ERROR). Counters: states = histories explored completely (stateless search, no deduplication), transitions = operations applied to the real conn and checked, traces = cases executed.")
		c.Assume("half (a) of the design (two real endpoints with a qlog monitor under packet loss) is not part of this check; loss here is 'every outstanding packet lost' or a PTO, driven by the scripted peer")
		c.Assume("the clause 'sends-less-than-limits-allow' (a stale MAX_* must not lower what the conn sends) is evaluated only for histories without loss/PTO, after flushing everything and 20 ms of fake time")
		c.Assume("the scripted peer is taken to know every MAX_DATA / MAX_STREAM_DATA frame the conn has put on the wire, even in packets it later declares lost")

		type combo struct{ side, styp string }
		sendCombos := vx.Pick(c, []combo{{"server", "uni"}}, []combo{{"server", "uni"}, {"client", "bidi"}, {"server", "accepted"}})
		sendCombosShallow := []combo{{"server", "bidi"}, {"server", "accepted"}, {"client", "uni"}}
		recvCombos := vx.Pick(c, []combo{{"server", "uni"}}, []combo{{"server", "uni"}, {"client", "bidi"}})
		sendOps := vx.Pick(c,
			[]string{"w100:0", "w5000:0", "fl:0", "w100:1", "fl:1", "md:-50", "md:120", "msd0:-50", "msd0:0", "msd0:120", "ack", "loss", "pto"},
			[]string{"w100:0", "w5000:0", "fl:0", "w100:1", "w5000:1", "fl:1", "md:-50", "md:0", "md:120", "msd0:-50", "msd0:0", "msd0:120", "msd1:120", "ack", "loss", "pto"})
		recvOps := vx.Pick(c,
			[]string{"s0:+40", "s0:sl0", "s0:sl1", "s0:cl0", "s0:cl1", "s1:+40", "s1:cl0", "s1:cl1", "r0:cl0", "r1:cl1", "rd0", "rs0", "cr0", "ack", "loss"},
			[]string{"s0:+40", "s0:sl-1", "s0:sl0", "s0:sl1", "s0:cl-1", "s0:cl0", "s0:cl1", "s1:+40", "s1:sl1", "s1:cl0", "s1:cl1", "r0:sl1", "r0:cl0", "r1:cl1", "rd0", "rs0", "rd1", "cr0", "cr1", "ack", "loss"})
		// recv-packets: the recv alphabet plus RESET_STREAM at the current highest offset and packets that
		// carry two frames, the first on stream 0 (data, or a RESET_STREAM that returns connection credit
		// for unread bytes), the second on stream 1 ending below / at / beyond the connection limit.
		recvPktOps := append(append([]string(nil), recvOps...), "r0:+0")
		recvPktOps = append(recvPktOps, c20Pairs([]string{"s0:+40", "r0:+0", "r0:cl0"}, []string{"s1:+40", "s1:cl0", "s1:cl1", "r1:cl1"})...)
		if !c.Quick() {
			recvPktOps = append(recvPktOps, "r1:+0")
			recvPktOps = append(recvPktOps, c20Pairs([]string{"s1:+40", "r1:+0"}, []string{"s0:+40", "s0:sl1", "s0:cl0", "s0:cl1"})...)
		}
		type part struct {
			name   string
			combos []combo
			ops    []string
			depth  int
			root   qpeerGen
			exec   func(*vx.Ctx, *vx.W, c20Case)
		}
		parts := []part{
			{"send-kinds", sendCombosShallow, sendOps, vx.Pick(c, 3, 4), c20SendGen{}, c20ExecSend},
			{"recv", recvCombos, recvOps, vx.Pick(c, 5, 5), c20RecvGen{}, c20ExecRecv},
			{"recv-packets", recvCombos, recvPktOps, vx.Pick(c, 3, 4), c20RecvGen{}, c20ExecRecv},
			{"send", sendCombos, sendOps, vx.Pick(c, 5, 5), c20SendGen{}, c20ExecSend},
		}
		for _, p := range parts {
			vx.Enumerate(c, p.name, vx.Opts{Serial: true, Crumb: true}, func(yield0 func(c20Case) bool) {
				yield := qpeerDeadlineYield(c, yield0)
				for _, cb := range p.combos {
					if !qpeerEnumerate(p.root, p.ops, p.depth, func(path []string) bool {
						return yield(c20Case{Side: cb.side, Styp: cb.styp, Ops: path})
					}) {
						return
					}
				}
			}, func(w *vx.W, cs c20Case) { p.exec(c, w, cs) })
			c.Note("depth."+p.name, p.depth)
		}
	})
}
