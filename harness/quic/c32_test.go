package quic

// C32 — QUIC stream resets carry consistent final sizes.
//
// q-peer SEQ, two halves, each case on a fresh handshaken Conn in its own
// synctest bubble.
//
// send: local Write/Flush/CloseWrite/Reset, peer STOP_SENDING/MAX_STREAM_DATA,
// ack / loss / PTO. A monitor over every frame the conn sends: once the send
// side has been reset no STREAM frame for the stream goes out, and every
// RESET_STREAM carries final size == max(off+len) of all STREAM frames ever
// sent (identical across retransmissions).
//
// recv: peer STREAM(off,len,fin)/RESET_STREAM(final) with offsets around the
// data received so far / the known final size, local Read and CloseRead.
// Reference: RFC 9000 section 4.5.

import (
	"errors"
	"fmt"
	"io"
	"strconv"
	"strings"
	"testing"
	"testing/synctest"

	"golang.org/x/net/internal/zzverif/vx"
)

type c32Case struct {
	Side string   `json:"side"`
	Kind string   `json:"kind"` // send: uni | bidi (local streams) | accepted (peer-opened bidi); recv: uni | bidi
	Win  int64    `json:"win"`  // send: the peer's initial MAX_STREAM_DATA for the stream
	Ops  []string `json:"ops"`
}

// ---- send half --------------------------------------------------------------
//
// ops: w<N> Write(N bytes) | fl Flush | cw CloseWrite | rst Reset(7) | ss peer STOP_SENDING(9) |
//      msd peer MAX_STREAM_DATA(win+400) | ack (everything sent so far) | loss (every outstanding
//      packet declared lost) | pto (fake time advanced to the PTO timer) |
//      fill (only as the seed prefix of the "send-cwnd" part: ANOTHER local stream writes and flushes
//      32 KiB, more than the initial congestion window, nothing of it is acknowledged, and the
//      application then abandons that stream with Reset: the congestion window is exhausted, so whatever
//      the stream under test flushes next is held back by congestion control and its first transmission
//      can only happen in a PTO probe, or after an ack reopened the window)

// c32FillSize is what the other stream writes in a "fill" op: more than the initial congestion
// window (10 datagrams of at most 1500 bytes), far less than the connection-level flow-control limit.
const c32FillSize = 32 << 10

type c32SendMon struct {
	w         *vx.W
	cs        c32Case
	id        streamID
	maxSent   int64
	nStream   int
	resetReq  string // "" or the cause of the reset: Reset | STOP_SENDING
	resetSeen bool
	resetSize int64
	resetCode uint64
	nReset    int
	idx       int // packets of q.sent already looked at
}

func c32OpClass(op string) string {
	switch {
	case strings.HasPrefix(op, "w"):
		return "write"
	}
	return op
}

func (m *c32SendMon) observe(q *qpeerConn, after string) {
	w := m.w
	q.drain()
	ps := q.sent[m.idx:]
	m.idx = len(q.sent)
	before := m.maxSent
	defer func() {
		if after == "pto" && m.maxSent > before {
			w.Outcome("STREAM-bytes-first-transmitted-in-a-PTO-probe")
		}
	}()
	for _, p := range ps {
		for _, f := range p.frames {
			switch f := f.(type) {
			case debugFrameStream:
				if f.id != m.id {
					continue
				}
				if m.resetReq != "" {
					w.Failf("C32/send/STREAM-frame-after-reset/"+m.resetReq+"/after-"+c32OpClass(after),
						"after %s: conn sent %v in packet %d although the send side was reset (%s) earlier; case=%+v", after, f, p.num, m.resetReq, m.cs)
					return
				}
				m.nStream++
				if e := f.off + int64(len(f.data)); e > m.maxSent {
					m.maxSent = e
				}
			case debugFrameResetStream:
				if f.id != m.id {
					continue
				}
				m.nReset++
				if f.finalSize != m.maxSent {
					rel := "below"
					if f.finalSize > m.maxSent {
						rel = "above"
					}
					w.Failf("C32/send/RESET_STREAM-final-size-"+rel+"-highest-offset-sent/"+m.resetReq,
						"after %s: conn sent %v in packet %d, but the highest offset it ever sent in STREAM frames is %d; case=%+v", after, f, p.num, m.maxSent, m.cs)
					return
				}
				if m.resetSeen && (f.finalSize != m.resetSize || f.code != m.resetCode) {
					w.Failf("C32/send/RESET_STREAM-changed-on-retransmission",
						"after %s: conn sent %v, earlier RESET_STREAM had final size %d code %d; case=%+v", after, f, m.resetSize, m.resetCode, m.cs)
					return
				}
				m.resetSeen, m.resetSize, m.resetCode = true, f.finalSize, f.code
			}
		}
	}
}

func c32ExecSend(c *vx.Ctx, w *vx.W, cs c32Case) {
	qpeerBubble(c, w, "C32", func(t *testing.T) {
		side := qpeerSide(cs.Side)
		// the stream that exhausts the congestion window in a "fill" op is of the other stream
		// type than the stream under test, so that its stream window can be large
		fill := false
		for _, op := range cs.Ops {
			fill = fill || op == "fill"
		}
		fillType := bidiStream
		if cs.Kind != "uni" {
			fillType = uniStream
		}
		q := qpeerNew(t, side, func(p *transportParameters) {
			p.initialMaxStreamsBidi = 4
			p.initialMaxStreamsUni = 4
			p.initialMaxData = 1 << 20
			p.initialMaxStreamDataBidiLocal = cs.Win
			p.initialMaxStreamDataBidiRemote = cs.Win
			p.initialMaxStreamDataUni = cs.Win
			if fill && fillType == bidiStream {
				p.initialMaxStreamDataBidiRemote = 1 << 20
			} else if fill {
				p.initialMaxStreamDataUni = 1 << 20
			}
		})
		var s *Stream
		var err error
		switch cs.Kind {
		case "uni":
			s, err = q.tc.conn.newLocalStream(canceledContext(), uniStream)
		case "bidi":
			s, err = q.tc.conn.newLocalStream(canceledContext(), bidiStream)
		case "accepted":
			q.write(debugFrameStream{id: newStreamID(side.peer(), bidiStream, 0)})
			s, err = q.tc.conn.AcceptStream(canceledContext())
		}
		if err != nil {
			t.Fatalf("cannot create the stream: %v", err)
		}
		s.SetReadContext(canceledContext())
		s.SetWriteContext(canceledContext())
		m := &c32SendMon{w: w, cs: cs, id: s.id, idx: len(q.sent)}
		m.observe(q, "setup")
		ran := 0
		for _, op := range cs.Ops {
			switch {
			case strings.HasPrefix(op, "w"):
				n, _ := strconv.Atoi(op[1:])
				s.Write(make([]byte, n))
			case op == "fl":
				s.Flush()
			case op == "cw":
				s.CloseWrite()
			case op == "rst":
				s.Reset(7)
				if m.resetReq == "" {
					m.resetReq = "Reset"
				}
			case op == "ss":
				if m.resetReq == "" {
					m.resetReq = "STOP_SENDING"
				}
				q.write(debugFrameStopSending{id: s.id, code: 9})
			case op == "msd":
				q.write(debugFrameMaxStreamData{id: s.id, max: cs.Win + 400})
			case op == "ack":
				q.ackAll()
			case op == "loss":
				q.loseOutstanding()
			case op == "pto":
				if !q.advanceToPTO() {
					w.Outcome("pto:not-armed")
					goto done
				}
			case op == "fill":
				o, err := q.tc.conn.newLocalStream(canceledContext(), fillType)
				if err != nil {
					t.Fatalf("cannot create the stream that fills the congestion window: %v", err)
				}
				o.SetWriteContext(canceledContext())
				if n, err := o.Write(make([]byte, c32FillSize)); n != c32FillSize {
					t.Fatalf("fill: Write = %d, %v", n, err)
				}
				o.Flush()
				synctest.Wait()
				q.drain()
				var oSent int64
				for _, p := range q.sent[m.idx:] {
					for _, f := range p.frames {
						if f, ok := f.(debugFrameStream); ok && f.id == o.id {
							oSent = max(oSent, f.off+int64(len(f.data)))
						}
					}
				}
				if oSent == 0 || oSent >= c32FillSize {
					t.Fatalf("fill: the other stream got %d of its %d bytes out: the congestion window did not stop it", oSent, c32FillSize)
				}
				// abandoned: from now on it contributes a RESET_STREAM, not a packet full of
				// retransmitted data, to whatever the conn sends (a PTO probe visits the streams in
				// map order, so a probe filled by this stream would make the case nondeterministic)
				o.Reset(1)
				w.Outcome("congestion-window-exhausted-by-another-stream")
			default:
				t.Fatalf("unknown op %q", op)
			}
			m.observe(q, op)
			if w.Failed() {
				return
			}
			if q.closed {
				w.Failf("C32/send/unexpected-connection-close", "after %s the conn sent CONNECTION_CLOSE %v; case=%+v", op, q.closeErr, cs)
				return
			}
			ran++
		}
	done:
		c.AddTransitions(int64(ran))
		c.AddTraces(1)
		if ran == len(cs.Ops) {
			w.Nontrivial()
			c.AddStates(1) // stateless search: one explored history
		} else {
			w.Outcome("case-truncated")
		}
		switch {
		case m.nReset > 1:
			w.Outcome(fmt.Sprintf("RESET_STREAM-retransmitted,data-sent=%v", m.maxSent > 0))
		case m.nReset == 1:
			w.Outcome(fmt.Sprintf("RESET_STREAM-sent,data-sent=%v", m.maxSent > 0))
		case m.resetReq != "":
			w.Outcome("reset-requested,no-RESET_STREAM-yet")
		default:
			w.Outcome("no-reset")
		}
	})
}

// c32SendGen prunes the send-half enumeration.
type c32SendGen struct {
	reset, rst, ss, cw, msd bool
	unflushed               bool // data written and maybe not flushed
	inflight                bool // something may be unacknowledged
	wroteAfterReset         bool
	last                    string
}

// "fill" is never enabled: it occurs only as the seed prefix of the send-cwnd part.

func (g c32SendGen) Enabled(op string) bool {
	switch {
	case op == "fill":
		return false
	case strings.HasPrefix(op, "w"):
		if g.cw && !g.reset {
			return false
		}
		if g.reset {
			return op == "w100" && !g.wroteAfterReset
		}
		return true
	case op == "fl":
		return g.unflushed
	case op == "cw":
		return !g.cw && !g.reset
	case op == "rst":
		return !g.rst
	case op == "ss":
		return !g.ss
	case op == "msd":
		return !g.msd
	case op == "ack":
		return g.inflight
	case op == "loss":
		return g.inflight || g.last != "loss"
	case op == "pto":
		return g.inflight || g.last != "pto"
	}
	return true
}

func (g c32SendGen) Apply(op string) (qpeerGen, bool) {
	switch {
	case strings.HasPrefix(op, "w"):
		if g.reset {
			g.wroteAfterReset = true
			g.unflushed = true
		} else {
			g.unflushed = true
			if op == "w5000" {
				g.inflight = true // large writes flush by themselves
			}
		}
	case op == "fl":
		g.unflushed = false
		g.inflight = true
	case op == "cw":
		g.cw, g.unflushed, g.inflight = true, false, true
	case op == "rst":
		g.rst, g.reset, g.inflight, g.unflushed = true, true, true, false
	case op == "ss":
		g.ss, g.reset, g.inflight, g.unflushed = true, true, true, false
	case op == "msd":
		g.msd, g.inflight = true, true
	case op == "ack":
		g.inflight = false
	case op == "loss", op == "pto", op == "fill":
		g.inflight = true
	}
	g.last = op
	return g, false
}

// ---- receive half -----------------------------------------------------------
//
// k = the known final size, or the highest offset received if none is known.
// ops: d+ STREAM(off=highest, 2 bytes) | d+f the same with FIN | f@D empty STREAM+FIN at k+D |
//      d@D 1-byte STREAM ending at k+D | r@D RESET_STREAM(final=k+D, code 5) | rd Read(100) | rd1 Read(1) | cr CloseRead
//      s<L>@<D>[f] STREAM carrying the L bytes [k+D-L, k+D), with FIN if the f is there (the "recv-ranges"
//      part): relative to the bytes received so far the range is an exact or inner duplicate, overlaps the
//      end of the received data, is new and contiguous, is new behind a gap, fills / straddles a gap, or is
//      empty (FIN only) -- each of them with and without FIN

// c32RecvModel is RFC 9000 section 4.5 for one stream.
type c32RecvModel struct {
	hi    int64 // highest offset received
	fs    int64 // final size, -1 unknown
	reset bool
}

// frame says what a frame ending at end (fin: carries a final size) must cause:
// "" accepted, otherwise the reason for FINAL_SIZE_ERROR.
func (m *c32RecvModel) frame(end int64, fin bool) string {
	switch {
	case m.fs >= 0 && end > m.fs:
		return "data-beyond-final-size"
	case fin && m.fs >= 0 && end != m.fs:
		return "final-size-changed"
	case fin && end < m.hi:
		return "final-size-below-data-received"
	}
	if end > m.hi {
		m.hi = end
	}
	if fin {
		m.fs = end
	}
	return ""
}

func (m *c32RecvModel) k() int64 {
	if m.fs >= 0 {
		return m.fs
	}
	return m.hi
}

// c32RecvFrame resolves a peer op against the model: the frame to send, its end offset and fin-ness.
func c32RecvFrame(m *c32RecvModel, id streamID, op string) (f debugFrame, end int64, fin, ok bool) {
	switch {
	case op == "d+" || op == "d+f":
		return debugFrameStream{id: id, off: m.hi, data: []byte{0xaa, 0xbb}, fin: op == "d+f"}, m.hi + 2, op == "d+f", true
	case strings.HasPrefix(op, "f@"):
		d, _ := strconv.ParseInt(op[2:], 10, 64)
		e := m.k() + d
		if e < 0 {
			return nil, 0, false, false
		}
		return debugFrameStream{id: id, off: e, fin: true}, e, true, true
	case strings.HasPrefix(op, "d@"):
		d, _ := strconv.ParseInt(op[2:], 10, 64)
		e := m.k() + d
		if e < 1 {
			return nil, 0, false, false
		}
		return debugFrameStream{id: id, off: e - 1, data: []byte{0xcc}}, e, false, true
	case strings.HasPrefix(op, "r@"):
		d, _ := strconv.ParseInt(op[2:], 10, 64)
		e := m.k() + d
		if e < 0 {
			return nil, 0, false, false
		}
		return debugFrameResetStream{id: id, code: 5, finalSize: e}, e, true, true
	case strings.HasPrefix(op, "s"):
		// s<L>@<D>[f]: the L bytes [k+D-L, k+D), FIN if the f is there
		body, fin := strings.CutSuffix(op[1:], "f")
		ls, ds, _ := strings.Cut(body, "@")
		l, _ := strconv.ParseInt(ls, 10, 64)
		d, _ := strconv.ParseInt(ds, 10, 64)
		e := m.k() + d
		if e-l < 0 || (l == 0 && !fin) {
			return nil, 0, false, false
		}
		data := make([]byte, l)
		for i := range data {
			data[i] = 0xd0 + byte(i)
		}
		return debugFrameStream{id: id, off: e - l, data: data, fin: fin}, e, fin, true
	}
	return nil, 0, false, false
}

// c32RangeOps is the STREAM alphabet of the recv-ranges part: every (length, end offset, fin)
// with length in lens and end offset k+D, D in ds, except the empty frame without FIN.
func c32RangeOps(lens, ds []int) []string {
	var ops []string
	for _, fin := range []string{"", "f"} {
		for _, l := range lens {
			for _, d := range ds {
				if l == 0 && fin == "" {
					continue
				}
				ops = append(ops, fmt.Sprintf("s%d@%d%s", l, d, fin))
			}
		}
	}
	return ops
}

func c32ExecRecv(c *vx.Ctx, w *vx.W, cs c32Case) {
	qpeerBubble(c, w, "C32", func(t *testing.T) {
		side := qpeerSide(cs.Side)
		q := qpeerNew(t, side, permissiveTransportParameters)
		id := newStreamID(side.peer(), qpeerStype(cs.Kind), 0)
		q.write(debugFrameStream{id: id})
		s, err := q.tc.conn.AcceptStream(canceledContext())
		if err != nil {
			t.Fatalf("AcceptStream: %v", err)
		}
		s.SetReadContext(canceledContext())
		s.SetWriteContext(canceledContext())
		q.drain()
		m := &c32RecvModel{fs: -1}
		closedRead := false // CloseRead was called
		ran := 0
		sawErr := false
		for _, op := range cs.Ops {
			switch op {
			case "rd", "rd1":
				n := 100
				if op == "rd1" {
					n = 1
				}
				got, err := s.Read(make([]byte, n))
				if closedRead {
					// the application abandoned the read side itself: any error is fine
					w.Outcome("read:after-CloseRead")
				} else if m.reset {
					var sc StreamErrorCode
					switch {
					case err == io.EOF:
						w.Failf("C32/read/EOF-after-reset", "Read after an accepted RESET_STREAM returned (%d, io.EOF); case=%+v", got, cs)
						return
					case got == 0 && !errors.As(err, &sc):
						w.Failf("C32/read/no-reset-error-after-reset", "Read after an accepted RESET_STREAM returned (0, %v), want an error wrapping StreamErrorCode; case=%+v", err, cs)
						return
					case got == 0 && uint64(sc) != 5:
						w.Failf("C32/read/wrong-reset-code", "Read after RESET_STREAM(code 5) returned %v; case=%+v", err, cs)
						return
					case got == 0:
						w.Outcome("read:reset-error")
					default:
						w.Outcome("read:buffered-bytes-after-reset")
					}
				} else {
					switch {
					case err == io.EOF:
						w.Outcome("read:EOF")
					case got > 0:
						w.Outcome("read:data")
					default:
						w.Outcome("read:no-data")
					}
				}
			case "cr":
				s.CloseRead()
				closedRead = true
			default:
				f, end, fin, ok := c32RecvFrame(m, id, op)
				if !ok {
					goto done
				}
				before := *m
				want := m.frame(end, fin)
				if want == "" {
					if _, isReset := f.(debugFrameResetStream); isReset {
						m.reset = true
					}
				}
				q.write(f)
				q.drain()
				switch {
				case want != "" && q.closed && !q.closeApp && q.closeErr == errFinalSize:
					w.Outcome("FINAL_SIZE_ERROR:" + want)
					sawErr = true
					ran++
					goto done
				case want != "" && closedRead && !q.closed:
					// RFC 9000 4.5: generating the error is not mandatory once the stream is closed.
					w.Outcome("contradiction-after-CloseRead-not-reported")
					ran++
					goto done
				case want != "":
					got := "no CONNECTION_CLOSE"
					if q.closed {
						got = fmt.Sprintf("CONNECTION_CLOSE %v", q.closeErr)
					}
					w.Failf("C32/recv/FINAL_SIZE_ERROR-missing/"+want, "peer sent %v with highest offset received %d and final size %d (-1: unknown): want FINAL_SIZE_ERROR (%s), got %s; case=%+v", f, before.hi, before.fs, want, got, cs)
					return
				case q.closed:
					w.Failf("C32/recv/consistent-frame-rejected", "peer sent %v, consistent with highest offset received %d and final size %d (-1: unknown), and the conn closed with %v; case=%+v", f, before.hi, before.fs, q.closeErr, cs)
					return
				default:
					w.Outcome("frame-accepted")
				}
			}
			if q.closed {
				w.Failf("C32/recv/unexpected-connection-close", "after %s the conn sent CONNECTION_CLOSE %v; case=%+v", op, q.closeErr, cs)
				return
			}
			ran++
		}
	done:
		c.AddTransitions(int64(ran))
		c.AddTraces(1)
		if ran == len(cs.Ops) {
			w.Nontrivial()
			c.AddStates(1) // stateless search: one explored history
		} else {
			w.Outcome("case-truncated")
		}
		_ = sawErr
	})
}

// c32RecvGen prunes the receive-half enumeration with the same RFC model.
type c32RecvGen struct {
	m    c32RecvModel
	cr   bool
	last string
}

func (g c32RecvGen) Enabled(op string) bool {
	switch op {
	case "rd":
		return g.last != "rd" && g.last != "rd1"
	case "rd1":
		return g.last != "rd"
	case "cr":
		return !g.cr
	}
	m := g.m
	_, _, _, ok := c32RecvFrame(&m, 0, op)
	return ok
}

func (g c32RecvGen) Apply(op string) (qpeerGen, bool) {
	g.last = op
	switch op {
	case "rd", "rd1":
		return g, false
	case "cr":
		g.cr = true
		return g, false
	}
	f, end, fin, _ := c32RecvFrame(&g.m, 0, op)
	if g.m.frame(end, fin) != "" {
		return g, true
	}
	if _, isReset := f.(debugFrameResetStream); isReset {
		g.m.reset = true
	}
	return g, false
}

func TestVerif_C32(t *testing.T) {
	vx.Run(t, "C32", func(c *vx.Ctx) {
		c.Rule("q-peer, each case on a fresh handshaken Conn in its own synctest bubble, every enabled operation sequence up to the depth of the part, shortest first. send: Write(1|100|5000)/Flush/CloseWrite/Reset, peer STOP_SENDING/MAX_STREAM_DATA, ack-all / all-outstanding-lost / PTO on a local uni, local bidi or accepted bidi stream with a 150-byte stream window; a monitor checks every frame sent (final size oracle taken from the wire only: the maximum of off+len over all STREAM frames of the stream seen so far); send-cwnd: the same alphabet behind the seed prefix \"fill\" = another local stream (of the other stream type, large stream window) writes and flushes 32 KiB, which exhausts the initial congestion window with nothing acknowledged, and is then abandoned with Reset, so that data flushed on the stream under test is held back by congestion control and is transmitted for the first time in a PTO probe (or after an ack reopened the window), before Reset / STOP_SENDING. recv: peer STREAM/RESET_STREAM with end offsets {k-1,k,k+1} around the known final size (or the highest offset received), new data with/without FIN, Read(100), Read(1), CloseRead on a peer uni/bidi stream; recv-ranges (shallower, finer STREAM alphabet): peer STREAM frames carrying the L bytes [k+D-L, k+D) for every L in {0,1,2}, D in {-1,0,1,2}, each with and without FIN (empty only with FIN), so that exact / inner duplicates of received data, ranges overlapping its end, new contiguous ranges, new ranges behind a gap, gap-filling ranges and the empty FIN-only frame all occur with and without FIN, mixed with RESET_STREAM(final k+{-1,0,1}) and Read(100); reference RFC 9000 4.5. Non-trivial = the whole sequence ran (or ended in the expected FINAL_SIZE_ERROR). Counters: states = histories explored completely (stateless search, no deduplication), transitions = operations applied to the real conn and checked, traces = cases executed.")
		c.Assume("bytes that were already moved to the lock-free read buffer may still be returned by Read after a reset; only io.EOF and a missing reset error are violations")
		c.Assume("after the application called CloseRead the conn may forget the stream: RFC 9000 4.5 makes FINAL_SIZE_ERROR non-mandatory for closed streams, so a contradiction that arrives after CloseRead may or may not be reported (a wrong error code or the rejection of a consistent frame is still a violation), and Read results after CloseRead are not checked")
		c.Assume("send-cwnd: the stream that exhausts the congestion window has been reset before the stream under test acts, so it adds only a RESET_STREAM to a probe packet; a probe that competes with another stream's full packet of retransmitted data is not explored (the conn visits its streams in map order when it builds a probe, which the harness cannot own)")
		c.Assume("flow-control limits are far away (recv) / connection-level limit is far away (send); C20 covers those")

		sides := vx.Pick(c, []string{"server"}, []string{"server", "client"})
		sendOps := vx.Pick(c,
			[]string{"w100", "w5000", "fl", "cw", "rst", "ss", "msd", "ack", "loss", "pto"},
			[]string{"w1", "w100", "w5000", "fl", "cw", "rst", "ss", "msd", "ack", "loss", "pto"})
		recvOps := []string{"d+", "d+f", "f@-1", "f@0", "f@1", "d@0", "d@1", "r@-1", "r@0", "r@1", "rd", "rd1", "cr"}
		rangeOps := append(c32RangeOps([]int{0, 1, 2}, []int{-1, 0, 1, 2}), "r@-1", "r@0", "r@1", "rd")
		type part struct {
			name  string
			kinds []string
			ops   []string
			depth int
			root  qpeerGen
			exec  func(*vx.Ctx, *vx.W, c32Case)
			seed  []string
		}
		parts := []part{
			{"send", []string{"uni"}, sendOps, vx.Pick(c, 5, 6), c32SendGen{}, c32ExecSend, nil},
			{"send-bidi", []string{"bidi", "accepted"}, sendOps, vx.Pick(c, 4, 5), c32SendGen{}, c32ExecSend, nil},
			// seeded start state: the congestion window is exhausted by another stream, so data flushed on the
			// stream under test is not sent until a PTO probe (first transmission in a probe) or an ack
			{"send-cwnd", []string{"uni", "bidi"}, sendOps, vx.Pick(c, 4, 5), c32SendGen{}, c32ExecSend, []string{"fill"}},
			// seeded start state: 2 bytes received, both read, the second one through the lock-free fast path
			{"recv-after-fast-read", []string{"uni", "bidi"}, recvOps, vx.Pick(c, 3, 4), c32RecvGen{m: c32RecvModel{fs: -1}}, c32ExecRecv, []string{"d+", "rd1", "rd1"}},
			// finer STREAM alphabet, one level shallower; before the deep coarse part so that a run cut short by the deadline loses the deepest level last
			{"recv-ranges", []string{"uni", "bidi"}, rangeOps, vx.Pick(c, 4, 5), c32RecvGen{m: c32RecvModel{fs: -1}}, c32ExecRecv, nil},
			{"recv", []string{"uni", "bidi"}, recvOps, vx.Pick(c, 5, 6), c32RecvGen{m: c32RecvModel{fs: -1}}, c32ExecRecv, nil},
		}
		for _, p := range parts {
			vx.Enumerate(c, p.name, vx.Opts{Serial: true, Crumb: true}, func(yield0 func(c32Case) bool) {
				yield := qpeerDeadlineYield(c, yield0)
				for _, side := range sides {
					for _, kind := range p.kinds {
						if !qpeerEnumerateFrom(p.root, p.seed, p.ops, p.depth, func(path []string) bool {
							return yield(c32Case{Side: side, Kind: kind, Win: 150, Ops: path})
						}) {
							return
						}
					}
				}
			}, func(w *vx.W, cs c32Case) { p.exec(c, w, cs) })
			c.Note("depth."+p.name, p.depth)
		}
	})
}
