package quic

import (
	"fmt"
	"strings"
	"testing"

	"golang.org/x/net/internal/zzverif/vx"
)

// C24 — range sets behave exactly like integer sets.
//
// Explicit-state search with full closure: universe [base, base+U), every
// add(a,b)/sub(a,b) with a<=b; the reference model is a U-bit set; the
// canonical state is the range list itself, so the search terminates when the
// reachable state space is closed and then covers operation sequences of every
// length over this universe.

type c24Op struct {
	Sub  bool  `json:"sub"`
	A, B int64 `json:"a_b"`
}

func (o c24Op) MarshalJSON() ([]byte, error) {
	k := "add"
	if o.Sub {
		k = "sub"
	}
	return []byte(fmt.Sprintf(`"%s(%d,%d)"`, k, o.A, o.B)), nil
}

func (o *c24Op) UnmarshalJSON(b []byte) error {
	var k string
	s := strings.Trim(string(b), `"`)
	i := strings.Index(s, "(")
	if i < 0 {
		return fmt.Errorf("bad op %s", s)
	}
	k = s[:i]
	if _, err := fmt.Sscanf(s[i:], "(%d,%d)", &o.A, &o.B); err != nil {
		return err
	}
	o.Sub = k == "sub"
	return nil
}

type c24State[T ~int64] struct {
	impl rangeset[T]
	ref  uint64 // bit i set <=> base+i in the set
	base int64
	u    int
}

func c24Check[T ~int64](w *vx.W, s *c24State[T], op c24Op) {
	id := "C24/"
	rs := s.impl
	// structural invariants
	for i, r := range rs {
		if r.start >= r.end {
			w.Failf(id+"invariant/empty-range", "after %v: range %d = [%d,%d) is empty or inverted; set=%v", op, i, r.start, r.end, rs)
			return
		}
		if i > 0 {
			p := rs[i-1]
			if p.end > r.start {
				w.Failf(id+"invariant/unsorted-or-overlapping", "after %v: ranges %v then %v; set=%v", op, p, r, rs)
				return
			}
			if p.end == r.start {
				kind := "add"
				if op.Sub {
					kind = "sub"
				}
				empty := ""
				if op.A == op.B {
					empty = "-empty"
				}
				w.Failf(id+"invariant/adjacent-after-"+kind+empty, "after %v: ranges %v and %v are adjacent; set=%v", op, p, r, rs)
				return
			}
		}
	}
	// membership and derived queries against the bit set
	var size int64
	minv, maxv, any := int64(0), int64(0), false
	for i := -1; i <= s.u; i++ {
		v := s.base + int64(i)
		want := i >= 0 && i < s.u && s.ref&(1<<uint(i)) != 0
		if got := rs.contains(T(v)); got != want {
			w.Failf(id+"contains", "after %v: contains(%d)=%v, reference %v; set=%v", op, v, got, want, rs)
			return
		}
		rc := rs.rangeContaining(T(v))
		if want {
			size++
			if !any {
				minv, any = v, true
			}
			maxv = v
			// maximal run around v in the reference
			lo, hi := i, i
			for lo-1 >= 0 && s.ref&(1<<uint(lo-1)) != 0 {
				lo--
			}
			for hi+1 < s.u && s.ref&(1<<uint(hi+1)) != 0 {
				hi++
			}
			if int64(rc.start) != s.base+int64(lo) || int64(rc.end) != s.base+int64(hi)+1 {
				w.Failf(id+"rangeContaining", "after %v: rangeContaining(%d)=%v, reference [%d,%d); set=%v", op, v, rc, s.base+int64(lo), s.base+int64(hi)+1, rs)
				return
			}
		} else if rc.start != 0 || rc.end != 0 {
			w.Failf(id+"rangeContaining-absent", "after %v: rangeContaining(%d)=%v for a value not in the set; set=%v", op, v, rc, rs)
			return
		}
	}
	if int64(rs.size()) != size {
		w.Failf(id+"size", "after %v: size()=%d, reference %d; set=%v", op, rs.size(), size, rs)
		return
	}
	if any {
		if int64(rs.min()) != minv || int64(rs.max()) != maxv || int64(rs.end()) != maxv+1 {
			w.Failf(id+"min-max-end", "after %v: min/max/end=%d/%d/%d, reference %d/%d/%d; set=%v", op, rs.min(), rs.max(), rs.end(), minv, maxv, maxv+1, rs)
			return
		}
	} else if rs.min() != 0 || rs.max() != 0 || rs.end() != 0 || rs.numRanges() != 0 {
		w.Failf(id+"empty-queries", "after %v: empty reference but min/max/end/numRanges=%d/%d/%d/%d", op, rs.min(), rs.max(), rs.end(), rs.numRanges())
		return
	}
	// isrange(a,b) for all a<=b in the universe: true iff the set is exactly [a,b)
	for a := 0; a <= s.u; a++ {
		for b := a; b <= s.u; b++ {
			var m uint64
			if b > a {
				m = (uint64(1)<<uint(b) - 1) &^ (uint64(1)<<uint(a) - 1)
			}
			want := s.ref == m && (b > a)
			if got := rs.isrange(T(s.base+int64(a)), T(s.base+int64(b))); got != want {
				// isrange(0,0) on the empty set is documented true; a==b elsewhere is outside the documented domain
				if b == a {
					continue
				}
				w.Failf(id+"isrange", "after %v: isrange(%d,%d)=%v, reference %v; set=%v", op, s.base+int64(a), s.base+int64(b), got, want, rs)
				return
			}
		}
	}
}

func c24Run[T ~int64](c *vx.Ctx, part string, base int64, u int, emptySub bool) {
	var ops []c24Op
	for _, sub := range []bool{false, true} {
		for a := 0; a <= u; a++ {
			for b := a; b <= u; b++ {
				if sub && a == b && !emptySub {
					continue
				}
				ops = append(ops, c24Op{Sub: sub, A: base + int64(a), B: base + int64(b)})
			}
		}
	}
	vx.Seq(c, vx.SeqSpec[*c24State[T], c24Op]{
		Part:  part,
		New:   func() *c24State[T] { return &c24State[T]{base: base, u: u} },
		Ops:   ops,
		Depth: 1 << 20, // until closed
		Apply: func(w *vx.W, s *c24State[T], op c24Op) bool {
			a, b := uint(op.A-base), uint(op.B-base)
			var m uint64
			if b > a {
				m = (uint64(1)<<b - 1) &^ (uint64(1)<<a - 1)
			}
			if op.Sub {
				s.impl.sub(T(op.A), T(op.B))
				s.ref &^= m
			} else {
				s.impl.add(T(op.A), T(op.B))
				s.ref |= m
			}
			c24Check(w, s, op)
			if w.Failed() {
				return false
			}
			w.Outcome(fmt.Sprintf("ranges=%d", len(s.impl)))
			return true
		},
		Canon: func(s *c24State[T]) string { return fmt.Sprint(s.impl) },
	})
}

func TestVerif_C24(t *testing.T) {
	vx.Run(t, "C24", func(c *vx.Ctx) {
		u := vx.Pick(c, 10, 14)
		c.Rule(fmt.Sprintf("explicit-state BFS over every add(a,b)/sub(a,b), a<=b, on universes of %d consecutive integers (at 0, at 2^62-%d, and for rangeset[packetNumber]) until the reachable state space is closed; state = the range list; after every transition invariants + contains/rangeContaining/min/max/end/size/numRanges/isrange for every argument are compared with a bit-set reference; non-trivial = transition that was applied and compared", u, u))
		c24Run[int64](c, "int64@0", 0, u, true)
		c24Run[int64](c, "int64@2^62", (1<<62)-int64(u), u, true)
		c24Run[packetNumber](c, "packetNumber@0", 0, vx.Pick(c, 8, 12), true)
	})
}
