package quic

import (
	"encoding/json"
	"fmt"
	"math/bits"
	"strings"
	"testing"
	"time"

	"golang.org/x/net/internal/zzverif/vx"
)

// C26 — QUIC loss recovery accounts for every sent packet exactly once.
//
// Operation-sequence search (vx.Seq, breadth first, deduplicated on the
// complete lossState with all times taken relative to "now") on a real
// lossState + ccReno. The reference model is a per-space table of every packet
// handed to packetSent with its size/flags and its fate. Fates are recorded
// inside the ack/loss callbacks (values copied at once: clean() recycles
// sentPackets into a shared pool). Time is a harness variable.

// c26Op is kept small (paths of every frontier state are stored); its JSON form is c26OpJSON.
type c26Op struct {
	K     c26K   // operation
	Sp    uint8  // number space
	Kind  uint8  // send: 0 ack-eliciting+in-flight, 1 ACK-only, 2 in-flight not ack-eliciting (padded ACK-only Initial)
	Adv   c26Adv // adv
	V     bool   // under
	Delay uint8  // ack: ack delay in ms
	Size  uint16 // send, dgram
	Mask  uint16 // ack: bit 0 = nextNum (never sent), bit i = nextNum-i
}

type c26K uint8

const (
	c26Send c26K = iota
	c26Skip
	c26Ack
	c26AdvOp
	c26DKeys
	c26DPkts
	c26Dgram
	c26Validate
	c26Confirm
	c26Under
)

var c26KName = [...]string{"send", "skip", "ack", "adv", "dkeys", "dpkts", "dgram", "validate", "confirm", "under"}

func (k c26K) String() string { return c26KName[k] }

type c26Adv uint8

const (
	c26Adv0     c26Adv = iota // advance(now) without time passing
	c26Adv1ms                 // 1 ms
	c26AdvLoss                // lossDuration()
	c26AdvTimer               // up to the loss/PTO timer
	c26Adv1s                  // 1 s
)

var c26AdvName = [...]string{"0", "1ms", "loss", "timer", "1s"}

func (a c26Adv) String() string { return c26AdvName[a] }

type c26OpJSON struct {
	K     string `json:"k"`
	Sp    uint8  `json:"sp,omitempty"`
	Size  uint16 `json:"size,omitempty"`
	Kind  uint8  `json:"kind,omitempty"`
	Mask  uint16 `json:"mask,omitempty"`
	Delay uint8  `json:"delay_ms,omitempty"`
	Adv   string `json:"adv,omitempty"`
	V     bool   `json:"v,omitempty"`
}

func (o c26Op) MarshalJSON() ([]byte, error) {
	j := c26OpJSON{K: o.K.String(), Sp: o.Sp, Size: o.Size, Kind: o.Kind, Mask: o.Mask, Delay: o.Delay, V: o.V}
	if o.K == c26AdvOp {
		j.Adv = o.Adv.String()
	}
	return json.Marshal(j)
}

func (o *c26Op) UnmarshalJSON(b []byte) error {
	var j c26OpJSON
	if err := json.Unmarshal(b, &j); err != nil {
		return err
	}
	*o = c26Op{Sp: j.Sp, Size: j.Size, Kind: j.Kind, Mask: j.Mask, Delay: j.Delay, V: j.V}
	found := false
	for i, n := range c26KName {
		if n == j.K {
			o.K, found = c26K(i), true
		}
	}
	if !found {
		return fmt.Errorf("c26: unknown op kind %q", j.K)
	}
	for i, n := range c26AdvName {
		if n == j.Adv {
			o.Adv = c26Adv(i)
		}
	}
	return nil
}

func (o c26Op) String() string {
	switch o.K {
	case c26Send:
		return fmt.Sprintf("send(sp%d,%d,kind%d)", o.Sp, o.Size, o.Kind)
	case c26Ack:
		return fmt.Sprintf("ack(sp%d,mask=%b,delay=%dms)", o.Sp, o.Mask, o.Delay)
	case c26AdvOp:
		return "adv(" + o.Adv.String() + ")"
	case c26Dgram:
		return fmt.Sprintf("dgram(%d)", o.Size)
	case c26Under:
		return fmt.Sprintf("under(%v)", o.V)
	case c26Validate, c26Confirm:
		return o.K.String()
	}
	return fmt.Sprintf("%s(sp%d)", o.K, o.Sp)
}

const (
	c26None = iota
	c26Acked
	c26Lost
	c26Discarded
)

var c26FateName = [...]string{"none", "acked", "lost", "discarded"}

type c26Pkt struct {
	size     int
	inFlight bool
	ae       bool
	skipped  bool
	fate     int8
}

type c26CB struct {
	space    numberSpace
	num      packetNumber
	size     int
	inFlight bool
	ae       bool
	fate     packetFate
	rng      int // index of the ack range being processed, -1 outside receiveAckRange
}

type c26State struct {
	impl     lossState
	mds      int
	now      time.Time
	pk       [numberSpaceCount][]c26Pkt // indexed by packet number
	keysGone [numberSpaceCount]bool
	cbs      []c26CB
	curRange int
	everCB   bool
}

var c26Base = time.Date(2001, 2, 3, 4, 5, 6, 0, time.UTC)

func c26New(side connSide, mds int) *c26State {
	s := &c26State{mds: mds, now: c26Base, curRange: -1}
	s.impl.init(side, mds, s.now)
	return s
}

func (s *c26State) cb(space numberSpace, sent *sentPacket, fate packetFate) {
	s.cbs = append(s.cbs, c26CB{space, sent.num, sent.size, sent.inFlight, sent.ackEliciting, fate, s.curRange})
}

// c26Runs splits an ack mask into ranges [start,end), highest first (the order
// of ranges in an ACK frame).
func c26Runs(mask uint, next packetNumber) (out []i64range[packetNumber]) {
	// bit i <-> number next-i; walk from bit 0 (highest number) upwards.
	n := bits.Len(mask)
	for i := 0; i < n; {
		if mask&(1<<uint(i)) == 0 {
			i++
			continue
		}
		j := i
		for j+1 < n && mask&(1<<uint(j+1)) != 0 {
			j++
		}
		out = append(out, i64range[packetNumber]{next - packetNumber(j), next - packetNumber(i) + 1})
		i = j + 1
	}
	return out
}

func c26Enabled(s *c26State, op c26Op) bool {
	sp := numberSpace(op.Sp)
	switch op.K {
	case c26Send:
		if s.keysGone[sp] {
			return false
		}
		if int(op.Size) > s.impl.maxSendSize() {
			return false
		}
		limit, _ := s.impl.sendLimit(s.now)
		if op.Kind == 0 {
			return limit == ccOK // as Conn.appendFrames: ack-eliciting frames only when congestion control, pacing and anti-amplification permit
		}
		return limit != ccBlocked // ACKs are not congestion controlled
	case c26Skip:
		return !s.keysGone[sp]
	case c26Ack:
		if s.keysGone[sp] {
			return false
		}
		return int(bits.Len(uint(op.Mask)))-1 <= len(s.pk[sp]) // every acknowledged number is >= 0
	case c26AdvOp:
		if op.Adv == c26AdvTimer {
			return !s.impl.timer.IsZero() && s.impl.timer.After(s.now)
		}
		return true
	case c26DKeys:
		return sp != appDataSpace && !s.keysGone[sp]
	case c26DPkts:
		return sp == initialSpace && !s.keysGone[sp]
	case c26Validate:
		return s.impl.side == serverSide
	case c26Confirm:
		return !s.impl.handshakeConfirmed
	}
	return true
}

func c26Apply(w *vx.W, s *c26State, op c26Op) bool {
	const id = "C26/"
	sp := numberSpace(op.Sp)
	s.cbs = s.cbs[:0]
	s.curRange = -1
	ackErr := false
	var ackMask uint
	switch op.K {
	case c26Send:
		sent := &sentPacket{num: packetNumber(len(s.pk[sp])), size: int(op.Size)}
		switch op.Kind {
		case 0:
			sent.ackEliciting, sent.inFlight = true, true
		case 2:
			sent.inFlight = true
		}
		if got := s.impl.nextNumber(sp); got != sent.num {
			w.Failf(id+"numbering/nextNumber-disagrees", "before %v: nextNumber(%v)=%d, %d packets/skips recorded so far", op, sp, got, sent.num)
			return false
		}
		s.pk[sp] = append(s.pk[sp], c26Pkt{size: int(op.Size), inFlight: sent.inFlight, ae: sent.ackEliciting})
		s.impl.packetSent(s.now, nil, sp, sent)
	case c26Skip:
		s.pk[sp] = append(s.pk[sp], c26Pkt{skipped: true})
		s.impl.skipNumber(s.now, sp)
	case c26Ack:
		next := packetNumber(len(s.pk[sp]))
		ackMask = uint(op.Mask)
		runs := c26Runs(uint(op.Mask), next)
		// reasons for which the frame must / may be refused
		beyond := op.Mask&1 != 0
		skipInList, skipAny := false, false
		for i := 1; i < bits.Len(uint(op.Mask)); i++ {
			if op.Mask&(1<<uint(i)) == 0 {
				continue
			}
			n := next - packetNumber(i)
			if s.pk[sp][n].skipped {
				skipAny = true
				if s.impl.spaces[sp].num(n) != nil {
					skipInList = true
				}
			}
		}
		s.impl.receiveAckStart()
		for i, r := range runs {
			s.curRange = i
			before := len(s.cbs)
			err := s.impl.receiveAckRange(s.now, sp, i, r.start, r.end, s.cb)
			if err != nil {
				ackErr = true
				if r.end > next && len(s.cbs) != before {
					w.Failf(id+"ack/unsent-range-changed-state", "%v: range [%d,%d) reaches beyond nextNum=%d and was refused, but %d packets were reported acked from it", op, r.start, r.end, next, len(s.cbs)-before)
				}
			} else if r.end > next {
				w.Failf(id+"ack/unsent-number-accepted", "%v: range [%d,%d) acknowledges number %d which was never sent (nextNum=%d), receiveAckRange returned nil", op, r.start, r.end, r.end-1, next)
			}
			// The connection aborts on error but keeps feeding the remaining ranges (conn_recv.go handleAckFrame); so do we.
		}
		s.curRange = -1
		s.impl.receiveAckEnd(s.now, nil, sp, time.Duration(op.Delay)*time.Millisecond, s.cb)
		if ackErr && !beyond && !skipAny {
			w.Failf(id+"ack/spurious-error", "%v: every acknowledged number was sent and none was skipped, yet receiveAckRange returned an error", op)
		}
		if !ackErr && skipInList {
			w.Failf(id+"ack/skipped-number-in-list-accepted", "%v: the frame covers a skipped packet number that is still tracked, receiveAckRange returned nil", op)
		}
		if !ackErr && skipAny {
			w.Outcome("ack covering an already forgotten skipped number accepted")
		}
	case c26AdvOp:
		var d time.Duration
		switch op.Adv {
		case c26Adv1ms:
			d = time.Millisecond
		case c26AdvLoss:
			d = s.impl.lossDuration()
		case c26AdvTimer:
			d = s.impl.timer.Sub(s.now)
		case c26Adv1s:
			d = time.Second
		}
		s.now = s.now.Add(d)
		s.impl.advance(s.now, s.cb)
	case c26DKeys:
		s.impl.discardKeys(s.now, nil, sp)
		s.keysGone[sp] = true
	case c26DPkts:
		s.impl.discardPackets(sp, nil, s.cb)
	case c26Dgram:
		s.impl.datagramReceived(s.now, int(op.Size))
	case c26Validate:
		s.impl.validateClientAddress()
	case c26Confirm:
		s.impl.confirmHandshake()
	case c26Under:
		s.impl.cc.setUnderutilized(nil, op.V)
	default:
		panic("c26: unknown op " + op.K.String())
	}
	if w.Failed() {
		return false
	}

	// ---- fates reported by this operation
	var lastLost [numberSpaceCount]packetNumber
	for i := range lastLost {
		lastLost[i] = -1
	}
	nAcked, nLost := 0, 0
	for _, cb := range s.cbs {
		s.everCB = true
		kind := "lost"
		if cb.fate == packetAcked {
			kind = "acked"
		}
		if int(cb.num) < 0 || int(cb.num) >= len(s.pk[cb.space]) {
			w.Failf(id+"fate/"+kind+"-for-never-sent-number", "%v: packet %v/%d reported %s but only numbers below %d were used", op, cb.space, cb.num, kind, len(s.pk[cb.space]))
			return false
		}
		p := &s.pk[cb.space][cb.num]
		if p.skipped {
			w.Failf(id+"fate/"+kind+"-for-skipped-number", "%v: skipped packet number %v/%d reported %s", op, cb.space, cb.num, kind)
			return false
		}
		if p.fate != c26None {
			w.Failf(id+"fate/twice:"+c26FateName[p.fate]+"-then-"+kind, "%v: packet %v/%d was already %s and is now reported %s", op, cb.space, cb.num, c26FateName[p.fate], kind)
			return false
		}
		if cb.size != p.size || cb.inFlight != p.inFlight || cb.ae != p.ae {
			w.Failf(id+"fate/packet-fields-changed", "%v: packet %v/%d reported %s with size/inFlight/ackEliciting=%d/%v/%v, sent as %d/%v/%v", op, cb.space, cb.num, kind, cb.size, cb.inFlight, cb.ae, p.size, p.inFlight, p.ae)
			return false
		}
		if cb.fate == packetAcked {
			nAcked++
			next := packetNumber(len(s.pk[cb.space]))
			off := next - cb.num
			if op.K != c26Ack || cb.space != sp || off < 1 || off >= 64 || ackMask&(1<<uint(off)) == 0 {
				w.Failf(id+"fate/acked-without-acknowledgement", "%v: packet %v/%d reported acked but the peer did not acknowledge it in this operation", op, cb.space, cb.num)
				return false
			}
			p.fate = c26Acked
		} else {
			nLost++
			if cb.num <= lastLost[cb.space] {
				w.Failf(id+"fate/lost-not-in-increasing-order", "%v: packet %v/%d reported lost after %d in the same batch", op, cb.space, cb.num, lastLost[cb.space])
				return false
			}
			lastLost[cb.space] = cb.num
			p.fate = c26Lost
		}
	}
	if op.K == c26Ack && !ackErr {
		// every packet the frame covers has a fate now, and it is "acked" unless it had one before
		next := packetNumber(len(s.pk[sp]))
		for i := 1; i < bits.Len(ackMask); i++ {
			if ackMask&(1<<uint(i)) == 0 {
				continue
			}
			n := next - packetNumber(i)
			if p := s.pk[sp][n]; !p.skipped && p.fate == c26None {
				w.Failf(id+"ack/acknowledged-packet-left-unresolved", "%v: packet %v/%d is covered by the accepted ACK frame but has no fate", op, sp, n)
				return false
			}
		}
	}
	if op.K == c26DKeys {
		for i := range s.pk[sp] {
			if p := &s.pk[sp][i]; !p.skipped && p.fate == c26None {
				p.fate = c26Discarded
				w.Outcome("discarded with keys")
			}
		}
	}

	// ---- white-box: the sent-packet lists agree with the fate table
	wantBIF := 0
	for spc := numberSpace(0); spc < numberSpaceCount; spc++ {
		l := &s.impl.spaces[spc].sentPacketList
		if s.keysGone[spc] {
			if l.size != 0 {
				w.Failf(id+"list/not-empty-after-key-discard", "after %v: %v list still holds %d packets", op, spc, l.size)
				return false
			}
		} else if int(l.nextNum) != len(s.pk[spc]) {
			w.Failf(id+"numbering/nextNum-disagrees", "after %v: %v nextNum=%d, reference %d", op, spc, l.nextNum, len(s.pk[spc]))
			return false
		}
		start := l.start()
		for i := 0; i < l.size; i++ {
			sent := l.nth(i)
			num := start + packetNumber(i)
			if sent == nil || sent.num != num {
				w.Failf(id+"list/entry-number-mismatch", "after %v: %v list index %d should be packet %d, is %+v", op, spc, i, num, sent)
				return false
			}
			p := s.pk[spc][num]
			ok := false
			switch sent.state {
			case sentPacketSent:
				ok = !p.skipped && p.fate == c26None && sent.size == p.size && sent.inFlight == p.inFlight && sent.ackEliciting == p.ae
			case sentPacketAcked:
				ok = !p.skipped && p.fate == c26Acked
			case sentPacketLost:
				ok = !p.skipped && p.fate == c26Lost
			case sentPacketUnsent:
				ok = p.skipped
			}
			if !ok {
				w.Failf(id+fmt.Sprintf("list/state%d-but-fate-%s", sent.state, c26FateName[p.fate]), "after %v: %v/%d is in the list with state=%d size=%d inFlight=%v, the fate table has %+v (state 0 sent, 1 acked, 2 lost, 3 unsent)", op, spc, num, sent.state, sent.size, sent.inFlight, p)
				return false
			}
		}
		for n := range s.pk[spc] {
			p := s.pk[spc][n]
			if p.skipped || p.fate != c26None {
				continue
			}
			if s.keysGone[spc] || packetNumber(n) < start {
				w.Failf(id+"fate/none-after-leaving-the-list", "after %v: packet %v/%d is no longer tracked (list starts at %d) but was never reported acked or lost nor discarded with its keys", op, spc, n, start)
				return false
			}
			if p.inFlight {
				wantBIF += p.size
			}
		}
	}
	cc := s.impl.cc
	if cc.bytesInFlight < 0 {
		w.Failf(id+"bytes-in-flight/negative", "after %v: bytesInFlight=%d", op, cc.bytesInFlight)
		return false
	}
	if cc.bytesInFlight != wantBIF {
		rel := "above"
		if cc.bytesInFlight < wantBIF {
			rel = "below"
		}
		w.Failf(id+"bytes-in-flight/"+rel+"-sum-of-unresolved-in-flight/after-"+op.K.String(), "after %v: bytesInFlight=%d, the in-flight packets without a fate sum to %d", op, cc.bytesInFlight, wantBIF)
		return false
	}
	if minW := 2 * s.mds; cc.congestionWindow < minW {
		w.Failf(id+"cwnd/below-minimum", "after %v: congestionWindow=%d < minimum window %d", op, cc.congestionWindow, minW)
		return false
	}

	// ---- vacuity classes
	switch {
	case nAcked > 0 && nLost > 0:
		w.Outcome("ack: acked+lost")
	case nAcked > 0:
		w.Outcome("ack: acked")
	case nLost > 0:
		w.Outcome("lost on " + op.K.String())
	}
	if ackErr {
		w.Outcome("ack refused")
		return false // the connection is closed with PROTOCOL_VIOLATION
	}
	if cc.congestionWindow == 2*s.mds {
		w.Outcome("cwnd at minimum")
	}
	if cc.inRecovery {
		w.Outcome("in recovery")
		if cc.recoveryStartTime.IsZero() {
			w.Outcome("persistent congestion established")
		}
	}
	if lim, _ := s.impl.sendLimit(s.now); lim != ccOK {
		w.Outcome("send limit " + lim.String())
	}
	if s.impl.ptoExpired {
		w.Outcome("pto expired")
	}
	return true
}

func c26Canon(s *c26State) string {
	var b strings.Builder
	rel := func(t time.Time) string {
		if t.IsZero() {
			return "z"
		}
		return fmt.Sprint(int64(t.Sub(s.now)))
	}
	c := &s.impl
	fmt.Fprint(&b, c.side, c.handshakeConfirmed, c.maxAckDelay, rel(c.timer), c.ptoTimerArmed, c.ptoExpired, c.ptoBackoffCount,
		c.antiAmplificationLimit, c.consecutiveNonAckElicitingPackets, "|",
		c.rtt.minRTT, c.rtt.latestRTT, c.rtt.smoothedRTT, c.rtt.rttvar, rel(c.rtt.firstSampleTime), "|",
		c.pacer.bucket, c.pacer.maxBucket, rel(c.pacer.lastUpdate), rel(c.pacer.nextSend), "|")
	cc := c.cc
	fmt.Fprint(&b, cc.congestionWindow, cc.bytesInFlight, cc.slowStartThreshold, rel(cc.recoveryStartTime), cc.congestionPendingAcks,
		cc.sendOnePacketInRecovery, cc.inRecovery, cc.underutilized, rel(cc.ackLastLoss), "|")
	for sp := range cc.persistentCongestion {
		pc := &cc.persistentCongestion[sp]
		fmt.Fprint(&b, rel(pc.start), rel(pc.end), pc.next, ";")
	}
	for sp := range c.spaces {
		x := &c.spaces[sp]
		fmt.Fprint(&b, "|", s.keysGone[sp], x.nextNum, x.maxAcked, x.lastAckEliciting, ":")
		for i := 0; i < x.size; i++ {
			p := x.nth(i)
			fmt.Fprint(&b, p.state, p.size, p.inFlight, p.ackEliciting, rel(p.time), ",")
		}
		// skipped numbers and unresolved packets below the list would matter to the oracle only; the
		// list check above has established that there are no unresolved packets outside the list.
	}
	return b.String()
}

// c26Masks returns every ack mask over the last win numbers (bits 1..win) plus
// the never-sent number nextNum (bit 0) that has at most maxRuns runs.
func c26Masks(win, maxRuns int) (out []uint) {
	for m := uint(1); m < 1<<uint(win+1); m++ {
		runs := 0
		for i := 0; i <= win; i++ {
			if m&(1<<uint(i)) != 0 && (i == 0 || m&(1<<uint(i-1)) == 0) {
				runs++
			}
		}
		if runs <= maxRuns {
			out = append(out, m)
		}
	}
	return out
}

type c26Cfg struct {
	name   string
	side   connSide
	mds    int
	ops    []c26Op
	seeds  [][]c26Op
	depth  int
	maxSts int
}

func c26Run(c *vx.Ctx, cfg c26Cfg) {
	vx.Seq(c, vx.SeqSpec[*c26State, c26Op]{
		Part:      cfg.name,
		New:       func() *c26State { return c26New(cfg.side, cfg.mds) },
		Ops:       cfg.ops,
		Enabled:   c26Enabled,
		Apply:     c26Apply,
		Canon:     c26Canon,
		Depth:     cfg.depth,
		Seeds:     cfg.seeds,
		MaxStates: cfg.maxSts,
	})
}

func TestVerif_C26(t *testing.T) {
	vx.Run(t, "C26", func(c *vx.Ctx) {
		const app, hs, ini = int(appDataSpace), int(handshakeSpace), int(initialSpace)
		send := func(sp, size, kind int) c26Op { return c26Op{K: c26Send, Sp: uint8(sp), Size: uint16(size), Kind: uint8(kind)} }
		ack := func(sp int, mask uint, delay int) c26Op {
			return c26Op{K: c26Ack, Sp: uint8(sp), Mask: uint16(mask), Delay: uint8(delay)}
		}
		adv := func(a c26Adv) c26Op { return c26Op{K: c26AdvOp, Adv: a} }

		// --- alphabet 1: one number space (application data), rich ACK shapes
		win := vx.Pick(c, 4, 5)
		var one []c26Op
		one = append(one, send(app, 1200, 0), send(app, 50, 0), send(app, 1200, 1), send(app, 50, 2), c26Op{K: c26Skip, Sp: uint8(app)})
		for _, m := range c26Masks(win, 2) {
			one = append(one, ack(app, m, 0))
		}
		one = append(one, ack(app, 2, 25), ack(app, 1<<uint(win+1)-2, 25))
		one = append(one, adv(c26AdvLoss), adv(c26AdvTimer), adv(c26Adv1ms), adv(c26Adv1s), adv(c26Adv0))
		one = append(one, c26Op{K: c26Confirm}, c26Op{K: c26Under, V: true}, c26Op{K: c26Under, V: false})

		// --- alphabet 2: all three spaces, key discard, Retry, anti-amplification; plain ACK shapes
		var multi []c26Op
		for _, sp := range []int{ini, hs, app} {
			multi = append(multi, send(sp, 1200, 0), send(sp, 50, 1))
		}
		multi = append(multi, send(ini, 1200, 2), c26Op{K: c26Skip, Sp: uint8(app)})
		for _, sp := range []int{ini, hs, app} {
			for _, m := range []uint{2, 4, 6, 8, 3} { // newest; second newest; both; third newest; newest + never sent
				multi = append(multi, ack(sp, m, 0))
			}
		}
		multi = append(multi, adv(c26AdvLoss), adv(c26AdvTimer), adv(c26Adv1ms))
		multi = append(multi, c26Op{K: c26DKeys, Sp: uint8(ini)}, c26Op{K: c26DKeys, Sp: uint8(hs)}, c26Op{K: c26DPkts, Sp: uint8(ini)},
			c26Op{K: c26Dgram, Size: 1200}, c26Op{K: c26Dgram, Size: 40}, c26Op{K: c26Validate}, c26Op{K: c26Confirm})

		// --- seeds (prefixes that put the controller into states the depth bound alone does not reach)
		// the oldest of four packets is lost by the packet threshold, the other three are acknowledged: one recovery episode,
		// nothing left in flight; the next episode's packets are sent at recoveryStartTime, so their loss starts a new episode
		cycle := []c26Op{send(app, 1200, 0), send(app, 50, 0), send(app, 50, 0), send(app, 50, 0), ack(app, 14, 0)}
		rep := func(n int, pre ...c26Op) []c26Op {
			out := append([]c26Op(nil), pre...)
			for i := 0; i < n; i++ {
				out = append(out, cycle...)
			}
			return out
		}
		// RTT sample taken, then two ack-eliciting packets sent far apart: the next loss batch can establish persistent congestion
		pcPrelude := []c26Op{send(app, 1200, 0), ack(app, 2, 0), send(app, 1200, 0), adv(c26Adv1s), send(app, 1200, 0), send(app, 1200, 0)}
		flight := []c26Op{send(app, 1200, 0), send(app, 1200, 0), send(app, 1200, 1), send(app, 1200, 0), send(app, 50, 0)}
		handshake := []c26Op{send(ini, 1200, 0), send(hs, 1200, 0), send(app, 1200, 0), send(ini, 50, 1)}
		dg := c26Op{K: c26Dgram, Size: 1200}

		depth1 := vx.Pick(c, 4, 5)
		depth2 := vx.Pick(c, 4, 5)
		c.Rule(fmt.Sprintf("breadth-first search over operation sequences on a real lossState+ccReno (client and server side, maxDatagramSize 1200), states deduplicated on the complete lossState with times relative to now. Alphabet 'app': send(size 1200|50; ack-eliciting | ACK-only | padded not-ack-eliciting), skip, every ACK frame of <=2 ranges over the last %d numbers plus the never-sent next number (ack delay 0; 25ms for two shapes), advance(0|1ms|lossDuration|to the timer|1s), confirmHandshake, setUnderutilized; depth %d beyond each seed. Alphabet 'multi': sends in all three spaces, 5 ACK shapes per space, discardKeys(initial|handshake), discardPackets(initial), datagramReceived(1200|40), validateClientAddress, confirmHandshake, advance; depth %d beyond each seed. Seeds: empty; a flight of 5 packets; 1, 2 and 3 completed recovery episodes (cwnd 6000/3000/2400); an RTT sample followed by packets 1s apart (persistent-congestion prelude); packets in all three spaces; server seeds start with a 1200-byte datagram and address validation (app; only the empty, 2-episode, and in thorough the flight and persistent-congestion seeds) or with 0, 1 or 3 datagrams of anti-amplification credit (multi). A transition is non-trivial when it was applied to the real object and every clause was compared.", win, depth1, depth2))
		c.Rule("after every transition: every ack/loss callback is for a packet that was sent, not skipped, has no fate yet, carries the size/flags it was sent with; acked only if covered by the ACK frame of this operation; lost in increasing order per space and batch; an accepted ACK frame leaves no covered packet unresolved; discardKeys resolves the rest of the space; white-box: each list entry's state equals the recorded fate, every packet without a fate is still in the list in state sent; cc.bytesInFlight == sum of sizes of in-flight packets without a fate, >= 0; cc.congestionWindow >= 2*maxDatagramSize; ACK of a never-sent number is refused without reporting anything")
		c.Assume("ack-eliciting sends only when sendLimit()==ccOK and size<=maxSendSize() (as Conn.maybeSend), other sends unless ccBlocked; no sends/acks in a space after discardKeys; time never goes backwards; after a refused ACK frame the history ends (connection closed)")
		c.Assume("an ACK frame covering a skipped number that has already been cleaned from the sent list is accepted by lossState (recorded as an outcome, judged by C25, not here)")

		for _, side := range []connSide{clientSide, serverSide} {
			var pre, pre3 []c26Op
			if side == serverSide {
				pre = []c26Op{dg, {K: c26Validate}} // address validated: no anti-amplification limit
				pre3 = []c26Op{dg, dg, dg}         // 10800 bytes of anti-amplification credit
			}
			with := func(p, x []c26Op) []c26Op { return append(append([]c26Op(nil), p...), x...) }
			seeds1 := [][]c26Op{with(pre, nil), with(pre, flight), with(pre, rep(1)), with(pre, rep(2)), with(pre, rep(3)), with(pre, pcPrelude),
				with(pre, append([]c26Op{{K: c26Confirm}}, flight...))}
			if side == serverSide {
				// once the address is validated a server differs from a client only in PTO arming/backoff rules
				seeds1 = [][]c26Op{with(pre, nil), with(pre, rep(2))}
				if !c.Quick() {
					seeds1 = append(seeds1, with(pre, flight), with(pre, pcPrelude))
				}
			}
			seeds2 := [][]c26Op{nil, with(pre3, handshake), with(pre, rep(2))}
			if side == serverSide {
				seeds2 = append(seeds2, []c26Op{dg}) // 3600 bytes of credit: reaches the limit after three full-size packets
			}
			c26Run(c, c26Cfg{name: side.String() + "/multi", side: side, mds: 1200, ops: multi, seeds: seeds2, depth: depth2})
			c26Run(c, c26Cfg{name: side.String() + "/app", side: side, mds: 1200, ops: one, seeds: seeds1, depth: depth1})
		}
	})
}
