package quic

import (
	"context"
	"fmt"
	"testing"
	"testing/synctest"
	"time"

	"golang.org/x/net/internal/zzverif/vx"
)

// C25 parts "peer-ack" and "peer-dup": a real server Conn driven by a scripted
// peer through the package's own testConn helpers. Every case runs in its own
// synctest bubble inside its own sub-test. Property failures are reported with
// w.Failf; a t.Fatal from a helper fails the sub-test and thereby the whole
// test binary (harness error, exit 2) — it is never swallowed.

// c25Bubble runs f in a fresh bubble in a fresh sub-test. A panic on the
// bubble's root goroutine is turned into a violation of the current case.
func c25Bubble(w *vx.W, name string, f func(t *testing.T)) {
	c := w.Ctx()
	c.T.Run(name, func(t *testing.T) {
		synctest.Test(t, func(t *testing.T) {
			defer func() {
				if r := recover(); r != nil {
					w.Failf("C25/"+name+"/panic", "panic in scenario: %v", r)
				}
			}()
			f(t)
		})
	})
}

// c25OnLoop runs f on the connection's loop goroutine (white-box reads/writes of loss state).
func c25OnLoop(t *testing.T, tc *testConn, f func(c *Conn)) {
	if err := tc.conn.runOnLoop(context.Background(), func(now time.Time, c *Conn) { f(c) }); err != nil {
		t.Fatalf("runOnLoop: %v", err)
	}
	synctest.Wait()
}

// c25Drain reads everything the conn has to send right now and hands every frame to f.
func c25Drain(tc *testConn, f func(fr debugFrame, pt packetType)) {
	for {
		fr, pt := tc.readFrame()
		if fr == nil {
			return
		}
		if f != nil {
			f(fr, pt)
		}
	}
}

func c25Write1RTT(tc *testConn, num packetNumber, frames ...debugFrame) {
	dst := tc.conn.connIDState.local[0].cid
	if tc.conn.connIDState.local[0].seq == -1 {
		dst = tc.conn.connIDState.local[1].cid
	}
	tc.write(&testDatagram{
		packets: []*testPacket{{
			ptype:       packetType1RTT,
			num:         num,
			keyNumber:   tc.sendKeyNumber,
			keyPhaseBit: tc.sendKeyPhaseBit,
			frames:      frames,
			version:     quicVersion1,
			dstConnID:   dst,
			srcConnID:   tc.peerConnID,
		}},
		addr: tc.conn.peerAddr,
	})
}

// ---------------------------------------------------------------- peer ACK frames

type c25Ack struct {
	M         int  `json:"conn_sends"`        // 1-RTT packets the conn sends before the ACK
	SkipAfter int  `json:"skip_after"`        // 0: no number skipped; k: the number after the k-th packet is skipped
	PreAck    bool `json:"older_acked_first"` // the peer first (validly) acknowledges every packet sent so far
	Mask      uint `json:"mask"`              // ACK frame: bit 0 = the never-sent next number N, bit i = N-i
}

func c25RangesFromMask(mask uint, next packetNumber) (out []i64range[packetNumber]) {
	// ascending ranges, as debugFrameAck wants them
	for i := 63; i >= 0; i-- {
		if mask&(1<<uint(i)) == 0 {
			continue
		}
		n := next - packetNumber(i)
		if k := len(out); k > 0 && out[k-1].end == n {
			out[k-1].end = n + 1
		} else {
			out = append(out, i64range[packetNumber]{n, n + 1})
		}
	}
	return out
}

func c25CheckAck(w *vx.W, x c25Ack) {
	const id = "C25/peer-ack/"
	c25Bubble(w, "peer-ack", func(t *testing.T) {
		tc, s := newTestConnAndLocalStream(t, serverSide, uniStream, permissiveTransportParameters)
		c25Drain(tc, nil)
		var p0 packetNumber
		c25OnLoop(t, tc, func(c *Conn) {
			p0 = c.loss.nextNumber(appDataSpace)
			if x.SkipAfter > 0 {
				c.skip.skip = p0 + packetNumber(x.SkipAfter)
			} else {
				c.skip.skip = p0 + 1000
			}
		})
		sent := map[packetNumber]bool{}
		var sentList []packetNumber
		for i := 0; i < x.M; i++ {
			s.WriteByte(byte(i))
			s.Flush()
			got := false
			c25Drain(tc, func(fr debugFrame, pt packetType) {
				if _, ok := fr.(debugFrameStream); ok && pt == packetType1RTT {
					got = true
					sent[tc.lastPacket.num] = true
					sentList = append(sentList, tc.lastPacket.num)
				}
			})
			if !got {
				t.Fatalf("conn did not send STREAM data for write %d", i)
			}
		}
		var next packetNumber
		skippedTracked := false
		skipped := packetNumber(-1)
		if x.SkipAfter > 0 {
			skipped = p0 + packetNumber(x.SkipAfter)
		}
		if x.PreAck {
			var rs rangeset[packetNumber]
			for _, n := range sentList {
				rs.add(n, n+1)
			}
			tc.writeFrames(packetType1RTT, debugFrameAck{ranges: rs})
			closed := false
			c25Drain(tc, func(fr debugFrame, pt packetType) {
				if _, ok := fr.(debugFrameConnectionCloseTransport); ok {
					closed = true
				}
			})
			if closed {
				w.Failf(id+"valid-ack-refused", "%+v: the peer acknowledged exactly the packets %v the conn sent and the conn closed the connection", x, sentList)
				return
			}
		}
		c25OnLoop(t, tc, func(c *Conn) {
			next = c.loss.nextNumber(appDataSpace)
			if skipped >= 0 {
				if sp := c.loss.spaces[appDataSpace].num(skipped); sp != nil && sp.state == sentPacketUnsent {
					skippedTracked = true
				}
			}
		})
		wantNext := p0 + packetNumber(x.M)
		if x.SkipAfter > 0 {
			wantNext++
		}
		if next != wantNext || (skipped >= 0 && sent[skipped]) || len(sentList) != x.M {
			t.Fatalf("scenario did not unfold as scripted: p0=%d next=%d sent=%v skipped=%d", p0, next, sentList, skipped)
		}
		// the ACK frame under test
		ranges := c25RangesFromMask(x.Mask, next)
		coversUnsent, coversSkipped := false, false
		for _, r := range ranges {
			for n := r.start; n < r.end; n++ {
				switch {
				case n >= next:
					coversUnsent = true
				case n == skipped:
					coversSkipped = true
				case !sent[n]:
					t.Fatalf("mask %b reaches below the scripted window: %d (p0=%d)", x.Mask, n, p0)
				}
			}
		}
		tc.writeFrames(packetType1RTT, debugFrameAck{ranges: ranges})
		closed, code := false, transportError(0)
		c25Drain(tc, func(fr debugFrame, pt packetType) {
			if cc, ok := fr.(debugFrameConnectionCloseTransport); ok {
				closed, code = true, cc.code
			}
		})
		desc := fmt.Sprintf("%+v: conn sent %v (skipped %d, next %d), peer ACK ranges %v", x, sentList, skipped, next, ranges)
		switch {
		case coversUnsent || coversSkipped:
			if !closed || code != errProtocolViolation {
				sig := "never-sent-number-accepted"
				if !coversUnsent {
					sig = "skipped-number-accepted/still-tracked"
					if !skippedTracked {
						sig = "skipped-number-accepted/after-older-packets-acked"
					}
				}
				w.Failf(id+sig, "%s: want CONNECTION_CLOSE PROTOCOL_VIOLATION, got closed=%v code=%v", desc, closed, code)
				return
			}
			w.Outcome("peer-ack refused")
		default:
			if closed {
				w.Failf(id+"valid-ack-refused", "%s: every acknowledged number was sent, conn closed with %v", desc, code)
				return
			}
			w.Outcome("peer-ack accepted")
		}
		w.Nontrivial()
	})
}

// ---------------------------------------------------------------- duplicate delivery

// History events: 0..3 deliver peer packet number Q0+k carrying one byte on a
// stream unique to the event; 4 a burst of nine packets Q0+10, Q0+12, ...,
// Q0+26 (more ranges than ackState retains); 5 the peer acknowledges every
// packet the conn sent so far (acks of ACKs); 6 35ms pass (delayed ACK timer).
type c25Dup struct {
	Side string `json:"side,omitempty"` // "" or "server": the conn is a server; "client": a client
	H    []int  `json:"history"`
}

const (
	c25EvBurst = 4
	c25EvAck   = 5
	c25EvSleep = 6
)

func c25CheckDup(w *vx.W, x c25Dup) {
	const id = "C25/peer-dup/"
	c25Bubble(w, "peer-dup", func(t *testing.T) {
		side := serverSide
		if x.Side == "client" {
			side = clientSide
		}
		tc := newTestConn(t, side, permissiveTransportParameters)
		tc.handshake()
		peerSent := map[packetNumber]bool{}
		q0 := tc.peerNextPacketNum[appDataSpace]
		for n := packetNumber(0); n < q0; n++ {
			peerSent[n] = true // numbers used during the handshake (a superset is fine for the subset check)
		}
		failed := false
		observe := func(fr debugFrame, pt packetType) {
			switch f := fr.(type) {
			case debugFrameAck:
				if pt != packetType1RTT {
					return
				}
				for _, r := range f.ranges {
					for n := r.start; n < r.end; n++ {
						if !peerSent[n] && !failed {
							failed = true
							w.Failf(id+"ack-on-wire-acknowledges-unreceived-number", "%+v: the conn sent %v but the peer never sent 1-RTT packet %d (q0=%d)", x, f, n, q0)
						}
					}
				}
				w.Outcome("ACK frame observed on the wire")
			case debugFrameConnectionCloseTransport:
				t.Fatalf("conn closed unexpectedly: %v", f)
			}
		}
		c25Drain(tc, observe)
		type delivery struct {
			ev     int
			num    packetNumber
			stream int64
		}
		var dl []delivery
		for ev, k := range x.H {
			switch {
			case k < 4:
				num := q0 + packetNumber(k)
				sid := newStreamID(side.peer(), uniStream, int64(ev))
				peerSent[num] = true
				dl = append(dl, delivery{ev, num, int64(ev)})
				c25Write1RTT(tc, num, debugFrameStream{id: sid, off: 0, data: []byte{byte(0x40 + ev)}})
			case k == c25EvBurst:
				for i := 0; i < 9; i++ {
					num := q0 + 10 + packetNumber(2*i)
					peerSent[num] = true
					c25Write1RTT(tc, num, debugFramePing{})
				}
			case k == c25EvAck:
				if tc.lastPacket != nil {
					peerSent[tc.peerNextPacketNum[appDataSpace]] = true // the packet carrying the ACK frame
				}
				tc.writeAckForAll()
			case k == c25EvSleep:
				time.Sleep(35 * time.Millisecond)
				synctest.Wait()
			}
			c25Drain(tc, observe)
		}
		if failed {
			return
		}
		// which deliveries were processed? (their stream has the byte)
		got := map[int64]byte{}
		for {
			s, err := tc.conn.AcceptStream(canceledContext())
			if err != nil {
				break
			}
			s.SetReadContext(canceledContext())
			var b [4]byte
			n, _ := s.Read(b[:])
			if n > 0 {
				got[s.id.num()] = b[0]
			}
			if n > 1 {
				t.Fatalf("stream %v holds %d bytes, at most one was ever sent", s.id, n)
			}
		}
		first := map[packetNumber]int{} // packet number -> event of the processed delivery
		nproc := 0
		for _, d := range dl {
			b, ok := got[d.stream]
			if !ok {
				continue
			}
			if b != byte(0x40+d.ev) {
				t.Fatalf("stream %d holds %x, want %x", d.stream, b, 0x40+d.ev)
			}
			nproc++
			if e0, dup := first[d.num]; dup {
				between := "plain"
				for _, k := range x.H[e0+1 : d.ev] {
					switch k {
					case c25EvBurst:
						between = "after-range-pruning"
					case c25EvAck:
						if between == "plain" {
							between = "after-ack-of-ack"
						}
					}
				}
				w.Failf(id+"number-processed-twice/"+between, "%+v: 1-RTT packet number %d was delivered at events %d and %d and its frames took effect both times (streams %d and %d both received their byte)", x, d.num, e0, d.ev, e0, d.ev)
				return
			}
			first[d.num] = d.ev
		}
		if len(dl) > 0 {
			if nproc > 0 {
				w.Nontrivial()
			}
			w.Outcome(fmt.Sprintf("deliveries processed: %d of %d", nproc, len(dl)))
		}
	})
}

func c25PartC(c *vx.Ctx) {
	c.Rule("part peer-ack: a real server Conn after the handshake sends m in {1,3} 1-RTT packets, with no number or the number after the k-th packet (k=1..m) skipped (Conn.skip.skip set white-box), optionally the peer first acknowledges exactly the sent packets; then every non-empty ACK frame over the numbers [first sent, next never-sent number] is delivered. Expected: covers a never-sent or skipped number => CONNECTION_CLOSE with PROTOCOL_VIOLATION on the wire; otherwise no CONNECTION_CLOSE.")
	c.Rule("part peer-dup: for a server Conn and for a client Conn after the handshake, every history of length <= 3 (thorough 4; quick adds the length-4 histories deliver,deliver,X,deliver) over {deliver peer packet Q0+0..3 (each delivery carries one byte on a stream unique to the delivery), burst of nine single-packet ranges, peer acks everything the conn sent, 35ms pass}; at the end the streams are read: for every packet number at most one delivery may have taken effect; every ACK frame the conn put on the wire may only cover numbers the peer sent. Non-trivial = at least one delivery took effect.")
	c.Assume("part peer-ack: server side only, application-data space only. Part peer-dup: application-data space only (the Initial and Handshake spaces are the subject of part peer-dup-hs); numbers used during the handshake are treated as received")
	vx.Enumerate(c, "peer-ack", vx.Opts{Serial: true, Crumb: true}, func(yield func(c25Ack) bool) {
		for _, m := range []int{1, 3} {
			for sk := 0; sk <= m; sk++ {
				wbits := m + 1
				if sk > 0 {
					wbits++
				}
				for _, pre := range []bool{false, true} {
					for mask := uint(1); mask < 1<<uint(wbits); mask++ {
						if !yield(c25Ack{m, sk, pre, mask}) {
							return
						}
					}
				}
			}
		}
	}, c25CheckAck)
	maxLen := vx.Pick(c, 3, 4)
	vx.Enumerate(c, "peer-dup", vx.Opts{Serial: true, Crumb: true}, func(yield func(c25Dup) bool) {
		for _, side := range []string{"server", "client"} {
			ok := vx.Strings([]int{0, 1, 2, 3, c25EvBurst, c25EvAck, c25EvSleep}, 1, maxLen, func(h []int) bool {
				return yield(c25Dup{side, h})
			})
			if !ok {
				return
			}
			if maxLen >= 4 {
				continue
			}
			for a := 0; a < 4; a++ {
				for b := 0; b < 4; b++ {
					for _, xv := range []int{c25EvBurst, c25EvAck, c25EvSleep} {
						for d := 0; d < 4; d++ {
							if !yield(c25Dup{side, []int{a, b, xv, d}}) {
								return
							}
						}
					}
				}
			}
		}
	}, c25CheckDup)
}
