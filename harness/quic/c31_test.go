package quic

import (
	"bytes"
	"fmt"
	"net/netip"
	"testing"
	"time"

	"golang.org/x/net/internal/zzverif/vx"
)

// C31 — Retry tokens and stateless-reset tokens are bound to their context.
//
// Discipline IN. Part "retry": every issuing context (key, client address,
// original source connection ID, original destination connection ID, issue
// time) of a fixed table; inside a case the token made by the real
// retryState.makeToken is presented to the real validateToken under EVERY
// presenting context of the table (all addresses x all source connection IDs),
// at every listed clock offset, under the other key, with every single-byte
// modification / truncation / extension of the token and of the retry
// connection ID. Part "reset": every pair of connection IDs of a fixed set and
// every pair of keys on the real statelessResetTokenGenerator.
//
// Expectations never depend on token bytes: the random AEAD nonce changes the
// values only, never an accept/reject outcome.

var c31Addrs = []string{
	"1.2.3.4:5",
	"1.2.3.4:6",
	"1.2.3.5:5",
	"[::1]:5",
	"[::ffff:1.2.3.4]:5", // 4-in-6 form of the first: not asserted either way against it
	"[::1]:6",
	"[102:304:506:708:90a:b0c:102:304]:5", // with c31SrcCIDs[8]: same bytes as 12-byte cid + 1.2.3.4 without a length prefix
	"0.0.0.0:0",
}

var c31SrcCIDs = [][]byte{
	{},
	{1},
	{2},
	{1, 2, 3, 4, 5, 6, 7, 8},
	{1, 2, 3, 4, 5, 6, 7, 9},
	{0x81, 2, 3, 4, 5, 6, 7, 8},
	{1, 2, 3, 4, 5, 6, 7, 8, 9, 10, 11, 12, 13, 14, 15, 16, 17, 18, 19, 20},
	{1, 2, 3, 4, 5, 6, 7, 8, 9, 10, 11, 12, 13, 14, 15, 16, 17, 18, 19, 21},
	{1, 2, 3, 4, 5, 6, 7, 8, 9, 10, 11, 12}, // see c31Addrs[6]
	{1, 2, 3, 4}, // a connection ID equal to the bytes of address 1.2.3.4
}

var c31ODCIDs = [][]byte{
	{},
	{9},
	{1, 2, 3, 4, 5, 6, 7, 8},
	{20, 19, 18, 17, 16, 15, 14, 13, 12, 11, 10, 9, 8, 7, 6, 5, 4, 3, 2, 1},
}

type c31RetryCase struct {
	Key    int  `json:"key"`
	Addr   int  `json:"addr"`
	Src    int  `json:"src_cid"`
	ODCID  int  `json:"orig_dst_cid"`
	T0Frac bool `json:"t0_has_fraction"`
}

func c31SameHost(a, b netip.AddrPort) bool {
	return a.Port() == b.Port() && a.Addr().Unmap() == b.Addr().Unmap()
}

func c31AddrDiff(a, b netip.AddrPort) string {
	switch {
	case a.Addr() == b.Addr():
		return "other-port"
	case a.Addr().Is4() != b.Addr().Is4():
		return "other-address-family"
	case a.Port() == b.Port():
		return "other-address"
	}
	return "other-address-and-port"
}

func c31Retry(w *vx.W, x c31RetryCase) {
	var keys [2]retryState
	for i := range keys {
		if err := keys[i].init(); err != nil {
			panic(err)
		}
	}
	rs, other := &keys[x.Key], &keys[1-x.Key]
	addr := netip.MustParseAddrPort(c31Addrs[x.Addr])
	src := c31SrcCIDs[x.Src]
	odcid := c31ODCIDs[x.ODCID]
	t0 := time.Unix(1_700_000_000, 0)
	if x.T0Frac {
		t0 = t0.Add(500 * time.Millisecond)
	}
	ctx := fmt.Sprintf("token issued at t0 for addr=%v src_cid=%x orig_dst_cid=%x", addr, src, odcid)

	token, dst, err := rs.makeToken(t0, bytes.Clone(src), bytes.Clone(odcid), addr)
	if err != nil {
		panic(err)
	}
	if len(dst) != maxConnIDLen {
		w.Failf("C31/retry/new-dst-cid-length", "%s: makeToken returned a %d-byte connection ID", ctx, len(dst))
		return
	}
	token, dst = bytes.Clone(token), bytes.Clone(dst)
	present := func(now time.Time, tok, s, d []byte, a netip.AddrPort) ([]byte, bool) {
		// validateToken must not depend on (or modify) its callers' buffers.
		return rs.validateToken(now, bytes.Clone(tok), bytes.Clone(s), bytes.Clone(d), a)
	}

	// 1. Same context, inside the validity period (one second of slack below
	// the end: the issue time is stored in whole seconds).
	for _, dt := range []time.Duration{0, time.Second, retryTokenValidityPeriod - time.Second} {
		got, ok := present(t0.Add(dt), token, src, dst, addr)
		if !ok {
			w.Failf("C31/retry/rejected/same-context-within-period", "%s: rejected from the same context at t0+%v", ctx, dt)
			return
		}
		if !bytes.Equal(got, odcid) {
			w.Failf("C31/retry/orig-dst-cid-not-recovered", "%s: validateToken returned original destination connection ID %x", ctx, got)
			return
		}
	}
	w.Nontrivial()
	w.Outcome("accepted in context")

	// 2. Outside the validity period.
	for _, dt := range []time.Duration{retryTokenValidityPeriod + time.Nanosecond, retryTokenValidityPeriod + time.Second,
		2 * retryTokenValidityPeriod, time.Hour, 24 * 365 * time.Hour} {
		if _, ok := present(t0.Add(dt), token, src, dst, addr); ok {
			w.Failf("C31/retry/accepted/after-validity-period", "%s: accepted at t0+%v (validity period %v)", ctx, dt, retryTokenValidityPeriod)
			return
		}
	}
	// The implementation tolerates a clock stepped backwards by up to the
	// validity period; beyond that (plus the one-second granularity) a token
	// "from the future" is not within its validity period.
	for _, dt := range []time.Duration{retryTokenValidityPeriod + time.Second + time.Nanosecond, 2 * retryTokenValidityPeriod, time.Hour} {
		if _, ok := present(t0.Add(-dt), token, src, dst, addr); ok {
			w.Failf("C31/retry/accepted/before-issue-beyond-skew", "%s: accepted at t0-%v", ctx, dt)
			return
		}
	}
	w.Outcome("rejected: time")

	// 3. Every presenting context of the table.
	for ai, as := range c31Addrs {
		a := netip.MustParseAddrPort(as)
		for si, s := range c31SrcCIDs {
			same := ai == x.Addr && si == x.Src
			if same {
				continue
			}
			if ai != x.Addr && c31SameHost(a, addr) {
				continue // 4-in-6 vs 4: whether this is "the same address" is not defined by the property
			}
			if _, ok := present(t0, token, s, dst, a); ok {
				var what string
				switch {
				case ai == x.Addr && len(s) != len(src):
					what = "other-src-cid-length"
				case ai == x.Addr:
					what = "other-src-cid"
				case si == x.Src:
					what = c31AddrDiff(addr, a)
				default:
					what = "other-address-and-src-cid"
				}
				w.Failf("C31/retry/accepted/"+what, "%s: accepted when presented from addr=%v src_cid=%x", ctx, a, s)
				return
			}
		}
	}
	w.Outcome("rejected: context")

	// 4. The other key.
	if _, ok := other.validateToken(t0, bytes.Clone(token), src, dst, addr); ok {
		w.Failf("C31/retry/accepted/other-key", "%s: accepted by a retryState with an independently generated key", ctx)
		return
	}
	w.Outcome("rejected: key")

	// 5. Token modifications.
	for i := range token {
		for _, nb := range []byte{token[i] ^ 0x01, token[i] ^ 0x80, 0x00, 0xff} {
			if nb == token[i] {
				continue
			}
			m := bytes.Clone(token)
			m[i] = nb
			if _, ok := present(t0, m, src, dst, addr); ok {
				where := "ciphertext"
				if i < 4 {
					where = "nonce-tail"
				} else if i >= len(token)-16 {
					where = "tag"
				}
				w.Failf("C31/retry/accepted/modified-token-"+where, "%s: accepted with token byte %d changed %#02x -> %#02x", ctx, i, token[i], nb)
				return
			}
		}
	}
	for n := 0; n < len(token); n++ {
		if _, ok := present(t0, token[:n], src, dst, addr); ok {
			w.Failf("C31/retry/accepted/truncated-token", "%s: accepted with the token truncated to %d of %d bytes", ctx, n, len(token))
			return
		}
		if n > 0 {
			if _, ok := present(t0, token[n:], src, dst, addr); ok {
				w.Failf("C31/retry/accepted/token-prefix-removed", "%s: accepted with the first %d token bytes removed", ctx, n)
				return
			}
		}
	}
	for _, eb := range []byte{0x00, 0xff} {
		if _, ok := present(t0, append(bytes.Clone(token), eb), src, dst, addr); ok {
			w.Failf("C31/retry/accepted/extended-token", "%s: accepted with byte %#02x appended to the token", ctx, eb)
			return
		}
		if _, ok := present(t0, append([]byte{eb}, token...), src, dst, addr); ok {
			w.Failf("C31/retry/accepted/extended-token", "%s: accepted with byte %#02x prepended to the token", ctx, eb)
			return
		}
	}
	w.Outcome("rejected: token bytes")

	// 6. The retry connection ID (the client's new destination connection ID).
	for i := range dst {
		for _, nb := range []byte{dst[i] ^ 0x01, dst[i] ^ 0x80} {
			m := bytes.Clone(dst)
			m[i] = nb
			if _, ok := present(t0, token, src, m, addr); ok {
				w.Failf("C31/retry/accepted/modified-dst-cid", "%s: accepted with retry connection ID byte %d changed", ctx, i)
				return
			}
		}
	}
	for _, d := range [][]byte{{}, dst[:1], dst[:8], dst[:19], dst[1:], append(bytes.Clone(dst), 0), append([]byte{0}, dst...), src, odcid} {
		if bytes.Equal(d, dst) {
			continue
		}
		if _, ok := present(t0, token, src, d, addr); ok {
			w.Failf("C31/retry/accepted/other-dst-cid", "%s: accepted with retry connection ID %x instead of %x", ctx, d, dst)
			return
		}
	}
	w.Outcome("rejected: dst cid")

	// 7. A second token for the same context is again bound to its own retry
	// connection ID: it is not accepted with the first token's.
	token2, dst2, err := rs.makeToken(t0, src, odcid, addr)
	if err != nil {
		panic(err)
	}
	if !bytes.Equal(dst2, dst) {
		if _, ok := present(t0, token2, src, dst, addr); ok {
			w.Failf("C31/retry/accepted/dst-cid-of-another-token", "%s: a second token was accepted with the first token's retry connection ID", ctx)
			return
		}
	}
	if got, ok := present(t0, token2, src, dst2, addr); !ok || !bytes.Equal(got, odcid) {
		w.Failf("C31/retry/rejected/same-context-within-period", "%s: a second token for the same context was rejected (ok=%v odcid=%x)", ctx, ok, got)
		return
	}
}

// ---- stateless reset tokens

func c31ResetCIDs() [][]byte {
	alpha := []byte{0x00, 0x01, 0x02, 0x7f, 0x80, 0xff}
	out := [][]byte{{}}
	for _, a := range alpha {
		out = append(out, []byte{a})
	}
	for _, a := range alpha {
		for _, b := range alpha {
			out = append(out, []byte{a, b})
		}
	}
	c8 := []byte{1, 2, 3, 4, 5, 6, 7, 8}
	c20 := []byte{1, 2, 3, 4, 5, 6, 7, 8, 9, 10, 11, 12, 13, 14, 15, 16, 17, 18, 19, 20}
	out = append(out, c8, c20, c20[:19], c8[:7])
	for _, base := range [][]byte{c8, c20} {
		for _, i := range []int{0, len(base) - 1} {
			m := bytes.Clone(base)
			m[i] ^= 1
			out = append(out, m)
		}
	}
	out = append(out, make([]byte, 8), make([]byte, 20), append(bytes.Clone(c8), 0))
	return out
}

func c31ResetKeys() [][32]byte {
	var ks [][32]byte
	var k [32]byte
	k[0] = 1
	ks = append(ks, k)
	k[0] = 2
	ks = append(ks, k)
	k[0], k[31] = 0, 1
	ks = append(ks, k)
	for i := range k {
		k[i] = 0xff
	}
	ks = append(ks, k)
	k[31] = 0xfe
	ks = append(ks, k)
	return ks
}

type c31ResetCase struct {
	K1 int `json:"key1"`
	K2 int `json:"key2"`
	I  int `json:"cid1"`
	J  int `json:"cid2"`
}

func c31Reset(w *vx.W, x c31ResetCase) {
	cids, keys := c31ResetCIDs(), c31ResetKeys()
	var g1, g1b, g2 statelessResetTokenGenerator
	g1.init(keys[x.K1])
	g1b.init(keys[x.K1])
	g2.init(keys[x.K2])
	ci, cj := cids[x.I], cids[x.J]
	if !g1.canReset {
		w.Failf("C31/reset/nonzero-key-cannot-reset", "generator with non-zero key %d has canReset=false", x.K1)
		return
	}
	ti := g1.tokenForConnID(bytes.Clone(ci))
	tj := g1.tokenForConnID(bytes.Clone(cj))
	// deterministic: repeated, after other calls, and in a second generator with the same key
	if again := g1.tokenForConnID(bytes.Clone(ci)); again != ti {
		w.Failf("C31/reset/not-deterministic/repeated-call", "key %d: tokenForConnID(%x) = %x, then (after a call for %x) %x", x.K1, ci, ti, cj, again)
		return
	}
	if again := g1.tokenForConnID(bytes.Clone(cj)); again != tj {
		w.Failf("C31/reset/not-deterministic/repeated-call", "key %d: tokenForConnID(%x) = %x, later %x", x.K1, cj, tj, again)
		return
	}
	if fresh := g1b.tokenForConnID(bytes.Clone(cj)); fresh != tj {
		w.Failf("C31/reset/not-deterministic/second-generator-same-key", "key %d: tokenForConnID(%x) = %x in one generator, %x in a fresh one with the same key", x.K1, cj, tj, fresh)
		return
	}
	if ti == (statelessResetToken{}) {
		w.Failf("C31/reset/zero-token", "key %d: tokenForConnID(%x) is all zero", x.K1, ci)
		return
	}
	if x.I != x.J {
		if ti == tj {
			w.Failf("C31/reset/same-token-for-different-conn-ids", "key %d: connection IDs %x and %x both get %x", x.K1, ci, cj, ti)
			return
		}
		w.Outcome("reset: distinct per cid")
	} else {
		w.Outcome("reset: deterministic")
	}
	if x.K1 != x.K2 {
		if o := g2.tokenForConnID(bytes.Clone(ci)); o == ti {
			w.Failf("C31/reset/same-token-under-different-keys", "connection ID %x gets %x under keys %d and %d", ci, ti, x.K1, x.K2)
			return
		}
		w.Outcome("reset: distinct per key")
	}
	w.Nontrivial()
}

func TestVerif_C31(t *testing.T) {
	vx.Run(t, "C31", func(c *vx.Ctx) {
		c.Rule(fmt.Sprintf("retry: every issuing context = 2 independently initialised retryStates x %d client addresses x %d original source connection IDs (lengths 0,1,4,8,12,20; single-byte variants) x %d original destination connection IDs x issue time {whole second, +0.5s}; per case the token from the real makeToken is presented to the real validateToken (a) from the same context at t0, t0+1s, t0+period-1s, (b) at t0+period+{1ns,1s}, 2*period, 1h, 1y and at t0-(period+1s+1ns), t0-2*period, t0-1h, (c) from every other (address, source connection ID) of the tables, (d) under the other key, (e) with every token byte changed 4 ways, every truncation from either end, one byte appended/prepended, (f) with every retry-connection-ID byte changed 2 ways and 9 other lengths/values, (g) a second token against the first one's connection ID. reset: every ordered pair of %d connection IDs (all of length <= 2 over {00,01,02,7f,80,ff}; lengths 7,8,9,19,20 with single-byte variants) x every pair of %d keys. Non-trivial = the token was accepted in its own context first (retry) / all tokens computed and compared (reset).", len(c31Addrs), len(c31SrcCIDs), len(c31ODCIDs), len(c31ResetCIDs()), len(c31ResetKeys())))
		c.Assume("an accept/reject outcome never depends on the random AEAD nonce or the random keys (forgery / collision probability <= 2^-100 is treated as zero)")
		c.Assume("not asserted either way: presentation within one second of the end of the validity period (issue time is stored in whole seconds), presentation before the issue time by at most period+1s (the code deliberately tolerates a clock stepped backwards), 4-in-6 mapped vs plain IPv4 form of one address, zoned addresses")
		c.Assume("quick and thorough tiers are identical (the whole space takes seconds)")

		vx.Enumerate(c, "retry", vx.Opts{}, func(yield func(c31RetryCase) bool) {
			for _, frac := range []bool{false, true} {
				for k := 0; k < 2; k++ {
					for o := range c31ODCIDs {
						for s := range c31SrcCIDs {
							for a := range c31Addrs {
								if !yield(c31RetryCase{Key: k, Addr: a, Src: s, ODCID: o, T0Frac: frac}) {
									return
								}
							}
						}
					}
				}
			}
		}, c31Retry)

		nc, nk := len(c31ResetCIDs()), len(c31ResetKeys())
		for i, a := range c31ResetCIDs() {
			for j, b := range c31ResetCIDs() {
				if i != j && bytes.Equal(a, b) {
					t.Fatalf("harness: duplicate connection ID %x in the table", a)
				}
			}
		}
		vx.Enumerate(c, "reset", vx.Opts{}, func(yield func(c31ResetCase) bool) {
			for k1 := 0; k1 < nk; k1++ {
				for k2 := 0; k2 < nk; k2++ {
					for i := 0; i < nc; i++ {
						for j := 0; j < nc; j++ {
							if !yield(c31ResetCase{K1: k1, K2: k2, I: i, J: j}) {
								return
							}
						}
					}
				}
			}
		}, c31Reset)

		// The all-zero key: tokens are still generated (from a random secret)
		// but the endpoint must not send resets; recorded, not part of the property.
		var gz statelessResetTokenGenerator
		gz.init([32]byte{})
		c.Note("zero_key_canReset", gz.canReset)
	})
}
