package quic

import (
	"bytes"
	"fmt"
	"sync/atomic"
	"testing"

	"golang.org/x/net/internal/zzverif/vx"
)

// C23 — QUIC packet numbers decode to the number that was sent.
//
// Discipline IN (complete enumeration of stated finite sets, no sampling):
//
//   small    every -1 <= A < pn < P and every receiver state L in [0, LMAX]:
//            sender length / bytes, then decode under the chosen length and
//            under every length 1..4.
//   boundary for every length n, (A, pn) pairs on both sides of every
//            comparison (pn-A around 1 and around the half windows 2^7, 2^15,
//            2^23, 2^31; A around 0, 2^8 .. 2^40, 2^61, the top of the 62-bit
//            space) and L on both sides of every window edge.
//   sweep    receiver only: for a fixed length n and packet number pn, EVERY
//            L with L+1-pn in [-h, h) (the whole decoding window), split in
//            chunks; pn chosen on both sides of the win-aligned block edges.
//
// The oracle is the round trip itself (the expected result is pn); nothing of
// the code under test is used to compute expectations.

const c23Max = int64(1)<<62 - 1

func c23HalfWin(n int) int64 { return int64(1) << (8*uint(n) - 1) }

// c23RefTrunc: the low n bytes of pn.
func c23RefTrunc(pn int64, n int) int64 { return pn & (int64(1)<<(8*uint(n)) - 1) }

// c23Branch classifies (independently of the implementation) where the true pn
// lies relative to the naive candidate built from the receiver's expectation:
// the abstract situation used in signatures and outcomes.
func c23Branch(L, pn int64, n int) string {
	win := int64(1) << (8 * uint(n))
	exp := L + 1
	cand := (exp - exp%win) + c23RefTrunc(pn, n)
	switch pn - cand {
	case 0:
		return "same-block"
	case win:
		return "next-block"
	case -win:
		return "prev-block"
	}
	return "far"
}

// c23Decode checks one receiver state for one (pn, n). delta = L+1-pn.
// In the property's domain: -h < delta < h. delta == -h (pn == expected+h) is
// the tie that RFC 9000 A.3 resolves upwards; it is checked under its own
// clause. delta == h cannot be decoded by any algorithm and is not checked.
func c23Decode(w *vx.W, L, pn int64, n int, clause string) (checked bool) {
	h := c23HalfWin(n)
	delta := L + 1 - pn
	if delta < -h || delta >= h {
		return false
	}
	got := int64(decodePacketNumber(packetNumber(L), packetNumber(c23RefTrunc(pn, n)), n))
	if got != pn {
		br := c23Branch(L, pn, n)
		if delta == -h {
			w.Failf("C23/decode/rfc-a3-tie-upper-edge/"+br, "decodePacketNumber(largest=%d, truncated=%#x, len=%d) = %d, sent %d (pn == expected+2^%d: RFC 9000 A.3 selects the upper candidate)", L, c23RefTrunc(pn, n), n, got, pn, 8*n-1)
		} else {
			w.Failf("C23/decode/"+clause+"/"+br, "decodePacketNumber(largest=%d, truncated=%#x, len=%d) = %d, sent %d (L+1-pn = %d, half window %d)", L, c23RefTrunc(pn, n), n, got, pn, delta, h)
		}
	}
	return true
}

// c23Sender checks packetNumberLength / appendPacketNumber for (A, pn) and
// returns the chosen length (0 after a failure).
func c23Sender(w *vx.W, A, pn int64) int {
	n := packetNumberLength(packetNumber(pn), packetNumber(A))
	if n < 1 || n > 4 {
		w.Failf("C23/length/out-of-range", "packetNumberLength(pn=%d, largestAck=%d) = %d", pn, A, n)
		return 0
	}
	// pn - A < 2^31 is the sender's precondition for 4 bytes to suffice at all.
	if d := pn - A; d >= c23HalfWin(n) {
		w.Failf(fmt.Sprintf("C23/length/distance-not-below-half-window/n=%d", n), "packetNumberLength(pn=%d, largestAck=%d) = %d but pn-largestAck = %d >= 2^%d", pn, A, n, d, 8*n-1)
		return 0
	}
	prefix := []byte{0xa5, 0x5a}
	out := appendPacketNumber(append(make([]byte, 0, 2), prefix...), packetNumber(pn), packetNumber(A))
	if len(out) < 2 || !bytes.Equal(out[:2], prefix) {
		w.Failf("C23/append/clobbers-prefix", "appendPacketNumber(%x, pn=%d, largestAck=%d) = %x", prefix, pn, A, out)
		return 0
	}
	enc := out[2:]
	if len(enc) != n {
		w.Failf("C23/append/length-differs-from-packetNumberLength", "appendPacketNumber(pn=%d, largestAck=%d) wrote %d bytes, packetNumberLength says %d", pn, A, len(enc), n)
		return 0
	}
	var v int64
	for _, b := range enc {
		v = v<<8 | int64(b)
	}
	if v != c23RefTrunc(pn, n) {
		w.Failf(fmt.Sprintf("C23/append/not-low-bytes/n=%d", n), "appendPacketNumber(pn=%#x, largestAck=%#x) = %x, want the low %d bytes %#x big-endian", pn, A, enc, n, c23RefTrunc(pn, n))
		return 0
	}
	return n
}

// c23Triple: full check of sender (A, pn) against receiver state L.
func c23Triple(w *vx.W, A, pn int64, nSend int, L int64) (checked int) {
	if L < 0 || L > c23Max {
		return 0
	}
	// Main clause: the receiver has seen at least what the sender knows was
	// acknowledged, and not yet this packet.
	if A <= L && L < pn {
		got := int64(decodePacketNumber(packetNumber(L), packetNumber(c23RefTrunc(pn, nSend)), nSend))
		if got != pn {
			w.Failf("C23/decode/sender-domain/"+c23Branch(L, pn, nSend), "A=%d <= L=%d < pn=%d, length %d chosen for A: decodePacketNumber(%d, %#x, %d) = %d", A, L, pn, nSend, L, c23RefTrunc(pn, nSend), nSend, got)
			return 0
		}
		checked++
	}
	// Window clause, for every encoding length (a sender may use more bytes
	// than the minimum).
	for n := 1; n <= 4; n++ {
		if c23Decode(w, L, pn, n, "in-window") {
			checked++
		}
		if w.Failed() {
			return 0
		}
	}
	return checked
}

type c23Pair struct {
	A  int64   `json:"largest_acked"`
	PN int64   `json:"pn"`
	Ls []int64 `json:"receiver_largest,omitempty"` // nil: every L in [0, LMax]
}

type c23Sweep struct {
	N   int   `json:"len"`
	PN  int64 `json:"pn"`
	DLo int64 `json:"delta_lo"` // delta = L+1-pn, inclusive range
	DHi int64 `json:"delta_hi"`
}

func TestVerif_C23(t *testing.T) {
	vx.Run(t, "C23", func(c *vx.Ctx) {
		P := int64(vx.Pick(c, 400, 900))
		LMax := int64(vx.Pick(c, 700, 1500))
		c.Rule(fmt.Sprintf("small: every -1 <= A < pn < %d (A = -1: nothing acknowledged) x every receiver largest L in [0,%d]; boundary: for n in 1..4, A in base+{-1,0,1} for bases {0,2^8,2^16,2^24,2^32,2^40,2^61,2^62-2^33, top of the space}, pn-A in {1,2,h-2,h-1,h,h+1} for every half window h in {2^7,2^15,2^23,2^31} (kept when < 2^31), L in {A,A+1,pn-1,pn} and pn-1+d for d in {-h,-h+1,-h+2,-1,0,1,h-2,h-1} for every h; sweep: for a length n and pn on both sides of win-aligned block edges, every L with L+1-pn in [-h,h) (quick: complete for n<=3 and 2^17 values at each edge and around 0 for n=4; thorough: complete for n=4 too). wire: a real protected packet per case, built by the real packetWriter (short header: start/finish1RTTPacket; long header: start/finishProtectedLongHeaderPacket for Initial with the real Initial keys, Handshake and 0-RTT) for packet number pn with the sender's largest acked A, parsed by parse1RTTPacket / parseLongHeaderPacket with pnumMax = largestSeen() of a real ackState that received L; for every length n in 1..4: pn-A in {smallest, largest distance selecting n}, A = -1, A = 0 and pn = k*2^(8n)+r for k in {1,3,last block of the 62-bit space} (thorough: {1,2,3,2^20,last-1,last}), r in {0,1,h-1,h,2^(8n)-1} (thorough: also 2,h-2,h+1,2^(8n)-2); L in {A, A+1} and pn-L, L-pn in {0,1,h'-2,h'-1,h',h'+1} for every half window h' in {2^7,2^15,2^23,2^31}; x header protection / AEAD suites {AES128, AES256, CHACHA20} for 1-RTT and Handshake (0-RTT: AES128, thorough all three). Non-trivial = a case in which at least one decode in the property's domain was executed and compared with the sent number.", P, LMax))
		c.Assume("the sender's precondition pn - largestAck < 2^31 (no encoding of <= 4 bytes can satisfy the property otherwise) and 0 <= pn, L <= 2^62-1, -1 <= A < pn")
		c.Assume("receiver domain: A <= L < pn under the length chosen for A, and -h < L+1-pn < h for every length; the tie pn == L+1+h is checked against RFC 9000 A.3 (which decodes it to the upper candidate) under its own clause; pn == L+1-h is undecodable and not checked; results for L outside the window are not checked")
		c.Assume("wire part: one packet per datagram, 8-byte destination connection id, fixed secrets, no key update in progress (both ends in key phase 0), the receiver state is an ackState that received exactly packet L; a packet the receive path drops in the property's domain counts as a wrong decode (a wrongly reconstructed number fails AEAD authentication); the Conn-level call sites in conn_recv.go / conn_send.go are not executed")

		var decodes atomic.Int64 // reporting only
		defer func() { c.Note("in_domain_decodes_compared", decodes.Load()) }()
		check := func(w *vx.W, x c23Pair) {
			n := c23Sender(w, x.A, x.PN)
			if n == 0 {
				return
			}
			checked := 0
			if x.Ls == nil {
				for L := int64(0); L <= LMax; L++ {
					checked += c23Triple(w, x.A, x.PN, n, L)
					if w.Failed() {
						return
					}
				}
			} else {
				for _, L := range x.Ls {
					checked += c23Triple(w, x.A, x.PN, n, L)
					if w.Failed() {
						return
					}
				}
			}
			if checked > 0 {
				w.Nontrivial()
			}
			decodes.Add(int64(checked))
			w.Outcome(fmt.Sprintf("chosen-len=%d", n))
		}

		vx.Enumerate(c, "small", vx.Opts{}, func(yield func(c23Pair) bool) {
			for pn := int64(0); pn < P; pn++ {
				for A := int64(-1); A < pn; A++ {
					if !yield(c23Pair{A: A, PN: pn}) {
						return
					}
				}
			}
		}, check)

		hs := []int64{c23HalfWin(1), c23HalfWin(2), c23HalfWin(3), c23HalfWin(4)}
		vx.Enumerate(c, "boundary", vx.Opts{}, func(yield func(c23Pair) bool) {
			bases := []int64{0, 1 << 8, 1 << 16, 1 << 24, 1 << 32, 1 << 40, 1 << 61, 1<<62 - 1<<33,
				c23Max - 1<<31, c23Max - 1<<23, c23Max - 1<<15, c23Max - 1<<7, c23Max - 2}
			seen := map[[2]int64]bool{}
			for _, b := range bases {
				for _, da := range []int64{-1, 0, 1} {
					A := b + da
					for _, h := range hs {
						for _, d := range []int64{1, 2, h - 2, h - 1, h, h + 1} {
							pn := A + d
							if d < 1 || d >= 1<<31 || A < -1 || pn > c23Max || seen[[2]int64{A, pn}] {
								continue
							}
							seen[[2]int64{A, pn}] = true
							ls := []int64{A, A + 1, pn - 1, pn}
							for _, h2 := range hs {
								for _, dd := range []int64{-h2, -h2 + 1, -h2 + 2, -1, 0, 1, h2 - 2, h2 - 1} {
									ls = append(ls, pn-1+dd)
								}
							}
							if !yield(c23Pair{A: A, PN: pn, Ls: ls}) {
								return
							}
						}
					}
				}
			}
		}, check)

		vx.Enumerate(c, "sweep", vx.Opts{}, func(yield func(c23Sweep) bool) {
			const chunk = int64(1) << 18
			for n := 1; n <= 4; n++ {
				h := c23HalfWin(n)
				win := 2 * h
				var pns []int64
				for _, k := range []int64{0, 1, 2, 3, (c23Max+1)/win - 2, (c23Max+1)/win - 1} {
					for _, r := range []int64{0, 1, h - 1, h, h + 1, win - 1} {
						pns = append(pns, k*win+r)
					}
				}
				if n == 4 {
					// 2^32 receiver states per pn: fewer pn.
					pns = []int64{0, h - 1, win - 1, win, 3*win + h, c23Max - h, c23Max}
					if c.Quick() {
						pns = []int64{h - 1, win, c23Max}
					}
				}
				for _, pn := range pns {
					type rg struct{ lo, hi int64 }
					rgs := []rg{{-h, h - 1}}
					if n == 4 && c.Quick() {
						rgs = []rg{{-h, -h + 1<<17}, {-1 << 16, 1 << 16}, {h - 1<<17, h - 1}}
					}
					for _, r := range rgs {
						for lo := r.lo; lo <= r.hi; lo += chunk {
							hi := min(lo+chunk-1, r.hi)
							// skip chunks with no valid L at all
							if pn-1+hi < 0 || pn-1+lo > c23Max {
								continue
							}
							if !yield(c23Sweep{N: n, PN: pn, DLo: lo, DHi: hi}) {
								return
							}
						}
					}
				}
			}
		}, func(w *vx.W, x c23Sweep) {
			checked := 0
			br := map[string]bool{}
			for d := x.DLo; d <= x.DHi; d++ {
				L := x.PN - 1 + d
				if L < 0 || L > c23Max {
					continue
				}
				if c23Decode(w, L, x.PN, x.N, "in-window") {
					checked++
				}
				if w.Failed() {
					return
				}
				if d == x.DLo || d == x.DHi || d == 0 {
					br[c23Branch(L, x.PN, x.N)] = true
				}
			}
			if checked > 0 {
				w.Nontrivial()
			}
			decodes.Add(int64(checked))
			for k := range br {
				w.Outcome(fmt.Sprintf("decode len=%d %s", x.N, k))
			}
		})

		// wire: the same round trip through the real packet writer, packet
		// protection and receive path (c23_wire_test.go).
		c23WirePart(c, &decodes)
	})
}
