package quic

import (
	"bytes"
	"crypto/tls"
	"encoding/binary"
	"fmt"
	"net/netip"
	"reflect"
	"time"

	"golang.org/x/net/internal/zzverif/vx"
)

// ---------------------------------------------------------------- packets

type c28P struct {
	Type    string `json:"type"` // initial | initial+token | handshake | 0rtt | 1rtt
	DCID    int    `json:"dcid_len"`
	SCID    int    `json:"scid_len"`
	PNLen   int    `json:"pnum_len"`
	Payload int    `json:"payload_len"`
	Suite   uint16 `json:"suite"`
	Phase   bool   `json:"key_phase"`
	Trail   bool   `json:"followed_by_other_bytes"`
}

// c28Nums returns a packet number and a largest-acknowledged number for which
// the sender must use an n-byte packet number encoding.
func c28Nums(n int) (pnum, maxAcked packetNumber) {
	switch n {
	case 1:
		return 0x15, 0
	case 2:
		return 0x1234, 0x1000
	case 3:
		return 0x123456, 0x100000
	}
	return 0x12345678, 0x10000000
}

func c28CheckPacket(w *vx.W, x c28P) {
	const id = "C28/packet/"
	pnum, maxAcked := c28Nums(x.PNLen)
	payload := c28Data(x.Payload, 0x77)
	for i := range payload {
		if payload[i] == 0 {
			payload[i] = 0x5a // keep the payload distinguishable from padding
		}
	}
	wantPayload := append([]byte(nil), payload...)
	for len(wantPayload)+x.PNLen < 4 {
		wantPayload = append(wantPayload, 0) // padded for header protection sampling (RFC 9001 §5.4.2)
	}
	dcid := c28Data(x.DCID, 0xa0)
	scid := c28Data(x.SCID, 0xb0)
	secret := []byte("c28 packet protection secret")
	var pkt []byte
	var parse func(in []byte) (ok bool, desc string, n int)
	var pw packetWriter
	pw.reset(1500)
	if x.Type == "1rtt" {
		var k updatingKeyPair
		k.r.init(x.Suite, secret)
		k.w = k.r
		k.updateAfter = maxPacketNumber
		if x.Phase {
			k.phase = keyPhaseBit
		}
		pw.start1RTTPacket(pnum, maxAcked, dcid)
		pw.b = append(pw.b, payload...)
		sent := pw.finish1RTTPacket(pnum, maxAcked, dcid, &k)
		pkt = append([]byte(nil), pw.datagram()...)
		if sent == nil || sent.size != len(pkt) || sent.num != pnum {
			w.Failf(id+"sent-record-wrong", "%+v: finish1RTTPacket returned %+v for a %d-byte packet number %d", x, sent, len(pkt), pnum)
			return
		}
		if pkt[0]&0x80 != 0 || pkt[0]&0x40 == 0 || !bytes.Equal(pkt[1:1+len(dcid)], dcid) {
			w.Failf(id+"short-header-clear-fields-wrong", "%+v: first byte %02x, destination connection ID %x, want short form with fixed bit and %x", x, pkt[0], pkt[1:1+len(dcid)], dcid)
			return
		}
		var rk updatingKeyPair // a separate receiver; failed packets do not change its keys
		rk.r.init(x.Suite, secret)
		rk.w = rk.r
		rk.updateAfter = maxPacketNumber
		if x.Phase {
			rk.phase = keyPhaseBit
		}
		parse = func(in []byte) (bool, string, int) {
			p, err := parse1RTTPacket(in, &rk, len(dcid), maxAcked)
			if err != nil {
				return false, err.Error(), -1
			}
			if p.num != pnum || !bytes.Equal(p.payload, wantPayload) {
				return false, fmt.Sprintf("num=%d payload=%x", p.num, p.payload), len(in)
			}
			if rk.updating {
				return false, "receiver believes the peer initiated a key update", len(in)
			}
			return true, "", len(in)
		}
	} else {
		var k fixedKeys
		k.init(x.Suite, secret)
		lp := longPacket{version: quicVersion1, num: pnum, dstConnID: dcid, srcConnID: scid}
		switch x.Type {
		case "initial":
			lp.ptype = packetTypeInitial
		case "initial+token":
			lp.ptype = packetTypeInitial
			lp.extra = c28Data(70, 0xc0)
		case "handshake":
			lp.ptype = packetTypeHandshake
		case "0rtt":
			lp.ptype = packetType0RTT
		}
		pw.startProtectedLongHeaderPacket(maxAcked, lp)
		pw.b = append(pw.b, payload...)
		sent := pw.finishProtectedLongHeaderPacket(maxAcked, k, lp)
		pkt = append([]byte(nil), pw.datagram()...)
		if sent == nil || sent.size != len(pkt) || sent.num != pnum || sent.ptype != lp.ptype {
			w.Failf(id+"sent-record-wrong", "%+v: finishProtectedLongHeaderPacket returned %+v for a %d-byte packet number %d", x, sent, len(pkt), pnum)
			return
		}
		// clear header fields, read independently of the parser
		h := pkt
		okHdr := len(h) > 7+len(dcid)+len(scid) && h[0]&0xc0 == 0xc0 && binary.BigEndian.Uint32(h[1:]) == quicVersion1 &&
			int(h[5]) == len(dcid) && bytes.Equal(h[6:6+len(dcid)], dcid) &&
			int(h[6+len(dcid)]) == len(scid) && bytes.Equal(h[7+len(dcid):7+len(dcid)+len(scid)], scid)
		wantType := map[packetType]byte{packetTypeInitial: 0, packetType0RTT: 1, packetTypeHandshake: 2}[lp.ptype]
		if !okHdr || (h[0]>>4)&3 != wantType {
			w.Failf(id+"long-header-clear-fields-wrong", "%+v: header %x", x, h[:min(len(h), 60)])
			return
		}
		var rk fixedKeys
		rk.init(x.Suite, secret)
		parse = func(in []byte) (bool, string, int) {
			p, n := parseLongHeaderPacket(in, rk, maxAcked)
			if n < 0 {
				return false, "n=-1", n
			}
			want := lp
			want.payload = wantPayload
			if len(p.extra) == 0 {
				p.extra = nil
			}
			if len(p.dstConnID) == 0 {
				p.dstConnID = nil
			}
			if len(p.srcConnID) == 0 {
				p.srcConnID = nil
			}
			if len(want.dstConnID) == 0 {
				want.dstConnID = nil
			}
			if len(want.srcConnID) == 0 {
				want.srcConnID = nil
			}
			if !reflect.DeepEqual(p, want) {
				return false, fmt.Sprintf("%+v", p), n
			}
			return true, "", n
		}
	}
	in := pkt
	if x.Trail {
		in = append(append([]byte(nil), pkt...), 0x40, 0x01, 0x02, 0x03)
		if x.Type == "1rtt" {
			in = pkt // a short header packet extends to the end of the datagram
		}
	}
	ok, desc, n := parse(c28Exact(in))
	if !ok || n != len(pkt) {
		w.Failf(id+"round-trip:"+x.Type, "%+v: protected packet %x does not parse back: %s (n=%d, packet is %d bytes); want num=%d payload=%x", x, pkt[:min(len(pkt), 80)], desc, n, len(pkt), pnum, wantPayload)
		return
	}
	if n2 := skipLongHeaderPacket(c28Exact(in)); x.Type != "1rtt" && n2 != len(pkt) {
		w.Failf(id+"skip-length-differs", "%+v: skipLongHeaderPacket=%d, packet is %d bytes", x, n2, len(pkt))
		return
	}
	// corruption: every bit of the packet (for the 1150-byte payload: of the header, the first 24 payload bytes and the tag)
	hdrLen := len(pkt) - len(wantPayload) - 16
	for i := 0; i < len(pkt); i++ {
		if len(pkt) > 400 && i > hdrLen+24 && i < len(pkt)-17 {
			continue
		}
		for bit := 0; bit < 8; bit++ {
			m := c28Exact(in)
			m[i] ^= 1 << uint(bit)
			if ok, _, _ := parse(m); ok {
				w.Failf(id+"corrupted-packet-accepted:"+x.Type, "%+v: bit %d of byte %d flipped (header is %d bytes) and the packet still parses to the original content", x, bit, i, hdrLen)
				return
			}
		}
	}
	// truncation: never accepted, never a panic
	for i := 0; i < len(pkt); i++ {
		if len(pkt) > 400 && i > hdrLen+24 && i < len(pkt)-17 {
			continue
		}
		if ok, _, _ := parse(c28Exact(pkt[:i])); ok {
			w.Failf(id+"truncated-packet-accepted:"+x.Type, "%+v: packet truncated to %d of %d bytes still parses", x, i, len(pkt))
			return
		}
	}
	w.Nontrivial()
	w.Outcome(fmt.Sprintf("%s pnlen=%d", x.Type, x.PNLen))
}

func c28Packets(c *vx.Ctx) {
	c.Rule("part packets: Initial (with and without a 70-byte token), Handshake, 0-RTT and 1-RTT packets x destination connection-ID lengths {0,1,8,20} x (long headers) source connection-ID lengths {0,1,8,20} x packet-number encodings of 1..4 bytes x payload sizes {1,2,3,4,100,1150} (the small ones need padding for header-protection sampling) x AES-128-GCM / AES-256-GCM / ChaCha20-Poly1305 x (1-RTT) key phase 0/1 x followed by other bytes or not: written by packetWriter.start*/finish*, the clear header fields are read independently, the packet is parsed back with fresh keys (parseLongHeaderPacket / parse1RTTPacket) to the same type, version, connection IDs, token, number, payload (+ required padding) and length; every single-bit flip (all bits; for 1150-byte payloads header, first 24 payload bytes and tag) and every truncation must be refused. Non-trivial = the packet parsed back and all corruptions were tried.")
	vx.Enumerate(c, "packets", vx.Opts{}, func(yield func(c28P) bool) {
		suites := []uint16{tls.TLS_AES_128_GCM_SHA256, tls.TLS_AES_256_GCM_SHA384, tls.TLS_CHACHA20_POLY1305_SHA256}
		for _, typ := range []string{"initial", "initial+token", "handshake", "0rtt", "1rtt"} {
			for _, dc := range []int{0, 1, 8, 20} {
				for _, sc := range []int{0, 1, 8, 20} {
					if typ == "1rtt" && sc != 0 {
						continue
					}
					for pn := 1; pn <= 4; pn++ {
						for _, pl := range []int{1, 2, 3, 4, 100, 1150} {
							for si, su := range suites {
								if c.Quick() && (pl == 1150 || pl == 2) && (si != 0 || sc == 1 || dc == 1) {
									continue
								}
								for _, ph := range []bool{false, true} {
									if ph && typ != "1rtt" {
										continue
									}
									for _, tr := range []bool{false, true} {
										if tr && (typ == "1rtt" || (c.Quick() && pl > 4)) {
											continue
										}
										if !yield(c28P{typ, dc, sc, pn, pl, su, ph, tr}) {
											return
										}
									}
								}
							}
						}
					}
				}
			}
		}
	}, c28CheckPacket)
}

// ---------------------------------------------------------------- transport parameters

type c28T struct {
	Mode  string `json:"mode"`            // field: one typed field set, marshal->unmarshal; raw: one raw parameter (id, value bytes)
	Field string `json:"field,omitempty"` // field mode
	V     uint64 `json:"v,omitempty"`     // field mode: numeric value / length
	ID    uint64 `json:"id,omitempty"`    // raw mode
	Val   []byte `json:"val,omitempty"`   // raw mode: parameter value bytes
	Want  string `json:"want,omitempty"`  // raw mode: accept | reject
	Also  bool   `json:"with_other_fields,omitempty"`
}

func c28Full() transportParameters {
	p := defaultTransportParameters()
	p.originalDstConnID = c28Data(8, 1)
	p.maxIdleTimeout = 30 * time.Second
	p.statelessResetToken = c28Data(16, 2)
	p.maxUDPPayloadSize = 1472
	p.initialMaxData = 1 << 20
	p.initialMaxStreamDataBidiLocal = 1 << 16
	p.initialMaxStreamDataBidiRemote = 1 << 17
	p.initialMaxStreamDataUni = 1 << 18
	p.initialMaxStreamsBidi = 100
	p.initialMaxStreamsUni = 101
	p.ackDelayExponent = 5
	p.maxAckDelay = 40 * time.Millisecond
	p.disableActiveMigration = true
	p.preferredAddrV4 = netip.MustParseAddrPort("192.0.2.1:4433")
	p.preferredAddrV6 = netip.MustParseAddrPort("[2001:db8::1]:4434")
	p.preferredAddrConnID = c28Data(8, 3)
	p.preferredAddrResetToken = c28Data(16, 4)
	p.activeConnIDLimit = 4
	p.initialSrcConnID = c28Data(8, 5)
	p.retrySrcConnID = c28Data(8, 6)
	return p
}

func c28SetField(p *transportParameters, field string, v uint64) {
	switch field {
	case "original_destination_connection_id":
		p.originalDstConnID = c28Data(int(v), 0x10)
	case "max_idle_timeout":
		p.maxIdleTimeout = time.Duration(v) * time.Millisecond
	case "stateless_reset_token":
		p.statelessResetToken = c28Data(16, byte(v))
	case "max_udp_payload_size":
		p.maxUDPPayloadSize = int64(v)
	case "initial_max_data":
		p.initialMaxData = int64(v)
	case "initial_max_stream_data_bidi_local":
		p.initialMaxStreamDataBidiLocal = int64(v)
	case "initial_max_stream_data_bidi_remote":
		p.initialMaxStreamDataBidiRemote = int64(v)
	case "initial_max_stream_data_uni":
		p.initialMaxStreamDataUni = int64(v)
	case "initial_max_streams_bidi":
		p.initialMaxStreamsBidi = int64(v)
	case "initial_max_streams_uni":
		p.initialMaxStreamsUni = int64(v)
	case "ack_delay_exponent":
		p.ackDelayExponent = int8(v)
	case "max_ack_delay":
		p.maxAckDelay = time.Duration(v) * time.Millisecond
	case "disable_active_migration":
		p.disableActiveMigration = v != 0
	case "preferred_address":
		p.preferredAddrV4 = netip.MustParseAddrPort("198.51.100.7:443")
		p.preferredAddrV6 = netip.MustParseAddrPort("[2001:db8::7]:8443")
		p.preferredAddrConnID = c28Data(int(v), 0x20)
		p.preferredAddrResetToken = c28Data(16, 0x30)
	case "active_connection_id_limit":
		p.activeConnIDLimit = int64(v)
	case "initial_source_connection_id":
		p.initialSrcConnID = c28Data(int(v), 0x40)
	case "retry_source_connection_id":
		p.retrySrcConnID = c28Data(int(v), 0x50)
	default:
		panic("c28: unknown field " + field)
	}
}

func c28NormTP(p transportParameters) transportParameters {
	e := func(b []byte) []byte {
		if b == nil {
			return nil
		}
		return append([]byte{}, b...)
	}
	p.originalDstConnID, p.statelessResetToken = e(p.originalDstConnID), e(p.statelessResetToken)
	p.preferredAddrConnID, p.preferredAddrResetToken = e(p.preferredAddrConnID), e(p.preferredAddrResetToken)
	p.initialSrcConnID, p.retrySrcConnID = e(p.initialSrcConnID), e(p.retrySrcConnID)
	return p
}

func c28CheckTP(w *vx.W, x c28T) {
	const id = "C28/tparams/"
	if x.Mode == "field" {
		p := defaultTransportParameters()
		if x.Also {
			p = c28Full()
		}
		c28SetField(&p, x.Field, x.V)
		enc := marshalTransportParameters(p)
		got, err := unmarshalTransportParams(c28Exact(enc))
		if err != nil {
			w.Failf(id+"valid-value-refused:"+x.Field, "%+v: marshal gave %x, unmarshal failed: %v", x, enc, err)
			return
		}
		if !reflect.DeepEqual(c28NormTP(got), c28NormTP(p)) {
			w.Failf(id+"round-trip-changed:"+x.Field, "%+v: marshalled %x\n got %+v\nwant %+v", x, enc, got, p)
			return
		}
		// every truncation and single-byte corruption: no panic (results are not judged)
		for i := 0; i <= len(enc); i++ {
			unmarshalTransportParams(c28Exact(enc[:i]))
		}
		for i := range enc {
			for _, v := range [3]byte{0, 0xff, enc[i] + 1} {
				m := c28Exact(enc)
				m[i] = v
				unmarshalTransportParams(m)
			}
		}
		w.Nontrivial()
		w.Outcome("round trip")
		return
	}
	// raw: a single parameter, optionally after a full valid set of the other parameters
	var enc []byte
	if x.Also {
		// a valid unrelated parameter before and after
		enc = append(c28V(c28V(enc, paramInitialMaxData), 1), 0x07)
	}
	enc = c28V(enc, x.ID)
	enc = c28V(enc, uint64(len(x.Val)))
	enc = append(enc, x.Val...)
	if x.Also {
		enc = append(c28V(c28V(enc, paramInitialMaxStreamDataUni), 1), 0x09)
	}
	_, err := unmarshalTransportParams(c28Exact(enc))
	switch x.Want {
	case "reject":
		if err == nil {
			w.Failf(id+"out-of-range-accepted:"+x.Field, "%+v: parameters %x were accepted", x, enc)
			return
		}
		if te, ok := err.(localTransportError); !ok || te.code != errTransportParameter {
			w.Failf(id+"wrong-error:"+x.Field, "%+v: parameters %x refused with %v, want TRANSPORT_PARAMETER_ERROR", x, enc, err)
			return
		}
		w.Outcome("refused")
	case "accept":
		if err != nil {
			w.Failf(id+"valid-value-refused:"+x.Field, "%+v: parameters %x refused: %v", x, enc, err)
			return
		}
		w.Outcome("accepted")
	}
	w.Nontrivial()
}

func c28TParams(c *vx.Ctx) {
	c.Rule("part tparams: (field) every transport parameter set to each of its boundary values (numeric: 0/1/63/64/16383/16384/2^30/2^62-1 within the parameter's valid range, and min/max of the range; connection IDs of length 0/1/8/20; flags), alone on top of the defaults and on top of a full set of other parameters: marshal -> unmarshal returns the identical struct; every truncation and byte corruption of the marshalled form is parsed without panic. (raw) single hand-encoded parameters, alone and between two valid parameters: max_udp_payload_size {0,1199}->reject {1200,65527,2^62-1}->accept; ack_delay_exponent {21,255,2^62-1}->reject {0,20}->accept; max_ack_delay {2^14,2^14+1,2^62-1}->reject {0,2^14-1}->accept; initial_max_streams_bidi/uni {2^60+1,2^62-1}->reject {0,2^60}->accept; active_connection_id_limit {0,1}->reject {2,2^62-1}->accept; stateless_reset_token of 0/15/17 bytes->reject, 16->accept; disable_active_migration with a value->reject; preferred_address truncated->reject; numeric parameters with an empty value, a truncated varint or trailing bytes->reject; unknown parameter ids->accept.")
	vx.Enumerate(c, "tparams", vx.Opts{}, func(yield func(c28T) bool) {
		all := []uint64{0, 1, 63, 64, 16383, 16384, 1 << 30, 1<<62 - 1}
		in := func(lo, hi uint64) (out []uint64) {
			out = append(out, lo, hi)
			for _, v := range all {
				if v > lo && v < hi {
					out = append(out, v)
				}
			}
			return out
		}
		fields := []struct {
			name string
			vals []uint64
		}{
			{"original_destination_connection_id", []uint64{0, 1, 8, 20}},
			{"max_idle_timeout", in(0, 1<<32)},
			{"stateless_reset_token", []uint64{0, 255}},
			{"max_udp_payload_size", append(in(1200, 1<<62-1), 65527, 65526, 65528)},
			{"initial_max_data", all},
			{"initial_max_stream_data_bidi_local", all},
			{"initial_max_stream_data_bidi_remote", all},
			{"initial_max_stream_data_uni", all},
			{"initial_max_streams_bidi", in(0, 1<<60)},
			{"initial_max_streams_uni", in(0, 1<<60)},
			{"ack_delay_exponent", []uint64{0, 1, 2, 3, 4, 19, 20}},
			{"max_ack_delay", append(in(0, 1<<14-1), 24, 25, 26)},
			{"disable_active_migration", []uint64{0, 1}},
			{"preferred_address", []uint64{0, 1, 8, 20}},
			{"active_connection_id_limit", append(in(2, 1<<62-1), 3)},
			{"initial_source_connection_id", []uint64{0, 1, 8, 20}},
			{"retry_source_connection_id", []uint64{0, 1, 8, 20}},
		}
		for _, also := range []bool{false, true} {
			for _, f := range fields {
				for _, v := range f.vals {
					if !yield(c28T{Mode: "field", Field: f.name, V: v, Also: also}) {
						return
					}
				}
			}
			raw := func(name string, id uint64, val []byte, want string) bool {
				return yield(c28T{Mode: "raw", Field: name, ID: id, Val: val, Want: want, Also: also})
			}
			num := func(name string, id uint64, rej, acc []uint64) bool {
				for _, v := range rej {
					if !raw(name, id, c28V(nil, v), "reject") {
						return false
					}
				}
				for _, v := range acc {
					if !raw(name, id, c28V(nil, v), "accept") {
						return false
					}
				}
				// malformed values
				return raw(name, id, nil, "reject") && raw(name, id, []byte{0x40}, "reject") && raw(name, id, append(c28V(nil, acc[0]), 0x00), "reject")
			}
			ok := num("max_udp_payload_size", paramMaxUDPPayloadSize, []uint64{0, 1199}, []uint64{1200, 65527, 1<<62 - 1}) &&
				num("ack_delay_exponent", paramAckDelayExponent, []uint64{21, 255, 1<<62 - 1}, []uint64{0, 20}) &&
				num("max_ack_delay", paramMaxAckDelay, []uint64{1 << 14, 1<<14 + 1, 1<<62 - 1}, []uint64{0, 1<<14 - 1}) &&
				num("initial_max_streams_bidi", paramInitialMaxStreamsBidi, []uint64{1<<60 + 1, 1<<62 - 1}, []uint64{0, 1 << 60}) &&
				num("initial_max_streams_uni", paramInitialMaxStreamsUni, []uint64{1<<60 + 1, 1<<62 - 1}, []uint64{0, 1 << 60}) &&
				num("active_connection_id_limit", paramActiveConnectionIDLimit, []uint64{0, 1}, []uint64{2, 1<<62 - 1}) &&
				num("initial_max_data", paramInitialMaxData, nil, []uint64{0, 1<<62 - 1}) &&
				num("max_idle_timeout", paramMaxIdleTimeout, nil, []uint64{0, 1<<62 - 1})
			if !ok {
				return
			}
			for _, n := range []int{0, 15, 17} {
				if !raw("stateless_reset_token", paramStatelessResetToken, c28Data(n, 9), "reject") {
					return
				}
			}
			pa := append(append(append([]byte{192, 0, 2, 1, 0x11, 0x51}, c28Data(16, 7)...), 0x11, 0x52, 8), c28Data(8+16, 8)...)
			if !raw("stateless_reset_token", paramStatelessResetToken, c28Data(16, 9), "accept") ||
				!raw("disable_active_migration", paramDisableActiveMigration, nil, "accept") ||
				!raw("disable_active_migration", paramDisableActiveMigration, []byte{0}, "reject") ||
				!raw("preferred_address", paramPreferredAddress, pa, "accept") ||
				!raw("unknown-parameter", 0x3f, []byte{1, 2, 3}, "accept") ||
				!raw("unknown-parameter", 0x1b66, nil, "accept") {
				return
			}
			for i := 0; i < len(pa); i++ {
				if !raw("preferred_address", paramPreferredAddress, pa[:i], "reject") {
					return
				}
			}
			if !raw("preferred_address", paramPreferredAddress, append(append([]byte(nil), pa...), 0), "reject") {
				return
			}
		}
	}, c28CheckTP)
}
