package quic

import (
	"encoding/json"
	"os"
	"testing"
)

// TestC19Debug runs one case given as JSON in $C19_CASE and prints its
// network trace (a development aid; skipped otherwise).
func TestC19Debug(t *testing.T) {
	s := os.Getenv("C19_CASE")
	if s == "" {
		t.Skip("C19_CASE not set")
	}
	var cs c19Case
	if err := json.Unmarshal([]byte(s), &cs); err != nil {
		t.Fatal(err)
	}
	var lines []string
	var dbg func(string)
	if os.Getenv("C19_QLOG") != "" {
		dbg = func(s string) { lines = append(lines, s) }
	}
	r := c19ExecDbg(t, cs, dbg)
	for _, l := range lines {
		t.Log(l)
	}
	for _, e := range r.trace {
		t.Logf("idx=%d dir=%d size=%d %s", e.Idx, e.Dir, e.Size, e.Act)
	}
	t.Logf("end=%s datagrams=%d applied=%d fake=%v closeOK=%d closeErr=%d", r.end, r.ndgrams, r.applied, r.elapsed, r.closeOK, r.closeNZ)
	for _, f := range r.fails {
		t.Logf("FAIL %s: %s", f.sig, f.what)
	}
}

// TestC19DebugN prints the datagram count of the default run of every quick
// scenario, several times (development aid; needs C19_N=1).
func TestC19DebugN(t *testing.T) {
	if os.Getenv("C19_N") == "" {
		t.Skip("C19_N not set")
	}
	scs := c19QuickScenariosForDebug()
	for _, sc := range scs {
		var ns []int
		for i := 0; i < 6; i++ {
			ns = append(ns, c19Exec(t, c19Case{Scn: sc}).ndgrams)
		}
		t.Logf("%+v: %v", sc, ns)
	}
}

// TestC19Search enumerates every placement of exactly $C19_K deviations from
// the multi-deviation kinds over one scenario ($C19_SEARCH, JSON) and prints
// the failing cases (development aid).
func TestC19Search(t *testing.T) {
	s := os.Getenv("C19_SEARCH")
	if s == "" {
		t.Skip("C19_SEARCH not set")
	}
	var sc c19Scn
	if err := json.Unmarshal([]byte(s), &sc); err != nil {
		t.Fatal(err)
	}
	k := 2
	if os.Getenv("C19_K") == "1" {
		k = 1
	}
	kinds := []string{"drop", "dup3", "hold1", "late", "part"}
	if k == 1 {
		kinds = c19Kinds
	}
	n := c19Exec(t, c19Case{Scn: sc}).ndgrams + 3
	t.Logf("N=%d", n-3)
	runs, bad := 0, 0
	var rec func(devs []c19Dev, from int)
	rec = func(devs []c19Dev, from int) {
		if len(devs) == k {
			cs := c19Case{Scn: sc, Devs: append([]c19Dev(nil), devs...)}
			r := c19Exec(t, cs)
			runs++
			if len(r.fails) > 0 {
				bad++
				b, _ := json.Marshal(cs)
				t.Logf("FAIL %s %s: %s", r.fails[0].sig, b, r.fails[0].what)
			}
			return
		}
		for at := from; at < n; at++ {
			for _, kind := range kinds {
				rec(append(devs, c19Dev{At: at, Kind: kind}), at+1)
			}
		}
	}
	rec(nil, 0)
	t.Logf("runs=%d failing=%d", runs, bad)
}
