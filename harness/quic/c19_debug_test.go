package quic

import (
	"encoding/json"
	"os"
	"testing"
)

// TestC19Debug runs one case given as JSON in $C19_CASE and prints its
// network trace (a development aid; skipped otherwise).
func TestC19Debug(t *testing.T) {
	s := os.Getenv("C19_CASE")
	if s == "" {
		t.Skip("C19_CASE not set")
	}
	var cs c19Case
	if err := json.Unmarshal([]byte(s), &cs); err != nil {
		t.Fatal(err)
	}
	var lines []string
	var dbg func(string)
	if os.Getenv("C19_QLOG") != "" {
		dbg = func(s string) { lines = append(lines, s) }
	}
	r := c19ExecDbg(t, cs, dbg)
	for _, l := range lines {
		t.Log(l)
	}
	for _, e := range r.trace {
		t.Logf("idx=%d dir=%d size=%d %s", e.Idx, e.Dir, e.Size, e.Act)
	}
	t.Logf("end=%s datagrams=%d applied=%d fake=%v closeOK=%d closeErr=%d", r.end, r.ndgrams, r.applied, r.elapsed, r.closeOK, r.closeNZ)
	for _, f := range r.fails {
		t.Logf("FAIL %s: %s", f.sig, f.what)
	}
}
