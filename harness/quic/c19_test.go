package quic

// C19 — QUIC streams deliver bytes reliably and in order over a faulty
// network; Stream.Close returns nil only after the peer acknowledged all data.
//
// Fault enumeration on two real Endpoints with real TLS (see
// c19_q2net_test.go): per scenario the default run plus every placement of
// <= k deviations over the datagram indices of the run; after the last
// deviation the network is perfect and the transfer must complete.

import (
	"context"
	"fmt"
	"io"
	"sort"
	"strings"
	"sync"
	"testing"
	"testing/synctest"
	"time"

	"golang.org/x/net/internal/zzverif/vx"
)

// c19Scn is one application scenario (the "inputs" quantifier of C19).
type c19Scn struct {
	Streams string `json:"streams"`           // uni1 | bidi1 | uni3
	Bytes   int    `json:"bytes"`             // bytes per direction of the first stream (others derive from it)
	WChunk  int    `json:"wchunk"`            // bytes per Write call, 0 = everything in one call
	Flush   string `json:"flush"`             // each | end | none
	RChunk  int    `json:"rchunk"`            // Read buffer size, 0 = 16 KiB
	Buf     int    `json:"buf"`               // 0 = default buffers, else MaxStream{Write,Read}BufferSize = MaxConnReadBufferSize = Buf on both sides
	Pause   bool   `json:"pause"`             // flush after the last write and wait 50 ms (fake) before closing: the FIN travels in a frame of its own
	ConnDef bool   `json:"conndef,omitempty"` // with Buf > 0: MaxConnReadBufferSize stays at its default, so the stream window (MAX_STREAM_DATA) is the only credit the writer waits for
}

type c19Case struct {
	Scn  c19Scn   `json:"scn"`
	Devs []c19Dev `json:"devs"`
}

// c19Byte is the content of stream id at offset off: cheap, aperiodic over the
// sizes used, and different per stream.
func c19Byte(id int64, off int) byte {
	x := uint32(off)*2654435761 + uint32(id+1)*40503
	return byte(x>>11) ^ byte(off)
}

// c19Size is the number of bytes carried by a stream in a scenario: the k-th
// stream of its kind carries a different amount so that concurrent streams
// finish at different times.
func c19Size(sc c19Scn, id int64) int {
	k := int(id >> 2)
	switch k {
	case 0:
		return sc.Bytes
	case 1:
		return sc.Bytes/2 + 1
	default:
		return sc.Bytes/3 + 2
	}
}

// c19ErrClass maps an error to a coarse class for signatures.
func c19ErrClass(err error) string {
	if err == nil {
		return "short"
	}
	m := err.Error()
	for _, k := range [][2]string{
		{"context canceled", "never-returned"}, // unblocked only by the harness teardown
		{"deadline exceeded", "never-returned"},
		{"idle timeout", "idle-timeout"},
		{"handshake timeout", "handshake-timeout"},
		{"stream reset", "stream-reset"},
		{"reset stream", "stream-reset"},
		{"closed stream", "closed-stream"},
		{"PROTOCOL_VIOLATION", "peer-protocol-violation"},
		{"FLOW_CONTROL", "flow-control-error"},
		{"FINAL_SIZE", "final-size-error"},
		{"STREAM_STATE", "stream-state-error"},
		{"STREAM_LIMIT", "stream-limit-error"},
		{"INTERNAL", "internal-error"},
		{"connection closed", "conn-closed"},
		{"closed connection", "conn-closed"},
	} {
		if strings.Contains(m, k[0]) {
			return k[1]
		}
	}
	return "error"
}

type c19Run struct {
	mu      sync.Mutex
	fails   []c19Fail
	outcome string
	ndgrams int
	applied int
	hashS   uint64 // trace hash with sizes
	hashN   uint64 // trace hash without sizes
	end     string
	elapsed time.Duration
	closeOK int // Close calls that returned nil
	closeNZ int // Close calls that returned an error
	trace   []c19TraceEnt
	dbg     func(string) // development aid (c19_debug_test.go)
}

func (r *c19Run) failf(sig, format string, a ...any) {
	r.mu.Lock()
	r.fails = append(r.fails, c19Fail{sig, fmt.Sprintf(format, a...)})
	r.mu.Unlock()
}

// c19Writer writes the stream's content as the scenario prescribes. It
// returns false if a write failed.
func c19Writer(r *c19Run, sc c19Scn, s *Stream, live bool) bool {
	id := s.ID()
	total := c19Size(sc, id)
	data := make([]byte, total)
	for i := range data {
		data[i] = c19Byte(id, i)
	}
	chunk := sc.WChunk
	if chunk <= 0 {
		chunk = total
	}
	for off := 0; off < total; off += chunk {
		n := min(chunk, total-off)
		m, err := s.Write(data[off : off+n])
		if err != nil || m != n {
			if live {
				r.failf("C19/complete/write-"+c19ErrClass(err), "stream %d: Write(%d bytes at %d) = %d, %v", id, n, off, m, err)
			}
			return false
		}
		if sc.Flush == "each" {
			if err := s.Flush(); err != nil {
				if live {
					r.failf("C19/complete/flush-"+c19ErrClass(err), "stream %d: Flush at %d: %v", id, off+n, err)
				}
				return false
			}
		}
	}
	if sc.Flush == "end" || sc.Pause {
		if err := s.Flush(); err != nil {
			if live {
				r.failf("C19/complete/flush-"+c19ErrClass(err), "stream %d: final Flush: %v", id, err)
			}
			return false
		}
	}
	if sc.Pause {
		time.Sleep(50 * time.Millisecond)
	}
	return true
}

// c19Reader reads the stream to EOF and compares every byte.
func c19Reader(r *c19Run, sc c19Scn, s *Stream, live bool) bool {
	id := s.ID()
	total := c19Size(sc, id)
	n := sc.RChunk
	if n <= 0 {
		n = 16 << 10
	}
	buf := make([]byte, n)
	got, zero := 0, 0
	for {
		m, err := s.Read(buf)
		for i := 0; i < m; i++ {
			if got+i >= total {
				r.failf("C19/read/extra-bytes", "stream %d: read %d bytes beyond the %d written", id, got+m-total, total)
				return false
			}
			if want := c19Byte(id, got+i); buf[i] != want {
				r.failf("C19/read/data-mismatch", "stream %d: byte %d is %#x, written %#x (read of %d bytes at offset %d)", id, got+i, buf[i], want, m, got)
				return false
			}
		}
		got += m
		if err == io.EOF {
			if got != total {
				r.failf("C19/read/short-eof", "stream %d: io.EOF after %d of %d bytes", id, got, total)
				return false
			}
			return true
		}
		if err != nil {
			if live {
				r.failf("C19/complete/read-"+c19ErrClass(err), "stream %d: Read error after %d of %d bytes: %v", id, got, total, err)
			}
			return false
		}
		if m == 0 {
			zero++
			if zero > 10000 {
				r.failf("C19/read/zero-spin", "stream %d: Read returned 0, nil 10000 times at offset %d", id, got)
				return false
			}
		}
	}
}

// c19Close calls Close and applies the Close oracle: a nil result implies the
// peer's qlog shows every byte and the FIN received.
func c19Close(r *c19Run, sc c19Scn, s *Stream, peer *c19QLog, live bool) {
	id := s.ID()
	err := s.Close()
	if s.IsReadOnly() {
		return
	}
	r.mu.Lock()
	if err == nil {
		r.closeOK++
	} else {
		r.closeNZ++
	}
	r.mu.Unlock()
	if err == nil {
		if ok, why := peer.covered(id, int64(c19Size(sc, id))); !ok {
			r.failf("C19/close/nil-before-peer-received", "stream %d: Close returned nil but the peer has not received everything: %s", id, why)
		}
		return
	}
	if live {
		r.failf("C19/complete/close-"+c19ErrClass(err), "stream %d: Close = %v although the network delivers again", id, err)
	}
}

// c19Bubble executes one case inside a fresh bubble and fills r.
func c19Bubble(r *c19Run, cs c19Case) {
	sc := cs.Scn
	live := true // the network eventually lets traffic through: completion is required
	for _, d := range cs.Devs {
		if d.Kind == "dead" {
			live = false
		}
	}
	// Timeouts are not part of the property (a long enough silence may
	// legitimately kill a connection): they are switched off, completion is
	// judged against the fake-time horizon instead.
	conf := Config{HandshakeTimeout: -1, MaxIdleTimeout: -1}
	if sc.Buf > 0 {
		conf.MaxStreamWriteBufferSize = int64(sc.Buf)
		conf.MaxStreamReadBufferSize = int64(sc.Buf)
		if !sc.ConnDef {
			conf.MaxConnReadBufferSize = int64(sc.Buf)
		}
	}
	start := time.Now()
	p := c19NewPair(cs.Devs, conf, conf)
	if r.dbg != nil {
		p.cliQ.dbg = func(s string) { r.dbg(fmt.Sprintf("%v CLI %s", time.Since(start), s)) }
		p.srvQ.dbg = func(s string) { r.dbg(fmt.Sprintf("%v SRV %s", time.Since(start), s)) }
		p.net.dbg = func(s string) { r.dbg(fmt.Sprintf("%v NET %s", time.Since(start), s)) }
	}
	defer p.shutdown()
	if p.setupErr != nil {
		r.failf("C19/harness/setup", "%v", p.setupErr)
		return
	}
	ctx, cancel := context.WithCancel(context.Background())
	defer cancel()
	if !live {
		// With a permanent partition nothing can complete; bound the wait the
		// way an application would.
		var c2 context.CancelFunc
		ctx, c2 = context.WithTimeout(ctx, 20*time.Second)
		defer c2()
	}

	nstreams := 1
	if sc.Streams == "uni3" {
		nstreams = 3
	}
	var wg sync.WaitGroup
	guard := func(what string, f func()) {
		wg.Add(1)
		go func() {
			defer wg.Done()
			defer func() {
				if e := recover(); e != nil {
					r.failf("C19/panic/"+what, "panic in %s: %v", what, e)
				}
			}()
			f()
		}()
	}

	// one side of a bidirectional stream: write and read concurrently, then Close
	bidi := func(s *Stream, peer *c19QLog) {
		s.SetWriteContext(ctx)
		s.SetReadContext(ctx)
		var in sync.WaitGroup
		in.Add(2)
		go func() {
			defer in.Done()
			defer func() {
				if e := recover(); e != nil {
					r.failf("C19/panic/bidi-writer", "panic: %v", e)
				}
			}()
			if c19Writer(r, sc, s, live) {
				s.CloseWrite()
			}
		}()
		go func() {
			defer in.Done()
			defer func() {
				if e := recover(); e != nil {
					r.failf("C19/panic/bidi-reader", "panic: %v", e)
				}
			}()
			c19Reader(r, sc, s, live)
		}()
		in.Wait()
		c19Close(r, sc, s, peer, live)
	}

	// client
	guard("client", func() {
		conn, err := p.cliEP.Dial(ctx, "udp", c19ServerAddr.String(), p.cliConf)
		if err != nil {
			if live {
				r.failf("C19/complete/dial-"+c19ErrClass(err), "Dial: %v", err)
			}
			return
		}
		for k := 0; k < nstreams; k++ {
			var s *Stream
			if sc.Streams == "bidi1" {
				s, err = conn.NewStream(ctx)
			} else {
				s, err = conn.NewSendOnlyStream(ctx)
			}
			if err != nil {
				if live {
					r.failf("C19/complete/newstream-"+c19ErrClass(err), "NewStream: %v", err)
				}
				return
			}
			if sc.Streams == "bidi1" {
				guard("client-bidi", func() { bidi(s, p.srvQ) })
				continue
			}
			guard("client-writer", func() {
				s.SetWriteContext(ctx)
				if c19Writer(r, sc, s, live) {
					c19Close(r, sc, s, p.srvQ, live)
				}
			})
		}
	})
	// server
	guard("server", func() {
		conn, err := p.srvEP.Accept(ctx)
		if err != nil {
			if live {
				r.failf("C19/complete/accept-"+c19ErrClass(err), "Accept: %v", err)
			}
			return
		}
		for k := 0; k < nstreams; k++ {
			s, err := conn.AcceptStream(ctx)
			if err != nil {
				if live {
					r.failf("C19/complete/acceptstream-"+c19ErrClass(err), "AcceptStream %d: %v", k, err)
				}
				return
			}
			if sc.Streams == "bidi1" {
				guard("server-bidi", func() { bidi(s, p.cliQ) })
				continue
			}
			guard("server-reader", func() {
				s.SetReadContext(ctx)
				if c19Reader(r, sc, s, live) {
					s.Close()
				}
			})
		}
	})

	done := make(chan struct{})
	go func() { wg.Wait(); close(done) }()

	skipOff := false
	end := p.net.run(done, c19Horizon, 4000, func() {
		if skipOff {
			return
		}
		// Own the one random source that affects structure: packet-number
		// skipping (skip.go) — move the first skipped number out of reach.
		n := 0
		p.cliEP.connsMu.Lock()
		for c := range p.cliEP.conns {
			c.skip.skip = 1 << 40
			n++
		}
		p.cliEP.connsMu.Unlock()
		for _, c := range p.serverConns() {
			c.skip.skip = 1 << 40
			n++
		}
		if n == 2 {
			skipOff = true
		}
	})
	r.end = end
	r.elapsed = time.Since(start)
	r.ndgrams = p.net.nextIdx
	r.applied = p.net.applied
	r.hashS = p.net.traceHash(true)
	r.hashN = p.net.traceHash(false)
	r.trace = p.net.trace
	switch end {
	case "stall":
		if live {
			r.failf("C19/complete/stall", "applications not finished after %v of fake time on a network that delivers everything (datagrams=%d)", c19Horizon, r.ndgrams)
		}
	case "storm":
		r.failf("C19/complete/datagram-storm", "more than 4000 datagrams for a transfer of %d bytes", sc.Bytes)
	}
	// Tear down: unblock everything that is still waiting.
	cancel()
	p.shutdown()
	<-done
	synctest.Wait()
}

// c19Exec runs one case in its own bubble and reports through w.
func c19Exec(t *testing.T, cs c19Case) *c19Run { return c19ExecDbg(t, cs, nil) }

func c19ExecDbg(t *testing.T, cs c19Case, dbg func(string)) *c19Run {
	r := &c19Run{dbg: dbg}
	t.Run("b", func(t *testing.T) {
		synctest.Test(t, func(t *testing.T) { c19Bubble(r, cs) })
	})
	return r
}

const c19Horizon = time.Hour

var c19Kinds = []string{"drop", "dup", "dup3", "hold1", "hold3", "late", "part"}

func c19QuickScenariosForDebug() []c19Scn {
	all, _ := c19ScenariosTier(true)
	return all
}

func c19Scenarios(c *vx.Ctx) (all []c19Scn, small []c19Scn) { return c19ScenariosTier(c.Quick()) }

// c19WindowScenarios: the stream receive window (512) is the only credit the
// writer ever waits for (connection window at its default) and the transfer
// is longer than two windows, so the reader issues a chain of
// MAX_STREAM_DATA updates each of which the writer needs before it can go
// on; once with a reader that drains a whole window per Read, once with a
// reader that consumes in steps of 100. These get the two-deviation bound in
// every tier: the receive-side credit path needs a deviation on each
// direction (or two on the reverse path: an ACK / MAX_STREAM_DATA packet and
// a later one) before a lost update matters.
func c19WindowScenarios(quick bool) []c19Scn {
	w := []c19Scn{
		{Streams: "uni1", Bytes: 1200, Flush: "none", Buf: 512, ConnDef: true},
		{Streams: "uni1", Bytes: 1200, Flush: "none", RChunk: 100, Buf: 512, ConnDef: true},
	}
	if !quick {
		w = append(w,
			c19Scn{Streams: "uni1", Bytes: 1100, WChunk: 100, Flush: "each", RChunk: 100, Buf: 512, ConnDef: true},
			c19Scn{Streams: "bidi1", Bytes: 1200, Flush: "none", Buf: 512, ConnDef: true},
			c19Scn{Streams: "uni1", Bytes: 2100, Flush: "none", Buf: 512, ConnDef: true},
		)
	}
	return w
}

func c19ScenariosTier(quick bool) (all []c19Scn, small []c19Scn) {
	// The smallest scenarios get the deeper deviation bound.
	small = []c19Scn{
		{Streams: "uni1", Bytes: 1, Flush: "none"},
		{Streams: "uni1", Bytes: 100, WChunk: 1, Flush: "none", RChunk: 1},
		{Streams: "uni1", Bytes: 1200, WChunk: 100, Flush: "each", RChunk: 100},
		{Streams: "bidi1", Bytes: 100, Flush: "end"},
	}
	all = append(all, small...)
	add := func(s c19Scn) { all = append(all, s) }
	// Every value of every dimension occurs, and the pairs that interact
	// (size x buffer, size x chunking, streams x buffer) are crossed.
	add(c19Scn{Streams: "uni3", Bytes: 100, Flush: "none", RChunk: 100})
	add(c19Scn{Streams: "uni1", Bytes: 600, Flush: "none", Buf: 512, RChunk: 100})
	add(c19Scn{Streams: "uni1", Bytes: 1200, Flush: "none", Buf: 512, RChunk: 100})
	for _, st := range []string{"uni1", "bidi1", "uni3"} {
		add(c19Scn{Streams: st, Bytes: 5000, WChunk: 100, Flush: "none", RChunk: 100})
		for _, buf := range []int{0, 512} {
			add(c19Scn{Streams: st, Bytes: 1200, Flush: "end", RChunk: 1, Buf: buf})
		}
	}
	add(c19Scn{Streams: "uni1", Bytes: 100, WChunk: 1, Flush: "each", RChunk: 1})
	add(c19Scn{Streams: "uni1", Bytes: 5000, Flush: "none"})
	add(c19Scn{Streams: "uni1", Bytes: 5000, WChunk: 100, Flush: "each", Buf: 512})
	add(c19Scn{Streams: "bidi1", Bytes: 1, Flush: "none", Buf: 512})
	add(c19Scn{Streams: "uni1", Bytes: 40000, Flush: "none"})
	add(c19Scn{Streams: "uni1", Bytes: 100, Flush: "none", Pause: true})
	add(c19Scn{Streams: "uni3", Bytes: 1200, WChunk: 100, Flush: "each", RChunk: 100, Pause: true})
	add(c19Scn{Streams: "bidi1", Bytes: 1200, Flush: "none", Buf: 512, Pause: true})
	for _, s := range c19WindowScenarios(quick) {
		add(s)
	}
	if !quick {
		// long runs (hundreds of datagrams: tiny windows, byte-wise readers)
		for _, st := range []string{"uni1", "bidi1", "uni3"} {
			add(c19Scn{Streams: st, Bytes: 5000, WChunk: 100, Flush: "none", RChunk: 100, Buf: 512})
		}
		add(c19Scn{Streams: "uni3", Bytes: 5000, WChunk: 100, Flush: "each", RChunk: 1, Buf: 512})
		for _, st := range []string{"uni1", "bidi1", "uni3"} {
			for _, by := range []int{1, 100, 1200, 5000} {
				for _, fl := range []string{"each", "end", "none"} {
					for _, buf := range []int{0, 512} {
						if by == 5000 && buf == 512 {
							continue // covered above
						}
						add(c19Scn{Streams: st, Bytes: by, WChunk: 100, Flush: fl, RChunk: 100, Buf: buf})
						if fl == "none" && by <= 1200 {
							add(c19Scn{Streams: st, Bytes: by, WChunk: 100, Flush: fl, RChunk: 100, Buf: buf, Pause: true})
						}
					}
				}
			}
		}
		add(c19Scn{Streams: "uni1", Bytes: 10000, WChunk: 100, Flush: "none", RChunk: 100, Buf: 512})
		add(c19Scn{Streams: "bidi1", Bytes: 40000, Flush: "end"})
		add(c19Scn{Streams: "uni3", Bytes: 40000, WChunk: 100, Flush: "none", RChunk: 100})
	}
	// de-duplicate
	seen := map[c19Scn]bool{}
	var out []c19Scn
	for _, s := range all {
		if !seen[s] {
			seen[s] = true
			out = append(out, s)
		}
	}
	return out, small
}

func c19Report(w *vx.W, cs c19Case, r *c19Run) {
	// Abstract trigger for the liveness clause: the set of deviation kinds.
	var kinds []string
	for _, d := range cs.Devs {
		kinds = append(kinds, d.Kind)
	}
	sort.Strings(kinds)
	trig := strings.Join(kinds, "+")
	if trig == "" {
		trig = "none"
	}
	for _, f := range r.fails {
		sig := f.sig
		if strings.HasPrefix(sig, "C19/complete/") {
			sig += "/" + trig
		}
		w.Fail(sig, f.what+fmt.Sprintf(" [end=%s datagrams=%d applied=%d fake=%v]", r.end, r.ndgrams, r.applied, r.elapsed))
	}
	if r.applied == len(cs.Devs) && r.end == "done" {
		w.Nontrivial()
	}
	cl := "closeNil"
	if r.closeNZ > 0 {
		cl = "closeErr"
	}
	slow := "fast"
	if r.elapsed > 500*time.Millisecond {
		slow = "pto"
	}
	w.Outcome(fmt.Sprintf("%s/%s/%s/dev%d", r.end, cl, slow, r.applied))
}

func TestVerif_C19(t *testing.T) {
	vx.Run(t, "C19", func(c *vx.Ctx) {
		all, small := c19Scenarios(c)
		isSmall := map[c19Scn]bool{}
		for _, s := range small {
			isSmall[s] = true
		}
		window := c19WindowScenarios(c.Quick())
		isWindow := map[c19Scn]bool{}
		for _, s := range window {
			isWindow[s] = true
		}
		// Deviation kinds used for placements of two or more deviations.
		kindsMulti := []string{"drop", "dup3", "hold1", "late", "part"}
		kAll := vx.Pick(c, 1, 2)
		kSmall := vx.Pick(c, 2, 3)
		pairMaxN := 30
		c.Rule(fmt.Sprintf("fault enumeration: %d application scenarios (streams x bytes x write chunking x flush x read chunk x buffer sizes {all three 512, stream buffers 512 with default connection window} x pause-before-close, listed in c19Scenarios) on two real quic Endpoints with real TLS in a synctest bubble; per scenario the default run (deliver everything in order) plus (part k1) every single deviation from {drop, dup, dup3, hold1, hold3, late (timer first), part (4 s black hole)} at every datagram index 0..N+2 of the default run (both directions; N = largest datagram count of three default runs, measured by each shard process; cases are assigned to shards by content hash so that a +-1 disagreement on N cannot lose a case below the smallest measured N), (part dead) a permanent black hole at every index for the %d smallest scenarios, (part k2..) every placement of 2..k deviations from {drop, dup3, hold1, late, part} at increasing indices, k=2 for the %d stream-window scenarios (c19WindowScenarios: the stream receive window is the only credit limit, transfer > 2 windows, reader draining a window per Read or in steps of 100; placements cover the data direction and the reverse path carrying ACK / MAX_STREAM_DATA packets alike), k=%d for every scenario with N<=%d and k=%d for the smallest scenarios. After the last deviation the network is perfect. Non-trivial = all deviations of the case took effect and the run completed", len(all), len(small), len(window), kAll, pairMaxN, kSmall))
		c.Assume("timeouts are outside the property: HandshakeTimeout and MaxIdleTimeout are disabled on both endpoints; instead every application operation must complete (reads to io.EOF, Close()==nil) within 1 h of fake time and 4000 datagrams once the network delivers again")
		c.Assume("packet-number skipping (the only randomness that changes packet structure) is moved out of reach white-box; connection IDs and TLS randomness only change values. Go select order inside an endpoint is not owned: oracles hold on every outcome")
		c.Assume("Close()==nil is judged against the peer's qlog (packet_received STREAM frames covering every byte and the FIN) at the moment Close returns")

		// Default runs: datagram count per scenario, and determinism of the
		// default run (recorded, never a violation).
		nOf := map[c19Scn]int{}
		{
			det, detSizes := true, true
			var counts []int
			for _, sc := range all {
				if c.Replaying() {
					break
				}
				a := c19Exec(c.T, c19Case{Scn: sc})
				nOf[sc] = a.ndgrams
				// N = the largest of three default runs (it can differ by one
				// between runs for a few scenarios).
				for rep := 0; rep < 2; rep++ {
					b := c19Exec(c.T, c19Case{Scn: sc})
					nOf[sc] = max(nOf[sc], b.ndgrams)
					if a.ndgrams != b.ndgrams || a.hashN != b.hashN {
						det = false
					}
					if a.hashS != b.hashS {
						detSizes = false
					}
				}
				counts = append(counts, nOf[sc])
			}
			c.Note("deterministic", det)
			c.Note("deterministic_including_datagram_sizes", detSizes)
			c.Note("default_run_datagrams_per_scenario", counts)
		}

		check := func(w *vx.W, cs c19Case) {
			r := c19Exec(w.Ctx().T, cs)
			c19Report(w, cs, r)
		}
		opts := vx.Opts{Serial: true, Crumb: true}
		// completed-bound bookkeeping for the evidence
		partDone := func(part string) {
			// (shards overwrite each other's notes, so only the negative is recorded)
			if !c.Replaying() && c.Expired() {
				c.Note("part_"+part+"_cut_by_deadline_in_some_shard", true)
			}
		}

		vx.Enumerate(c, "k1", opts, c19Sharded(c, func(yield func(c19Case) bool) {
			for _, sc := range all {
				if !yield(c19Case{Scn: sc}) {
					return
				}
				for at := 0; at < nOf[sc]+3; at++ {
					for _, kind := range c19Kinds {
						if !yield(c19Case{Scn: sc, Devs: []c19Dev{{At: at, Kind: kind}}}) {
							return
						}
					}
				}
			}
		}), check)
		partDone("k1")
		vx.Enumerate(c, "dead", opts, c19Sharded(c, func(yield func(c19Case) bool) {
			for _, sc := range small {
				for at := 0; at < nOf[sc]+3; at++ {
					if !yield(c19Case{Scn: sc, Devs: []c19Dev{{At: at, Kind: "dead"}}}) {
						return
					}
				}
			}
		}), check)
		partDone("dead")
		// exactly k deviations at increasing indices
		multi := func(part string, k int, scs []c19Scn) {
			vx.Enumerate(c, part, opts, c19Sharded(c, func(yield func(c19Case) bool) {
				for _, sc := range scs {
					n := nOf[sc] + 3
					var rec func(devs []c19Dev, from int) bool
					rec = func(devs []c19Dev, from int) bool {
						if len(devs) == k {
							return yield(c19Case{Scn: sc, Devs: append([]c19Dev(nil), devs...)})
						}
						for at := from; at < n; at++ {
							for _, kind := range kindsMulti {
								if !rec(append(devs, c19Dev{At: at, Kind: kind}), at+1) {
									return false
								}
							}
						}
						return true
					}
					if !rec(nil, 0) {
						return
					}
				}
			}), check)
			partDone(part)
		}
		multi("k2-small", 2, small)
		multi("k2-window", 2, window)
		if kAll >= 2 {
			var rest []c19Scn
			for _, sc := range all {
				if !isSmall[sc] && !isWindow[sc] && nOf[sc] <= pairMaxN {
					rest = append(rest, sc)
				}
			}
			sort.SliceStable(rest, func(i, j int) bool { return nOf[rest[i]] < nOf[rest[j]] })
			multi("k2-all", 2, rest)
		}
		if kSmall >= 3 {
			multi("k3-small", 3, small)
		}
	})
}
