package quic

import (
	"encoding/json"
	"os"
	"testing"
)

// TestC27Debug runs one case given as JSON in $C27_CASE and prints its
// network trace (a development aid; skipped otherwise).
func TestC27Debug(t *testing.T) {
	s := os.Getenv("C27_CASE")
	if s == "" {
		t.Skip("C27_CASE not set")
	}
	var cs c27Case
	if err := json.Unmarshal([]byte(s), &cs); err != nil {
		t.Fatal(err)
	}
	var lines []string
	var dbg func(string)
	if os.Getenv("C27_QLOG") != "" {
		dbg = func(s string) { lines = append(lines, s) }
	}
	r := c27Exec(t, cs, dbg)
	for _, l := range lines {
		t.Log(l)
	}
	for _, e := range r.trace {
		t.Logf("idx=%d dir=%d size=%d %s", e.Idx, e.Dir, e.Size, e.Act)
	}
	t.Logf("datagrams=%d applied=%d minSlack=%d blocked=%v validated=%v dialOK=%v void=%d retry=%v retok=%d tokenback=%v", r.ndgrams, r.applied, r.minSlack, r.blocked, r.validated, r.dialOK, r.voidBytes, r.retry, r.retok, r.tokValid)
	for _, f := range r.fails {
		t.Logf("FAIL %s: %s", f.sig, f.what)
	}
}
