package proxy

import (
	"bytes"
	"context"
	"encoding/hex"
	"fmt"
	"io"
	"net"
	"strconv"
	"sync"
	"testing"
	"time"

	"golang.org/x/net/internal/socks"
	"golang.org/x/net/internal/zzverif/vx"
)

// C54 — SOCKS5 client requests name exactly the requested destination.
//
// The real client (proxy.SOCKS5 -> internal/socks.Dialer) talks to an in-memory
// net.Conn. Part "request": a reference RFC 1928 / RFC 1929 *server decoder*
// consumes what the client writes and answers like a conforming server; the
// decoded CONNECT request must be exactly the requested destination and the
// client must return the bound address of the reply. Part "replies": the
// server side is an arbitrary byte string; a reference reply decoder says
// whether it is malformed/truncated (client must return an error), well formed
// (client must return the reported bound address) or undetermined.
//
// Part "segments" (deviation-bounded fault enumeration): the same conforming
// server, but its byte stream reaches the client cut into segments — every
// placement of 0, 1 or 2 cut positions over the whole server->client stream,
// one segment per Read call — optionally closed early (truncation) or carrying
// a failure reply code. How the bytes arrive must not change what the client
// reports.
//
// No network, no goroutine on the server side, no time: the conn never blocks
// (a read on an empty buffer is EOF).

// ---------------------------------------------------------------- conn

type c54Conn struct {
	mu     sync.Mutex
	srv    *c54Server // nil in part "replies"
	rbuf   []byte
	wrote  []byte
	closed bool

	// delivery schedule of the server->client stream (part "segments"); the
	// zero values mean "everything available is returned by one Read, no close"
	cuts      [2]int // absolute offsets in the server->client stream at which a Read stops (0 = unused)
	limited   bool   // the server closes after sending limit bytes in total
	limit     int
	sent      []byte // what the server side put on the wire (after truncation)
	delivered int    // how many of those the client has read
	reads     int    // Read calls that returned data
}

type c54NetAddr string

func (a c54NetAddr) Network() string { return "c54" }
func (a c54NetAddr) String() string  { return string(a) }

func (c *c54Conn) Read(p []byte) (int, error) {
	c.mu.Lock()
	defer c.mu.Unlock()
	if c.closed {
		return 0, net.ErrClosed
	}
	if len(p) == 0 {
		return 0, nil
	}
	if len(c.rbuf) == 0 {
		return 0, io.EOF
	}
	n := len(p)
	if n > len(c.rbuf) {
		n = len(c.rbuf)
	}
	for _, cut := range c.cuts {
		if cut > c.delivered && cut-c.delivered < n {
			n = cut - c.delivered // a segment ends here: this Read returns no more
		}
	}
	copy(p, c.rbuf[:n])
	c.rbuf = c.rbuf[n:]
	c.delivered += n
	c.reads++
	return n, nil
}

func (c *c54Conn) Write(p []byte) (int, error) {
	c.mu.Lock()
	defer c.mu.Unlock()
	if c.closed {
		return 0, net.ErrClosed
	}
	c.wrote = append(c.wrote, p...)
	if c.srv != nil {
		out := c.srv.feed(p)
		if c.limited && len(c.sent)+len(out) > c.limit {
			out = out[:c.limit-len(c.sent)]
		}
		c.sent = append(c.sent, out...)
		c.rbuf = append(c.rbuf, out...)
	}
	return len(p), nil
}

func (c *c54Conn) Close() error {
	c.mu.Lock()
	defer c.mu.Unlock()
	c.closed = true
	return nil
}
func (c *c54Conn) LocalAddr() net.Addr                { return c54NetAddr("local") }
func (c *c54Conn) RemoteAddr() net.Addr               { return c54NetAddr("proxy") }
func (c *c54Conn) SetDeadline(t time.Time) error      { return nil }
func (c *c54Conn) SetReadDeadline(t time.Time) error  { return nil }
func (c *c54Conn) SetWriteDeadline(t time.Time) error { return nil }

// forward dialers handing out the in-memory conn
type c54Fwd struct {
	conn  *c54Conn
	calls int
}

func (f *c54Fwd) Dial(network, addr string) (net.Conn, error) {
	f.calls++
	return f.conn, nil
}

type c54CtxFwd struct{ c54Fwd }

func (f *c54CtxFwd) DialContext(ctx context.Context, network, addr string) (net.Conn, error) {
	f.calls++
	return f.conn, nil
}

// ---------------------------------------------------------------- reference server decoder (RFC 1928 §3-§6, RFC 1929 §2)

type c54Bound struct {
	atyp  byte
	addr  []byte // 4, 16 or the FQDN bytes
	port  int
	label string
}

func (b c54Bound) encode() []byte {
	out := []byte{5, 0, 0, b.atyp}
	if b.atyp == 3 {
		out = append(out, byte(len(b.addr)))
	}
	out = append(out, b.addr...)
	return append(out, byte(b.port>>8), byte(b.port))
}

type c54Server struct {
	method byte // the method this server selects (must have been offered)
	bound  c54Bound
	rep    byte // reply code of the CONNECT reply (0 = succeeded)

	stage     int // 0 greeting, 1 RFC 1929 sub-negotiation, 2 request, 3 request decoded
	in        []byte
	offered   []byte
	user      []byte
	pass      []byte
	reqAtyp   byte
	reqAddr   []byte
	reqPort   int
	violation string
	extra     int
}

// feed consumes client bytes and returns the server's answer bytes.
func (s *c54Server) feed(p []byte) (out []byte) {
	s.in = append(s.in, p...)
	for s.violation == "" {
		switch s.stage {
		case 0:
			// +----+----------+----------+
			// |VER | NMETHODS | METHODS  |
			if len(s.in) < 2 {
				return
			}
			if s.in[0] != 5 {
				s.violation = "greeting-version"
				return
			}
			n := int(s.in[1])
			if n == 0 {
				s.violation = "greeting-no-methods"
				return
			}
			if len(s.in) < 2+n {
				return
			}
			s.offered = append([]byte(nil), s.in[2:2+n]...)
			s.in = s.in[2+n:]
			if bytes.IndexByte(s.offered, s.method) < 0 {
				s.violation = "greeting-expected-method-not-offered"
				return
			}
			out = append(out, 5, s.method)
			if s.method == 2 {
				s.stage = 1
			} else {
				s.stage = 2
			}
		case 1:
			// |VER | ULEN |  UNAME   | PLEN |  PASSWD  |   VER = 1, ULEN 1..255
			if len(s.in) < 2 {
				return
			}
			if s.in[0] != 1 {
				s.violation = "auth-version"
				return
			}
			ul := int(s.in[1])
			if ul == 0 {
				s.violation = "auth-empty-username"
				return
			}
			if len(s.in) < 2+ul+1 {
				return
			}
			pl := int(s.in[2+ul])
			if len(s.in) < 2+ul+1+pl {
				return
			}
			s.user = append([]byte(nil), s.in[2:2+ul]...)
			s.pass = append([]byte(nil), s.in[3+ul:3+ul+pl]...)
			s.in = s.in[3+ul+pl:]
			out = append(out, 1, 0)
			s.stage = 2
		case 2:
			// |VER | CMD |  RSV  | ATYP | DST.ADDR | DST.PORT |
			if len(s.in) < 4 {
				return
			}
			if s.in[0] != 5 {
				s.violation = "request-version"
				return
			}
			if s.in[1] != 1 {
				s.violation = "request-command-not-connect"
				return
			}
			if s.in[2] != 0 {
				s.violation = "request-reserved-nonzero"
				return
			}
			var al, off int
			switch s.in[3] {
			case 1:
				al, off = 4, 4
			case 4:
				al, off = 16, 4
			case 3:
				if len(s.in) < 5 {
					return
				}
				al, off = int(s.in[4]), 5
			default:
				s.violation = "request-address-type"
				return
			}
			if len(s.in) < off+al+2 {
				return
			}
			s.reqAtyp = s.in[3]
			s.reqAddr = append([]byte(nil), s.in[off:off+al]...)
			s.reqPort = int(s.in[off+al])<<8 | int(s.in[off+al+1])
			s.in = s.in[off+al+2:]
			rp := s.bound.encode()
			rp[1] = s.rep
			out = append(out, rp...)
			s.stage = 3
		default:
			s.extra += len(s.in)
			s.in = nil
			return
		}
	}
	return
}

// ---------------------------------------------------------------- alphabets of part "request"

type c54Dest struct {
	host  string
	kind  string // "ip4", "ip6", "ip4-mapped", "name"
	ip    []byte // for literals
	ip4   []byte // ip4-mapped: the embedded IPv4
	valid bool
	label string
}

func c54Name(n int) string {
	b := make([]byte, n)
	for i := range b {
		b[i] = byte('a' + i%26)
	}
	return string(b)
}

var c54Dests = []c54Dest{
	{host: "1.2.3.4", kind: "ip4", ip: []byte{1, 2, 3, 4}, valid: true, label: "ip4"},
	{host: "example.com", kind: "name", valid: true, label: "name"},
	{host: "::1", kind: "ip6", ip: []byte{0, 0, 0, 0, 0, 0, 0, 0, 0, 0, 0, 0, 0, 0, 0, 1}, valid: true, label: "ip6"},
	{host: "a", kind: "name", valid: true, label: "name-len1"},
	{host: "ab", kind: "name", valid: true, label: "name-len2"},
	{host: "0.0.0.0", kind: "ip4", ip: []byte{0, 0, 0, 0}, valid: true, label: "ip4"},
	{host: "255.255.255.255", kind: "ip4", ip: []byte{255, 255, 255, 255}, valid: true, label: "ip4"},
	{host: "::", kind: "ip6", ip: make([]byte, 16), valid: true, label: "ip6"},
	{host: "2001:db8::1", kind: "ip6", ip: []byte{0x20, 0x01, 0x0d, 0xb8, 0, 0, 0, 0, 0, 0, 0, 0, 0, 0, 0, 1}, valid: true, label: "ip6"},
	{host: "2001:DB8:0:0:0:0:0:1", kind: "ip6", ip: []byte{0x20, 0x01, 0x0d, 0xb8, 0, 0, 0, 0, 0, 0, 0, 0, 0, 0, 0, 1}, valid: true, label: "ip6-long-form"},
	{host: "::ffff:1.2.3.4", kind: "ip4-mapped", ip: []byte{0, 0, 0, 0, 0, 0, 0, 0, 0, 0, 0xff, 0xff, 1, 2, 3, 4}, ip4: []byte{1, 2, 3, 4}, valid: true, label: "ip4-mapped"},
	{host: "\xc3\xa9x.example", kind: "name", valid: true, label: "name-utf8"},
	{host: "\xff\x80", kind: "name", valid: true, label: "name-high-bytes"},
	{host: c54Name(254), kind: "name", valid: true, label: "name-len254"},
	{host: c54Name(255), kind: "name", valid: true, label: "name-len255"},
	{host: c54Name(256), kind: "name", valid: false, label: "name-len256"},
	{host: c54Name(300), kind: "name", valid: false, label: "name-len300"},
	{host: c54Name(511), kind: "name", valid: false, label: "name-len511"},
}

// port: valid 1..65535; 0 is "either" (RFC 1928 can encode it, the client may refuse it)
var c54PortsA = []int{80, 1, 255, 256, 65535, 0, 65536, -1, 65616 /* = 80 mod 65536 */}

type c54Auth struct {
	user, pass string
	valid      bool // RFC 1929: both 1..255 bytes
	label      string
}

var c54Auths = []*c54Auth{
	nil,
	{user: "u", pass: "p", valid: true, label: "len1"},
	{user: "us\xc3\xa9r", pass: "p\xff\x00ss", valid: true, label: "bytes"},
	{user: c54Name(255), pass: c54Name(255)[1:] + "Z", valid: true, label: "len255"},
	{user: c54Name(256), pass: "p", valid: false, label: "user-len256"},
	{user: "u", pass: c54Name(256), valid: false, label: "pass-len256"},
}

var c54Bounds = []c54Bound{
	{atyp: 1, addr: []byte{1, 2, 3, 4}, port: 1080, label: "ip4"},
	{atyp: 3, addr: []byte("bnd.example"), port: 256, label: "fqdn"},
	{atyp: 4, addr: []byte{0x20, 0x01, 0x0d, 0xb8, 0, 0, 0, 0, 0, 0, 0, 0, 0, 0, 0, 2}, port: 65535, label: "ip6"},
	{atyp: 1, addr: []byte{0, 0, 0, 0}, port: 0, label: "ip4-zero"},
	{atyp: 3, addr: []byte(c54Name(255)), port: 255, label: "fqdn-len255"},
	{atyp: 3, addr: []byte{0xff, 0x00, 0x80}, port: 1, label: "fqdn-bytes"},
}

// API through which the client is driven
const (
	c54DialContextBG  = iota // proxy.SOCKS5(...).(ContextDialer).DialContext(context.Background())
	c54DialContextVal        // same with a derived (non-Background) context
	c54Dial                  // proxy.SOCKS5(...).Dial — returns the raw transport conn
	c54DialWithConn          // socks.NewDialer(...).DialWithConn on the conn
	c54PlainForward          // DialContext(Background) with a forward Dialer that has no DialContext
	c54NAPI
)

var c54APINames = []string{"SOCKS5.DialContext(bg)", "SOCKS5.DialContext(derived ctx)", "SOCKS5.Dial", "socks.Dialer.DialWithConn", "SOCKS5.DialContext(bg, plain forward)"}

type c54CtxKey struct{}

// c54Run drives the client once. It returns the reported bound address (nil for
// c54Dial, which does not expose it), the returned conn and the error.
func c54Run(api int, auth *c54Auth, conn *c54Conn, address string) (bound net.Addr, rc net.Conn, err error) {
	const proxyAddr = "proxy.invalid:1080"
	if api == c54DialWithConn {
		d := socks.NewDialer("tcp", proxyAddr)
		if auth != nil {
			up := socks.UsernamePassword{Username: auth.user, Password: auth.pass}
			d.AuthMethods = []socks.AuthMethod{socks.AuthMethodNotRequired, socks.AuthMethodUsernamePassword}
			d.Authenticate = up.Authenticate
		}
		a, err := d.DialWithConn(context.Background(), conn, "tcp", address)
		if err != nil {
			return nil, nil, err
		}
		return a, conn, nil
	}
	var pa *Auth
	if auth != nil {
		pa = &Auth{User: auth.user, Password: auth.pass}
	}
	var fwd Dialer
	if api == c54PlainForward {
		fwd = &c54Fwd{conn: conn}
	} else {
		fwd = &c54CtxFwd{c54Fwd{conn: conn}}
	}
	d, err := SOCKS5("tcp", proxyAddr, pa, fwd)
	if err != nil {
		return nil, nil, err
	}
	switch api {
	case c54Dial:
		rc, err = d.Dial("tcp", address)
		return nil, rc, err
	case c54DialContextVal:
		rc, err = d.(ContextDialer).DialContext(context.WithValue(context.Background(), c54CtxKey{}, 1), "tcp", address)
	default:
		rc, err = d.(ContextDialer).DialContext(context.Background(), "tcp", address)
	}
	if err != nil {
		return nil, rc, err
	}
	if sc, ok := rc.(*socks.Conn); ok {
		return sc.BoundAddr(), sc.Conn, nil
	}
	return nil, rc, nil
}

// c54HostOK: the decoded CONNECT request names the requested host.
func c54HostOK(dst c54Dest, srv *c54Server) bool {
	hostOK := false
	switch dst.kind {
	case "ip4":
		hostOK = srv.reqAtyp == 1 && bytes.Equal(srv.reqAddr, dst.ip)
	case "ip6":
		hostOK = srv.reqAtyp == 4 && bytes.Equal(srv.reqAddr, dst.ip)
	case "ip4-mapped":
		hostOK = (srv.reqAtyp == 4 && bytes.Equal(srv.reqAddr, dst.ip)) || (srv.reqAtyp == 1 && bytes.Equal(srv.reqAddr, dst.ip4))
	}
	if srv.reqAtyp == 3 && string(srv.reqAddr) == dst.host {
		hostOK = true // the literal text sent as a domain name is the same destination
	}
	return hostOK
}

// c54BoundEqual compares the address the client reports with what the server sent.
func c54BoundEqual(got net.Addr, want c54Bound) (bool, string) {
	a, ok := got.(*socks.Addr)
	if !ok || a == nil {
		return false, fmt.Sprintf("%T %v", got, got)
	}
	desc := fmt.Sprintf("{Name:%q IP:%v Port:%d}", a.Name, a.IP, a.Port)
	if a.Port != want.port {
		return false, desc
	}
	if want.atyp == 3 {
		return a.IP == nil && a.Name == string(want.addr), desc
	}
	return a.Name == "" && (len(a.IP) == 4 || len(a.IP) == 16) && a.IP.Equal(net.IP(want.addr)), desc
}

type c54ReqCase struct {
	Dest   int `json:"dest"`   // index into c54Dests
	Port   int `json:"port"`   // the port number itself
	Auth   int `json:"auth"`   // index into c54Auths
	Method int `json:"method"` // method the server selects: 0 or 2
	Bound  int `json:"bound"`  // index into c54Bounds
	API    int `json:"api"`
}

func (x c54ReqCase) String() string {
	h := c54Dests[x.Dest].host
	if len(h) > 40 {
		h = fmt.Sprintf("%s…(%d bytes)", h[:20], len(h))
	}
	au := "no auth"
	if a := c54Auths[x.Auth]; a != nil {
		au = "user/pass " + a.label
	}
	return fmt.Sprintf("%s to host %q port %d, %s, server selects method %d and reports bound address %s",
		c54APINames[x.API], h, x.Port, au, x.Method, c54Bounds[x.Bound].label)
}

func c54CheckRequest(w *vx.W, x c54ReqCase) {
	dst := c54Dests[x.Dest]
	auth := c54Auths[x.Auth]
	bnd := c54Bounds[x.Bound]
	srv := &c54Server{method: byte(x.Method), bound: bnd}
	conn := &c54Conn{srv: srv}
	address := net.JoinHostPort(dst.host, strconv.Itoa(x.Port))
	bound, rc, err := c54Run(x.API, auth, conn, address)

	portValid := x.Port >= 1 && x.Port <= 65535
	portEither := x.Port == 0
	credsNeeded := x.Method == 2
	valid := dst.valid && (portValid || portEither) && (!credsNeeded || auth.valid)

	// Whatever else happens: a decoded CONNECT request must name the requested destination.
	if srv.stage == 3 {
		if !c54HostOK(dst, srv) {
			w.Failf("C54/request/wrong-host:"+dst.label, "%v: the server decoded ATYP=%d DST.ADDR=%x (%q)", x, srv.reqAtyp, srv.reqAddr, srv.reqAddr)
			return
		}
		if srv.reqPort != x.Port {
			cl := "valid-port"
			if !portValid {
				cl = "out-of-range-port"
			}
			w.Failf("C54/request/wrong-port:"+cl, "%v: the server decoded DST.PORT=%d", x, srv.reqPort)
			return
		}
		if credsNeeded && (string(srv.user) != auth.user || string(srv.pass) != auth.pass) {
			w.Failf("C54/auth/wrong-credentials:"+auth.label, "%v: the server decoded a different username/password (lengths %d/%d)", x, len(srv.user), len(srv.pass))
			return
		}
	}
	if srv.violation != "" {
		w.Failf("C54/request/malformed:"+srv.violation, "%v: the client's bytes %x are not a valid RFC 1928/1929 message (%s)", x, conn.wrote, srv.violation)
		return
	}
	if !valid {
		reason := "name-too-long"
		switch {
		case dst.valid && !(portValid || portEither):
			reason = "port-out-of-range"
		case dst.valid:
			reason = "credentials-too-long"
		}
		if err == nil {
			w.Failf("C54/invalid/accepted:"+reason, "%v: returned success for a destination/credential that cannot be encoded", x)
			return
		}
		w.Outcome("refused:" + reason)
		w.Nontrivial()
		return
	}
	if err != nil {
		if portEither && srv.stage < 3 {
			w.Outcome("refused:port-0")
			return
		}
		w.Failf("C54/request/valid-destination-failed:"+dst.label, "%v: error %v (server stage %d)", x, err, srv.stage)
		return
	}
	if srv.stage != 3 {
		w.Failf("C54/request/success-without-request", "%v: returned success although the server never received a complete CONNECT request (stage %d)", x, srv.stage)
		return
	}
	if srv.extra != 0 || len(srv.in) != 0 {
		w.Failf("C54/request/trailing-bytes", "%v: %d bytes follow the CONNECT request", x, srv.extra+len(srv.in))
		return
	}
	if conn.closed {
		w.Failf("C54/result/conn-closed-on-success", "%v: the transport connection was closed although the dial succeeded", x)
		return
	}
	if rc != net.Conn(conn) {
		w.Failf("C54/result/not-the-transport-conn", "%v: the returned connection does not wrap the connection to the proxy", x)
		return
	}
	if x.API != c54Dial {
		if ok, desc := c54BoundEqual(bound, bnd); !ok {
			w.Failf("C54/bound/wrong-address:"+bnd.label, "%v: reported bound address %s, the server sent ATYP=%d %x port %d", x, desc, bnd.atyp, bnd.addr, bnd.port)
			return
		}
	}
	w.Nontrivial()
	w.Outcome(fmt.Sprintf("ok atyp=%d method=%d bound=%d", srv.reqAtyp, x.Method, bnd.atyp))
}

// ---------------------------------------------------------------- part "replies"

const (
	c54MustError = iota
	c54MustSucceed
	c54Either
)

// c54RefReplies decodes a server byte string the way RFC 1928 §3/§6 and
// RFC 1929 §2 define the replies, for a client that offered {0} (hasAuth
// false) or {0, 2} (hasAuth true).
func c54RefReplies(hasAuth bool, s []byte) (verdict int, why string, bnd c54Bound) {
	take := func(n int) []byte {
		if len(s) < n {
			s = nil
			return nil
		}
		p := s[:n]
		s = s[n:]
		return p
	}
	m := take(2)
	if m == nil {
		return c54MustError, "truncated-method-reply", bnd
	}
	if m[0] != 5 {
		return c54MustError, "method-reply-version", bnd
	}
	switch {
	case m[1] == 0xff:
		return c54MustError, "no-acceptable-methods", bnd
	case m[1] == 0:
	case m[1] == 2 && hasAuth:
		a := take(2)
		if a == nil {
			return c54MustError, "truncated-auth-reply", bnd
		}
		if a[0] != 1 {
			return c54MustError, "auth-reply-version", bnd
		}
		if a[1] != 0 {
			return c54MustError, "auth-failed", bnd
		}
	default:
		return c54Either, "method-not-offered", bnd
	}
	r := take(4)
	if r == nil {
		return c54MustError, "truncated-reply-header", bnd
	}
	if r[0] != 5 {
		return c54MustError, "reply-version", bnd
	}
	if r[1] != 0 {
		return c54MustError, "reply-code-failure", bnd
	}
	if r[2] != 0 {
		return c54MustError, "reply-reserved-nonzero", bnd
	}
	n := 0
	switch r[3] {
	case 1:
		n = 4
	case 4:
		n = 16
	case 3:
		l := take(1)
		if l == nil {
			return c54MustError, "truncated-reply-fqdn-length", bnd
		}
		n = int(l[0])
	default:
		return c54MustError, "reply-address-type", bnd
	}
	a := take(n)
	if a == nil {
		return c54MustError, "truncated-reply-address", bnd
	}
	p := take(2)
	if p == nil {
		return c54MustError, "truncated-reply-port", bnd
	}
	return c54MustSucceed, "well-formed", c54Bound{atyp: r[3], addr: append([]byte(nil), a...), port: int(p[0])<<8 | int(p[1]), label: fmt.Sprintf("atyp%d", r[3])}
}

type c54ReplyCase struct {
	Auth   bool   `json:"client_has_userpass"`
	Stream string `json:"server_bytes_hex"`
	API    int    `json:"api"`
}

func c54CheckReplies(w *vx.W, x c54ReplyCase) {
	stream, err := hex.DecodeString(x.Stream)
	if err != nil {
		panic(err)
	}
	var auth *c54Auth
	if x.Auth {
		auth = c54Auths[1]
	}
	verdict, why, bnd := c54RefReplies(x.Auth, stream)
	conn := &c54Conn{rbuf: append([]byte(nil), stream...)}
	bound, _, derr := c54Run(x.API, auth, conn, "example.com:80")
	desc := fmt.Sprintf("%s, client userpass=%v, server bytes %s", c54APINames[x.API], x.Auth, x.Stream)
	switch verdict {
	case c54MustError:
		if derr == nil {
			w.Failf("C54/replies/malformed-accepted:"+why, "%s: returned success (bound %v) although the server's replies are %s", desc, bound, why)
			return
		}
		w.Nontrivial()
		w.Outcome("error:" + why)
	case c54MustSucceed:
		if derr != nil {
			w.Failf("C54/replies/well-formed-rejected:"+bnd.label, "%s: error %v although the replies are well formed and report success", desc, derr)
			return
		}
		if x.API != c54Dial {
			if ok, d := c54BoundEqual(bound, bnd); !ok {
				w.Failf("C54/bound/wrong-address:"+bnd.label, "%s: reported bound address %s, the server sent ATYP=%d %x port %d", desc, d, bnd.atyp, bnd.addr, bnd.port)
				return
			}
		}
		w.Nontrivial()
		w.Outcome("success:" + bnd.label)
	default:
		if derr != nil {
			w.Outcome("undetermined:error")
		} else {
			w.Outcome("undetermined:success")
		}
	}
}

// ---------------------------------------------------------------- part "segments"
//
// Deviation-bounded fault enumeration over HOW the server's bytes arrive. The
// default run is "every Read returns everything the server has sent"; a
// deviation is one cut position in the server->client stream (method-selection
// reply, RFC 1929 auth reply, CONNECT reply header, [FQDN length,] bound
// address, port) at which a Read stops short. All placements of 0, 1 and 2 cuts
// are run; the result must not depend on them.

var c54SegDests = []int{0, 1, 2, 3, 14} // one per request ATYP + the shortest and longest name (the request buffer the client reuses for reading)

var c54SegBounds = append(append([]c54Bound{}, c54Bounds...),
	c54Bound{atyp: 3, addr: nil, port: 80, label: "fqdn-len0"},
	c54Bound{atyp: 3, addr: []byte("x"), port: 0x0504, label: "fqdn-len1"},
	c54Bound{atyp: 1, addr: []byte{5, 0, 0, 3}, port: 0x0104, label: "ip4-header-like"}, // address bytes that look like a reply header
)

type c54SegCase struct {
	Dest   int `json:"dest"`   // index into c54Dests
	Auth   int `json:"auth"`   // index into c54Auths (0 = none, 1 = "u"/"p")
	Method int `json:"method"` // method the server selects
	Bound  int `json:"bound"`  // index into c54SegBounds
	API    int `json:"api"`
	Rep    int `json:"reply_code"`       // 0 = succeeded
	Trunc  int `json:"server_closes_at"` // -1: never; else the server closes after this many bytes of its stream
	Cut1   int `json:"cut1"`             // offsets in the server->client stream where a segment ends (0 = unused)
	Cut2   int `json:"cut2"`
}

func (x c54SegCase) streamLen() int {
	n := 2 + len(c54SegBounds[x.Bound].encode())
	if x.Method == 2 {
		n += 2
	}
	return n
}

// region names the field of the server's stream a cut position falls into.
func (x c54SegCase) region(cut int) string {
	type fld struct {
		name string
		n    int
	}
	b := c54SegBounds[x.Bound]
	fs := []fld{{"method-reply", 2}}
	if x.Method == 2 {
		fs = append(fs, fld{"auth-reply", 2})
	}
	fs = append(fs, fld{"reply-header", 4})
	if b.atyp == 3 {
		fs = append(fs, fld{"fqdn-length", 1})
	}
	fs = append(fs, fld{"bound-address", len(b.addr)}, fld{"port", 2})
	off := 0
	for _, f := range fs {
		if f.n == 0 {
			continue
		}
		if cut == off {
			return "before-" + f.name
		}
		if cut < off+f.n {
			return "inside-" + f.name
		}
		off += f.n
	}
	return "at-end"
}

func (x c54SegCase) ncuts() int {
	n := 0
	if x.Cut1 != 0 {
		n++
	}
	if x.Cut2 != 0 {
		n++
	}
	return n
}

func (x c54SegCase) cutClass() string {
	switch {
	case x.Cut1 == 0 && x.Cut2 == 0:
		return "uncut"
	case x.Cut2 == 0:
		return "cut-" + x.region(x.Cut1)
	case x.Cut1 == 0:
		return "cut-" + x.region(x.Cut2)
	}
	return "cuts-" + x.region(x.Cut1) + "+" + x.region(x.Cut2)
}

func (x c54SegCase) String() string {
	au := "no auth"
	if c54Auths[x.Auth] != nil {
		au = "user/pass offered"
	}
	h := c54Dests[x.Dest].host
	if len(h) > 40 {
		h = fmt.Sprintf("%s…(%d bytes)", h[:20], len(h))
	}
	tr := "never closes"
	if x.Trunc >= 0 {
		tr = fmt.Sprintf("closes after %d bytes", x.Trunc)
	}
	return fmt.Sprintf("%s to host %q port 80, %s, server selects method %d, replies code %d bound %s; its %d-byte stream arrives cut at offsets [%d %d] (%s), server %s",
		c54APINames[x.API], h, au, x.Method, x.Rep, c54SegBounds[x.Bound].label, x.streamLen(), x.Cut1, x.Cut2, x.cutClass(), tr)
}

// c54SegEval runs one delivery schedule. kind == "" means the oracle holds;
// outcome is the coarse class observed.
func c54SegEval(x c54SegCase) (kind, what, outcome string, nontrivial bool) {
	dst := c54Dests[x.Dest]
	auth := c54Auths[x.Auth]
	bnd := c54SegBounds[x.Bound]
	srv := &c54Server{method: byte(x.Method), bound: bnd, rep: byte(x.Rep)}
	conn := &c54Conn{srv: srv, cuts: [2]int{x.Cut1, x.Cut2}}
	if x.Trunc >= 0 {
		conn.limited, conn.limit = true, x.Trunc
	}
	bound, rc, err := c54Run(x.API, auth, conn, net.JoinHostPort(dst.host, "80"))

	if srv.stage == 3 {
		if !c54HostOK(dst, srv) || srv.reqPort != 80 {
			return "wrong-request", fmt.Sprintf("%v: the server decoded ATYP=%d DST.ADDR=%x port %d", x, srv.reqAtyp, srv.reqAddr, srv.reqPort), "", false
		}
		if x.Method == 2 && (string(srv.user) != auth.user || string(srv.pass) != auth.pass) {
			return "wrong-credentials", fmt.Sprintf("%v: the server decoded a different username/password", x), "", false
		}
	}
	if srv.violation != "" {
		return "malformed-request:" + srv.violation, fmt.Sprintf("%v: the client's bytes %x are not a valid RFC 1928/1929 message", x, conn.wrote), "", false
	}
	// what the server put on the wire decides, independently of how it was segmented
	verdict, why, rb := c54RefReplies(auth != nil, conn.sent)
	wantOK := x.Rep == 0 && (x.Trunc < 0 || x.Trunc >= x.streamLen())
	if !wantOK {
		if verdict != c54MustError {
			panic(fmt.Sprintf("harness: reference reply decoder says %q for %v (sent %x)", why, x, conn.sent))
		}
		if err == nil {
			return "bad-reply-accepted:" + why, fmt.Sprintf("%v: returned success (bound %v) although the server's replies are %s", x, bound, why), "", false
		}
		return "", "", "error:" + why, true
	}
	if err != nil {
		return "well-formed-rejected", fmt.Sprintf("%v: error %v although every reply of the server (%x) is well formed, complete and reports success (server stage %d)", x, err, conn.sent, srv.stage), "", false
	}
	if srv.stage == 3 && (verdict != c54MustSucceed || rb.atyp != bnd.atyp || !bytes.Equal(rb.addr, bnd.addr) || rb.port != bnd.port) {
		panic(fmt.Sprintf("harness: reference reply decoder says %q / a different bound address for %v (sent %x)", why, x, conn.sent))
	}
	if srv.stage != 3 || srv.extra != 0 || len(srv.in) != 0 {
		return "request-stream", fmt.Sprintf("%v: success with server stage %d and %d stray request bytes", x, srv.stage, srv.extra+len(srv.in)), "", false
	}
	if conn.closed || rc != net.Conn(conn) {
		return "not-the-open-transport-conn", fmt.Sprintf("%v: the returned connection is closed or does not wrap the connection to the proxy", x), "", false
	}
	if x.API != c54Dial {
		if ok, desc := c54BoundEqual(bound, bnd); !ok {
			return "wrong-address", fmt.Sprintf("%v: reported bound address %s, the server sent ATYP=%d %x port %d", x, desc, bnd.atyp, bnd.addr, bnd.port), "", false
		}
	}
	if len(conn.rbuf) != 0 {
		return "reply-bytes-left-unread", fmt.Sprintf("%v: success, but %d bytes of the server's reply (%x) are still unread and would be the first bytes of the tunnel", x, len(conn.rbuf), conn.rbuf), "", false
	}
	return "", "", fmt.Sprintf("ok cuts=%d", x.ncuts()), true
}

func c54CheckSegments(w *vx.W, x c54SegCase) {
	kind, what, outcome, nontrivial := c54SegEval(x)
	if kind == "" {
		if nontrivial {
			w.Nontrivial()
		}
		w.Outcome("segments:" + outcome)
		return
	}
	// Name the smallest deviation that already fails (0 cuts, then each cut
	// alone): one defect gives one signature however many cuts a case has.
	min, minKind := x, kind
	if x.ncuts() > 0 {
		subs := []c54SegCase{x, x, x}
		subs[0].Cut1, subs[0].Cut2 = 0, 0
		subs[1].Cut2 = 0
		subs[2].Cut1 = 0
		for _, sub := range subs {
			if sub.ncuts() >= x.ncuts() {
				continue
			}
			if k, _, _, _ := c54SegEval(sub); k != "" {
				min, minKind = sub, k
				break
			}
		}
	}
	w.Failf("C54/segments/"+minKind+":"+min.cutClass(), "%s", what)
}

func c54GenSegments(c *vx.Ctx, yield func(c54SegCase) bool) {
	const longStream = 64
	maxCutsLong := vx.Pick(c, 1, 2)                       // streams longer than longStream bytes (255-byte bound name)
	maxCutsTrunc := vx.Pick(c, 1, 2)                      // together with an early close
	cutSets := func(x c54SegCase, hi, maxCuts int) bool { // every set of <= maxCuts cut offsets in 1..hi-1
		if !yield(x) {
			return false
		}
		if maxCuts >= 1 {
			for a := 1; a < hi; a++ {
				x.Cut1, x.Cut2 = a, 0
				if !yield(x) {
					return false
				}
			}
		}
		if maxCuts >= 2 {
			for a := 1; a < hi; a++ {
				for b := a + 1; b < hi; b++ {
					x.Cut1, x.Cut2 = a, b
					if !yield(x) {
						return false
					}
				}
			}
		}
		return true
	}
	for api := 0; api < c54NAPI; api++ {
		for _, d := range c54SegDests {
			for _, cfg := range [][2]int{{0, 0}, {1, 0}, {1, 2}} { // {auth index, selected method}
				for b := range c54SegBounds {
					x := c54SegCase{Dest: d, Auth: cfg[0], Method: cfg[1], Bound: b, API: api, Trunc: -1}
					L := x.streamLen()
					maxCuts := 2
					if L > longStream {
						maxCuts = maxCutsLong
					}
					// conforming success reply, then failure reply codes: segmentation only
					for _, rep := range []int{0, 1, 8} {
						x.Rep = rep
						if !cutSets(x, L, maxCuts) {
							return
						}
					}
					// success reply cut short by a close after t bytes, segmented before that
					x.Rep = 0
					mt := maxCutsTrunc
					if L > longStream {
						mt = maxCutsLong - 1
					}
					for t := 0; t < L; t++ {
						x.Trunc = t
						if !cutSets(x, t, mt) {
							return
						}
					}
				}
			}
		}
	}
}

func TestVerif_C54(t *testing.T) {
	vx.Run(t, "C54", func(c *vx.Ctx) {
		c.Rule("request: every destination host of {IPv4 0.0.0.0 1.2.3.4 255.255.255.255; IPv6 :: ::1 2001:db8::1 (short and long spelling) ::ffff:1.2.3.4; names of length 1,2,11,254,255,256,300,511 incl. bytes >= 0x80} x port {80,1,255,256,65535,0,65536,-1,65616} x auth {none, user/pass of lengths 1/1, bytes>=0x80, 255/255, 256/1, 1/256} x method the server selects {0, 2 when offered} x bound address in the reply {IPv4, IPv4 zero, IPv6, FQDN 11/255 bytes/high bytes} x API {SOCKS5.DialContext with Background and derived ctx, SOCKS5.Dial, socks.Dialer.DialWithConn, plain forward dialer}; the client talks to an in-memory conn whose far end is a strict RFC 1928/1929 server decoder. non-trivial = a CONNECT request was decoded and compared, or an unencodable destination was refused. " +
			"replies: the server side is a fixed byte string: every truncation and every single-byte mutation to {0x00,0xff,+1} of every well-formed transcript (method 0 / method 2 + auth ok; bound IPv4, IPv6, FQDN of 0/1/11/255 bytes), reply codes 0..9 and 0xff, plus EVERY byte string of length <= 5 (thorough 6) over {00 01 02 03 04 05 ff} and every [05 00]+string of length <= 6 (thorough 8) over {00 01 03 04 05 ff}; a reference reply decoder classifies each as malformed/truncated (client must return an error), well formed (client must return exactly the reported bound address) or undetermined")
		c.Rule("segments (deviation-bounded fault enumeration over how the server's bytes ARRIVE): default run = every Read returns all the conforming server has sent; deviation = one cut offset in the server->client byte stream (method-selection reply, RFC 1929 auth reply, CONNECT reply header, FQDN length, bound address, port) at which a Read stops, i.e. the conn returns exactly one segment per Read. EVERY placement of 0, 1 and 2 cuts over the whole stream (streams > 64 bytes, i.e. the 255-byte bound name: 0 and 1 cut in quick, 2 in thorough) x destination {1.2.3.4, ::1, names of 1/11/255 bytes} x {no auth, user/pass offered with server method 0 or 2} x bound address {IPv4 x3 incl. header-like bytes, IPv6, FQDN of 0/1/3/11/255 bytes} x the 5 APIs x reply code {0, 1, 8}; plus the success stream closed by the server after every t < length bytes with every <= 1 cut before t (thorough 2; streams > 64 bytes: 0, thorough 1). oracle: complete success stream -> no error, exactly the reported bound address, the open transport conn, no reply byte left unread; failure code or early close -> error; the request decoded by the server is the requested one in every case. A failing case is attributed to the smallest failing subset of its cuts (signature = field the cut falls in). non-trivial = the result was compared after the server decoded the CONNECT request, or a required error was returned")
		c.Assume("port 0: RFC 1928 can encode it; the client may refuse it (accepted) but if it sends a request it must carry port 0")
		c.Assume("::ffff:1.2.3.4 may be sent as ATYP IPv4 1.2.3.4 or as the 16-byte IPv6 address; an IP literal sent as ATYP DOMAINNAME with the identical text is accepted as the same destination")
		c.Assume("a server selecting a method the client did not offer is classified 'undetermined' (only absence of panics/hangs is checked); empty user names/passwords, IPv6 zone identifiers, empty host names and non-numeric ports are not enumerated")
		c.Assume("the in-memory conn never blocks: reading past the scripted bytes is EOF; deadlines are no-ops; no wall-clock time is involved")
		c.Assume("segments: at most 2 cuts per run (3 or more, e.g. byte-by-byte delivery, are not enumerated); the client's own writes are never split (Write accepts everything); the server sends no tunnel payload behind its reply, so over-reading past the reply is not observable; port 80 only")

		// ---- part request
		vx.Enumerate(c, "request", vx.Opts{}, func(yield func(c54ReqCase) bool) {
			for api := 0; api < c54NAPI; api++ {
				for d := range c54Dests {
					for _, port := range c54PortsA {
						for a := range c54Auths {
							for _, method := range []int{0, 2} {
								if method == 2 && c54Auths[a] == nil {
									continue
								}
								for b := range c54Bounds {
									if !yield(c54ReqCase{Dest: d, Port: port, Auth: a, Method: method, Bound: b, API: api}) {
										return
									}
								}
							}
						}
					}
				}
			}
		}, c54CheckRequest)

		// ---- part replies
		alpha1 := []byte{0, 1, 2, 3, 4, 5, 0xff}
		alpha2 := []byte{0, 1, 3, 4, 5, 0xff}
		max1 := vx.Pick(c, 5, 6) // complete: every string over alpha1 up to this length
		max2 := vx.Pick(c, 6, 8) // complete: [05 00] + every string over alpha2 up to this length
		c.Note("replies.complete_len_alpha7", max1)
		c.Note("replies.complete_len_after_0500_alpha6", max2)
		inComplete := func(s []byte) bool {
			if len(s) <= max1 && len(bytes.Trim(s, string(alpha1))) == 0 {
				return true
			}
			return len(s) >= 2 && s[0] == 5 && s[1] == 0 && len(s)-2 <= max2 && len(bytes.Trim(s[2:], string(alpha2))) == 0
		}
		apis := []int{c54DialContextBG, c54DialContextVal, c54Dial, c54DialWithConn}
		vx.Enumerate(c, "replies", vx.Opts{}, func(yield func(c54ReplyCase) bool) {
			put := func(auth bool, s []byte) bool {
				for _, api := range apis {
					if !yield(c54ReplyCase{Auth: auth, Stream: hex.EncodeToString(s), API: api}) {
						return false
					}
				}
				return true
			}
			for _, auth := range []bool{false, true} {
				// complete enumeration of short reply strings (the two sets are made disjoint)
				if !vx.Strings(alpha1, 0, max1, func(s []byte) bool { return put(auth, s) }) {
					return
				}
				if !vx.Strings(alpha2, 0, max2, func(s []byte) bool {
					full := append([]byte{5, 0}, s...)
					if len(full) <= max1 {
						return true // already in the first set
					}
					return put(auth, full)
				}) {
					return
				}
			}
			// structured: truncations and single-byte mutations of well-formed transcripts
			seen := map[string]bool{}
			emit := func(auth bool, s []byte) bool {
				k := fmt.Sprintf("%v/%x", auth, s)
				if seen[k] || inComplete(s) {
					return true
				}
				seen[k] = true
				return put(auth, s)
			}
			bounds := append([]c54Bound{}, c54Bounds...)
			bounds = append(bounds, c54Bound{atyp: 3, addr: nil, port: 80, label: "fqdn-len0"}, c54Bound{atyp: 3, addr: []byte("x"), port: 80, label: "fqdn-len1"})
			for _, auth := range []bool{false, true} {
				for _, method := range []byte{0, 2} {
					if method == 2 && !auth {
						continue
					}
					for _, b := range bounds {
						base := []byte{5, method}
						if method == 2 {
							base = append(base, 1, 0)
						}
						repOff := len(base) + 1
						base = append(base, b.encode()...)
						// truncations (including the complete transcript and transcript + trailing bytes)
						for n := 0; n <= len(base); n++ {
							if !emit(auth, base[:n]) {
								return
							}
						}
						if !emit(auth, append(append([]byte{}, base...), 0x16, 0x03)) {
							return
						}
						// single-byte mutations
						for i := range base {
							for _, v := range []byte{0x00, 0xff, base[i] + 1} {
								m := append([]byte{}, base...)
								m[i] = v
								if !emit(auth, m) {
									return
								}
							}
						}
						// reply codes
						for code := 0; code <= 10; code++ {
							m := append([]byte{}, base...)
							m[repOff] = byte(code)
							if code == 10 {
								m[repOff] = 0xff
							}
							if !emit(auth, m) {
								return
							}
						}
					}
				}
			}
		}, c54CheckReplies)

		// ---- part segments
		c.Note("segments.max_cuts", 2)
		c.Note("segments.max_cuts_streams_over_64_bytes", vx.Pick(c, 1, 2))
		c.Note("segments.max_cuts_with_early_close", vx.Pick(c, 1, 2))
		c.Note("segments.max_cuts_with_early_close_streams_over_64_bytes", vx.Pick(c, 0, 1))
		vx.Enumerate(c, "segments", vx.Opts{}, func(yield func(c54SegCase) bool) { c54GenSegments(c, yield) }, c54CheckSegments)
	})
}
