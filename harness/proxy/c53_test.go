package proxy

import (
	"context"
	"errors"
	"fmt"
	"net"
	"strings"
	"sync"
	"testing"

	"golang.org/x/net/internal/zzverif/vx"
)

// C53 — proxy.PerHost routes each host by its documented bypass rules.
//
// Every configuration of <= 3 (thorough <= 4) entries from a structured entry
// alphabet is installed on a fresh PerHost (through AddFromString with one
// joined string, AddFromString once per entry, or the AddIP/AddNetwork/
// AddZone/AddHost calls), then every address of a dialled-host table is dialled
// through Dial and DialContext. Two recording dialers observe which one is
// used. The reference never parses a configuration string: each alphabet
// entry carries its meaning (kind + bytes/bits/name) typed by hand.
//
// The dialled-host table also contains IP literals whose *text* would satisfy
// a zone or host rule if the literal were (wrongly) read as a name: IPv6
// literals with a zone identifier that ends in / equals an added zone or host
// name, and an IPv4 literal whose dotted text ends in an added zone or equals
// a string handed to AddHost. An IP literal is routed by the IP and network
// rules only, so they use the default dialer unless such a rule contains them.

type c53Kind int

const (
	c53IP c53Kind = iota
	c53CIDR
	c53Zone
	c53Host
	c53Ignored // empty or malformed entry: "errors are ignored"
)

type c53Entry struct {
	text   string  // as written in an AddFromString value
	kind   c53Kind //
	ip     []byte  // c53IP, c53CIDR: 4 or 16 bytes
	bits   int     // c53CIDR: prefix length
	name   string  // c53Zone ("*.name"), c53Host
	spaced bool    // written with surrounding white space: handling is not documented
	direct bool    // expressible only through the direct Add* calls (AddFromString would read the text as another kind)
	label  string
}

var c53V6one = []byte{0, 0, 0, 0, 0, 0, 0, 0, 0, 0, 0, 0, 0, 0, 0, 1}
var c53V6db8 = []byte{0x20, 0x01, 0x0d, 0xb8, 0, 0, 0, 0, 0, 0, 0, 0, 0, 0, 0, 0}
var c53V6zero = make([]byte, 16)

// simplest first
var c53Entries = []c53Entry{
	{text: "1.2.3.4", kind: c53IP, ip: []byte{1, 2, 3, 4}, label: "ip4"},
	{text: "1.2.3.0/24", kind: c53CIDR, ip: []byte{1, 2, 3, 0}, bits: 24, label: "cidr4"},
	{text: "*.zone.com", kind: c53Zone, name: "zone.com", label: "zone"},
	{text: "host", kind: c53Host, name: "host", label: "host"},
	{text: "::1", kind: c53IP, ip: c53V6one, label: "ip6"},
	{text: "zone.com", kind: c53Host, name: "zone.com", label: "host-dotted"},
	{text: "", kind: c53Ignored, label: "empty"},
	{text: "2001:db8::/32", kind: c53CIDR, ip: c53V6db8, bits: 32, label: "cidr6"},
	{text: "1.2.3.0/33", kind: c53Ignored, label: "bad-cidr"},
	{text: " host2 ", kind: c53Host, name: "host2", spaced: true, label: "host-spaced"},
	{text: "1.2.9.9/16", kind: c53CIDR, ip: []byte{1, 2, 9, 9}, bits: 16, label: "cidr4-hostbits"},
	{text: "a.zone.com", kind: c53Host, name: "a.zone.com", label: "host-sub"},
	// name rules whose text is a suffix of / equal to the text of a dialled IP literal
	{text: "*.3.5", kind: c53Zone, name: "3.5", label: "zone-numeric"},
	{text: "1.2.3.5", kind: c53Host, name: "1.2.3.5", direct: true, label: "host-ip4-text"}, // AddHost("1.2.3.5") only
	// thorough only from here
	{text: "0.0.0.0/0", kind: c53CIDR, ip: []byte{0, 0, 0, 0}, bits: 0, label: "cidr4-all"},
	{text: "::/0", kind: c53CIDR, ip: c53V6zero, bits: 0, label: "cidr6-all"},
	{text: "1.2.3.4/32", kind: c53CIDR, ip: []byte{1, 2, 3, 4}, bits: 32, label: "cidr4-single"},
	{text: "zone.com/8", kind: c53Ignored, label: "bad-cidr-name"},
	{text: "*.com", kind: c53Zone, name: "com", label: "zone-tld"},
}

const c53QuickEntries = 14

type c53Dialled struct {
	host  string // as it appears in the address (IPv6 in brackets)
	ip    []byte // nil for a name
	name  string // for names
	zoned bool   // IPv6 literal with a zone identifier (ip = the address without it)
	label string // abstract class used in signatures
}

var c53Hosts = []c53Dialled{
	{host: "1.2.3.4", ip: []byte{1, 2, 3, 4}, label: "ip4"},
	{host: "1.2.3.5", ip: []byte{1, 2, 3, 5}, label: "ip4"},
	{host: "1.2.4.4", ip: []byte{1, 2, 4, 4}, label: "ip4"},
	{host: "1.3.3.4", ip: []byte{1, 3, 3, 4}, label: "ip4"},
	{host: "9.2.3.4", ip: []byte{9, 2, 3, 4}, label: "ip4"},
	{host: "[::1]", ip: c53V6one, label: "ip6"},
	{host: "[0:0:0:0:0:0:0:1]", ip: c53V6one, label: "ip6-long-form"},
	{host: "[::2]", ip: []byte{0, 0, 0, 0, 0, 0, 0, 0, 0, 0, 0, 0, 0, 0, 0, 2}, label: "ip6"},
	{host: "[2001:db8::1]", ip: []byte{0x20, 0x01, 0x0d, 0xb8, 0, 0, 0, 0, 0, 0, 0, 0, 0, 0, 0, 1}, label: "ip6"},
	{host: "[2001:db9::1]", ip: []byte{0x20, 0x01, 0x0d, 0xb9, 0, 0, 0, 0, 0, 0, 0, 0, 0, 0, 0, 1}, label: "ip6"},
	{host: "[102:304::]", ip: []byte{1, 2, 3, 4, 0, 0, 0, 0, 0, 0, 0, 0, 0, 0, 0, 0}, label: "ip6-looks-like-ip4-bytes"},
	{host: "zone.com", name: "zone.com", label: "name"},
	{host: "a.zone.com", name: "a.zone.com", label: "name"},
	{host: "b.a.zone.com", name: "b.a.zone.com", label: "name"},
	{host: "azone.com", name: "azone.com", label: "name-suffix-without-dot"},
	{host: "zone.com.evil", name: "zone.com.evil", label: "name-zone-not-at-end"},
	{host: "a.zone.com.evil", name: "a.zone.com.evil", label: "name-zone-not-at-end"},
	{host: "com", name: "com", label: "name"},
	{host: "one.com", name: "one.com", label: "name-is-suffix-of-zone"},
	{host: "host", name: "host", label: "name"},
	{host: "host2", name: "host2", label: "name-host-is-prefix"},
	{host: "ahost", name: "ahost", label: "name-host-is-suffix"},
	{host: "a.host", name: "a.host", label: "name-host-is-suffix"},
	{host: "HOST", name: "HOST", label: "name-case-differs"},
	{host: "A.Zone.Com", name: "A.Zone.Com", label: "name-case-differs"},
	// a name below the numeric zone (1.2.3.5 above is the IP literal whose text ends in it)
	{host: "x.3.5", name: "x.3.5", label: "name"},
	// IPv6 literals with a zone identifier: IP literals, never names
	{host: "[::1%a.zone.com]", ip: c53V6one, zoned: true, label: "ip6-zone-id-ends-in-zone"},
	{host: "[::1%.zone.com]", ip: c53V6one, zoned: true, label: "ip6-zone-id-ends-in-zone"},
	{host: "[2001:db9::1%25.zone.com]", ip: []byte{0x20, 0x01, 0x0d, 0xb9, 0, 0, 0, 0, 0, 0, 0, 0, 0, 0, 0, 1}, zoned: true, label: "ip6-zone-id-ends-in-zone"},
	{host: "[::1%zone.com]", ip: c53V6one, zoned: true, label: "ip6-zone-id-equals-name"},
	{host: "[::1%host]", ip: c53V6one, zoned: true, label: "ip6-zone-id-equals-name"},
}

var c53Ports = []string{"80", "443"}

type c53Case struct {
	Cfg  []int `json:"config_entries"` // indices into c53Entries
	Via  int   `json:"via"`            // 0 AddFromString(joined), 1 AddFromString per entry, 2 direct Add* (4-byte IPv4), 3 direct Add* (16-byte IPv4)
	Host int   `json:"host"`           // index into c53Hosts
	Port int   `json:"port"`
	Mode int   `json:"mode"` // 0 Dial; 1 DialContext, dialers without DialContext; 2 DialContext, dialers with DialContext
	Conn bool  `json:"dialer_returns_conn"`
}

func (x c53Case) String() string {
	var cfg []string
	for _, i := range x.Cfg {
		cfg = append(cfg, fmt.Sprintf("%q", c53Entries[i].text))
	}
	return fmt.Sprintf("config=[%s] via=%d dial=%s:%s mode=%d", strings.Join(cfg, ","), x.Via, c53Hosts[x.Host].host, c53Ports[x.Port], x.Mode)
}

// --- reference predicate

func c53PrefixEqual(a, b []byte, bits int) bool {
	if len(a) != len(b) {
		return false
	}
	for i := 0; i < bits; i++ {
		if (a[i/8]>>(7-uint(i%8)))&1 != (b[i/8]>>(7-uint(i%8)))&1 {
			return false
		}
	}
	return true
}

// c53Matches: does entry e make dialled host d use the bypass dialer?
// fold selects the (undocumented) case-insensitive reading of name equality;
// zoneStrip selects, for a dialled literal with a zone identifier, the reading
// "compare the address, ignore the zone identifier" against added IPv6
// addresses/networks (the other reading: such a literal is in none of them).
// Neither reading lets a literal match a zone or host rule.
func c53Matches(e c53Entry, d c53Dialled, fold, zoneStrip bool) (bool, string) {
	eq := func(a, b string) bool {
		if fold {
			return strings.EqualFold(a, b)
		}
		return a == b
	}
	if d.zoned && !zoneStrip && (e.kind == c53IP || e.kind == c53CIDR) {
		return false, ""
	}
	switch e.kind {
	case c53IP:
		if d.ip != nil && c53PrefixEqual(e.ip, d.ip, 8*len(e.ip)) {
			return true, "ip-equal"
		}
	case c53CIDR:
		if d.ip != nil && c53PrefixEqual(e.ip, d.ip, e.bits) {
			return true, "cidr-contains"
		}
	case c53Zone:
		if d.ip == nil {
			if eq(d.name, e.name) {
				return true, "zone-apex"
			}
			if len(d.name) > len(e.name)+1 && eq(d.name[len(d.name)-len(e.name)-1:], "."+e.name) {
				return true, "zone-subdomain"
			}
		}
	case c53Host:
		if d.ip == nil && eq(d.name, e.name) {
			return true, "host-equal"
		}
	}
	return false, ""
}

func c53Ref(cfg []int, d c53Dialled, fold, spacedCount, zoneStrip bool) (bool, string) {
	for _, i := range cfg {
		e := c53Entries[i]
		if e.spaced && !spacedCount {
			continue
		}
		if m, why := c53Matches(e, d, fold, zoneStrip); m {
			return true, e.label + ":" + why
		}
	}
	return false, ""
}

// --- recording dialers

type c53Conn struct{ net.Conn }

type c53Rec struct {
	mu      sync.Mutex
	calls   int
	ctxUsed int
	network string
	addr    string
	ctx     context.Context
	err     error
	conn    net.Conn
}

func (r *c53Rec) Dial(network, addr string) (net.Conn, error) {
	r.mu.Lock()
	defer r.mu.Unlock()
	r.calls++
	r.network, r.addr = network, addr
	return r.conn, r.err
}

type c53CtxRec struct{ c53Rec }

func (r *c53CtxRec) DialContext(ctx context.Context, network, addr string) (net.Conn, error) {
	r.mu.Lock()
	defer r.mu.Unlock()
	r.calls++
	r.ctxUsed++
	r.ctx = ctx
	r.network, r.addr = network, addr
	return r.conn, r.err
}

type c53CtxKey struct{}

func c53Check(w *vx.W, x c53Case) {
	d := c53Hosts[x.Host]
	// all readings of the undocumented points must agree, else the case is excluded
	want, why := c53Ref(x.Cfg, d, false, true, true)
	if o, _ := c53Ref(x.Cfg, d, false, true, false); o != want {
		// only reachable when an added IPv6 address/network contains the address of a zoned literal
		w.Outcome("excluded:zoned-literal-inside-added-ipv6-address-or-network")
		return
	}
	for _, fold := range []bool{false, true} {
		for _, sp := range []bool{false, true} {
			for _, zs := range []bool{false, true} {
				if o, _ := c53Ref(x.Cfg, d, fold, sp, zs); o != want {
					w.Outcome("excluded:depends-on-undocumented-case-or-space-handling")
					return
				}
			}
		}
	}

	var defR, bypR *c53Rec
	var defD, bypD Dialer
	if x.Mode == 2 {
		a, b := &c53CtxRec{}, &c53CtxRec{}
		defR, bypR, defD, bypD = &a.c53Rec, &b.c53Rec, a, b
	} else {
		a, b := &c53Rec{}, &c53Rec{}
		defR, bypR, defD, bypD = a, b, a, b
	}
	defErr, bypErr := errors.New("c53 default dialer"), errors.New("c53 bypass dialer")
	var defConn, bypConn net.Conn
	if x.Conn {
		defConn, bypConn = &c53Conn{}, &c53Conn{}
		defR.conn, bypR.conn = defConn, bypConn
	} else {
		defR.err, bypR.err = defErr, bypErr
	}

	p := NewPerHost(defD, bypD)
	switch x.Via {
	case 0:
		var parts []string
		for _, i := range x.Cfg {
			parts = append(parts, c53Entries[i].text)
		}
		// an empty configuration is the empty string
		p.AddFromString(strings.Join(parts, ","))
	case 1:
		for _, i := range x.Cfg {
			p.AddFromString(c53Entries[i].text)
		}
	default:
		for _, i := range x.Cfg {
			e := c53Entries[i]
			switch e.kind {
			case c53IP:
				ip := net.IP(append([]byte(nil), e.ip...))
				if x.Via == 3 && len(ip) == 4 {
					ip = net.IPv4(ip[0], ip[1], ip[2], ip[3]) // 16-byte form of the same address
				}
				p.AddIP(ip)
			case c53CIDR:
				mask := net.CIDRMask(e.bits, 8*len(e.ip))
				ip := net.IP(append([]byte(nil), e.ip...)).Mask(mask)
				p.AddNetwork(&net.IPNet{IP: ip, Mask: mask})
			case c53Zone:
				p.AddZone(e.name)
			case c53Host:
				p.AddHost(e.name)
			}
		}
	}

	addr := net.JoinHostPort(strings.Trim(d.host, "[]"), c53Ports[x.Port])
	if strings.HasPrefix(d.host, "[") && addr != d.host+":"+c53Ports[x.Port] {
		panic("c53: harness address construction")
	}
	ctx := context.WithValue(context.Background(), c53CtxKey{}, x.Host)
	var conn net.Conn
	var err error
	if x.Mode == 0 {
		conn, err = p.Dial("tcp", addr)
	} else {
		conn, err = p.DialContext(ctx, "tcp", addr)
	}

	defR.mu.Lock()
	bypR.mu.Lock()
	defer defR.mu.Unlock()
	defer bypR.mu.Unlock()
	sit := d.label
	if want {
		sit = why
	}
	switch {
	case defR.calls+bypR.calls == 0:
		w.Failf("C53/calls/no-dialer-used:"+sit, "%v: neither dialer was called (err=%v)", x, err)
		return
	case defR.calls > 0 && bypR.calls > 0:
		w.Failf("C53/calls/both-dialers-used:"+sit, "%v: default called %d times, bypass %d times", x, defR.calls, bypR.calls)
		return
	case defR.calls+bypR.calls > 1:
		w.Failf("C53/calls/dialled-more-than-once:"+sit, "%v: default called %d times, bypass %d times", x, defR.calls, bypR.calls)
		return
	}
	gotBypass := bypR.calls == 1
	if gotBypass != want {
		if want {
			w.Failf("C53/route/default-used-want-bypass:"+sit, "%v: the default dialer was used, but the host matches entry %s", x, why)
		} else {
			w.Failf("C53/route/bypass-used-want-default:"+sit, "%v: the bypass dialer was used, but no configured entry matches the host", x)
		}
		return
	}
	used, usedErr, usedConn := defR, defErr, defConn
	if gotBypass {
		used, usedErr, usedConn = bypR, bypErr, bypConn
	}
	if used.network != "tcp" || used.addr != addr {
		w.Failf("C53/calls/arguments-changed", "%v: dialer received (%q, %q), want (\"tcp\", %q)", x, used.network, used.addr, addr)
		return
	}
	if x.Conn {
		if conn != usedConn || err != nil {
			w.Failf("C53/result/not-the-dialers-result", "%v: returned (%v, %v), the selected dialer returned its conn and nil", x, conn, err)
			return
		}
	} else if conn != nil || err != usedErr {
		w.Failf("C53/result/not-the-dialers-result", "%v: returned (%v, %v), the selected dialer returned (nil, %v)", x, conn, err, usedErr)
		return
	}
	if x.Mode == 2 && used.ctxUsed == 1 && used.ctx.Value(c53CtxKey{}) != x.Host {
		w.Failf("C53/calls/context-not-passed", "%v: DialContext of the selected dialer received a different context", x)
		return
	}
	if len(x.Cfg) > 0 {
		w.Nontrivial()
	}
	if want {
		w.Outcome("bypass:" + why[strings.Index(why, ":")+1:])
	} else if d.zoned {
		w.Outcome("default:ip-with-zone-id")
	} else if d.ip != nil {
		w.Outcome("default:ip")
	} else {
		w.Outcome("default:name")
	}
}

func TestVerif_C53(t *testing.T) {
	vx.Run(t, "C53", func(c *vx.Ctx) {
		nEnt := vx.Pick(c, c53QuickEntries, len(c53Entries))
		maxCfg := vx.Pick(c, 3, 4)
		var names []string
		for _, e := range c53Entries[:nEnt] {
			names = append(names, fmt.Sprintf("%q", e.text))
		}
		var hosts []string
		for _, h := range c53Hosts {
			hosts = append(hosts, h.host)
		}
		c.Rule(fmt.Sprintf("every ordered configuration of <= %d entries from {%s} installed on a fresh PerHost in 4 ways (AddFromString joined by commas; AddFromString per entry; AddIP/AddNetwork/AddZone/AddHost with 4-byte and with 16-byte IPv4; the entry AddHost(\"1.2.3.5\") only in the direct ways, empty/malformed/spaced entries only in the AddFromString ways) x every dialled host of {%s} x ports {80,443} x {Dial, DialContext with plain dialers, DialContext with ContextDialers}; two recording dialers; oracle: exactly one dialer is called exactly once with the unchanged (network, addr), it is bypass iff a structured reference predicate (IP equality, prefix containment within the same address family, zone apex/subdomain, host equality; zone and host rules apply to names only, so a dialled IP literal - including an IPv6 literal with a zone identifier whose text ends in / equals an added zone or host name, and an IPv4 literal whose text ends in an added zone or equals an AddHost string - is routed by the IP and network entries alone) holds, and its result is returned; non-trivial = a non-empty configuration was routed and compared",
			maxCfg, strings.Join(names, " "), strings.Join(hosts, " ")))
		c.Assume("undocumented points are excluded, not guessed: a case is skipped (outcome excluded:…) when its expected route differs between case-sensitive and case-insensitive name comparison, or between trimming and ignoring an entry written with surrounding white space")
		c.Assume("a dialled IPv6 literal with a zone identifier is an IP literal; whether an added IPv6 address/network that contains its address (zone identifier ignored) makes it bypass is not settled by the statement: such cases are skipped (outcome excluded:zoned-literal-inside-added-ipv6-address-or-network); with no such entry (no IPv6 entries, IPv4 entries only, or IPv6 entries not containing the address) no IP or network contains it under either reading and the default dialer is required whatever zone/host entries are present")
		c.Assume("not enumerated because neither the statement nor the package documentation settles them: IPv6 zone identifiers in entries, IPv4-mapped IPv6 addresses against IPv4 entries, trailing dots on dialled names or entries, names with leading dots, IP-literal strings passed to AddZone or other than one IPv4 string passed to AddHost, addresses without a port (SplitHostPort error), IDNA names")
		c.Assume("a CIDR entry with host bits set (1.2.9.9/16) denotes the network of that prefix length containing the address")
		c.Note("config_entries", nEnt)
		c.Note("dialled_hosts", len(c53Hosts))

		idx := make([]int, nEnt)
		for i := range idx {
			idx[i] = i
		}
		vx.Enumerate(c, "route", vx.Opts{}, func(yield func(c53Case) bool) {
			vx.Strings(idx, 0, maxCfg, func(cfg []int) bool {
				for via := 0; via < 4; via++ {
					// direct calls cannot express ignored/spaced entries, AddFromString cannot
					// express direct-only entries; skip configs that contain them
					skip := false
					for _, i := range cfg {
						e := c53Entries[i]
						if via >= 2 && (e.kind == c53Ignored || e.spaced) || via < 2 && e.direct {
							skip = true
						}
					}
					if skip {
						continue
					}
					for h := range c53Hosts {
						for port := range c53Ports {
							for mode := 0; mode < 3; mode++ {
								// the dialer's return flavour alternates deterministically with the case shape
								conn := (h+port+mode+len(cfg))%2 == 0
								if !yield(c53Case{Cfg: cfg, Via: via, Host: h, Port: port, Mode: mode, Conn: conn}) {
									return false
								}
							}
						}
					}
				}
				return true
			})
		}, c53Check)
	})
}
