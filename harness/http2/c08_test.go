//go:build !(go1.27 && !http2legacy)

package http2_test

// C08 — the HTTP/2 server never sends DATA beyond the client's flow-control
// windows or SETTINGS_MAX_FRAME_SIZE, and pending response data is sent once
// the windows allow it.
//
// EV exploration (DESIGN.md §2.2/§3 C08): every sequence of client/handler
// events up to a depth (legality-pruned by a predictive model, decided at run
// time on the real state), each on a fresh real server in its own bubble. The
// monitor is the client's view of its receive windows per RFC 7540 §6.9.

import (
	"fmt"
	"net/http"
	"testing"
	"testing/synctest"

	. "golang.org/x/net/http2"
	"golang.org/x/net/internal/zzverif/vx"
)

const (
	c08MaxWin  = 1<<31 - 1
	c08BigMFS  = 1<<24 - 1
	c08InitWin = 65535
	c08InitMFS = 16384
)

// ---------------------------------------------------------------------------
// Predictive model: used only to prune the enumeration (which events are
// worth issuing after a prefix). Legality at run time is decided on the real
// state; a model/real disagreement makes the event a no-op, never an alarm.

type c08mStream struct {
	opened, alive bool  // alive: in the server's stream table
	idle          bool  // handler waiting for a command
	win           int64 // stream send window
	pend          int64 // handler bytes not yet on the wire
}

type c08Model struct {
	cw    int64
	iw    int64
	mfs   int64
	dead  bool // GOAWAY with an error code expected
	fuzzy bool // two streams competed for the connection window: split unknown
	gs    bool // the server has started a graceful shutdown (GOAWAY NO_ERROR): no new streams
	s     [2]c08mStream
	par   [2]int64 // RFC 7540 §5.3 parent the client last signalled for each stream (0 = root); prunes no-op PRI events only
}

func c08NewModel() *c08Model {
	return &c08Model{cw: c08InitWin, iw: c08InitWin, mfs: c08InitMFS}
}

func c08Idx(id int64) int { return int(id-1) / 2 }

func (m *c08Model) flush() {
	var want [2]int64
	n := 0
	var sum int64
	for i := range m.s {
		s := &m.s[i]
		if !s.alive || s.pend == 0 {
			continue
		}
		w := min(s.pend, s.win)
		if w > 0 {
			want[i] = w
			sum += w
			n++
		}
	}
	if n == 2 && sum > m.cw && m.cw > 0 {
		m.fuzzy = true
	}
	for i := range m.s {
		s := &m.s[i]
		w := min(want[i], m.cw)
		if w > 0 {
			s.pend -= w
			s.win -= w
			m.cw -= w
		}
		if s.alive && s.pend == 0 {
			s.idle = true
		}
	}
}

// enabled reports whether the model considers ev worth issuing.
func (m *c08Model) enabled(ev c08srvEv) bool {
	if m.dead {
		return false
	}
	switch ev.K {
	case "SETIW":
		return ev.arg(0) != m.iw
	case "SETMFS":
		return ev.arg(0) != m.mfs
	case "H":
		// a stream opened after a graceful GOAWAY is beyond its last stream id:
		// the server ignores it and the property says nothing about it
		if m.s[1].opened || m.gs {
			return false
		}
		// H(dep): the new stream names an earlier stream as its parent (the
		// parent may have finished already: both states of the parent node)
		return ev.arg(0) == 0 || (ev.arg(0) == 1 && m.s[0].opened)
	case "PRI":
		// re-prioritise a live stream under the other stream, unless it is there already
		s, d := ev.arg(0), ev.arg(1)
		return s != d && m.s[c08Idx(s)].alive && m.s[c08Idx(d)].opened && m.par[c08Idx(s)] != d
	case "GS":
		// worth issuing once, while some response can still be in progress
		return !m.gs && (m.s[0].alive || m.s[1].alive)
	case "W", "DONE":
		s := &m.s[c08Idx(ev.arg(0))]
		return s.alive && (s.idle || m.fuzzy)
	case "WU":
		// A connection-level WINDOW_UPDATE is always possible. A stream-level one
		// is explored for a stream in every RFC 9113 §5.1 state: open/half-closed
		// (grants stream window), closed by END_STREAM or by a RST_STREAM of either
		// side (legal for a short period after the close, §5.1 "closed": the
		// client's update crosses the server's END_STREAM; grants nothing) and idle
		// (a client protocol error that ends the connection; grants nothing).
		return true
	case "RST":
		return m.s[c08Idx(ev.arg(0))].alive
	}
	return false
}

func (m *c08Model) apply(ev c08srvEv) {
	switch ev.K {
	case "SETIW":
		d := ev.arg(0) - m.iw
		m.iw = ev.arg(0)
		for i := range m.s {
			if m.s[i].alive {
				m.s[i].win += d
				if m.s[i].win > c08MaxWin {
					m.dead = true
				}
			}
		}
		m.flush()
	case "SETMFS":
		m.mfs = ev.arg(0)
	case "H":
		i := 0
		if m.s[0].opened {
			i = 1
		}
		m.s[i] = c08mStream{opened: true, alive: true, idle: true, win: m.iw}
		m.par[i] = ev.arg(0)
	case "PRI":
		// RFC 7540 §5.3.3: a stream made dependent on its own dependent first
		// moves that dependent up to the stream's former parent
		s, d := c08Idx(ev.arg(0)), c08Idx(ev.arg(1))
		if m.par[d] == ev.arg(0) {
			m.par[d] = m.par[s]
		}
		m.par[s] = ev.arg(1)
	case "W":
		s := &m.s[c08Idx(ev.arg(0))]
		s.pend += ev.arg(1)
		s.idle = false
		m.flush()
	case "DONE":
		s := &m.s[c08Idx(ev.arg(0))]
		s.alive, s.idle = false, false
	case "WU":
		if ev.arg(0) == 0 {
			if m.cw+ev.arg(1) > c08MaxWin {
				m.dead = true
				return
			}
			m.cw += ev.arg(1)
		} else {
			s := &m.s[c08Idx(ev.arg(0))]
			if !s.opened {
				m.dead = true // idle stream: connection error PROTOCOL_ERROR (§5.1)
				return
			}
			if !s.alive {
				return // late frame on a closed stream: no window is affected
			}
			if s.win+ev.arg(1) > c08MaxWin {
				s.alive, s.idle = false, false // server resets the stream
				return
			}
			s.win += ev.arg(1)
		}
		m.flush()
	case "RST":
		s := &m.s[c08Idx(ev.arg(0))]
		s.alive, s.idle = false, false
	case "GS":
		m.gs = true
	}
}

func (m *c08Model) clone() *c08Model { c := *m; return &c }

// c08Alphabet lists the event menu, simplest first.
func c08Alphabet(iws, mfss, wsizes, wus []int64) []c08srvEv {
	var a []c08srvEv
	a = append(a, c08srvEv{K: "H"})
	for _, id := range []int64{1, 3} {
		for _, n := range wsizes {
			a = append(a, c08srvEv{K: "W", A: []int64{id, n}})
		}
	}
	for _, id := range []int64{0, 1, 3} {
		for _, k := range wus {
			a = append(a, c08srvEv{K: "WU", A: []int64{id, k}})
		}
	}
	for _, v := range iws {
		a = append(a, c08srvEv{K: "SETIW", A: []int64{v}})
	}
	for _, id := range []int64{1, 3} {
		a = append(a, c08srvEv{K: "DONE", A: []int64{id}})
	}
	for _, id := range []int64{1, 3} {
		a = append(a, c08srvEv{K: "RST", A: []int64{id}})
	}
	a = append(a, c08srvEv{K: "GS"})
	for _, v := range mfss {
		a = append(a, c08srvEv{K: "SETMFS", A: []int64{v}})
	}
	return a
}

// c08WithPrio extends an event menu with the RFC 7540 §5.3 priority signals
// that build a dependency between the two streams: H(1) = the second stream's
// HEADERS carry "depends on stream 1", PRI(s,d) = PRIORITY frame making s
// depend on d. (Only the RFC 7540 priority schedulers act on them.)
func c08WithPrio(a []c08srvEv) []c08srvEv {
	var out []c08srvEv
	for _, ev := range a {
		out = append(out, ev)
		if ev.K == "H" && len(ev.A) == 0 {
			out = append(out, c08srvEv{K: "H", A: []int64{1}})
		}
	}
	return append(out, c08srvEv{K: "PRI", A: []int64{3, 1}}, c08srvEv{K: "PRI", A: []int64{1, 3}})
}

func c08EvString(ev c08srvEv) string { return c08srvMk(ev.K, ev.A...) }

// c08Gen yields, for depth = 1..maxDepth (shortest first), every maximal
// model-legal event sequence of that depth after the seed.
func c08Gen(cfg c08srvCfg, seed []string, alpha []c08srvEv, minDepth, maxDepth int, onDepth func(d int), yield func(c08srvCase) bool) bool {
	base := c08NewModel()
	for _, s := range seed {
		ev, err := c08srvParse(s)
		if err != nil {
			panic(err)
		}
		base.apply(ev)
	}
	for depth := max(1, minDepth); depth <= maxDepth; depth++ {
		path := append([]string(nil), seed...)
		var rec func(m *c08Model, d int) bool
		rec = func(m *c08Model, d int) bool {
			if d == depth {
				return yield(c08srvCase{Cfg: cfg, SeedLen: len(seed), Evs: append([]string(nil), path...)})
			}
			for _, ev := range alpha {
				if !m.enabled(ev) {
					continue
				}
				m2 := m.clone()
				m2.apply(ev)
				path = append(path, c08EvString(ev))
				ok := rec(m2, d+1)
				path = path[:len(path)-1]
				if !ok {
					return false
				}
			}
			// (a sequence that becomes terminal before reaching this depth was
			// yielded in the iteration for its own length)
			return true
		}
		if !rec(base, 0) {
			return false
		}
		if onDepth != nil {
			onDepth(depth)
		}
	}
	return true
}

// ---------------------------------------------------------------------------
// Monitor: the client's view (RFC 7540 §6.9, §6.5.3).

type c08PendSet struct {
	hasIW  bool
	iwNew  int64
	iwOld  int64
	hasMFS bool
	mfsNew int64
	seq    int
}

type c08monStream struct {
	id       uint32
	born     int   // number of SETTINGS frames sent before the stream was opened
	base     int64 // window with every acknowledged SETTINGS applied
	written  int64 // bytes handlers were asked to write and flush
	onwire   int64 // DATA payload seen
	ended    bool  // server sent END_STREAM
	srvRST   bool
	cliRST   bool
	overflow bool // we sent a WINDOW_UPDATE overflowing this stream's window
}

func (s *c08monStream) alive() bool { return !s.ended && !s.srvRST && !s.cliRST }

type c08Monitor struct {
	pfx          string // signature prefix: "C08" (server sends) or "C09" (client sends)
	who          string
	cw           int64
	mfsAcked     int64
	iwSent       int64 // latest SETTINGS_INITIAL_WINDOW_SIZE sent
	setsSent     int
	pending      []c08PendSet // SETTINGS sent, not yet acknowledged
	streams      map[uint32]*c08monStream
	goaway       bool    // any GOAWAY seen
	goawayCode   ErrCode // the first error code seen in a GOAWAY (NO_ERROR while only graceful ones were seen)
	graceful     bool    // a GOAWAY(NO_ERROR) was seen: graceful shutdown, streams <= gsLast are still served
	gsLast       uint32  // last stream id of the first graceful GOAWAY
	connOverflow bool // we overflowed the connection window or a stream window through SETTINGS
	lastKind     string
}

func c08NewMonitor() *c08Monitor {
	return &c08Monitor{pfx: "C08", who: "server", cw: c08InitWin, mfsAcked: c08InitMFS, iwSent: c08InitWin, streams: map[uint32]*c08monStream{}}
}

// bound returns the largest stream window any prefix of the unacknowledged
// SETTINGS allows (the server may or may not have applied them yet).
func (m *c08Monitor) bound(s *c08monStream) int64 {
	w := s.base
	best := w
	for _, p := range m.pending {
		if p.hasIW && p.seq >= s.born {
			w += p.iwNew - p.iwOld
			if w > best {
				best = w
			}
		}
	}
	return best
}

func (m *c08Monitor) mfsBound() int64 {
	b := m.mfsAcked
	for _, p := range m.pending {
		if p.hasMFS && p.mfsNew > b {
			b = p.mfsNew
		}
	}
	return b
}

func c08Sign(v int64) string {
	switch {
	case v < 0:
		return "negative"
	case v == 0:
		return "zero"
	}
	return "positive"
}

// frame feeds one server frame to the monitor.
func (m *c08Monitor) frame(w *vx.W, f c08srvFrame, ctx string) {
	if int64(f.Len) > m.mfsBound() {
		w.Failf(m.pfx+"/max-frame-size/"+f.Type.String()+"-exceeds-limit", "%s: "+m.who+" sent %v with length %d > SETTINGS_MAX_FRAME_SIZE %d in force", ctx, f, f.Len, m.mfsBound())
	}
	switch f.Type {
	case FrameSettings:
		if f.Ack && len(m.pending) > 0 {
			p := m.pending[0]
			m.pending = m.pending[1:]
			if p.hasIW {
				for _, s := range m.streams {
					if p.seq >= s.born {
						s.base += p.iwNew - p.iwOld
					}
				}
			}
			if p.hasMFS {
				m.mfsAcked = p.mfsNew
			}
		}
	case FrameData:
		s := m.streams[f.Stream]
		if s == nil {
			w.Failf(m.pfx+"/stream-window/data-on-unopened-stream", "%s: %v on a stream that was never opened", ctx, f)
			return
		}
		n := int64(f.Len)
		if n > 0 {
			if b := m.bound(s); n > b {
				w.Failf(m.pfx+"/stream-window/exceeded/window-"+c08Sign(b)+"/after-"+m.lastKind, "%s: %v but the stream send window is %d (SETTINGS/WINDOW_UPDATE history applied)", ctx, f, b)
			}
			if n > m.cw {
				w.Failf(m.pfx+"/conn-window/exceeded/window-"+c08Sign(m.cw)+"/after-"+m.lastKind, "%s: %v but the connection send window is %d", ctx, f, m.cw)
			}
		}
		s.base -= n
		s.onwire += n
		m.cw -= n
		if f.End {
			s.ended = true
		}
	case FrameHeaders:
		if s := m.streams[f.Stream]; s != nil && f.End {
			s.ended = true
		}
	case FrameRSTStream:
		if s := m.streams[f.Stream]; s != nil {
			s.srvRST = true
		}
	case FrameGoAway:
		m.goaway = true
		if f.Code == ErrCodeNo && !m.graceful {
			m.graceful = true
			m.gsLast = f.Last
		}
		if m.goawayCode == ErrCodeNo {
			m.goawayCode = f.Code
		}
	}
}

// fatal reports whether the peer announced a connection error: from then on
// it sends nothing more and the windows are no longer meaningful. A graceful
// GOAWAY(NO_ERROR) is not fatal: RFC 7540 §6.8 has the sender complete every
// stream up to the last stream id it named, so window enforcement and progress
// still apply to those streams.
func (m *c08Monitor) fatal() bool { return m.goaway && m.goawayCode != ErrCodeNo }

// served reports whether the peer still has to serve stream s.
func (m *c08Monitor) served(s *c08monStream) bool { return !m.graceful || s.id <= m.gsLast }

// ---------------------------------------------------------------------------
// Runner.

type c08Result struct {
	trace            []string // every frame the endpoint wrote, in order (determinism probe)
	applied, skipped int
	dataFrames       int
	blockedSeen      bool
	overflowSeen     bool
	negWindowSeen    bool
	splitSeen        bool
	gracefulSeen     bool // the server sent GOAWAY(NO_ERROR)
	dataAfterGS      bool // DATA on a stream <= its last stream id after that GOAWAY
	blockedInGS      bool // a response was blocked on flow control at quiescence during the graceful shutdown
	budgetSplit      bool // a DATA frame shorter than MAX_FRAME_SIZE was followed, before the client did anything, by more DATA of the same stream: neither a window nor the frame size limit cut it, the write scheduler's byte budget did
	lateWUSeen       bool // a stream-level WINDOW_UPDATE was delivered for a closed stream (RFC 9113 §5.1 "closed")
	lateWUData       bool // ... and the server sent DATA (on another stream) afterwards
	lateWUConnBound  bool // ... and afterwards a response was blocked at quiescence by the connection window alone (its stream window positive)
	idleWUSeen       bool // a stream-level WINDOW_UPDATE was delivered for an idle stream
	budgetFull       bool // ... and later in the same burst a DATA frame of exactly MAX_FRAME_SIZE: the scheduler's budget had grown to (at least) the frame size limit
}

func c08RunCase(w *vx.W, t testing.TB, cs c08srvCase) (res c08Result, harnessErr string) {
	env := c08srvNew(t, cs.Cfg)
	defer func() {
		env.teardown()
		if harnessErr == "" {
			harnessErr = env.harnessErr
		}
	}()
	mon := c08NewMonitor()
	mon.lastKind = "preface"
	// our initial SETTINGS frame is empty: one pending entry, no values
	mon.pending = append(mon.pending, c08PendSet{seq: 0})
	mon.setsSent = 1

	step := func(ctx string) {
		synctest.Wait()
		var prevData *c08srvFrame // the previous DATA frame of this burst
		burstSplit := false
		for _, f := range env.drain() {
			if f.Type == FrameData {
				if prevData != nil && prevData.Stream == f.Stream && int64(prevData.Len) < mon.mfsAcked && f.Len > 0 {
					res.budgetSplit, burstSplit = true, true
				}
				if burstSplit && int64(f.Len) == mon.mfsAcked {
					res.budgetFull = true
				}
				f := f
				prevData = &f
			}
			if f.Type == FrameSettings && !f.Ack {
				// acknowledge the server's SETTINGS (not flow-control relevant)
				env.writeErr(env.st.fr.WriteSettingsAck())
			}
			if f.Type == FrameData {
				res.dataFrames++
				if res.lateWUSeen && f.Len > 0 {
					res.lateWUData = true
				}
				if mon.graceful && f.Stream <= mon.gsLast && f.Len > 0 {
					res.dataAfterGS = true
				}
			}
			res.trace = append(res.trace, f.String())
			mon.frame(w, f, ctx)
		}
		res.gracefulSeen = mon.graceful
		if env.wireErr != "" {
			w.Failf("C08/wire/unparseable-server-output", "%s: reading the server's output failed: %s", ctx, env.wireErr)
		}
	}
	step("preface")
	if w.Failed() || env.harnessErr != "" {
		return
	}

	quiescent := func(ctx string) {
		if mon.fatal() || env.connClosed {
			return
		}
		during := ""
		if mon.graceful {
			during = "/during-graceful-shutdown"
		}
		if len(mon.pending) > 0 {
			return // SETTINGS not acknowledged: C15's concern, windows ambiguous
		}
		// Progress (L4): nothing else can move: every goroutine is durably blocked.
		for _, s := range mon.streams {
			if !s.alive() || s.overflow || !mon.served(s) {
				continue
			}
			if s.base < 0 {
				res.negWindowSeen = true
			}
			if s.written > s.onwire {
				res.blockedSeen = true
				if res.lateWUSeen && s.base > 0 && mon.cw <= 0 {
					res.lateWUConnBound = true
				}
				if mon.graceful {
					res.blockedInGS = true
				}
				if s.base > 0 && mon.cw > 0 {
					w.Failf("C08/progress/stalled-with-open-windows/after-"+mon.lastKind+during, "%s: stream %d has %d handler bytes not on the wire although stream window=%d and connection window=%d are positive and the system is quiescent", ctx, s.id, s.written-s.onwire, s.base, mon.cw)
				}
			}
		}
		// White-box cross-check of the server's own counters.
		snap := env.st.sc.C08srvSnapshot()
		if !snap.OK || (snap.InGoAway && !(mon.graceful && ErrCode(snap.GoAwayCode) == ErrCodeNo)) {
			return
		}
		if int64(snap.ConnFlow) != mon.cw {
			w.Failf("C08/wb/conn-window-mismatch/after-"+mon.lastKind+during, "%s: sc.flow.n=%d but the RFC 7540 connection send window is %d", ctx, snap.ConnFlow, mon.cw)
		}
		for _, ss := range snap.Streams {
			s := mon.streams[ss.ID]
			if s == nil || !s.alive() || s.overflow || !mon.served(s) {
				continue
			}
			if int64(ss.Flow) != s.base {
				w.Failf("C08/wb/stream-window-mismatch/after-"+mon.lastKind+during, "%s: stream %d st.flow.n=%d but the RFC 7540 stream send window is %d", ctx, ss.ID, ss.Flow, s.base)
			}
		}
	}

	nextID := uint32(1)
	for i, es := range cs.Evs {
		ev, err := c08srvParse(es)
		if err != nil {
			return res, err.Error()
		}
		if mon.fatal() || env.connClosed {
			break
		}
		ctx := fmt.Sprintf("event %d %s", i, es)
		expectStreamFC, expectConnFC := uint32(0), false
		wasGraceful := mon.graceful
		applied := true
		wuKind := "WU-stream"
		switch ev.K {
		case "SETIW", "SETMFS":
			p := c08PendSet{seq: mon.setsSent}
			var set Setting
			if ev.K == "SETIW" {
				p.hasIW, p.iwNew, p.iwOld = true, ev.arg(0), mon.iwSent
				set = Setting{ID: SettingInitialWindowSize, Val: uint32(ev.arg(0))}
				for _, s := range mon.streams {
					// the server adjusts the streams it still has
					if s.alive() && !s.overflow && mon.bound(s)+p.iwNew-p.iwOld > c08MaxWin {
						expectConnFC = true
					}
				}
				mon.iwSent = ev.arg(0)
			} else {
				p.hasMFS, p.mfsNew = true, ev.arg(0)
				set = Setting{ID: SettingMaxFrameSize, Val: uint32(ev.arg(0))}
			}
			mon.pending = append(mon.pending, p)
			mon.setsSent++
			env.writeErr(env.st.fr.WriteSettings(set))
		case "GS":
			if mon.graceful {
				applied = false
				break
			}
			// what http.Server.Shutdown does to every HTTP/2 connection
			env.st.sc.StartGracefulShutdown()
		case "H":
			if nextID > 3 || mon.graceful {
				// (a stream opened after a graceful GOAWAY is beyond its last
				// stream id: not the property's concern, never issued)
				applied = false
				break
			}
			id := nextID
			dep := uint32(ev.arg(0))
			if dep >= id {
				// (a stream depending on itself or on an idle stream: never issued)
				applied = false
				break
			}
			nextID += 2
			mon.streams[id] = &c08monStream{id: id, born: mon.setsSent, base: mon.iwSent}
			if dep == 0 {
				env.headers(id, true)
			} else {
				env.headersDep(id, dep)
			}
		case "PRI":
			id, dep := uint32(ev.arg(0)), uint32(ev.arg(1))
			s := mon.streams[id]
			if s == nil || !s.alive() || mon.streams[dep] == nil || id == dep {
				applied = false
				break
			}
			env.writeErr(env.st.fr.WritePriority(id, PriorityParam{StreamDep: dep, Weight: 15}))
		case "W", "DONE":
			id := uint32(ev.arg(0))
			s, call := mon.streams[id], env.call(id)
			if s == nil || !s.alive() || call == nil || !call.idle() {
				applied = false
				break
			}
			if ev.K == "DONE" {
				env.finish(call)
				break
			}
			n := int(ev.arg(1))
			s.written += int64(n)
			env.do(call, func() {
				_, call.wrErr = call.w.Write(make([]byte, n))
				call.w.(http.Flusher).Flush()
			})
		case "WU":
			id, k := uint32(ev.arg(0)), ev.arg(1)
			if id == 0 {
				if mon.cw+k > c08MaxWin {
					expectConnFC = true
					mon.connOverflow = true
				} else {
					mon.cw += k
				}
			} else {
				s := mon.streams[id]
				switch {
				case s == nil:
					// RFC 9113 §5.1 "idle": a WINDOW_UPDATE here is a protocol error
					// of the client. Whatever the server makes of it, it grants
					// nothing: neither the connection window nor the window of a
					// stream opened later changes. (That the server answers with
					// GOAWAY(PROTOCOL_ERROR) is not this property's concern and is
					// not demanded; if it does the case ends there.)
					wuKind = "WU-idle-stream"
					res.idleWUSeen = true
				case !s.alive():
					// RFC 9113 §5.1 "closed": WINDOW_UPDATE may legally arrive for a
					// short period after the stream was closed (the client's update
					// crossing the server's END_STREAM or RST_STREAM). It grants
					// nothing: neither the connection window nor any other stream's
					// window changes.
					wuKind = "WU-closed-stream"
					res.lateWUSeen = true
				case mon.bound(s)+k > c08MaxWin:
					expectStreamFC = id
					s.overflow = true
					res.overflowSeen = true
				default:
					s.base += k
				}
			}
			env.writeErr(env.st.fr.WriteWindowUpdate(id, uint32(k)))
		case "RST":
			id := uint32(ev.arg(0))
			s := mon.streams[id]
			if s == nil || !s.alive() {
				applied = false
				break
			}
			s.cliRST = true
			env.writeErr(env.st.fr.WriteRSTStream(id, ErrCodeCancel))
		default:
			return res, "unknown event " + es
		}
		if !applied {
			res.skipped++
			continue
		}
		res.applied++
		mon.lastKind = ev.K
		if ev.K == "WU" {
			if ev.arg(0) == 0 {
				mon.lastKind = "WU-conn"
			} else {
				mon.lastKind = wuKind
			}
		}
		step(ctx)
		if env.harnessErr != "" {
			return
		}
		if expectConnFC {
			res.overflowSeen = true
			mon.connOverflow = true
			if wasGraceful {
				// The server's GOAWAY is already on the wire; whether it must
				// send a second one carrying the error is not this property's
				// concern. The client's view of the windows is undefined now:
				// the case ends (the frames of this step were checked above).
				return
			}
			if !(mon.goaway && mon.goawayCode == ErrCodeFlowControl) {
				w.Failf("C08/overflow/no-connection-flow-control-error/after-"+mon.lastKind, "%s: a flow-control window was pushed above 2^31-1 but the server did not send GOAWAY(FLOW_CONTROL_ERROR) (goaway=%v code=%v)", ctx, mon.goaway, mon.goawayCode)
			}
		}
		if expectStreamFC != 0 {
			s := mon.streams[expectStreamFC]
			if !(s.srvRST || (mon.goaway && mon.goawayCode == ErrCodeFlowControl)) {
				w.Failf("C08/overflow/no-stream-flow-control-error", "%s: the stream window was pushed above 2^31-1 but the server sent neither RST_STREAM nor GOAWAY(FLOW_CONTROL_ERROR)", ctx)
			}
		}
		if w.Failed() {
			return
		}
		quiescent(ctx)
		if w.Failed() {
			return
		}
	}
	return
}

func c08Check(c *vx.Ctx) func(w *vx.W, cs c08srvCase) {
	return func(w *vx.W, cs c08srvCase) {
		var res c08Result
		c08srvBubble(c, "case", func(t testing.TB) string {
			var herr string
			res, herr = c08RunCase(w, t, cs)
			return herr
		})
		c.AddStates(1)
		c.AddTraces(1)
		c.AddTransitions(int64(res.applied))
		if res.dataFrames > 0 {
			w.Nontrivial()
		}
		switch {
		case res.overflowSeen:
			w.Outcome("window-overflow")
		case res.blockedSeen && res.negWindowSeen:
			w.Outcome("blocked+negative-window")
		case res.blockedSeen:
			w.Outcome("blocked-on-flow-control")
		case res.dataFrames > 0:
			w.Outcome("data-unblocked")
		default:
			w.Outcome("no-data")
		}
		switch {
		case res.dataAfterGS:
			w.Outcome("graceful-shutdown:data-sent-after-goaway")
		case res.blockedInGS:
			w.Outcome("graceful-shutdown:blocked-on-flow-control")
		case res.gracefulSeen:
			w.Outcome("graceful-shutdown:nothing-pending")
		}
		switch {
		case res.budgetFull:
			w.Outcome("scheduler-byte-budget:grew-to-max-frame-size")
		case res.budgetSplit:
			w.Outcome("scheduler-byte-budget:split-below-max-frame-size")
		}
		switch {
		case res.lateWUConnBound:
			w.Outcome("window-update-on-closed-stream:later-response-bound-by-connection-window-alone")
		case res.lateWUData:
			w.Outcome("window-update-on-closed-stream:data-sent-afterwards")
		case res.lateWUSeen:
			w.Outcome("window-update-on-closed-stream:no-data-afterwards")
		case res.idleWUSeen:
			w.Outcome("window-update-on-idle-stream")
		}
		if res.skipped > 0 {
			w.Outcome("model-real-disagreement-skipped-event")
		}
	}
}

func TestVerif_C08(t *testing.T) {
	DisableGoroutineTracking(t) // debug-only goroutine-ownership assertions (stack parsing); no behavioural effect
	vx.Run(t, "C08", func(c *vx.Ctx) {
		iws := []int64{0, 3, 10, 65535}
		mfss := []int64{c08InitMFS, c08BigMFS}
		wus := []int64{1, 4, 100, c08MaxWin}
		small := []int64{1, 5, 20}
		big := []int64{1, 5, 20, 20000, 70000}
		type part struct {
			name  string
			cfg   c08srvCfg
			seed  []string
			alpha []c08srvEv
			depth int
			from  int // first depth to enumerate (shallower ones are covered by another part)
		}
		seedConn := []string{"H", "W(1,65530)"}                  // connection window 5 bytes from exhausted
		seedTwo := []string{"SETIW(3)", "H", "H", "W(1,5)"}      // two streams, handler 1 blocked on its stream window
		seedNeg := []string{"H", "W(1,20)", "SETIW(3)", "H"}     // stream 1 window negative (-17), stream 3 fresh
		seedBig := []string{"SETMFS(16777215)", "H", "WU(1,100000)", "WU(0,100000)"} // frame-size splitting territory
		// graceful shutdown under way (GOAWAY NO_ERROR, last stream id 3) with both responses blocked on their stream windows
		seedGS := []string{"SETIW(3)", "H", "H", "W(1,5)", "W(3,5)", "GS"}
		// Stream 1 completed and closed; every stream window (2^20) far above the
		// connection window, which is 5 bytes from exhausted: the connection window
		// alone is the binding limit for the next response, with a (late)
		// WINDOW_UPDATE for the closed stream 1 among the events before it.
		seedClosed := []string{"SETIW(1048576)", "H", "W(1,65530)", "DONE(1)"}
		// The write scheduler's byte budget (the n of FrameWriteRequest.Consume(n)) as a
		// third limit next to the windows and MAX_FRAME_SIZE. Every scheduler passes
		// MaxInt32 except the RFC 7540 priority scheduler with ThrottleOutOfOrderWrites
		// ("7540t"), whose budget for a stream below a still-open parent starts at 1024
		// and grows by 1024 per throttled frame of an uninterrupted burst. With client
		// windows far above any response (as browsers configure them) that budget is the
		// binding limit; response sizes on each side of it: below the initial budget,
		// above it, and long enough (> 1024*(2+...+16) + 16384 = 154624 bytes) for the
		// budget to pass the default MAX_FRAME_SIZE within one burst.
		seedWide := []string{"SETIW(1048576)", "WU(0,1048576)"}
		seedWideDep := []string{"SETIW(1048576)", "WU(0,1048576)", "H", "H(1)"} // stream 3 below the open stream 1
		budget := []int64{1000, 5000, 200000}
		wideAlpha := c08WithPrio(c08Alphabet([]int64{3, 65535}, mfss, budget, []int64{1, 100}))
		var parts []part
		if c.Quick() {
			parts = []part{
				{"9218/empty", c08srvCfg{Sched: "9218"}, nil, c08Alphabet(iws, mfss, small, wus), 4, 0},
				{"7540t/wide-windows", c08srvCfg{Sched: "7540t"}, seedWide, wideAlpha, 3, 0},
				{"rr/conn-nearly-full", c08srvCfg{Sched: "rr"}, seedConn, c08Alphabet(iws, nil, small, wus), 3, 0},
				{"9218/two-streams-blocked", c08srvCfg{Sched: "9218"}, seedTwo, c08Alphabet(iws, nil, small, wus), 3, 0},
				{"random/negative-window", c08srvCfg{Sched: "random"}, seedNeg, c08Alphabet(iws, nil, small, wus), 3, 0},
				{"7540/big-writes", c08srvCfg{Sched: "7540"}, seedBig, c08Alphabet([]int64{0, 65535}, mfss, big, []int64{1, 100}), 3, 0},
				{"9218/graceful-shutdown-blocked", c08srvCfg{Sched: "9218"}, seedGS, c08Alphabet(iws, nil, small, wus), 3, 0},
				{"7540t/wide-windows-dependent-stream", c08srvCfg{Sched: "7540t"}, seedWideDep, wideAlpha, 3, 0},
				{"rr/closed-stream-conn-window-binding", c08srvCfg{Sched: "rr"}, seedClosed, c08Alphabet(iws, nil, small, wus), 3, 0},
			}
		} else {
			// every scheduler at the quick bounds first, then the deeper levels
			for _, sch := range []string{"9218", "rr", "7540", "7540t", "random"} {
				// the priority signals are part of the menu where the scheduler acts on them
				wa := c08Alphabet([]int64{3, 65535}, mfss, budget, []int64{1, 100})
				if sch == "7540" || sch == "7540t" {
					wa = wideAlpha
				}
				parts = append(parts,
					part{sch + "/wide-windows", c08srvCfg{Sched: sch}, seedWide, wa, 3, 0},
					part{sch + "/wide-windows-dependent-stream", c08srvCfg{Sched: sch}, seedWideDep, wa, 3, 0},
				)
				parts = append(parts,
					part{sch + "/empty", c08srvCfg{Sched: sch}, nil, c08Alphabet(iws, mfss, small, wus), 4, 0},
					part{sch + "/conn-nearly-full", c08srvCfg{Sched: sch}, seedConn, c08Alphabet(iws, nil, small, wus), 3, 0},
					part{sch + "/two-streams-blocked", c08srvCfg{Sched: sch}, seedTwo, c08Alphabet(iws, nil, small, wus), 3, 0},
					part{sch + "/negative-window", c08srvCfg{Sched: sch}, seedNeg, c08Alphabet(iws, nil, small, wus), 3, 0},
					part{sch + "/big-writes", c08srvCfg{Sched: sch}, seedBig, c08Alphabet([]int64{0, 65535}, mfss, big, []int64{1, 100}), 3, 0},
					part{sch + "/graceful-shutdown-blocked", c08srvCfg{Sched: sch}, seedGS, c08Alphabet(iws, nil, small, wus), 3, 0},
					part{sch + "/closed-stream-conn-window-binding", c08srvCfg{Sched: sch}, seedClosed, c08Alphabet(iws, nil, small, wus), 3, 0},
				)
			}
			for _, sch := range []string{"9218", "rr"} {
				parts = append(parts,
					part{sch + "/deep/conn-nearly-full", c08srvCfg{Sched: sch}, seedConn, c08Alphabet(iws, nil, small, wus), 4, 4},
					part{sch + "/deep/big-writes", c08srvCfg{Sched: sch}, seedBig, c08Alphabet([]int64{0, 65535}, mfss, big, []int64{1, 100}), 4, 4},
					part{sch + "/deep/two-streams-blocked", c08srvCfg{Sched: sch}, seedTwo, c08Alphabet(iws, nil, small, wus), 4, 4},
					part{sch + "/deep/negative-window", c08srvCfg{Sched: sch}, seedNeg, c08Alphabet(iws, nil, small, wus), 4, 4},
					part{sch + "/deep/graceful-shutdown-blocked", c08srvCfg{Sched: sch}, seedGS, c08Alphabet(iws, nil, small, wus), 4, 4},
					part{sch + "/deep/closed-stream-conn-window-binding", c08srvCfg{Sched: sch}, seedClosed, c08Alphabet(iws, nil, small, wus), 4, 4},
				)
			}
			for _, sch := range []string{"7540", "7540t"} {
				parts = append(parts,
					part{sch + "/deep/wide-windows", c08srvCfg{Sched: sch}, seedWide, wideAlpha, 4, 4},
					part{sch + "/deep/wide-windows-dependent-stream", c08srvCfg{Sched: sch}, seedWideDep, wideAlpha, 4, 4},
				)
			}
			parts = append(parts, part{"9218/deep/empty", c08srvCfg{Sched: "9218"}, nil, c08Alphabet(iws, mfss, small, wus), 5, 5})
		}
		c.Rule("EV: for each part (write scheduler x seed prefix) every event sequence of depth 1..D after the seed over the menu {H (<=2 GET streams; H(1) = the second stream's HEADERS carry the RFC 7540 priority field 'depends on stream 1'), PRI(s,d) = PRIORITY frame making stream s depend on stream d (only in the wide-windows parts), handler Write(n)+Flush, handler return, WINDOW_UPDATE(conn|stream, k) where the stream is stream 1 or 3 in any RFC 9113 §5.1 state (open/half-closed: grants stream window; closed by END_STREAM or by RST_STREAM of either side: the late WINDOW_UPDATE a client may legally send shortly after the close, which grants nothing, in particular no connection window; idle: a client protocol error, grants nothing, nothing is issued after it), SETTINGS INITIAL_WINDOW_SIZE / MAX_FRAME_SIZE, RST_STREAM, GS = the server starts a graceful shutdown (serverConn.startGracefulShutdown, what http.Server.Shutdown triggers: GOAWAY(NO_ERROR, last stream id))}, write schedulers: 9218 (package default), rr, random, 7540 (NewPriorityWriteScheduler(nil)) and 7540t = the RFC 7540 priority scheduler with ThrottleOutOfOrderWrites, the one configuration whose Pop gives FrameWriteRequest.Consume a byte budget other than MaxInt32 (1024, +1024 per throttled frame of a burst, for a stream below a still-open parent); the wide-windows parts start from INITIAL_WINDOW_SIZE=2^20 and a connection WINDOW_UPDATE of 2^20 so that this budget and MAX_FRAME_SIZE, not the windows, bound a frame, with Write sizes {1000, 5000, 200000} on each side of the initial budget and long enough for the budget to outgrow the default MAX_FRAME_SIZE; the closed-stream-conn-window-binding parts start from INITIAL_WINDOW_SIZE=2^20, a first response of 65530 bytes and its stream closed, so that the connection window (5 bytes left) alone bounds the second response, with Write sizes on each side of it; pruned by a predictive model (handler events and RST_STREAM on streams that are not open or whose handler is blocked are not issued; H(1) only for the second stream; PRI only on a live stream and only if it changes the signalled parent; GS at most once and only while a stream is open; no H after GS) and decided on the real state at run time; each sequence runs on a fresh real http2.Server in its own synctest bubble; after every event: quiescence, drain all frames, RFC 7540 §6.9 window accounting on every DATA frame, frame length vs MAX_FRAME_SIZE, progress at quiescence, white-box sc.flow/st.flow == monitor; after a graceful GOAWAY(NO_ERROR) all of these stay in force for every stream <= its last stream id (the older stream and the last one itself), only a GOAWAY with an error code ends a case. non-trivial = the server emitted at least one DATA frame; states = explored event histories (stateless search), transitions = events applied to the real server and checked at quiescence, traces = histories executed to their end")
		c.Assume("interleavings are explored at event granularity (one client/handler event, then run to quiescence); scheduling inside a step is Go's (L2)")
		c.Assume("after a WINDOW_UPDATE/SETTINGS that overflows a window the client's view of that window is undefined; the monitor keeps the old value and requires the FLOW_CONTROL_ERROR the RFC mandates")
		c.Assume("a stream-level WINDOW_UPDATE for a closed stream is written after the server's END_STREAM/RST_STREAM has been read (event granularity); for the server this is the same input as an update that crossed its END_STREAM on the wire (RFC 9113 §5.1 'closed'), and also after the client's own RST_STREAM the connection window the RFC defines is unchanged by it; a WINDOW_UPDATE for an idle stream is a client protocol error: it grants nothing, the GOAWAY(PROTOCOL_ERROR) answer is not demanded and no further event is issued after it")
		c.Assume("graceful shutdown: streams above the GOAWAY's last stream id are not opened (the server ignores them; outside the property); a window overflow after the graceful GOAWAY ends the case without requiring a second GOAWAY carrying FLOW_CONTROL_ERROR (a stream-window overflow must still be answered with RST_STREAM); the GOAWAY's last stream id itself is not judged")
		c.Assume("priority signals: only the dependency between the two streams (default weight, non-exclusive) is varied, through the HEADERS priority field of the second stream or a PRIORITY frame; weights, the exclusive flag, idle-stream grouping nodes and PriorityWriteSchedulerConfig values other than the documented defaults (+ throttling) are not explored; a user-supplied WriteScheduler implementation is outside the property")
		c.Assume("progress is checked only as: at quiescence no live stream has flushed handler bytes off the wire while both its windows are positive (L4)")
		c08Determinism(c, func(w *vx.W, t testing.TB) ([]string, string) {
			res, herr := c08RunCase(w, t, c08srvCase{Cfg: c08srvCfg{Sched: "9218"}, Evs: []string{"SETIW(3)", "H", "H", "W(1,5)", "W(3,20)", "WU(1,4)", "SETIW(10)", "DONE(1)", "RST(3)"}})
			return res.trace, herr
		})
		for _, p := range parts {
			p := p
			completed := 0
			vx.Enumerate(c, p.name, vx.Opts{Serial: true, Crumb: true},
				func(yield func(c08srvCase) bool) {
					c08Gen(p.cfg, p.seed, p.alpha, p.from, p.depth, func(d int) { completed = d }, yield)
				},
				c08Check(c))
			if completed < p.depth && !c.Replaying() {
				c.Cap(fmt.Sprintf("part %s: depth %d of %d completed", p.name, completed, p.depth))
			}
			c.Note(p.name+".depth", p.depth)
		}
	})
}

// c08Determinism runs one fixed representative history twice and records
// whether the two wire traces agree (DESIGN §2.2 EV (c)); a mismatch is reported
// as reduced confidence in replay, never as a violation.
func c08Determinism(c *vx.Ctx, run func(w *vx.W, t testing.TB) (trace []string, harnessErr string)) {
	if c.Replaying() {
		return
	}
	var traces [2]string
	vx.Enumerate(c, "determinism-probe", vx.Opts{Serial: true, NoSample: true},
		func(yield func(int) bool) {
			_, n := c.Shard()
			// give the probe to every shard: indices 0..n-1 and n..2n-1
			for i := 0; i < 2*n; i++ {
				if !yield(i) {
					return
				}
			}
		},
		func(w *vx.W, i int) {
			_, n := c.Shard()
			c08srvBubble(c, "probe", func(t testing.TB) string {
				tr, herr := run(w, t)
				traces[i/n] = fmt.Sprint(tr)
				return herr
			})
			w.Outcome("probe")
		})
	same := traces[0] == traces[1] && traces[0] != ""
	c.Note("deterministic_probe", same)
	if !same {
		c.Cap("determinism probe: two executions of the same history produced different wire traces")
	}
}
