package http2

import (
	"bytes"
	"fmt"
	"io"
	"testing"

	"golang.org/x/net/internal/zzverif/vx"
)

// C06 — every frame a Framer Write method produces from arguments it accepts
// is read back by Framer.ReadFrame as the same frame type with the same flags,
// stream ID and payload fields, padding removed; arguments the method documents
// as illegal are refused and nothing reaches the writer.
//
// The expectation (c06Want) is computed from the arguments alone, from the
// method documentation and RFC 9113 §4.1/§6 (flag bit values are typed here as
// literals). The written bytes are first framed independently (9-byte header:
// 24-bit length, type, flags, R+31-bit stream id) and then read by a second
// Framer. Every accepted call is bracketed by two PING writes on the same
// Framer so that the reuse of the write buffer and of the reader's payload
// buffer (small after large, large after small) is part of every case.

type c06Want struct {
	Type     FrameType
	Flags    Flags
	Stream   uint32
	Len      int    // payload length the frame header must announce
	Body     []byte // DATA data / header block fragment / GOAWAY debug data / unknown payload / PRIORITY_UPDATE value
	HasPrio  bool
	Prio     PriorityParam
	Settings []Setting
	Ping     [8]byte
	Last     uint32
	Code     ErrCode
	Incr     uint32
	Promise  uint32
	PUID     uint32
}

// c06Fill returns n bytes none of which is zero (so padding, which is zero,
// can never be mistaken for content).
func c06Fill(n int, seed int) []byte {
	b := make([]byte, n)
	for i := range b {
		b[i] = byte((i+seed)%251) + 1
	}
	return b
}

var (
	c06PingA = [8]byte{0xa1, 0xa2, 0xa3, 0xa4, 0xa5, 0xa6, 0xa7, 0xa8}
	c06PingB = [8]byte{0xb1, 0xb2, 0xb3, 0xb4, 0xb5, 0xb6, 0xb7, 0xb8}
)

func c06PingWant(ack bool, d [8]byte) c06Want {
	w := c06Want{Type: 0x6, Len: 8, Ping: d}
	if ack {
		w.Flags = 0x1
	}
	return w
}

func c06Short(b []byte) string {
	if len(b) > 48 {
		return fmt.Sprintf("%x…(%d bytes)", b[:48], len(b))
	}
	return fmt.Sprintf("%x", b)
}

// c06Verify frames wire independently and then reads it with a fresh Framer;
// wire must consist of exactly the frames in wants.
func c06Verify(w *vx.W, m string, wire []byte, wants []c06Want, illegalReads bool, desc string) bool {
	off := 0
	for i, want := range wants {
		if len(wire)-off < 9 {
			w.Failf("C06/"+m+"/output-short", "%s: frame %d: only %d bytes left of %d, want a 9-byte header", desc, i, len(wire)-off, len(wire))
			return false
		}
		h := wire[off : off+9]
		l := int(h[0])<<16 | int(h[1])<<8 | int(h[2])
		if l != want.Len {
			w.Failf("C06/"+m+"/length-field", "%s: frame %d: header length field %d, payload must be %d bytes (output %d bytes)", desc, i, l, want.Len, len(wire))
			return false
		}
		if FrameType(h[3]) != want.Type || Flags(h[4]) != want.Flags {
			w.Failf("C06/"+m+"/header-type-flags", "%s: frame %d: wire type=%#x flags=%#x, want type=%#x flags=%#x", desc, i, h[3], h[4], uint8(want.Type), uint8(want.Flags))
			return false
		}
		sid := uint32(h[5])<<24 | uint32(h[6])<<16 | uint32(h[7])<<8 | uint32(h[8])
		if sid != want.Stream {
			w.Failf("C06/"+m+"/header-stream-id", "%s: frame %d: wire stream id field %#x, want %#x", desc, i, sid, want.Stream)
			return false
		}
		off += 9 + l
		if off > len(wire) {
			w.Failf("C06/"+m+"/length-field", "%s: frame %d announces %d payload bytes but the output ends after %d", desc, i, l, len(wire))
			return false
		}
	}
	if off != len(wire) {
		w.Failf("C06/"+m+"/trailing-bytes", "%s: %d bytes written beyond the expected frames", desc, len(wire)-off)
		return false
	}
	rd := bytes.NewReader(wire)
	fr := NewFramer(nil, rd)
	fr.AllowIllegalReads = illegalReads
	for i, want := range wants {
		before := rd.Len()
		f, err := fr.ReadFrame()
		if err != nil {
			w.Failf("C06/"+m+"/read-error", "%s: frame %d (type %#x flags %#x stream %d len %d): ReadFrame error %v (detail %v); frame bytes %s", desc, i, uint8(want.Type), uint8(want.Flags), want.Stream, want.Len, err, fr.ErrorDetail(), c06Short(wire))
			return false
		}
		if got := before - rd.Len(); got != 9+want.Len {
			w.Failf("C06/"+m+"/bytes-consumed", "%s: frame %d: ReadFrame consumed %d bytes, frame is %d", desc, i, got, 9+want.Len)
			return false
		}
		if !c06Compare(w, m, f, want, fmt.Sprintf("%s: frame %d", desc, i)) {
			return false
		}
	}
	if f, err := fr.ReadFrame(); err != io.EOF {
		w.Failf("C06/"+m+"/extra-frame", "%s: after the expected frames ReadFrame returned (%v, %v), want io.EOF", desc, f, err)
		return false
	}
	return true
}

func c06Compare(w *vx.W, m string, f Frame, want c06Want, desc string) bool {
	h := f.Header()
	if h.Type != want.Type || h.Flags != want.Flags || h.StreamID != want.Stream || int(h.Length) != want.Len {
		w.Failf("C06/"+m+"/read-header-differs", "%s: read header type=%#x flags=%#x stream=%d len=%d, want type=%#x flags=%#x stream=%d len=%d",
			desc, uint8(h.Type), uint8(h.Flags), h.StreamID, h.Length, uint8(want.Type), uint8(want.Flags), want.Stream, want.Len)
		return false
	}
	bad := func(field string, got, exp any) bool {
		w.Failf("C06/"+m+"/read-field-differs:"+field, "%s: %s = %v, want %v", desc, field, got, exp)
		return false
	}
	wrongType := func() bool {
		w.Failf("C06/"+m+"/read-go-type", "%s: ReadFrame returned %T for frame type %#x", desc, f, uint8(want.Type))
		return false
	}
	body := func(field string, got []byte) bool {
		if !bytes.Equal(got, want.Body) {
			w.Failf("C06/"+m+"/read-field-differs:"+field, "%s: %s = %s (%d bytes), want %s (%d bytes)", desc, field, c06Short(got), len(got), c06Short(want.Body), len(want.Body))
			return false
		}
		return true
	}
	switch want.Type {
	case 0x0:
		df, ok := f.(*DataFrame)
		if !ok {
			return wrongType()
		}
		if !body("Data", df.Data()) {
			return false
		}
		if df.StreamEnded() != (want.Flags&0x1 != 0) {
			return bad("StreamEnded", df.StreamEnded(), want.Flags&0x1 != 0)
		}
	case 0x1:
		hf, ok := f.(*HeadersFrame)
		if !ok {
			return wrongType()
		}
		if !body("HeaderBlockFragment", hf.HeaderBlockFragment()) {
			return false
		}
		if hf.HasPriority() != want.HasPrio {
			return bad("HasPriority", hf.HasPriority(), want.HasPrio)
		}
		if hf.Priority.StreamDep != want.Prio.StreamDep || hf.Priority.Exclusive != want.Prio.Exclusive || hf.Priority.Weight != want.Prio.Weight {
			return bad("Priority", hf.Priority, want.Prio)
		}
		if hf.StreamEnded() != (want.Flags&0x1 != 0) {
			return bad("StreamEnded", hf.StreamEnded(), want.Flags&0x1 != 0)
		}
		if hf.HeadersEnded() != (want.Flags&0x4 != 0) {
			return bad("HeadersEnded", hf.HeadersEnded(), want.Flags&0x4 != 0)
		}
	case 0x2:
		pf, ok := f.(*PriorityFrame)
		if !ok {
			return wrongType()
		}
		if pf.StreamDep != want.Prio.StreamDep || pf.Exclusive != want.Prio.Exclusive || pf.Weight != want.Prio.Weight {
			return bad("PriorityParam", pf.PriorityParam, want.Prio)
		}
	case 0x3:
		rf, ok := f.(*RSTStreamFrame)
		if !ok {
			return wrongType()
		}
		if rf.ErrCode != want.Code {
			return bad("ErrCode", uint32(rf.ErrCode), uint32(want.Code))
		}
	case 0x4:
		sf, ok := f.(*SettingsFrame)
		if !ok {
			return wrongType()
		}
		if sf.IsAck() != (want.Flags&0x1 != 0) {
			return bad("IsAck", sf.IsAck(), want.Flags&0x1 != 0)
		}
		if sf.NumSettings() != len(want.Settings) {
			return bad("NumSettings", sf.NumSettings(), len(want.Settings))
		}
		first := map[SettingID]uint32{}
		for i, s := range want.Settings {
			if g := sf.Setting(i); g != s {
				return bad("Setting(i)", fmt.Sprintf("[%d]%v", i, g), s)
			}
			if _, dup := first[s.ID]; !dup {
				first[s.ID] = s.Val
			}
		}
		i := 0
		sf.ForeachSetting(func(g Setting) error {
			if i >= len(want.Settings) || g != want.Settings[i] {
				bad("ForeachSetting", fmt.Sprintf("[%d]%v", i, g), "the settings in written order")
			}
			i++
			return nil
		})
		if w.Failed() {
			return false
		}
		if i != len(want.Settings) {
			return bad("ForeachSetting-count", i, len(want.Settings))
		}
		for id, v := range first {
			if g, ok := sf.Value(id); !ok || g != v {
				return bad("Value", fmt.Sprintf("Value(%d)=(%d,%v)", id, g, ok), v)
			}
		}
	case 0x5:
		pp, ok := f.(*PushPromiseFrame)
		if !ok {
			return wrongType()
		}
		if pp.PromiseID != want.Promise {
			return bad("PromiseID", pp.PromiseID, want.Promise)
		}
		if !body("HeaderBlockFragment", pp.HeaderBlockFragment()) {
			return false
		}
		if pp.HeadersEnded() != (want.Flags&0x4 != 0) {
			return bad("HeadersEnded", pp.HeadersEnded(), want.Flags&0x4 != 0)
		}
	case 0x6:
		pf, ok := f.(*PingFrame)
		if !ok {
			return wrongType()
		}
		if pf.Data != want.Ping {
			return bad("Data", pf.Data, want.Ping)
		}
		if pf.IsAck() != (want.Flags&0x1 != 0) {
			return bad("IsAck", pf.IsAck(), want.Flags&0x1 != 0)
		}
	case 0x7:
		gf, ok := f.(*GoAwayFrame)
		if !ok {
			return wrongType()
		}
		if gf.LastStreamID != want.Last {
			return bad("LastStreamID", gf.LastStreamID, want.Last)
		}
		if gf.ErrCode != want.Code {
			return bad("ErrCode", uint32(gf.ErrCode), uint32(want.Code))
		}
		if !body("DebugData", gf.DebugData()) {
			return false
		}
	case 0x8:
		wf, ok := f.(*WindowUpdateFrame)
		if !ok {
			return wrongType()
		}
		if wf.Increment != want.Incr {
			return bad("Increment", wf.Increment, want.Incr)
		}
	case 0x9:
		cf, ok := f.(*ContinuationFrame)
		if !ok {
			return wrongType()
		}
		if !body("HeaderBlockFragment", cf.HeaderBlockFragment()) {
			return false
		}
		if cf.HeadersEnded() != (want.Flags&0x4 != 0) {
			return bad("HeadersEnded", cf.HeadersEnded(), want.Flags&0x4 != 0)
		}
	case 0x10:
		pu, ok := f.(*PriorityUpdateFrame)
		if !ok {
			return wrongType()
		}
		if pu.PrioritizedStreamID != want.PUID {
			return bad("PrioritizedStreamID", pu.PrioritizedStreamID, want.PUID)
		}
		if pu.Priority != string(want.Body) {
			return bad("Priority", fmt.Sprintf("%q", pu.Priority), fmt.Sprintf("%q", want.Body))
		}
	default:
		uf, ok := f.(*UnknownFrame)
		if !ok {
			return wrongType()
		}
		if !body("Payload", uf.Payload()) {
			return false
		}
	}
	return true
}

// c06Accept runs write between two PINGs on one Framer and verifies the three
// frames. write must be a call the method has to accept.
func c06Accept(w *vx.W, m string, want c06Want, desc string, write func(fr *Framer) error) bool {
	var buf bytes.Buffer
	fr := NewFramer(&buf, nil)
	if err := fr.WritePing(false, c06PingA); err != nil {
		w.Failf("C06/WritePing/rejected-valid-args", "WritePing: %v", err)
		return false
	}
	if err := write(fr); err != nil {
		w.Failf("C06/"+m+"/rejected-valid-args", "%s: error %v for arguments the method must accept", desc, err)
		return false
	}
	if err := fr.WritePing(true, c06PingB); err != nil {
		w.Failf("C06/WritePing/rejected-valid-args", "WritePing: %v", err)
		return false
	}
	return c06Verify(w, m, buf.Bytes(), []c06Want{c06PingWant(false, c06PingA), want, c06PingWant(true, c06PingB)}, true, desc)
}

// c06Reject checks that write is refused, leaves the writer untouched, and that
// the Framer still writes a correct frame afterwards.
func c06Reject(w *vx.W, m, trigger, desc string, write func(fr *Framer) error) bool {
	var buf bytes.Buffer
	fr := NewFramer(&buf, nil)
	err := write(fr)
	if err == nil {
		w.Failf("C06/"+m+"/accepted-illegal-args:"+trigger, "%s: returned nil for arguments documented as illegal (%s); wrote %s", desc, trigger, c06Short(buf.Bytes()))
		return false
	}
	if buf.Len() != 0 {
		w.Failf("C06/"+m+"/wrote-on-error:"+trigger, "%s: returned %v but wrote %d bytes: %s", desc, err, buf.Len(), c06Short(buf.Bytes()))
		return false
	}
	if err := fr.WritePing(true, c06PingB); err != nil {
		w.Failf("C06/WritePing/rejected-valid-args", "WritePing after a refused %s: %v", m, err)
		return false
	}
	return c06Verify(w, "after-refusal", buf.Bytes(), []c06Want{c06PingWant(true, c06PingB)}, true, "PING written after the refused "+desc)
}

// Priority parameters: index -> (param, legal)
type c06PrioSpec struct {
	P     PriorityParam
	Legal bool
}

var c06Prios = []c06PrioSpec{
	{PriorityParam{}, true}, // zero: HEADERS carries no priority section
	{PriorityParam{StreamDep: 0, Weight: 1}, true},
	{PriorityParam{StreamDep: 0x7fffffff, Weight: 0}, true},
	{PriorityParam{StreamDep: 1, Exclusive: true, Weight: 0}, true},
	{PriorityParam{StreamDep: 0, Exclusive: true, Weight: 0}, true},
	{PriorityParam{StreamDep: 0x12345678, Exclusive: true, Weight: 255}, true},
	{PriorityParam{StreamDep: 0x01020304, Exclusive: false, Weight: 0x7f}, true},
	{PriorityParam{StreamDep: 0x80000000, Weight: 3}, false},
	{PriorityParam{StreamDep: 0x80000005, Exclusive: true, Weight: 3}, false},
}

func c06StreamOK(id uint32) bool { return id != 0 && id < 1<<31 }

type c06Data struct {
	Stream uint32 `json:"stream"`
	End    bool   `json:"end_stream"`
	N      int    `json:"data_len"`
	Pad    int    `json:"pad"` // -1 nil, 0 empty non-nil, 1..255 zeros, 256 too long, -2 three bytes one non-zero
}

type c06Headers struct {
	Stream     uint32 `json:"stream"`
	EndStream  bool   `json:"end_stream"`
	EndHeaders bool   `json:"end_headers"`
	Pad        uint8  `json:"pad_length"`
	Prio       int    `json:"priority_index"`
	N          int    `json:"fragment_len"`
}

type c06Cont struct {
	Stream uint32 `json:"stream"`
	End    bool   `json:"end_headers"`
	N      int    `json:"fragment_len"`
}

type c06Prio struct {
	Stream uint32 `json:"stream"`
	Prio   int    `json:"priority_index"`
}

type c06RST struct {
	Stream uint32 `json:"stream"`
	Code   uint32 `json:"code"`
}

type c06Settings struct {
	Ack bool      `json:"ack"`
	L   []Setting `json:"settings"`
}

type c06Ping struct {
	Ack  bool    `json:"ack"`
	Data [8]byte `json:"data"`
}

type c06GoAway struct {
	Last  uint32 `json:"last_stream"`
	Code  uint32 `json:"code"`
	Debug int    `json:"debug_len"` // -1 nil
}

type c06WU struct {
	Stream uint32 `json:"stream"`
	Incr   uint32 `json:"increment"`
}

type c06Push struct {
	Stream     uint32 `json:"stream"`
	Promise    uint32 `json:"promise"`
	EndHeaders bool   `json:"end_headers"`
	Pad        uint8  `json:"pad_length"`
	N          int    `json:"fragment_len"`
}

type c06PU struct {
	Stream uint32 `json:"prioritized_stream"`
	Prio   int    `json:"priority_index"` // index into c06PUValues
}

var c06PUValues = []string{"", "i", "u=1", "u=7, i", "u=0, i=?0", "\x00\xff not a dictionary", string(bytes.Repeat([]byte("u=3, i, "), 40))}

type c06Raw struct {
	Type   uint8  `json:"type"`
	Flags  uint8  `json:"flags"`
	Stream uint32 `json:"stream"`
	N      int    `json:"len"` // unknown types: payload length; known types: length of the variable part
}

type c06Train struct {
	Push      bool   `json:"push_promise"` // first frame PUSH_PROMISE instead of HEADERS
	Stream    uint32 `json:"stream"`
	EndStream bool   `json:"end_stream"`
	Pad       uint8  `json:"pad_length"`
	Prio      int    `json:"priority_index"`
	Pieces    []int  `json:"fragment_lens"` // first frame, then one CONTINUATION each
}

type c06Huge struct {
	M    string `json:"method"`
	Over bool   `json:"one_byte_too_many"`
}

// c06RawKnown builds, independently of the Framer, a spec-valid payload for a
// known frame type with the given flag byte (unknown flag bits are arbitrary)
// and the frame that must be read back. ok=false: no valid frame exists for
// this combination (wrong stream id class).
func c06RawKnown(t uint8, fl uint8, stream uint32, n int) (payload []byte, want c06Want, ok bool) {
	want = c06Want{Type: FrameType(t), Flags: Flags(fl), Stream: stream}
	var p []byte
	be32 := func(v uint32) { p = append(p, byte(v>>24), byte(v>>16), byte(v>>8), byte(v)) }
	padded := fl&0x8 != 0
	const padN = 3
	switch t {
	case 0x0, 0x1, 0x5:
		if stream == 0 {
			return nil, want, false
		}
		if padded {
			p = append(p, padN)
		}
		if t == 0x1 && fl&0x20 != 0 {
			be32(0x80000000 | 0x00abcdef)
			p = append(p, 0x42)
			want.HasPrio = true
			want.Prio = PriorityParam{StreamDep: 0x00abcdef, Exclusive: true, Weight: 0x42}
		}
		if t == 0x5 {
			be32(0x7ffffffd)
			want.Promise = 0x7ffffffd
		}
		want.Body = c06Fill(n, 5)
		p = append(p, want.Body...)
		if padded {
			p = append(p, make([]byte, padN)...)
		}
	case 0x2:
		if stream == 0 {
			return nil, want, false
		}
		be32(0x80000000 | 77)
		p = append(p, 9)
		want.Prio = PriorityParam{StreamDep: 77, Exclusive: true, Weight: 9}
	case 0x3:
		if stream == 0 {
			return nil, want, false
		}
		be32(0xcafe0001)
		want.Code = 0xcafe0001
	case 0x4:
		if stream != 0 {
			return nil, want, false
		}
		if fl&0x1 == 0 {
			for i := 0; i < n%4; i++ {
				s := Setting{SettingID(0x3 + i), uint32(0x01020300 + i)}
				p = append(p, byte(s.ID>>8), byte(s.ID))
				be32(s.Val)
				want.Settings = append(want.Settings, s)
			}
		}
	case 0x6:
		if stream != 0 {
			return nil, want, false
		}
		p = append(p, c06PingA[:]...)
		want.Ping = c06PingA
	case 0x7:
		if stream != 0 {
			return nil, want, false
		}
		be32(0x7ffffffe)
		be32(0x0000000b)
		want.Last, want.Code = 0x7ffffffe, 0xb
		want.Body = c06Fill(n, 9)
		p = append(p, want.Body...)
	case 0x8:
		be32(0x00010203)
		want.Incr = 0x00010203
	case 0x9:
		if stream == 0 {
			return nil, want, false
		}
		want.Body = c06Fill(n, 11)
		p = append(p, want.Body...)
	case 0x10:
		if stream != 0 {
			return nil, want, false
		}
		be32(0x00000007)
		want.PUID = 7
		want.Body = []byte("u=2, i")[:min(n, 6)]
		p = append(p, want.Body...)
	default:
		want.Body = c06Fill(n, 13)
		p = append(p, want.Body...)
	}
	want.Len = len(p)
	return p, want, true
}

func c06IsKnownType(t uint8) bool { return t <= 0x9 || t == 0x10 }

func TestVerif_C06(t *testing.T) {
	vx.Run(t, "C06", func(c *vx.Ctx) {
		c.Rule("one part per Write method; a case is one argument tuple from the cross product of boundary sets: stream ids on both sides of every byte boundary of the 31-bit range plus the illegal ones (0, reserved bit set); payload/fragment sizes 0,1,2,255,256,16383,16384,16385 (thorough also 65535,65536,2^20); every pad length 0..255 (crossed with sizes <= 256 in quick, <= 16385 in thorough; 0,1,2,254,255 with larger sizes) plus nil/too-long/non-zero pads; every flag combination the method can produce; priority parameters incl. exclusive, weight 0/255, dependency 2^31-1 and illegal dependencies; settings lists of 0,1,2,9,10,11,101 entries with duplicates; raw frames of every unknown type x flag byte and of every known type x flag byte with an independently built valid payload; HEADERS/PUSH_PROMISE + 0..3 CONTINUATION trains read in legal order; per method the largest payload endWrite accepts (2^24-1) and one byte more. non-trivial = the call was accepted and its output was framed independently and read back by a second Framer (bracketed by two PINGs on the same Framer), or the call was refused and the writer stayed empty")
		c.Assume("stream identifiers with the reserved bit set are outside the property's 31-bit quantifier for methods that do not validate them (WriteWindowUpdate, WriteGoAway last-stream, WriteRawFrame); they are only used where the method documents them as illegal")
		c.Assume("WriteSettings performs no validation; SETTINGS_INITIAL_WINDOW_SIZE values above 2^31-1 (which the reader must refuse per RFC 9113 §6.5.2) are not in the alphabet")
		c.Assume("raw frames of known types carry spec-valid payloads only; AllowIllegalWrites is never set")
		c.Assume("isolated frames are read with AllowIllegalReads (a lone CONTINUATION is not a legal stream of frames); trains are read with the default, strict Framer")

		streams := vx.Pick(c,
			[]uint32{1, 2, 0x12345678, 0x7fffffff},
			[]uint32{1, 2, 3, 0xff, 0x100, 0xffff, 0x10000, 0xffffff, 0x1000000, 0x12345678, 0x7ffffffe, 0x7fffffff})
		badStreams := []uint32{0, 0x80000000, 0x80000001, 0xffffffff}
		allStreams := append(append([]uint32{}, streams...), badStreams...)
		sizes := vx.Pick(c,
			[]int{0, 1, 2, 255, 256, 16383, 16384, 16385},
			[]int{0, 1, 2, 255, 256, 16383, 16384, 16385, 65535, 65536, 1 << 20})
		padsFor := func(n int) []int {
			if n > 16385 || (c.Quick() && n > 256) {
				return []int{0, 1, 2, 254, 255}
			}
			p := make([]int, 256)
			for i := range p {
				p[i] = i
			}
			return p
		}
		bools := []bool{false, true}

		// ---------------------------------------------------------- DATA
		vx.Enumerate(c, "data", vx.Opts{}, func(yield func(c06Data) bool) {
			for _, n := range sizes {
				pads := append([]int{-1, -2, 256}, padsFor(n)...)
				for _, s := range allStreams {
					for _, e := range bools {
						for _, p := range pads {
							if !c06StreamOK(s) && p > 1 && p < 255 {
								continue
							}
							if !yield(c06Data{s, e, n, p}) {
								return
							}
						}
					}
				}
			}
		}, func(w *vx.W, x c06Data) {
			data := c06Fill(x.N, 1)
			var pad []byte
			switch {
			case x.Pad == -1:
			case x.Pad == -2:
				pad = []byte{0, 7, 0}
			default:
				pad = make([]byte, x.Pad)
			}
			desc := fmt.Sprintf("WriteDataPadded(%#x, %v, %d bytes, pad=%d)", x.Stream, x.End, x.N, x.Pad)
			write := func(fr *Framer) error { return fr.WriteDataPadded(x.Stream, x.End, data, pad) }
			switch {
			case !c06StreamOK(x.Stream):
				c06Reject(w, "WriteDataPadded", "stream-id", desc, write)
				if x.Pad == -1 {
					c06Reject(w, "WriteData", "stream-id", desc, func(fr *Framer) error { return fr.WriteData(x.Stream, x.End, data) })
				}
				w.Outcome("data refused")
			case x.Pad == 256:
				c06Reject(w, "WriteDataPadded", "pad-too-long", desc, write)
				w.Outcome("data refused")
			case x.Pad == -2:
				c06Reject(w, "WriteDataPadded", "pad-not-zero", desc, write)
				w.Outcome("data refused")
			default:
				want := c06Want{Type: 0x0, Stream: x.Stream, Body: data, Len: x.N}
				if x.End {
					want.Flags |= 0x1
				}
				if pad != nil {
					want.Flags |= 0x8
					want.Len += 1 + len(pad)
				}
				c06Accept(w, "WriteDataPadded", want, desc, write)
				if x.Pad == -1 {
					c06Accept(w, "WriteData", want, "WriteData (same arguments)", func(fr *Framer) error { return fr.WriteData(x.Stream, x.End, data) })
				}
				w.Outcome(fmt.Sprintf("data ok flags=%#x", uint8(want.Flags)))
			}
			if !w.Failed() {
				w.Nontrivial()
			}
		})

		// ---------------------------------------------------------- HEADERS
		vx.Enumerate(c, "headers", vx.Opts{}, func(yield func(c06Headers) bool) {
			for _, n := range sizes {
				for _, s := range allStreams {
					for pi := range c06Prios {
						for _, pad := range padsFor(n) {
							if (!c06StreamOK(s) || !c06Prios[pi].Legal) && pad > 1 && pad < 255 {
								continue
							}
							if pi >= 2 && pi <= 6 && pad > 2 && pad < 254 && pad%16 != 0 {
								continue // every pad length is crossed with "no priority" and one priority; the other priorities with a stride
							}
							for _, es := range bools {
								for _, eh := range bools {
									if !yield(c06Headers{s, es, eh, uint8(pad), pi, n}) {
										return
									}
								}
							}
						}
					}
				}
			}
		}, func(w *vx.W, x c06Headers) {
			frag := c06Fill(x.N, 2)
			pr := c06Prios[x.Prio]
			p := HeadersFrameParam{StreamID: x.Stream, BlockFragment: frag, EndStream: x.EndStream, EndHeaders: x.EndHeaders, PadLength: x.Pad, Priority: pr.P}
			desc := fmt.Sprintf("WriteHeaders(stream=%#x endStream=%v endHeaders=%v pad=%d prio=%+v frag=%d bytes)", x.Stream, x.EndStream, x.EndHeaders, x.Pad, pr.P, x.N)
			write := func(fr *Framer) error { return fr.WriteHeaders(p) }
			switch {
			case !c06StreamOK(x.Stream):
				c06Reject(w, "WriteHeaders", "stream-id", desc, write)
				w.Outcome("headers refused")
			case !pr.Legal:
				c06Reject(w, "WriteHeaders", "dependency-id", desc, write)
				w.Outcome("headers refused")
			default:
				want := c06Want{Type: 0x1, Stream: x.Stream, Body: frag, Len: x.N}
				if x.EndStream {
					want.Flags |= 0x1
				}
				if x.EndHeaders {
					want.Flags |= 0x4
				}
				if x.Pad != 0 {
					want.Flags |= 0x8
					want.Len += 1 + int(x.Pad)
				}
				if pr.P != (PriorityParam{}) {
					want.Flags |= 0x20
					want.Len += 5
					want.HasPrio = true
					want.Prio = pr.P
				}
				c06Accept(w, "WriteHeaders", want, desc, write)
				w.Outcome(fmt.Sprintf("headers ok flags=%#x", uint8(want.Flags)))
			}
			if !w.Failed() {
				w.Nontrivial()
			}
		})

		// ---------------------------------------------------------- CONTINUATION
		vx.Enumerate(c, "continuation", vx.Opts{}, func(yield func(c06Cont) bool) {
			for _, n := range sizes {
				for _, s := range allStreams {
					for _, e := range bools {
						if !yield(c06Cont{s, e, n}) {
							return
						}
					}
				}
			}
		}, func(w *vx.W, x c06Cont) {
			frag := c06Fill(x.N, 3)
			desc := fmt.Sprintf("WriteContinuation(%#x, %v, %d bytes)", x.Stream, x.End, x.N)
			write := func(fr *Framer) error { return fr.WriteContinuation(x.Stream, x.End, frag) }
			if !c06StreamOK(x.Stream) {
				c06Reject(w, "WriteContinuation", "stream-id", desc, write)
				w.Outcome("continuation refused")
			} else {
				want := c06Want{Type: 0x9, Stream: x.Stream, Body: frag, Len: x.N}
				if x.End {
					want.Flags = 0x4
				}
				c06Accept(w, "WriteContinuation", want, desc, write)
				w.Outcome(fmt.Sprintf("continuation ok flags=%#x", uint8(want.Flags)))
			}
			if !w.Failed() {
				w.Nontrivial()
			}
		})

		// ---------------------------------------------------------- PRIORITY
		vx.Enumerate(c, "priority", vx.Opts{}, func(yield func(c06Prio) bool) {
			for _, s := range allStreams {
				for pi := range c06Prios {
					if !yield(c06Prio{s, pi}) {
						return
					}
				}
			}
		}, func(w *vx.W, x c06Prio) {
			pr := c06Prios[x.Prio]
			desc := fmt.Sprintf("WritePriority(%#x, %+v)", x.Stream, pr.P)
			write := func(fr *Framer) error { return fr.WritePriority(x.Stream, pr.P) }
			switch {
			case !c06StreamOK(x.Stream):
				c06Reject(w, "WritePriority", "stream-id", desc, write)
				w.Outcome("priority refused")
			case !pr.Legal:
				c06Reject(w, "WritePriority", "dependency-id", desc, write)
				w.Outcome("priority refused")
			default:
				c06Accept(w, "WritePriority", c06Want{Type: 0x2, Stream: x.Stream, Len: 5, Prio: pr.P}, desc, write)
				w.Outcome("priority ok")
			}
			if !w.Failed() {
				w.Nontrivial()
			}
		})

		// ---------------------------------------------------------- RST_STREAM
		codes := []uint32{0, 1, 0xd, 0xff, 0x100, 0x12345678, 0x80000000, 0xffffffff}
		vx.Enumerate(c, "rst_stream", vx.Opts{}, func(yield func(c06RST) bool) {
			for _, s := range allStreams {
				for _, code := range codes {
					if !yield(c06RST{s, code}) {
						return
					}
				}
			}
		}, func(w *vx.W, x c06RST) {
			desc := fmt.Sprintf("WriteRSTStream(%#x, %#x)", x.Stream, x.Code)
			write := func(fr *Framer) error { return fr.WriteRSTStream(x.Stream, ErrCode(x.Code)) }
			if !c06StreamOK(x.Stream) {
				c06Reject(w, "WriteRSTStream", "stream-id", desc, write)
				w.Outcome("rst refused")
			} else {
				c06Accept(w, "WriteRSTStream", c06Want{Type: 0x3, Stream: x.Stream, Len: 4, Code: ErrCode(x.Code)}, desc, write)
				w.Outcome("rst ok")
			}
			if !w.Failed() {
				w.Nontrivial()
			}
		})

		// ---------------------------------------------------------- SETTINGS
		vx.Enumerate(c, "settings", vx.Opts{}, func(yield func(c06Settings) bool) {
			if !yield(c06Settings{Ack: true}) || !yield(c06Settings{}) {
				return
			}
			ids := []SettingID{0, 1, 2, 3, 4, 5, 6, 8, 9, 0x10, 0xff, 0x100, 0x1234, 0xffff}
			vals := []uint32{0, 1, 100, 16384, 1<<24 - 1, 0x12345678, 1<<31 - 1, 1 << 31, 0xffffffff}
			ok := func(id SettingID, v uint32) bool { return id != 4 || v < 1<<31 }
			var singles []Setting
			for _, id := range ids {
				for _, v := range vals {
					if ok(id, v) {
						singles = append(singles, Setting{id, v})
					}
				}
			}
			for _, s := range singles {
				if !yield(c06Settings{L: []Setting{s}}) {
					return
				}
			}
			// pairs, including the same id twice with different values and with the same value
			pairSet := []Setting{{1, 0}, {1, 4096}, {4, 1<<31 - 1}, {4, 0}, {3, 100}, {0xffff, 0xffffffff}, {6, 0x12345678}}
			for _, a := range pairSet {
				for _, b := range pairSet {
					if !yield(c06Settings{L: []Setting{a, b}}) {
						return
					}
				}
			}
			// longer lists: distinct ids, a duplicate at the ends, a duplicate in the middle
			for _, n := range []int{3, 9, 10, 11, 101} {
				for _, dup := range []int{0, 1, 2} {
					l := make([]Setting, n)
					for i := range l {
						l[i] = Setting{SettingID(0x20 + i), uint32(i)*0x01010101 + 1}
					}
					switch dup {
					case 1:
						l[n-1].ID = l[0].ID
					case 2:
						l[n/2].ID = l[n/2-1].ID
					}
					l[n/3] = Setting{4, 1<<31 - 1}
					if !yield(c06Settings{L: l}) {
						return
					}
				}
			}
		}, func(w *vx.W, x c06Settings) {
			if x.Ack {
				c06Accept(w, "WriteSettingsAck", c06Want{Type: 0x4, Flags: 0x1}, "WriteSettingsAck()", func(fr *Framer) error { return fr.WriteSettingsAck() })
				w.Outcome("settings ack ok")
			} else {
				desc := fmt.Sprintf("WriteSettings(%d settings: %v)", len(x.L), x.L[:min(len(x.L), 12)])
				c06Accept(w, "WriteSettings", c06Want{Type: 0x4, Len: 6 * len(x.L), Settings: x.L}, desc, func(fr *Framer) error { return fr.WriteSettings(x.L...) })
				w.Outcome("settings ok")
			}
			if !w.Failed() {
				w.Nontrivial()
			}
		})

		// ---------------------------------------------------------- PING
		vx.Enumerate(c, "ping", vx.Opts{}, func(yield func(c06Ping) bool) {
			for _, a := range bools {
				for _, d := range [][8]byte{{}, {0xff, 0xff, 0xff, 0xff, 0xff, 0xff, 0xff, 0xff}, {1, 2, 3, 4, 5, 6, 7, 8}, {0, 0, 0, 0, 0, 0, 0, 1}, {0x80, 0, 0, 0, 0, 0, 0, 0}} {
					if !yield(c06Ping{a, d}) {
						return
					}
				}
			}
		}, func(w *vx.W, x c06Ping) {
			c06Accept(w, "WritePing", c06PingWant(x.Ack, x.Data), fmt.Sprintf("WritePing(%v, %x)", x.Ack, x.Data), func(fr *Framer) error { return fr.WritePing(x.Ack, x.Data) })
			if !w.Failed() {
				w.Nontrivial()
				w.Outcome("ping ok")
			}
		})

		// ---------------------------------------------------------- GOAWAY
		vx.Enumerate(c, "goaway", vx.Opts{}, func(yield func(c06GoAway) bool) {
			for _, last := range append([]uint32{0}, streams...) {
				for _, code := range codes {
					for _, d := range []int{-1, 0, 1, 300, 16384, 16385} {
						if !yield(c06GoAway{last, code, d}) {
							return
						}
					}
				}
			}
		}, func(w *vx.W, x c06GoAway) {
			var dbg []byte
			if x.Debug >= 0 {
				dbg = c06Fill(x.Debug, 4)
			}
			want := c06Want{Type: 0x7, Len: 8 + len(dbg), Last: x.Last, Code: ErrCode(x.Code), Body: dbg}
			c06Accept(w, "WriteGoAway", want, fmt.Sprintf("WriteGoAway(%#x, %#x, %d bytes)", x.Last, x.Code, x.Debug), func(fr *Framer) error { return fr.WriteGoAway(x.Last, ErrCode(x.Code), dbg) })
			if !w.Failed() {
				w.Nontrivial()
				w.Outcome("goaway ok")
			}
		})

		// ---------------------------------------------------------- WINDOW_UPDATE
		vx.Enumerate(c, "window_update", vx.Opts{}, func(yield func(c06WU) bool) {
			for _, s := range append([]uint32{0}, streams...) {
				for _, inc := range []uint32{1, 2, 0xff, 0x100, 0xffff, 0x10000, 0x12345678, 0x7ffffffe, 0x7fffffff, 0, 0x80000000, 0x80000001, 0xffffffff} {
					if !yield(c06WU{s, inc}) {
						return
					}
				}
			}
		}, func(w *vx.W, x c06WU) {
			desc := fmt.Sprintf("WriteWindowUpdate(%#x, %#x)", x.Stream, x.Incr)
			write := func(fr *Framer) error { return fr.WriteWindowUpdate(x.Stream, x.Incr) }
			if x.Incr == 0 || x.Incr > 0x7fffffff {
				c06Reject(w, "WriteWindowUpdate", "increment", desc, write)
				w.Outcome("window_update refused")
			} else {
				c06Accept(w, "WriteWindowUpdate", c06Want{Type: 0x8, Stream: x.Stream, Len: 4, Incr: x.Incr}, desc, write)
				w.Outcome("window_update ok")
			}
			if !w.Failed() {
				w.Nontrivial()
			}
		})

		// ---------------------------------------------------------- PUSH_PROMISE
		vx.Enumerate(c, "push_promise", vx.Opts{}, func(yield func(c06Push) bool) {
			for _, n := range sizes {
				for _, s := range allStreams {
					for _, pr := range allStreams {
						if s != pr && s != 1 && pr != 2 && s != 0x12345678 {
							continue // full cross for stream 1 / 0x12345678 / promise 2 / equal ids; others pairwise
						}
						for _, pad := range padsFor(n) {
							if pad > 2 && pad < 254 && (s != 1 || pr != 2) {
								continue
							}
							for _, eh := range bools {
								if !yield(c06Push{s, pr, eh, uint8(pad), n}) {
									return
								}
							}
						}
					}
				}
			}
		}, func(w *vx.W, x c06Push) {
			frag := c06Fill(x.N, 6)
			p := PushPromiseParam{StreamID: x.Stream, PromiseID: x.Promise, BlockFragment: frag, EndHeaders: x.EndHeaders, PadLength: x.Pad}
			desc := fmt.Sprintf("WritePushPromise(stream=%#x promise=%#x endHeaders=%v pad=%d frag=%d bytes)", x.Stream, x.Promise, x.EndHeaders, x.Pad, x.N)
			write := func(fr *Framer) error { return fr.WritePushPromise(p) }
			switch {
			case !c06StreamOK(x.Stream):
				c06Reject(w, "WritePushPromise", "stream-id", desc, write)
				w.Outcome("push_promise refused")
			case !c06StreamOK(x.Promise):
				c06Reject(w, "WritePushPromise", "promise-id", desc, write)
				w.Outcome("push_promise refused")
			default:
				want := c06Want{Type: 0x5, Stream: x.Stream, Promise: x.Promise, Body: frag, Len: 4 + x.N}
				if x.EndHeaders {
					want.Flags |= 0x4
				}
				if x.Pad != 0 {
					want.Flags |= 0x8
					want.Len += 1 + int(x.Pad)
				}
				c06Accept(w, "WritePushPromise", want, desc, write)
				w.Outcome(fmt.Sprintf("push_promise ok flags=%#x", uint8(want.Flags)))
			}
			if !w.Failed() {
				w.Nontrivial()
			}
		})

		// ---------------------------------------------------------- PRIORITY_UPDATE
		vx.Enumerate(c, "priority_update", vx.Opts{}, func(yield func(c06PU) bool) {
			for _, s := range allStreams {
				for pr := range c06PUValues {
					if !yield(c06PU{s, pr}) {
						return
					}
				}
			}
		}, func(w *vx.W, x c06PU) {
			prio := c06PUValues[x.Prio]
			desc := fmt.Sprintf("WritePriorityUpdate(%#x, %q)", x.Stream, prio)
			write := func(fr *Framer) error { return fr.WritePriorityUpdate(x.Stream, prio) }
			if !c06StreamOK(x.Stream) {
				c06Reject(w, "WritePriorityUpdate", "stream-id", desc, write)
				w.Outcome("priority_update refused")
			} else {
				c06Accept(w, "WritePriorityUpdate", c06Want{Type: 0x10, Stream: 0, Len: 4 + len(prio), PUID: x.Stream, Body: []byte(prio)}, desc, write)
				w.Outcome("priority_update ok")
			}
			if !w.Failed() {
				w.Nontrivial()
			}
		})

		// ---------------------------------------------------------- raw frames
		flagSet := []uint8{0, 1, 2, 4, 8, 0x10, 0x20, 0x40, 0x80, 0x2d, 0xff}
		if !c.Quick() {
			flagSet = flagSet[:0]
			for f := 0; f < 256; f++ {
				flagSet = append(flagSet, uint8(f))
			}
		}
		rawStreams := []uint32{0, 1, 0x12345678, 0x7fffffff}
		vx.Enumerate(c, "raw", vx.Opts{}, func(yield func(c06Raw) bool) {
			for t := 0; t < 256; t++ {
				ns := []int{0, 1, 7, 300}
				if c06IsKnownType(uint8(t)) {
					// known types: every flag byte in both tiers
					for f := 0; f < 256; f++ {
						for _, s := range rawStreams {
							for _, n := range ns {
								if !yield(c06Raw{uint8(t), uint8(f), s, n}) {
									return
								}
							}
						}
					}
					continue
				}
				for _, f := range flagSet {
					for _, s := range rawStreams {
						for _, n := range append(ns, 16385) {
							if n == 16385 && f != 0 && f != 0xff {
								continue
							}
							if !yield(c06Raw{uint8(t), f, s, n}) {
								return
							}
						}
					}
				}
			}
		}, func(w *vx.W, x c06Raw) {
			payload, want, ok := c06RawKnown(x.Type, x.Flags, x.Stream, x.N)
			if !ok {
				return // no valid frame of this type on this stream-id class
			}
			if x.Type == 0x4 && x.Flags&0x1 != 0 && len(payload) != 0 {
				panic("harness: SETTINGS ack with payload")
			}
			desc := fmt.Sprintf("WriteRawFrame(type=%#x flags=%#x stream=%#x payload=%s)", x.Type, x.Flags, x.Stream, c06Short(payload))
			c06Accept(w, "WriteRawFrame", want, desc, func(fr *Framer) error {
				return fr.WriteRawFrame(FrameType(x.Type), Flags(x.Flags), x.Stream, payload)
			})
			if !w.Failed() {
				w.Nontrivial()
				if c06IsKnownType(x.Type) {
					w.Outcome(fmt.Sprintf("raw known type %#x ok", x.Type))
				} else {
					w.Outcome("raw unknown type ok")
				}
			}
		})

		// ---------------------------------------------------------- trains in legal order
		vx.Enumerate(c, "train", vx.Opts{}, func(yield func(c06Train) bool) {
			pieceSizes := []int{0, 1, 5, 16384}
			for _, push := range bools {
				for _, s := range []uint32{1, 0x7fffffff} {
					for _, es := range bools {
						for _, pad := range []uint8{0, 1, 255} {
							for _, pi := range []int{0, 3, 5} {
								if push && (es || pi != 0) {
									continue
								}
								ok := vx.Strings(pieceSizes, 1, vx.Pick(c, 3, 4), func(p []int) bool {
									return yield(c06Train{push, s, es, pad, pi, p})
								})
								if !ok {
									return
								}
							}
						}
					}
				}
			}
		}, func(w *vx.W, x c06Train) {
			var buf bytes.Buffer
			fr := NewFramer(&buf, nil)
			var wants []c06Want
			m := "train:HEADERS+CONTINUATION"
			if x.Push {
				m = "train:PUSH_PROMISE+CONTINUATION"
			}
			for i, n := range x.Pieces {
				frag := c06Fill(n, 20+i)
				last := i == len(x.Pieces)-1
				var err error
				var want c06Want
				switch {
				case i == 0 && !x.Push:
					pr := c06Prios[x.Prio].P
					err = fr.WriteHeaders(HeadersFrameParam{StreamID: x.Stream, BlockFragment: frag, EndStream: x.EndStream, EndHeaders: last, PadLength: x.Pad, Priority: pr})
					want = c06Want{Type: 0x1, Stream: x.Stream, Body: frag, Len: n}
					if x.EndStream {
						want.Flags |= 0x1
					}
					if x.Pad != 0 {
						want.Flags |= 0x8
						want.Len += 1 + int(x.Pad)
					}
					if pr != (PriorityParam{}) {
						want.Flags |= 0x20
						want.Len += 5
						want.HasPrio, want.Prio = true, pr
					}
				case i == 0:
					err = fr.WritePushPromise(PushPromiseParam{StreamID: x.Stream, PromiseID: 2, BlockFragment: frag, EndHeaders: last, PadLength: x.Pad})
					want = c06Want{Type: 0x5, Stream: x.Stream, Promise: 2, Body: frag, Len: 4 + n}
					if x.Pad != 0 {
						want.Flags |= 0x8
						want.Len += 1 + int(x.Pad)
					}
				default:
					err = fr.WriteContinuation(x.Stream, last, frag)
					want = c06Want{Type: 0x9, Stream: x.Stream, Body: frag, Len: n}
				}
				if last {
					want.Flags |= 0x4
				}
				if err != nil {
					w.Failf("C06/"+m+"/rejected-valid-args", "%+v: write %d failed: %v", x, i, err)
					return
				}
				wants = append(wants, want)
			}
			// a DATA frame on the same stream closes the train: the reader must be back in the idle state
			d := c06Fill(3, 40)
			if err := fr.WriteData(x.Stream, true, d); err != nil {
				w.Failf("C06/WriteData/rejected-valid-args", "%v", err)
				return
			}
			wants = append(wants, c06Want{Type: 0x0, Flags: 0x1, Stream: x.Stream, Body: d, Len: 3})
			c06Verify(w, m, buf.Bytes(), wants, false, fmt.Sprintf("%+v read in legal order by a default Framer", x))
			if !w.Failed() {
				w.Nontrivial()
				w.Outcome(fmt.Sprintf("train of %d ok", len(x.Pieces)))
			}
		})

		// ---------------------------------------------------------- largest frames (serial: 16 MB each)
		vx.Enumerate(c, "huge", vx.Opts{Serial: true, NoRerun: true}, func(yield func(c06Huge) bool) {
			ms := []string{"WriteData", "WriteDataPadded", "WriteHeaders", "WriteContinuation", "WriteGoAway", "WritePushPromise", "WriteRawFrame", "WritePriorityUpdate", "WriteSettings"}
			if c.Quick() {
				ms = []string{"WriteDataPadded", "WriteHeaders", "WriteRawFrame"}
			}
			for _, m := range ms {
				for _, over := range bools {
					if !yield(c06Huge{m, over}) {
						return
					}
				}
			}
		}, func(w *vx.W, x c06Huge) {
			const maxLen = 1<<24 - 1
			extra := 0
			if x.Over {
				extra = 1
			}
			var want c06Want
			var write func(fr *Framer) error
			switch x.M {
			case "WriteData":
				b := c06Fill(maxLen+extra, 1)
				want = c06Want{Type: 0x0, Stream: 1, Body: b, Len: len(b)}
				write = func(fr *Framer) error { return fr.WriteData(1, false, b) }
			case "WriteDataPadded":
				b := c06Fill(maxLen-256+extra, 1)
				want = c06Want{Type: 0x0, Flags: 0x9, Stream: 1, Body: b, Len: len(b) + 256}
				write = func(fr *Framer) error { return fr.WriteDataPadded(1, true, b, make([]byte, 255)) }
			case "WriteHeaders":
				b := c06Fill(maxLen-256-5+extra, 1)
				pr := PriorityParam{StreamDep: 3, Weight: 200}
				want = c06Want{Type: 0x1, Flags: 0x2c, Stream: 1, Body: b, Len: len(b) + 261, HasPrio: true, Prio: pr}
				write = func(fr *Framer) error {
					return fr.WriteHeaders(HeadersFrameParam{StreamID: 1, BlockFragment: b, EndHeaders: true, PadLength: 255, Priority: pr})
				}
			case "WriteContinuation":
				b := c06Fill(maxLen+extra, 1)
				want = c06Want{Type: 0x9, Flags: 0x4, Stream: 1, Body: b, Len: len(b)}
				write = func(fr *Framer) error { return fr.WriteContinuation(1, true, b) }
			case "WriteGoAway":
				b := c06Fill(maxLen-8+extra, 1)
				want = c06Want{Type: 0x7, Body: b, Len: len(b) + 8, Last: 5, Code: 2}
				write = func(fr *Framer) error { return fr.WriteGoAway(5, 2, b) }
			case "WritePushPromise":
				b := c06Fill(maxLen-4-2+extra, 1)
				want = c06Want{Type: 0x5, Flags: 0x8, Stream: 1, Promise: 2, Body: b, Len: len(b) + 6}
				write = func(fr *Framer) error {
					return fr.WritePushPromise(PushPromiseParam{StreamID: 1, PromiseID: 2, BlockFragment: b, PadLength: 1})
				}
			case "WriteRawFrame":
				b := c06Fill(maxLen+extra, 1)
				want = c06Want{Type: 0xfe, Flags: 0xff, Stream: 0x7fffffff, Body: b, Len: len(b)}
				write = func(fr *Framer) error { return fr.WriteRawFrame(0xfe, 0xff, 0x7fffffff, b) }
			case "WritePriorityUpdate":
				b := bytes.Repeat([]byte("u"), maxLen-4+extra)
				want = c06Want{Type: 0x10, Body: b, Len: len(b) + 4, PUID: 9}
				s := string(b)
				write = func(fr *Framer) error { return fr.WritePriorityUpdate(9, s) }
			case "WriteSettings":
				// 2796202 settings = 2^24-4 bytes (the largest multiple of 6 below 2^24); one more is too large
				l := make([]Setting, (maxLen/6)+extra)
				for i := range l {
					l[i] = Setting{SettingID(0x100 + i%7), uint32(i)}
				}
				want = c06Want{Type: 0x4, Len: 6 * len(l), Settings: l}
				write = func(fr *Framer) error { return fr.WriteSettings(l...) }
			}
			desc := fmt.Sprintf("%s with a %d-byte payload", x.M, want.Len)
			if x.Over {
				c06Reject(w, x.M, "payload-2^24", desc, write)
				w.Outcome("huge refused")
			} else {
				c06Accept(w, x.M, want, desc, write)
				w.Outcome("huge ok")
			}
			if !w.Failed() {
				w.Nontrivial()
			}
		})
	})
}
