//go:build !(go1.27 && !http2legacy)

package http2_test

// c17cli: event-level harness around a real http2.Transport inside a
// testing/synctest bubble. The harness owns the network (the Transport's dial
// hook hands out in-memory connections whose far end the harness plays as the
// server, writing frames built with a real Framer and decoding the client's
// output with the c15Wire decoder) and the application (goroutines that call
// Transport.RoundTrip). Shared by C17 and C18.

import (
	"bytes"
	"context"
	"crypto/tls"
	"fmt"
	"io"
	"math"
	"net"
	"net/http"
	"net/http/httptrace"
	"strconv"
	"strings"
	"sync"
	"testing"
	"testing/synctest"
	"time"

	. "golang.org/x/net/http2"
	"golang.org/x/net/http2/hpack"
)

type c17Req struct {
	idx       int
	body      string // "" none, "replay" (known length, GetBody available), "once" (plain io.Reader of undeclared length), and the C17 shapes "trl-set", "trl-unset", "trl-empty", "stalled" (see request)
	stall     *c17StallBody // body == "stalled"
	slow      *c17SlowCloseBody // body == "slowclose" / "big-slowclose": Close blocks until the harness releases it
	big       bool              // the request carries a c17BigHeaderLen-byte header field (larger than c17HeaderListLimit)
	late      *c17LateBody  // body == "late"
	cancel    context.CancelFunc
	done      chan struct{}
	resp      *http.Response
	err       error
	cancelled bool
}

// c17Assign is one decision of the connection pool as reported through the
// public httptrace.ClientTrace.GotConn hook: attempt number `attempt` (1 = the
// first, > 1 = a retry by the Transport) of request req was handed to connection
// conn during harness step `step`.
type c17Assign struct {
	req, conn, attempt, step int
}

func (r *c17Req) finished() bool {
	select {
	case <-r.done:
		return true
	default:
		return false
	}
}

// c17Stream is one stream the client opened on a connection, as seen on the wire.
type c17Stream struct {
	id       uint32
	req      int // request index from the x-req header (-1 unknown)
	step     int
	cliEnded bool
	cliRst   bool
	srvEnded bool
	srvRst   bool
	dataLen  int
}

func (st *c17Stream) open() bool {
	return !(st.cliRst || st.srvRst || (st.cliEnded && st.srvEnded))
}

type c17Conn struct {
	idx          int
	srv          *synctestNetConn // the harness' (server) end
	cliEnd       net.Conn
	cc           *ClientConn
	wire         *c15Wire
	pre          []byte
	preOK        bool
	fr           *Framer
	wbuf         bytes.Buffer
	henc         *hpack.Encoder
	hbuf         bytes.Buffer
	frames       []c15Frame
	streams      []*c17Stream
	byID         map[uint32]*c17Stream
	cliClosed    bool // the client closed the connection (EOF)
	srvClosed    bool // the harness closed it
	sentSettings bool
	pingsSeen    [][8]byte // PINGs from the client not yet acknowledged
	notReading   bool      // the server has stopped reading: the client's writes block (back-pressure)
}

type c17cli struct {
	t  testing.TB
	tr *Transport

	mu      sync.Mutex
	conns   []*c17Conn
	reqs    []*c17Req
	step    int
	bad     []string    // harness-level protocol problems observed in the client's output
	assigns []c17Assign // pool decisions in the order they were made (guarded by mu)
}

func c17cliNew(t testing.TB, strict bool) *c17cli {
	h := &c17cli{t: t}
	h.tr = &Transport{
		StrictMaxConcurrentStreams: strict,
		AllowHTTP:                  true,
		DialTLSContext: func(ctx context.Context, network, addr string, cfg *tls.Config) (net.Conn, error) {
			cli, srv := synctestNetPipe()
			srv.SetReadDeadline(time.Now())
			c := &c17Conn{srv: srv, cliEnd: cli, wire: c15NewWire(), byID: map[uint32]*c17Stream{}}
			c.fr = NewFramer(&c.wbuf, nil)
			c.fr.AllowIllegalWrites = true
			c.henc = hpack.NewEncoder(&c.hbuf)
			h.mu.Lock()
			c.idx = len(h.conns)
			h.conns = append(h.conns, c)
			h.mu.Unlock()
			return cli, nil
		},
	}
	h.tr.TestSetNewClientConnHook(func(cc *ClientConn) {
		h.mu.Lock()
		defer h.mu.Unlock()
		for _, c := range h.conns {
			if c.cliEnd == cc.TestNetConn() {
				c.cc = cc
			}
		}
	})
	return h
}

type c17OnceBody struct{ r *strings.Reader }

func (b *c17OnceBody) Read(p []byte) (int, error) { return b.r.Read(p) }
func (b *c17OnceBody) Close() error               { return nil }

// c17EOFHookBody is a body of undeclared length that calls atEOF (on the
// goroutine that reads the body) just before it reports io.EOF: the documented
// net/http way of filling in announced trailers.
type c17EOFHookBody struct {
	r     *strings.Reader
	atEOF func()
}

func (b *c17EOFHookBody) Read(p []byte) (int, error) {
	if b.r.Len() == 0 && b.atEOF != nil {
		b.atEOF()
		b.atEOF = nil
	}
	return b.r.Read(p)
}
func (b *c17EOFHookBody) Close() error { return nil }

// c17StallBody is a body of undeclared length that delivers "abc" and then
// does not reach EOF until the harness says so (release) or until it is closed
// (by the Transport when the request is aborted, or by the harness at the end
// of the case).
type c17StallBody struct {
	r        *strings.Reader
	eof      chan struct{}
	closed   chan struct{}
	mu       sync.Mutex
	released bool
	isClosed bool
}

func (b *c17StallBody) Read(p []byte) (int, error) {
	if b.r.Len() > 0 {
		return b.r.Read(p)
	}
	select {
	case <-b.closed:
		return 0, io.ErrClosedPipe
	default:
	}
	select {
	case <-b.eof:
		return 0, io.EOF
	case <-b.closed:
		return 0, io.ErrClosedPipe
	}
}

func (b *c17StallBody) Close() error {
	b.mu.Lock()
	defer b.mu.Unlock()
	if !b.isClosed {
		b.isClosed = true
		close(b.closed)
	}
	return nil
}

// release lets the body reach EOF.
func (b *c17StallBody) release() {
	b.mu.Lock()
	defer b.mu.Unlock()
	if !b.released {
		b.released = true
		close(b.eof)
	}
}

// stalled: the body has neither reached EOF nor been closed.
func (b *c17StallBody) stalled() bool {
	b.mu.Lock()
	defer b.mu.Unlock()
	return !b.released && !b.isClosed
}

// c17LateBody is a body of undeclared length whose data is not available yet:
// Read blocks until the harness says the data is there (release), then delivers
// "abc" and EOF. Closing it (the Transport does when the request is aborted)
// unblocks a pending Read.
type c17LateBody struct {
	r        *strings.Reader
	ready    chan struct{}
	closed   chan struct{}
	mu       sync.Mutex
	released bool
	isClosed bool
}

func (b *c17LateBody) Read(p []byte) (int, error) {
	select {
	case <-b.closed:
		return 0, io.ErrClosedPipe
	default:
	}
	select {
	case <-b.ready:
		return b.r.Read(p)
	case <-b.closed:
		return 0, io.ErrClosedPipe
	}
}

func (b *c17LateBody) Close() error {
	b.mu.Lock()
	defer b.mu.Unlock()
	if !b.isClosed {
		b.isClosed = true
		close(b.closed)
	}
	return nil
}

// release makes the body's data available. It reports false if the data had
// been released before or the body has been closed.
func (b *c17LateBody) release() bool {
	b.mu.Lock()
	defer b.mu.Unlock()
	if b.released || b.isClosed {
		return false
	}
	b.released = true
	close(b.ready)
	return true
}

// c17SlowCloseBody is a 3-byte body of undeclared length whose Close does not
// return before the harness releases it (a slow Request.Body.Close is a
// legitimate answer of the application: a body backed by a file on a slow
// disk, a pipe whose other end has to be told). The Transport closes the body
// in the clean-up of the request, so the clean-up is parked there until release.
type c17SlowCloseBody struct {
	r        *strings.Reader
	rel      chan struct{}
	mu       sync.Mutex
	closing  bool // Close has been called
	released bool
}

func (b *c17SlowCloseBody) Read(p []byte) (int, error) { return b.r.Read(p) }

func (b *c17SlowCloseBody) Close() error {
	b.mu.Lock()
	b.closing = true
	b.mu.Unlock()
	<-b.rel
	return nil
}

// pending: Close has been called and has not been allowed to return yet.
func (b *c17SlowCloseBody) pending() bool {
	b.mu.Lock()
	defer b.mu.Unlock()
	return b.closing && !b.released
}

// release lets Close return (now, or at once when it is called later).
func (b *c17SlowCloseBody) release() {
	b.mu.Lock()
	defer b.mu.Unlock()
	if !b.released {
		b.released = true
		close(b.rel)
	}
}

// c17HeaderListLimit is the SETTINGS_MAX_HEADER_LIST_SIZE the harness' server
// announces where a case asks for it; c17BigHeaderLen is the length of the
// header field value that makes a request's header list larger than that
// (every other request's header list is far below it).
const (
	c17HeaderListLimit = 4096
	c17BigHeaderLen    = 5000
)

// request starts RoundTrip number len(reqs) in its own goroutine. body selects
// the shape of the request:
//
//	""           GET without a body (END_STREAM on the request HEADERS)
//	"replay"     POST, 3-byte body of declared length (END_STREAM on the last DATA frame)
//	"once"       POST, 3-byte body of undeclared length, no trailers (END_STREAM on an empty DATA frame)
//	"trl-set"    as "once", Request.Trailer announces X-T with a nil value that is filled in when the body reaches EOF (END_STREAM on the trailer HEADERS)
//	"trl-unset"  as "once", Request.Trailer announces X-T with a nil value that is never filled in (nothing to send as trailers)
//	"trl-empty"  as "once", Request.Trailer is a non-nil empty map
//	"stalled"    as "once", but after its 3 bytes the body does not reach EOF before releaseBody (the request half of the stream stays open)
//	"slowclose"  as "once", but the body's Close blocks until the harness releases it
//	"big"        GET with a header field of c17BigHeaderLen bytes: fails locally, after its stream id was assigned and before anything is written, once the peer has announced MAX_HEADER_LIST_SIZE c17HeaderListLimit
//	"big-slowclose"  "big" + "slowclose" (POST)
//	"late"       as "once", but the body's 3 bytes are not available before late.release (the request HEADERS go out, the DATA follows later)
func (h *c17cli) request(body string) *c17Req {
	ctx, cancel := context.WithCancel(context.Background())
	r := &c17Req{idx: len(h.reqs), body: body, cancel: cancel, done: make(chan struct{})}
	var rd io.Reader
	var trailer http.Header
	method := "GET"
	switch body {
	case "":
	case "replay":
		rd = strings.NewReader("abc") // http.NewRequest sets GetBody
		method = "POST"
	case "once":
		rd = &c17OnceBody{strings.NewReader("abc")}
		method = "POST"
	case "trl-set":
		trailer = http.Header{"X-T": nil}
		rd = &c17EOFHookBody{r: strings.NewReader("abc"), atEOF: func() { trailer.Set("X-T", "v") }}
		method = "POST"
	case "trl-unset":
		trailer = http.Header{"X-T": nil}
		rd = &c17EOFHookBody{r: strings.NewReader("abc")}
		method = "POST"
	case "trl-empty":
		trailer = http.Header{}
		rd = &c17EOFHookBody{r: strings.NewReader("abc")}
		method = "POST"
	case "stalled":
		r.stall = &c17StallBody{r: strings.NewReader("abc"), eof: make(chan struct{}), closed: make(chan struct{})}
		rd = r.stall
		method = "POST"
	case "big":
		r.big = true
	case "slowclose", "big-slowclose":
		r.slow = &c17SlowCloseBody{r: strings.NewReader("abc"), rel: make(chan struct{})}
		rd = r.slow
		method = "POST"
		r.big = body == "big-slowclose"
	case "late":
		r.late = &c17LateBody{r: strings.NewReader("abc"), ready: make(chan struct{}), closed: make(chan struct{})}
		rd = r.late
		method = "POST"
	default:
		panic("c17cli.request: unknown body kind " + body)
	}
	req, err := http.NewRequestWithContext(ctx, method, "https://dummy.tld/"+strconv.Itoa(r.idx), rd)
	if err != nil {
		panic(err)
	}
	req.Header.Set("x-req", strconv.Itoa(r.idx))
	if r.big {
		req.Header.Set("x-big", strings.Repeat("v", c17BigHeaderLen))
	}
	if trailer != nil {
		req.Trailer = trailer
	}
	// observe the pool's decisions for this request (public API, no effect on the Transport)
	req = req.WithContext(httptrace.WithClientTrace(ctx, &httptrace.ClientTrace{
		GotConn: func(ci httptrace.GotConnInfo) { h.noteAssign(r.idx, ci.Conn) },
	}))
	h.reqs = append(h.reqs, r)
	go func() {
		defer close(r.done)
		r.resp, r.err = h.tr.RoundTrip(req)
		if r.resp != nil {
			io.Copy(io.Discard, r.resp.Body)
			r.resp.Body.Close()
		}
	}()
	return r
}

func (h *c17cli) noteAssign(req int, nc net.Conn) {
	h.mu.Lock()
	defer h.mu.Unlock()
	a := c17Assign{req: req, conn: -1, attempt: 1, step: h.step}
	for _, c := range h.conns {
		if c.cliEnd == nc {
			a.conn = c.idx
		}
	}
	for _, b := range h.assigns {
		if b.req == req {
			a.attempt++
		}
	}
	h.assigns = append(h.assigns, a)
}

// assignList returns the pool decisions observed so far.
func (h *c17cli) assignList() []c17Assign {
	h.mu.Lock()
	defer h.mu.Unlock()
	return append([]c17Assign(nil), h.assigns...)
}

func (h *c17cli) connList() []*c17Conn {
	h.mu.Lock()
	defer h.mu.Unlock()
	return append([]*c17Conn(nil), h.conns...)
}

// settle waits for quiescence and decodes what the client wrote on every
// connection. It returns, per connection index, the new frames (not yet tracked).
func (h *c17cli) settle() map[int][]c15Frame {
	synctest.Wait()
	out := map[int][]c15Frame{}
	for _, c := range h.connList() {
		var data []byte
		var tmp [8192]byte
		for {
			n, err := c.srv.Read(tmp[:])
			data = append(data, tmp[:n]...)
			if err != nil {
				if err == io.EOF {
					c.cliClosed = true
				}
				break
			}
			if n == 0 {
				break
			}
		}
		if !c.preOK {
			c.pre = append(c.pre, data...)
			if len(c.pre) < len(ClientPreface) {
				continue
			}
			if string(c.pre[:len(ClientPreface)]) != ClientPreface {
				h.bad = append(h.bad, fmt.Sprintf("conn %d: bad client preface %q", c.idx, c.pre[:len(ClientPreface)]))
			}
			data = c.pre[len(ClientPreface):]
			c.pre = nil
			c.preOK = true
		}
		fs := c.wire.feed(data, h.step)
		if c.wire.bad != "" {
			h.bad = append(h.bad, fmt.Sprintf("conn %d: %s", c.idx, c.wire.bad))
			c.wire.bad = ""
		}
		c.frames = append(c.frames, fs...)
		if len(fs) > 0 {
			out[c.idx] = fs
		}
	}
	h.mu.Lock()
	h.step++
	h.mu.Unlock()
	return out
}

// track updates the wire view of the connection's streams with a client frame
// (called by the monitors, frame by frame, after their own checks).
func (c *c17Conn) track(f *c15Frame) {
	switch f.Type {
	case FrameHeaders:
		st := c.byID[f.Stream]
		if st == nil {
			st = &c17Stream{id: f.Stream, req: -1, step: f.Step}
			for _, kv := range f.Fields {
				if kv[0] == "x-req" {
					st.req, _ = strconv.Atoi(kv[1])
				}
			}
			c.streams = append(c.streams, st)
			c.byID[f.Stream] = st
		}
		if f.EndStream {
			st.cliEnded = true
		}
	case FrameData:
		if st := c.byID[f.Stream]; st != nil {
			st.dataLen += f.Len
			if f.EndStream {
				st.cliEnded = true
			}
		}
	case FrameRSTStream:
		if st := c.byID[f.Stream]; st != nil {
			st.cliRst = true
		}
	case FramePing:
		if !f.Ack {
			c.pingsSeen = append(c.pingsSeen, f.Ping)
		}
	}
}

func (c *c17Conn) openCount() int {
	n := 0
	for _, st := range c.streams {
		if st.open() {
			n++
		}
	}
	return n
}

func (c *c17Conn) usable() bool { return !c.cliClosed && !c.srvClosed }

func (c *c17Conn) flush() {
	if c.wbuf.Len() == 0 {
		return
	}
	c.srv.Write(c.wbuf.Bytes())
	c.wbuf.Reset()
}

func (c *c17Conn) encode(fields ...string) []byte {
	c.hbuf.Reset()
	for i := 0; i+1 < len(fields); i += 2 {
		c.henc.WriteField(hpack.HeaderField{Name: fields[i], Value: fields[i+1]})
	}
	return append([]byte(nil), c.hbuf.Bytes()...)
}

// server-side actions --------------------------------------------------------------

func (c *c17Conn) settings(ss ...Setting) {
	c.fr.WriteSettings(ss...)
	if !c.sentSettings {
		c.sentSettings = true
		c.fr.WriteSettingsAck() // acknowledge the client's initial SETTINGS
	}
	c.flush()
}

func (c *c17Conn) respondEnd(st *c17Stream) {
	c.fr.WriteHeaders(HeadersFrameParam{StreamID: st.id, BlockFragment: c.encode(":status", "200"), EndStream: true, EndHeaders: true})
	st.srvEnded = true
	c.flush()
}

func (c *c17Conn) reset(st *c17Stream, code ErrCode) {
	c.fr.WriteRSTStream(st.id, code)
	st.srvRst = true
	c.flush()
}

func (c *c17Conn) pingAcks() int {
	n := len(c.pingsSeen)
	for _, p := range c.pingsSeen {
		c.fr.WritePing(true, p)
	}
	c.pingsSeen = nil
	c.flush()
	return n
}

// stopReading: the server stops reading from the connection. Nothing the
// client writes from now on is accepted by the network: its writes block
// (whoever holds the connection's write path is stuck in Write) until
// resumeReading.
func (c *c17Conn) stopReading() {
	c.notReading = true
	c.srv.SetReadBufferSize(0)
}

func (c *c17Conn) resumeReading() {
	c.notReading = false
	c.srv.SetReadBufferSize(math.MaxInt)
}

// writeStuck: the server is not reading and a client goroutine is stuck in a
// write on this connection, holding the connection's write lock. hdr: that
// goroutine (or another) also holds the new-request lock, so that further
// requests handed to the connection queue up on a channel.
func (c *c17Conn) writeStuck() (stuck, hdr bool) {
	if !c.notReading || c.cc == nil {
		return false, false
	}
	return c.cc.C17WriteBusy()
}

func (c *c17Conn) goAway(last uint32, code ErrCode) {
	c.fr.WriteGoAway(last, code, nil)
	c.flush()
}

func (c *c17Conn) close() {
	c.srvClosed = true
	c.srv.Close()
}

// finish ends the case: cancel what is pending, hang up everywhere.
func (h *c17cli) finish() {
	// let blocked writes drain first: a cancellation needs the connection's
	// write lock, and synctest cannot wait on a goroutine blocked on a mutex
	for _, c := range h.connList() {
		if c.notReading {
			c.resumeReading()
		}
	}
	synctest.Wait()
	for _, r := range h.reqs {
		r.cancel()
	}
	synctest.Wait()
	for _, r := range h.reqs {
		if r.stall != nil {
			r.stall.Close() // a body that never ends would keep its request goroutine in the bubble for ever
		}
		if r.slow != nil {
			r.slow.release() // the same for a clean-up parked in Close
		}
		if r.late != nil {
			r.late.Close()
		}
	}
	synctest.Wait()
	for _, c := range h.connList() {
		if !c.srvClosed {
			c.close()
		}
	}
	h.tr.CloseIdleConnections()
	synctest.Wait()
	time.Sleep(30 * time.Second) // retry back-off timers, unused-connection timers
	synctest.Wait()
	for _, c := range h.connList() {
		if !c.srvClosed {
			c.close()
		}
	}
	synctest.Wait()
}

func (h *c17cli) history() string {
	var b strings.Builder
	for _, c := range h.connList() {
		fmt.Fprintf(&b, " conn%d{", c.idx)
		for _, f := range c.frames {
			if f.Type == FrameHeaders {
				req := "?"
				for _, kv := range f.Fields {
					if kv[0] == "x-req" {
						req = kv[1]
					}
				}
				fmt.Fprintf(&b, " [%d]HEADERS(s=%d,req=%s,end=%v)", f.Step, f.Stream, req, f.EndStream)
			} else {
				fmt.Fprintf(&b, " [%d]%v", f.Step, f)
			}
		}
		b.WriteString(" }")
	}
	if as := h.assignList(); len(as) > 0 {
		b.WriteString(" pool{")
		for _, a := range as {
			fmt.Fprintf(&b, " [%d]req%d->conn%d", a.step, a.req, a.conn)
		}
		b.WriteString(" }")
	}
	for _, r := range h.reqs {
		switch {
		case !r.finished() && r.slow != nil && r.slow.pending():
			fmt.Fprintf(&b, " req%d=pending(body.Close has not returned)", r.idx)
		case !r.finished():
			fmt.Fprintf(&b, " req%d=pending", r.idx)
		case r.err != nil:
			fmt.Fprintf(&b, " req%d=err(%v)", r.idx, r.err)
		default:
			fmt.Fprintf(&b, " req%d=%d", r.idx, r.resp.StatusCode)
		}
	}
	return b.String()
}
