//go:build !(go1.27 && !http2legacy)

package http2_test

// C15 — the HTTP/2 server obeys stream-state and connection-control rules.
//
// EV exploration: one case = one configuration + one sequence of client /
// handler events, executed against a fresh real server inside its own synctest
// bubble; after every event the harness waits for quiescence, decodes what the
// server wrote and feeds a monitor whose clauses are invariants over the
// observed wire history and the handler entry/exit events.

import (
	"fmt"
	"sort"
	"strconv"
	"strings"
	"testing"
	"testing/synctest"

	. "golang.org/x/net/http2"
	"golang.org/x/net/internal/zzverif/vx"
)

type c15Case struct {
	Cfg string   `json:"cfg"` // "m<maxStreams>[-sched]"
	Ev  []string `json:"ev"`
}

// ---- static (generator-side) legality --------------------------------------------

type c15GenSlot struct {
	kind  string // "H", "Ho" or "Hb:…"
	rst   bool
	done  bool
	ended bool
	x     bool
	t     bool
	ign   bool // opened after GS: above the GOAWAY's last stream id, the server ignores it (no handler)
}

type c15GenState struct {
	slots []c15GenSlot
	max   int // bound on the number of stream slots (0 = c15MaxSlots)
	pings int
	sets  int
	blk   bool
	gsMenu bool // GS (the server starts a graceful shutdown) is on the menu
	gs     bool // GS has been issued (at most once per case)
}

// c15MaxSlots bounds the number of streams of a case in the parts that start
// from the empty connection. Parts that start from a seeded prefix use
// c15SeedSlots(limit) instead.
const c15MaxSlots = 3

// c15SeedSlots is the stream bound of the seeded parts for an advertised limit
// of L streams: L streams whose handlers still run after the client has reset
// them (every handler slot taken, every stream slot free again), L live
// streams on top of them (the handler queue at its fullest), and one more
// stream beyond the limit; never less than c15MaxSlots.
func c15SeedSlots(limit int) int {
	if n := 2*limit + 1; n > c15MaxSlots {
		return n
	}
	return c15MaxSlots
}

func c15GenNext(st *c15GenState, bad []string, blocking bool, emit func(ev string, apply func(*c15GenState))) {
	max := st.max
	if max == 0 {
		max = c15MaxSlots
	}
	if len(st.slots) < max {
		emit("H", func(s *c15GenState) { s.slots = append(s.slots, c15GenSlot{kind: "H", ended: true, ign: s.gs}) })
		emit("Ho", func(s *c15GenState) { s.slots = append(s.slots, c15GenSlot{kind: "Ho", ign: s.gs}) })
		for _, k := range bad {
			k := k
			emit("Hb:"+k, func(s *c15GenState) { s.slots = append(s.slots, c15GenSlot{kind: "Hb:" + k, ended: true, ign: s.gs}) })
		}
	}
	for i := range st.slots {
		i := i
		sl := st.slots[i]
		n := strconv.Itoa(i + 1)
		valid := sl.kind == "H" || sl.kind == "Ho"
		if !sl.rst {
			emit("R"+n, func(s *c15GenState) { s.slots[i].rst = true })
		}
		if valid && !sl.done && !sl.ign {
			emit("W"+n, func(s *c15GenState) {})
			emit("F"+n, func(s *c15GenState) { s.slots[i].done = true })
			emit("P"+n, func(s *c15GenState) { s.slots[i].done = true })
		}
		if sl.kind == "Ho" && !sl.ended && !sl.rst {
			emit("D"+n, func(s *c15GenState) { s.slots[i].ended = true })
		}
		if !sl.x {
			emit("X"+n, func(s *c15GenState) { s.slots[i].x = true })
		}
		if !sl.t {
			emit("T"+n, func(s *c15GenState) { s.slots[i].t = true; s.slots[i].ended = true })
		}
	}
	if st.pings < 2 {
		emit("PING", func(s *c15GenState) { s.pings++ })
	}
	if st.sets < 2 {
		emit("SET", func(s *c15GenState) { s.sets++ })
	}
	if st.gsMenu && !st.gs {
		emit("GS", func(s *c15GenState) { s.gs = true })
	}
	if blocking {
		if !st.blk {
			emit("BLK", func(s *c15GenState) { s.blk = true })
		} else {
			emit("UNB", func(s *c15GenState) { s.blk = false })
		}
	}
}

func (st *c15GenState) clone() *c15GenState {
	c := *st
	c.slots = append([]c15GenSlot(nil), st.slots...)
	return &c
}

// c15Gen yields every statically legal event sequence of length 1..depth,
// shortest first.
func c15Gen(cfg string, depth int, bad []string, blocking, gs bool, prefix []string, yield func(c15Case) bool) bool {
	return c15GenSlots(cfg, depth, 0, bad, blocking, gs, prefix, yield)
}

// c15GenSlots is c15Gen with an explicit bound on the number of stream slots.
// gs puts GS (graceful shutdown, at most once) on the menu.
func c15GenSlots(cfg string, depth, maxSlots int, bad []string, blocking, gs bool, prefix []string, yield func(c15Case) bool) bool {
	for n := 1; n <= depth; n++ {
		var rec func(st *c15GenState, evs []string) bool
		rec = func(st *c15GenState, evs []string) bool {
			if len(evs) == n {
				return yield(c15Case{Cfg: cfg, Ev: append(append([]string(nil), prefix...), evs...)})
			}
			ok := true
			c15GenNext(st, bad, blocking, func(ev string, apply func(*c15GenState)) {
				if !ok {
					return
				}
				ns := st.clone()
				apply(ns)
				ok = rec(ns, append(evs, ev))
			})
			return ok
		}
		st := &c15GenState{max: maxSlots, gsMenu: gs}
		// replay the prefix on the generator state
		for _, pe := range prefix {
			found := false
			c15GenNext(st, bad, blocking, func(ev string, apply func(*c15GenState)) {
				if ev == pe && !found {
					found = true
					ns := st.clone()
					apply(ns)
					*st = *ns
				}
			})
			if !found {
				panic("c15Gen: illegal prefix event " + pe)
			}
		}
		if !rec(st, nil) {
			return false
		}
	}
	return true
}

// ---- monitor ----------------------------------------------------------------------------

type c15Slot struct {
	id         uint32
	key        string
	kind       string
	beyond     bool
	afterGS    bool // opened after the server was told to shut down gracefully: above the GOAWAY's last stream id
	cliEnded   bool
	cliRst     bool
	cliRstStep int
	enteredAtRst bool
	rstWhileBlocked bool
	rstAfterGoAwayErr bool
	srvEnded   bool
	srvRst     bool
	rstCode    ErrCode
	status     string
	reused     bool
	sentStep   int
}

func (sl *c15Slot) malformed() bool { return strings.HasPrefix(sl.kind, "Hb:") }
func (sl *c15Slot) connKind() bool  { return strings.HasPrefix(sl.kind, "Hb:conn:") }
func (sl *c15Slot) openInClientView() bool {
	return !(sl.cliRst || sl.srvRst || (sl.cliEnded && sl.srvEnded))
}

type c15Mon struct {
	w     *vx.W
	s     *c15srv
	slots []*c15Slot
	byID  map[uint32]*c15Slot

	limit        uint32
	haveLimit    bool
	settingsSent int
	settingsAcks int
	pings        [][8]byte // sent, not yet acknowledged
	goAway       bool
	goAwayErr    bool
	gs           bool // the harness has started a graceful shutdown of the server (event GS)
	illegal      bool // the client has left the protocol (stream-id reuse …): count-based clauses are off
	blocked      bool // the harness is not reading: the server's writes may be stuck
	everBlocked  bool
	feat         map[string]bool
}

func (m *c15Mon) fail(sig, format string, a ...any) {
	m.w.Failf("C15/"+sig, format, a...)
}

// errState reports whether the server has left normal operation with a
// connection error: it sent GOAWAY with an error code, or (white-box, quiescent
// points only) a connection error followed a graceful GOAWAY, in which case the
// server enters the same discard-everything state without a second GOAWAY.
func (m *c15Mon) errState() bool {
	if m.goAwayErr {
		return true
	}
	if m.gs && m.s.sc != nil && !m.s.sc.C15ServeDone() {
		return m.s.sc.C15Peek().GoAwayErr
	}
	return false
}

func (m *c15Mon) history() string {
	var b strings.Builder
	for _, f := range m.s.frames {
		fmt.Fprintf(&b, " [%d]%v", f.Step, f)
	}
	return b.String()
}

// observe feeds the frames the server wrote during one step.
func (m *c15Mon) observe(fs []c15Frame) {
	for _, f := range fs {
		switch f.Type {
		case FrameHeaders, FrameData, FramePushPromise:
			sl := m.byID[f.Stream]
			name := strings.ToLower(f.Type.String())
			switch {
			case sl == nil:
				m.fail("stream-state/"+name+"-on-stream-never-opened", "server sent %v on a stream the client never opened; history:%s", f, m.history())
			case sl.srvEnded:
				m.fail("stream-state/"+name+"-after-own-END_STREAM"+c15ReuseTag(sl), "server sent %v after it had sent END_STREAM on stream %d; history:%s", f, f.Stream, m.history())
			case sl.srvRst:
				m.fail("stream-state/"+name+"-after-own-RST_STREAM"+c15ReuseTag(sl), "server sent %v after it had sent RST_STREAM(%v) on stream %d; history:%s", f, sl.rstCode, f.Stream, m.history())
			case sl.cliRst && f.Step > sl.cliRstStep && !sl.rstWhileBlocked && !sl.rstAfterGoAwayErr:
				m.fail("stream-state/"+name+"-after-client-RST_STREAM"+c15ReuseTag(sl), "server sent %v on stream %d although the client's RST_STREAM had been delivered at step %d; history:%s", f, f.Stream, sl.cliRstStep, m.history())
			}
			if sl != nil {
				if f.Type == FrameHeaders && f.Status != "" && sl.status == "" {
					sl.status = f.Status
				}
				if f.EndStream {
					sl.srvEnded = true
				}
			}
		case FrameRSTStream:
			if sl := m.byID[f.Stream]; sl != nil {
				if !sl.srvRst {
					sl.rstCode = f.Code
				}
				sl.srvRst = true
			}
		case FrameSettings:
			if f.Ack {
				m.settingsAcks++
				if m.settingsAcks > m.settingsSent {
					m.fail("settings-ack/more-acks-than-settings", "server sent %d SETTINGS acks for %d SETTINGS frames; history:%s", m.settingsAcks, m.settingsSent, m.history())
				}
			} else if !m.haveLimit {
				for _, st := range f.Settings {
					if st.ID == SettingMaxConcurrentStreams {
						m.limit, m.haveLimit = st.Val, true
					}
				}
			}
		case FramePing:
			if !f.Ack {
				break
			}
			if len(m.pings) == 0 {
				m.fail("ping/unsolicited-ack", "server sent PING ack %x with no PING outstanding; history:%s", f.Ping, m.history())
				break
			}
			if m.pings[0] != f.Ping {
				m.fail("ping/ack-payload-differs", "server acknowledged PING %x with payload %x; history:%s", m.pings[0], f.Ping, m.history())
			}
			m.pings = m.pings[1:]
		case FrameGoAway:
			m.goAway = true
			if f.Code != ErrCodeNo {
				m.goAwayErr = true
			}
		}
	}
	if m.s.wire.bad != "" {
		m.fail("wire/malformed-server-output", "%s; history:%s", m.s.wire.bad, m.history())
	}
}

func c15ReuseTag(sl *c15Slot) string {
	if sl.reused {
		return "/client-reused-stream-id"
	}
	return ""
}

// quiescent evaluates the clauses that must hold whenever nothing can move.
func (m *c15Mon) quiescent() {
	s := m.s
	for _, p := range s.panicList() {
		site, _, _ := strings.Cut(p, ":")
		m.fail("server-panic/"+site, "the serve goroutine panicked: %s; history:%s", p, m.history())
	}
	s.mu.Lock()
	maxRunning, running := s.maxRunning, s.running
	s.mu.Unlock()
	if m.haveLimit && uint32(maxRunning) > m.limit {
		m.fail("handlers/more-running-than-advertised-limit", "%d request handlers were running at once, SETTINGS_MAX_CONCURRENT_STREAMS advertised %d; entries: %v", maxRunning, m.limit, s.enters)
	}
	dead := len(s.panics) > 0 || s.closed || s.writeErr
	if !dead && s.sc != nil && !s.sc.C15ServeDone() {
		pk := s.sc.C15Peek()
		if pk.CurHandlers > pk.AdvMaxStreams {
			m.fail("handlers/curHandlers-above-limit", "serverConn.curHandlers=%d > advMaxStreams=%d", pk.CurHandlers, pk.AdvMaxStreams)
		}
	}
	healthy := !dead && !m.errState() && !m.blocked
	for _, sl := range m.slots {
		hs := s.hstate(sl.key)
		if hs.Entered > 1 {
			m.fail("handlers/request-served-twice", "handler of stream %d (%s) was entered %d times", sl.id, sl.kind, hs.Entered)
		}
		if sl.malformed() {
			if hs.Entered > 0 {
				m.fail("malformed/reached-handler/"+c15KindClass(sl.kind), "request %q on stream %d reached the handler; history:%s", sl.kind, sl.id, m.history())
			}
			if sl.srvRst && sl.rstCode != ErrCodeProtocol && sl.rstCode != ErrCodeRefusedStream && !sl.srvEnded && !sl.cliRst && !m.illegal {
				m.fail("malformed/wrong-error-code/"+c15KindClass(sl.kind), "request %q on stream %d was reset with %v, want PROTOCOL_ERROR; history:%s", sl.kind, sl.id, sl.rstCode, m.history())
			}
			if sl.status != "" && !strings.HasPrefix(sl.status, "4") {
				m.fail("malformed/answered-with-success/"+c15KindClass(sl.kind), "request %q on stream %d was answered with status %s; history:%s", sl.kind, sl.id, sl.status, m.history())
			}
			if healthy && !sl.cliRst && !m.illegal && !sl.afterGS {
				rejected := sl.srvRst
				if sl.connKind() {
					// RFC 9113 §8.1.1: the server may answer with an HTTP response before closing the stream
					rejected = rejected || (sl.srvEnded && strings.HasPrefix(sl.status, "4"))
					if !rejected && m.haveLimit && uint32(running) >= m.limit {
						// every handler slot is taken by a running handler: the 400 responder is queued
						continue
					}
				}
				if !rejected {
					m.fail("malformed/not-rejected/"+c15KindClass(sl.kind), "request %q on stream %d was neither reset nor answered with a 4xx response at quiescence; history:%s", sl.kind, sl.id, m.history())
				}
			}
			continue
		}
		if sl.beyond {
			if hs.Entered > 0 {
				m.fail("limit/stream-beyond-limit-reached-handler", "stream %d was opened while %d streams were open (limit %d) and its handler ran; history:%s", sl.id, m.limit, m.limit, m.history())
			}
			if healthy && !sl.cliRst && !(sl.srvRst && (sl.rstCode == ErrCodeRefusedStream || sl.rstCode == ErrCodeProtocol)) {
				m.fail("limit/stream-beyond-limit-not-refused", "stream %d was opened beyond the advertised limit %d and was not refused (srvRst=%v code=%v); history:%s", sl.id, m.limit, sl.srvRst, sl.rstCode, m.history())
			}
		}
		if sl.cliRst && !sl.enteredAtRst && !sl.rstAfterGoAwayErr && hs.Entered > 0 {
			m.fail("handlers/queued-handler-of-reset-stream-ran", "stream %d was reset by the client before its handler started, yet the handler ran later; entries: %v history:%s", sl.id, s.enters, m.history())
		}
	}
	if healthy {
		if len(m.pings) > 0 {
			m.fail("ping/not-acknowledged", "%d PING(s) unanswered at quiescence (first %x); history:%s", len(m.pings), m.pings[0], m.history())
		}
		if m.settingsAcks != m.settingsSent {
			sig := "settings-ack/count-differs"
			if m.everBlocked {
				sig += "/after-client-stopped-reading"
			}
			m.fail(sig, "client sent %d SETTINGS frames, server acknowledged %d at quiescence; history:%s", m.settingsSent, m.settingsAcks, m.history())
		}
	}
}

func c15KindClass(kind string) string {
	if strings.HasPrefix(kind, "Hb:conn:") {
		return "connection-specific-field"
	}
	return strings.TrimPrefix(kind, "Hb:")
}

// ---- executing one case --------------------------------------------------------------------

func c15ParseCfg(cfg string) c15srvOpts {
	var o c15srvOpts
	parts := strings.Split(cfg, "-")
	n, _ := strconv.Atoi(strings.TrimPrefix(parts[0], "m"))
	o.MaxStreams = uint32(n)
	for _, p := range parts[1:] {
		switch p {
		case "rr", "7540", "rand":
			o.Sched = p
		case "blk":
			o.ReadBuf = 1
		}
	}
	return o
}

// c15Exec runs one case inside the current bubble. It returns the outcome class.
func c15Exec(t testing.TB, w *vx.W, cs c15Case) {
	o := c15ParseCfg(cs.Cfg)
	blkSize := o.ReadBuf
	o.ReadBuf = 0
	s := c15srvNew(t, o)
	defer s.finish()
	m := &c15Mon{w: w, s: s, byID: map[uint32]*c15Slot{}, feat: map[string]bool{}}
	applied, points, complete := 0, 0, false
	defer func() {
		// model-checking counters: events applied, quiescent points evaluated, complete sessions
		w.Ctx().AddTransitions(int64(applied))
		w.Ctx().AddStates(int64(points))
		if complete {
			w.Ctx().AddTraces(1)
		}
	}()

	// connection preface + SETTINGS exchange
	s.sendRaw([]byte(ClientPreface))
	s.fr.WriteSettings()
	m.settingsSent++
	s.send()
	m.observe(s.settle())
	s.fr.WriteSettingsAck()
	s.send()
	m.observe(s.settle())
	if !m.haveLimit {
		m.fail("setup/no-server-settings", "the server did not send SETTINGS with MAX_CONCURRENT_STREAMS after the preface; history:%s", m.history())
		return
	}
	m.quiescent()
	points++
	if w.Failed() {
		return
	}

	nextID := uint32(1)
	pingN := byte(0)
	for _, ev := range cs.Ev {
		if s.closed || s.writeErr {
			w.Outcome("pruned:connection-gone")
			return
		}
		kind, arg := ev, 0
		if len(ev) == 2 && ev[1] >= '1' && ev[1] <= '9' && strings.ContainsRune("RWFPDXT", rune(ev[0])) {
			kind, arg = ev[:1], int(ev[1]-'0')
			if arg > len(m.slots) {
				w.Outcome("pruned:no-such-slot")
				return
			}
		}
		var sl *c15Slot
		if arg > 0 {
			sl = m.slots[arg-1]
		}
		handlerStep := false
		switch {
		case kind == "H" || kind == "Ho" || strings.HasPrefix(kind, "Hb:"):
			id := nextID
			nextID += 2
			nsl := &c15Slot{id: id, key: strconv.Itoa(int(id)), kind: kind, sentStep: s.step}
			var fields []string
			end := true
			switch {
			case kind == "H":
				fields = c15ValidFields(nsl.key)
			case kind == "Ho":
				fields = c15ValidFields(nsl.key)
				end = false
			default:
				mk := c15Malformed[strings.TrimPrefix(kind, "Hb:")]
				if mk == nil {
					panic("unknown malformed kind " + kind)
				}
				fields = mk(nsl.key)
			}
			nsl.cliEnded = end
			open := uint32(0)
			for _, x := range m.slots {
				if x.openInClientView() {
					open++
				}
			}
			// a stream opened after the graceful shutdown began lies above the GOAWAY's
			// last stream id: the server ignores it (RFC 9113 6.8), it is not refused
			nsl.afterGS = m.gs
			nsl.beyond = !m.illegal && !m.blocked && !m.gs && open >= m.limit
			if nsl.beyond {
				m.feat["beyond-limit"] = true
			}
			if nsl.malformed() {
				m.feat["malformed"] = true
			}
			s.expect(nsl.key)
			m.slots = append(m.slots, nsl)
			m.byID[id] = nsl
			s.fr.WriteHeaders(HeadersFrameParam{StreamID: id, BlockFragment: s.encode(fields...), EndStream: end, EndHeaders: true})
		case kind == "R":
			if sl.cliRst {
				w.Outcome("pruned:already-reset")
				return
			}
			sl.cliRst = true
			sl.cliRstStep = s.step
			sl.rstWhileBlocked = m.blocked
			sl.rstAfterGoAwayErr = m.errState()
			sl.enteredAtRst = s.hstate(sl.key).Entered > 0
			if !sl.enteredAtRst && !sl.malformed() && !sl.beyond && !sl.srvRst {
				m.feat["reset-before-handler-start"] = true
			}
			s.fr.WriteRSTStream(sl.id, ErrCodeCancel)
		case kind == "D":
			if sl.kind != "Ho" || sl.cliEnded || sl.cliRst {
				w.Outcome("pruned:data-not-applicable")
				return
			}
			sl.cliEnded = true
			s.fr.WriteData(sl.id, true, []byte("x"))
		case kind == "T":
			// a trailer-style HEADERS frame (no pseudo fields, END_STREAM): legal only on a stream whose body is open
			if sl.kind == "Ho" && !sl.cliEnded && !sl.cliRst && !sl.srvRst && !sl.srvEnded {
				sl.cliEnded = true
			} else {
				m.illegal = true
			}
			s.fr.WriteHeaders(HeadersFrameParam{StreamID: sl.id, BlockFragment: s.encode("x-trailer", "1"), EndStream: true, EndHeaders: true})
		case kind == "X":
			// a second request (with pseudo fields) on a stream id that was already used
			m.illegal = true
			if !sl.openInClientView() {
				sl.reused = true
			}
			key := "x" + sl.key
			s.fr.WriteHeaders(HeadersFrameParam{StreamID: sl.id, BlockFragment: s.encode(c15ValidFields(key)...), EndStream: true, EndHeaders: true})
		case kind == "W" || kind == "F" || kind == "P":
			if sl.malformed() {
				w.Outcome("pruned:no-handler")
				return
			}
			res, ok := s.command(sl.key, kind)
			if !ok {
				w.Outcome("pruned:handler-not-running")
				return
			}
			if res == "" && kind == "W" && !m.blocked {
				m.feat["write-blocked"] = true
			}
			handlerStep = true
		case kind == "PING":
			pingN++
			d := [8]byte{'p', 'i', 'n', 'g', 0, 0, 0, pingN}
			m.pings = append(m.pings, d)
			s.fr.WritePing(false, d)
		case kind == "SET":
			m.settingsSent++
			s.fr.WriteSettings(Setting{ID: SettingInitialWindowSize, Val: 65535}, Setting{ID: SettingEnablePush, Val: 0})
		case kind == "GS":
			// what http.Server.Shutdown does to every HTTP/2 connection: GOAWAY(NO_ERROR, last stream id)
			if m.gs || s.sc == nil {
				w.Outcome("pruned:graceful-shutdown-not-applicable")
				return
			}
			m.gs = true
			m.feat["graceful-shutdown"] = true
			s.sc.StartGracefulShutdown()
		case kind == "BLK":
			// the client stops reading and its receive buffer is tiny
			s.cli.SetReadBufferSize(blkSize)
			m.blocked = true
			m.everBlocked = true
			m.feat["client-not-reading"] = true
			continue
		case kind == "UNB":
			m.blocked = false
			s.cli.SetReadBufferSize(1 << 30)
		default:
			panic("unknown event " + ev)
		}
		_ = handlerStep
		s.send()
		if m.blocked {
			synctest.Wait()
			s.step++
		} else {
			m.observe(s.settle())
			if kind == "UNB" {
				// reading freed buffer space: let the server finish and read again
				for i := 0; i < 64; i++ {
					fs := s.settle()
					m.observe(fs)
					if len(fs) == 0 {
						break
					}
				}
			}
		}
		m.quiescent()
		applied++
		points++
		if w.Failed() {
			return
		}
	}
	if m.blocked && !s.closed && !s.writeErr {
		// never leave a case with the server's writer stuck: drain and evaluate
		m.blocked = false
		s.cli.SetReadBufferSize(1 << 30)
		for i := 0; i < 64; i++ {
			fs := s.settle()
			m.observe(fs)
			if len(fs) == 0 {
				break
			}
		}
		m.quiescent()
		if w.Failed() {
			return
		}
	}
	// outcome classification (coarse)
	complete = true
	w.Nontrivial()
	var feats []string
	if m.goAwayErr {
		feats = append(feats, "goaway-error")
	} else if m.goAway {
		feats = append(feats, "goaway")
	}
	for _, k := range []string{"graceful-shutdown", "beyond-limit", "malformed", "reset-before-handler-start", "client-not-reading"} {
		if m.feat[k] {
			feats = append(feats, k)
		}
	}
	s.mu.Lock()
	if len(s.enters) > 0 {
		feats = append(feats, fmt.Sprintf("handlers<=%d", s.maxRunning))
	}
	s.mu.Unlock()
	w.Outcome(strings.Join(feats, "+"))
}

func c15RunCase(c *vx.Ctx, w *vx.W, cs c15Case) {
	synctest.Test(c.T, func(t *testing.T) {
		defer func() {
			if r := recover(); r != nil {
				w.Failf("C15/harness/panic", "panic in the harness: %v", r)
			}
		}()
		c15Exec(t, w, cs)
	})
}

func TestVerif_C15(t *testing.T) {
	vx.Run(t, "C15", func(c *vx.Ctx) {
		depth := vx.Pick(c, 3, 5)
		c.Rule(fmt.Sprintf("every statically legal sequence of 1..%d events (shortest first) over the menu {H (request, END_STREAM), Ho (request with open body), Hb:k (malformed request), and per stream slot i<=%d: R_i client RST_STREAM, W_i handler Write+Flush, F_i handler returns, P_i handler panics, D_i DATA+END_STREAM, T_i trailer-style HEADERS (legal only while the request body is open), X_i a second request HEADERS on the same stream id (id re-use), PING (<=2), SETTINGS (<=2), GS (at most once: the server starts a graceful shutdown, serverConn.startGracefulShutdown = what http.Server.Shutdown triggers: GOAWAY(NO_ERROR, last stream id); streams opened afterwards lie above that id, get R/D/T/X but no handler events)}, for MAX_CONCURRENT_STREAMS 1 and 2 (default RFC 9218 scheduler; the other three schedulers one level shallower), plus the same menu (incl. BLK/UNB: the client stops/resumes reading) explored %d levels deep from nine seeded prefixes (there the stream bound is max(%d, 2*MAX+1): MAX handlers still running for streams the client has reset, MAX live streams queued behind them, one stream beyond the limit; one prefix is that saturated state itself, H H R1 R2 with MAX=2, so that a single handler return with two live queued requests is inside the bound; two prefixes are a graceful shutdown under way, H GS with MAX=1 and H H GS with MAX=2 (stream bound %d), so that client frames on a stream below, equal to and above the GOAWAY's last stream id followed by handler writes/returns are inside the bound), plus every malformed-request kind in every context of <=%d events before and <=1 after; each case runs on a fresh real server in its own synctest bubble, quiescence after every event; a case is non-trivial when all its events were applicable at run time (handler commands need a running handler)", depth, c15MaxSlots, vx.Pick(c, 3, 4), c15MaxSlots, c15MaxSlots, vx.Pick(c, 1, 2)))
		c.Assume("connection-specific header fields (connection, te!=trailers, transfer-encoding, keep-alive, proxy-connection, upgrade) are answered with an HTTP 4xx response instead of RST_STREAM; RFC 9113 §8.1.1 allows a response before closing the stream, so that is accepted as rejection (the handler must still never run)")
		c.Assume("PING / SETTINGS acknowledgement is required at quiescence only while the server has neither closed the connection nor sent GOAWAY with an error code")
		c.Assume("after the server has sent GOAWAY with an error code it discards every incoming frame (and closes the connection within a second); client RST_STREAMs sent after that point are not expected to take effect")
		c.Assume("a graceful GOAWAY(NO_ERROR) changes no clause for streams up to its last stream id (no HEADERS/DATA after a delivered RST_STREAM, queued handlers of reset streams never run, PING and SETTINGS are still acknowledged); a stream the client opens after GS is ignored by the server (RFC 9113 6.8): it is exempt from the refused-beyond-the-limit and rejected-at-quiescence clauses only (a malformed one must still never reach the handler); when a connection error follows the graceful GOAWAY the server enters the discard-everything state without a second GOAWAY, which the harness reads white-box (serverConn.goAwayCode) at quiescent points")
		c.Assume("clauses that count the client's open streams (refusal beyond the limit, rejection at quiescence) are switched off after the client re-uses a stream id; the no-frames-after-close, handler-bound, PING and SETTINGS clauses stay on")
		core := []string{"upperZ", "conn:te"}
		// seeds: start states that depth-bounded search from the empty connection reaches too late
		sd := vx.Pick(c, 3, 4)
		type seed struct {
			cfg string
			pre []string
			blk bool
			slots int // stream bound (0 = c15SeedSlots(MAX))
		}
		seeds := []seed{
			{"m1", []string{"H", "R1", "H"}, false, 0},      // a handler runs for a reset stream, the next request is queued
			{"m2", []string{"H", "H", "R1", "H"}, false, 0}, // same with limit 2
			{"m2", []string{"H", "H", "R1", "R2"}, false, 0}, // every handler slot is held by the handler of a reset stream, every stream slot is free: the next MAX requests are all queued, then a handler returns
			{"m1", []string{"Ho", "W1"}, false, 0},          // response under way, request body still open
			{"m2", []string{"Ho", "W1", "H"}, false, 0},
			{"m2-blk", []string{"BLK", "PING"}, true, 0},     // client not reading: the server's writer is stuck in a flush
			{"m2-blk", []string{"H", "BLK", "W1"}, true, 0},  // … stuck with a response in flight
			{"m1", []string{"H", "GS"}, false, c15MaxSlots},      // graceful shutdown under way (GOAWAY NO_ERROR), its last stream id is the only open stream
			{"m2", []string{"H", "H", "GS"}, false, c15MaxSlots}, // … one stream below the GOAWAY's last stream id, one equal to it, a new one above it
		}
		// executed smallest part first, so that an internal deadline on a loaded machine cuts as few parts as possible
		for _, i := range []int{5, 7, 3, 6, 8, 0, 2, 4, 1} {
			i, sdv := i, seeds[i]
			vx.Enumerate(c, fmt.Sprintf("seed%d-%s", i, sdv.cfg), vx.Opts{Serial: true, Crumb: true}, func(yield0 func(c15Case) bool) {
				yield := c15Yield(c, yield0)
				if !yield(c15Case{Cfg: sdv.cfg, Ev: sdv.pre}) {
					return
				}
				slots := sdv.slots
				if slots == 0 {
					slots = c15SeedSlots(int(c15ParseCfg(sdv.cfg).MaxStreams))
				}
				c15GenSlots(sdv.cfg, sd, slots, core, sdv.blk, true, sdv.pre, yield)
			}, func(w *vx.W, cs c15Case) { c15RunCase(c, w, cs) })
		}
		c.Assume("while the harness does not read (events BLK…UNB) frames the server had already handed to its writer may surface later: the after-client-RST clause is not applied to resets sent in that window, and the at-quiescence clauses are evaluated after the harness has drained the connection again")
		for _, cfg := range []string{"m1", "m2"} {
			cfg := cfg
			vx.Enumerate(c, "core-"+cfg, vx.Opts{Serial: true, Crumb: true}, func(yield0 func(c15Case) bool) {
				yield := c15Yield(c, yield0)
				c15Gen(cfg, depth, core, false, true, nil, yield)
			}, func(w *vx.W, cs c15Case) { c15RunCase(c, w, cs) })
		}
		for _, cfg := range []string{"m1-rr", "m2-7540", "m2-rand", "m2-rr"} {
			cfg := cfg
			vx.Enumerate(c, "sched-"+cfg, vx.Opts{Serial: true, Crumb: true}, func(yield0 func(c15Case) bool) {
				yield := c15Yield(c, yield0)
				c15Gen(cfg, depth-1, core, false, true, nil, yield)
			}, func(w *vx.W, cs c15Case) { c15RunCase(c, w, cs) })
		}
		// every malformed kind in every short context
		var kinds []string
		for k := range c15Malformed {
			kinds = append(kinds, k)
		}
		sort.Strings(kinds)
		vx.Enumerate(c, "malformed-kinds", vx.Opts{Serial: true, Crumb: true}, func(yield0 func(c15Case) bool) {
				yield := c15Yield(c, yield0)
			for _, cfg := range []string{"m1", "m2"} {
				for _, k := range kinds {
					// contexts: up to 2 core events before, up to 1 after
					if !yield(c15Case{Cfg: cfg, Ev: []string{"Hb:" + k}}) {
						return
					}
					ok := c15Gen(cfg, vx.Pick(c, 1, 2), nil, false, false, nil, func(pre c15Case) bool {
						if len(pre.Ev) >= 1 && c15CountH(pre.Ev) >= c15MaxSlots {
							return true
						}
						base := append(append([]string(nil), pre.Ev...), "Hb:"+k)
						if !yield(c15Case{Cfg: cfg, Ev: base}) {
							return false
						}
						return c15Gen(cfg, 1, []string{k}, false, false, base, func(cs c15Case) bool { return yield(cs) })
					})
					if !ok {
						return
					}
				}
			}
		}, func(w *vx.W, cs c15Case) { c15RunCase(c, w, cs) })
	})
}

func c15CountH(evs []string) int {
	n := 0
	for _, e := range evs {
		if strings.HasPrefix(e, "H") {
			n++
		}
	}
	return n
}

