//go:build !(go1.27 && !http2legacy)

package http2_test

// C17 — the HTTP/2 client respects stream limits and stream-id order.
//
// EV exploration of a real Transport (connection pool + ClientConn) whose
// connections end in the harness: every sequence of application and server
// events up to a depth, each in its own synctest bubble; the monitor works on
// the decoded wire history of every connection.

import (
	"errors"
	"fmt"
	"strconv"
	"strings"
	"testing"
	"testing/synctest"
	"time"

	. "golang.org/x/net/http2"
	"golang.org/x/net/internal/zzverif/vx"
)

type c17Case struct {
	Mode string   `json:"mode"` // "strict" or "pool"
	Ev   []string `json:"ev"`
}

const c17NoLimit = 1 << 31

type c17ConnMon struct {
	limit        int64 // limit in force after the events of this step
	prevLimit    int64 // limit in force at the start of this step
	maxID        uint32
	wakeDeferred bool // a slot was given back while a body Close was pending and a request still waits: the waiter clause is judged once no Close is pending
	cntBefore    int  // WB: ClientConn's own slot count before this step's event
	fullBefore   bool // WB: the connection had no free slot before this step's event
	waitBefore   int  // WB: requests waiting for a slot / holding a reservation before the event

	// server-not-reading window: blockMax is the largest limit that can be in
	// force at the client at any time since the server stopped reading (while
	// its writes block, the client's read loop may be stuck writing an
	// acknowledgement and then has not processed later SETTINGS; streams
	// admitted under an earlier, larger limit reach the wire only when the
	// server reads again). Valid while hasBlockMax, i.e. up to and including
	// the step in which the server resumes reading.
	hasBlockMax bool
	blockMax    int64

	// the monitor's own slot count at the start of the step (black box):
	existed        bool  // the connection existed when the step began
	openBefore     int   // streams open on the wire
	halfBefore     int   // of these: streams whose response has ended while the request half is still open
	unopenedBefore int   // requests handed to this connection by the pool that have not opened their stream yet
	allowedBefore  int64 // largest limit that can be in force at the client
}

// allowed is the largest limit that may be in force at the client during this step.
func (cm *c17ConnMon) allowed() int64 {
	a := cm.limit
	if cm.prevLimit > a {
		a = cm.prevLimit
	}
	if cm.hasBlockMax && cm.blockMax > a {
		a = cm.blockMax
	}
	return a
}

type c17Mon struct {
	w      *vx.W
	h      *c17cli
	strict bool
	cm     map[int]*c17ConnMon
	feat   map[string]bool
}

func (m *c17Mon) fail(sig, format string, a ...any) { m.w.Failf("C17/"+sig, format, a...) }

func (m *c17Mon) mode() string {
	if m.strict {
		return "strict"
	}
	return "pool"
}

func (m *c17Mon) conn(c *c17Conn) *c17ConnMon {
	cm := m.cm[c.idx]
	if cm == nil {
		cm = &c17ConnMon{limit: c17NoLimit, prevLimit: c17NoLimit}
		m.cm[c.idx] = cm
	}
	return cm
}

func c17Count(c *c17Conn) (count int, pk C17CliPeek, ok bool) {
	if c.cc == nil {
		return 0, pk, false
	}
	pk = c.cc.C17Peek()
	return pk.Streams + pk.StreamsReserved + pk.PendingResets, pk, true
}

// begin is called before a step's event is applied.
func (m *c17Mon) begin() {
	for _, c := range m.h.connList() {
		cm := m.conn(c)
		cm.prevLimit = cm.limit
		var pk C17CliPeek
		var ok bool
		cm.cntBefore, pk, ok = c17Count(c)
		cm.fullBefore = ok && c.usable() && !pk.Closed && !pk.GoAway && cm.cntBefore >= int(pk.MaxConcurrentStreams)
		cm.waitBefore = pk.PendingRequests + pk.StreamsReserved
		if !c.notReading {
			cm.hasBlockMax = false // the step in which the server resumed reading is over
		}
		cm.existed = true
		cm.openBefore = c.openCount()
		cm.halfBefore = c17HalfOpen(c)
		if cm.halfBefore > 0 {
			m.feat["stream-open-after-response-ended"] = true
		}
		cm.unopenedBefore = len(m.unopened(c))
		if cm.unopenedBefore > 1 {
			m.feat["request-queued-behind-stuck-write"] = true
		}
		cm.allowedBefore = cm.allowed()
	}
}

// c17HalfOpen counts the streams of c that are still open on the wire although
// the server has ended its half (RFC 9113 5.1 "half-closed (remote)" from the
// client's point of view): they count against the limit until the client sends
// END_STREAM or either side sends RST_STREAM.
func c17HalfOpen(c *c17Conn) int {
	n := 0
	for _, st := range c.streams {
		if st.open() && st.srvEnded && !st.cliEnded {
			n++
		}
	}
	return n
}

// unopened lists the requests that the pool handed to connection c (first
// attempt, observed through httptrace GotConn), that have not been handed to
// another connection since, whose RoundTrip has not returned, and whose HEADERS
// have not appeared on c: each of them occupies one of c's slots (it holds a
// reservation, or it owns a stream whose HEADERS write is stuck behind
// back-pressure). Retried attempts are not counted: after a failed retry the
// Transport waits in its back-off without holding a slot, and that state
// cannot be told apart from outside.
func (m *c17Mon) unopened(c *c17Conn) []int {
	as := m.h.assignList()
	nAssign := map[int]int{}
	for _, a := range as {
		nAssign[a.req]++
	}
	var out []int
	for _, a := range as {
		if a.conn != c.idx || a.attempt != 1 || nAssign[a.req] != 1 {
			continue
		}
		if a.req >= len(m.h.reqs) || m.h.reqs[a.req].finished() {
			continue
		}
		opened := false
		for _, st := range c.streams {
			if st.req == a.req {
				opened = true
			}
		}
		if !opened {
			out = append(out, a.req)
		}
	}
	return out
}

// afterRequest: in pooled mode a new request must not be placed on a
// connection that had no free slot (it would have to wait there).
func (m *c17Mon) afterRequest() {
	if m.strict {
		return
	}
	m.poolDecision()
	for _, c := range m.h.connList() {
		cm := m.conn(c)
		if !cm.fullBefore {
			continue
		}
		m.feat["request-while-connection-full"] = true
		if _, pk, ok := c17Count(c); ok && pk.PendingRequests+pk.StreamsReserved > cm.waitBefore {
			m.fail("pool/request-placed-on-full-connection", "conn %d had no free slot (in use %d, limit %d) when a new request arrived, and the pool queued the request on it (waiting+reserved %d -> %d); history:%s", c.idx, cm.cntBefore, pk.MaxConcurrentStreams, cm.waitBefore, pk.PendingRequests+pk.StreamsReserved, m.h.history())
		}
	}
}

// poolDecision (pooled mode, after a step whose event was a new request): the
// pool's choice for the new request, as reported by httptrace GotConn, must not
// be a connection that was at its limit when the request arrived, where "at its
// limit" is the monitor's own count: streams open on the wire plus requests
// already handed to the connection that have not opened their stream yet,
// against the largest limit that can be in force at the client. A new request
// frees no slot, and nothing else runs in the step before the pool decides, so
// the counts at the start of the step are the counts at the decision.
func (m *c17Mon) poolDecision() {
	h := m.h
	idx := len(h.reqs) - 1
	var first *c17Assign
	for _, a := range h.assignList() {
		if a.req == idx && a.attempt == 1 {
			a := a
			first = &a
			break
		}
	}
	if first == nil {
		if !h.reqs[idx].finished() {
			m.w.Failf("C17/harness/no-pool-decision-observed", "request %d is pending but httptrace GotConn was never called for it; history:%s", idx, h.history())
		}
		return
	}
	m.feat["pool-decision"] = true
	for _, c := range h.connList() {
		cm := m.conn(c)
		if !cm.existed || !c.usable() || cm.allowedBefore >= c17NoLimit {
			continue
		}
		used := cm.openBefore + cm.unopenedBefore
		if int64(used) < cm.allowedBefore {
			continue
		}
		if cm.unopenedBefore > 0 {
			m.feat["request-while-connection-full-of-unopened-requests"] = true
		}
		if first.conn != c.idx {
			continue
		}
		trig := "all-slots-open-on-wire"
		if cm.unopenedBefore > 0 {
			trig = "slots-held-by-unopened-requests"
		} else if cm.halfBefore > 0 {
			trig = "slot-held-by-stream-whose-response-ended-with-request-half-open"
		}
		m.fail("pool/connection-at-limit-chosen/"+trig, "the pool handed new request %d to conn %d, which was at its limit: %d stream(s) open on the wire + %d request(s) already handed to it that have not opened their stream yet (server reading: %v) >= limit %d; history:%s", idx, c.idx, cm.openBefore, cm.unopenedBefore, !c.notReading, cm.allowedBefore, h.history())
	}
}

// observe checks and tracks the client frames of one step, connection by connection.
func (m *c17Mon) observe(frames map[int][]c15Frame) {
	for _, c := range m.h.connList() {
		cm := m.conn(c)
		fs := frames[c.idx]
		for i := range fs {
			f := &fs[i]
			if f.Type == FrameHeaders && c.byID[f.Stream] == nil {
				if f.Stream%2 == 0 {
					m.fail("stream-id/even", "client opened stream %d on conn %d; history:%s", f.Stream, c.idx, m.h.history())
				}
				if f.Stream <= cm.maxID {
					m.fail("stream-id/not-increasing", "client opened stream %d after stream %d on conn %d; history:%s", f.Stream, cm.maxID, c.idx, m.h.history())
				}
				cm.maxID = f.Stream
				allowed := cm.allowed()
				if open := int64(c.openCount()); open >= allowed {
					sig, half := "limit/stream-opened-at-or-above-limit/"+m.mode(), c17HalfOpen(c)
					if half > 0 {
						// abstract situation: the response of an open stream has ended, its request half has not
						sig += "/response-ended-request-half-open"
					}
					m.fail(sig, "client opened stream %d on conn %d while %d streams were open (%d of them: response ended, request half neither ended nor reset) and the limit in force was %d; history:%s", f.Stream, c.idx, open, half, allowed, m.h.history())
				}
				if c.openCount() > 0 {
					m.feat["concurrent-streams"] = true
				}
				for _, r := range m.h.reqs {
					if r.slow != nil && r.slow.pending() {
						m.feat["stream-opened-while-body-close-pending"] = true
						if r.big && !m.onWire(r.idx) {
							m.feat["stream-opened-while-clean-up-of-never-sent-request-parked"] = true
						}
					}
				}
				if m.feat["never-sent-request-body-close-released"] {
					m.feat["stream-opened-after-never-sent-request-cleaned-up"] = true
				}
			}
			c.track(f)
		}
	}
}

// closePending: the Transport is inside some request body's Close.
func (m *c17Mon) closePending() bool {
	for _, r := range m.h.reqs {
		if r.slow != nil && r.slow.pending() {
			return true
		}
	}
	return false
}

// onWire: some connection has seen HEADERS of request req.
func (m *c17Mon) onWire(req int) bool {
	for _, c := range m.h.connList() {
		for _, st := range c.streams {
			if st.req == req {
				return true
			}
		}
	}
	return false
}

// quiescent evaluates the at-rest clauses. freed: the event of this step was one
// that releases a concurrency slot (stream closed, request cancelled, PING ack).
func (m *c17Mon) quiescent() {
	h := m.h
	for _, b := range h.bad {
		m.fail("wire/malformed-client-output", "%s; history:%s", b, h.history())
	}
	if m.strict {
		for _, r := range h.reqs {
			if !r.finished() || r.err == nil || r.cancelled {
				continue
			}
			if r.big && errors.Is(r.err, C17ErrRequestHeaderListSize) {
				continue // its header list is larger than the server allows: it is not an excess request
			}
			reset := false
			for _, c := range h.connList() {
				for _, st := range c.streams {
					if st.req == r.idx && st.srvRst {
						reset = true
					}
				}
			}
			if !reset {
				m.fail("strict/request-failed-instead-of-waiting", "request %d failed with %q although it was neither cancelled nor reset by the server; history:%s", r.idx, r.err, h.history())
			}
		}
	}
	for _, c := range h.connList() {
		cm := m.conn(c)
		cnt, pk, ok := c17Count(c)
		if !ok || !c.usable() || pk.Closed || pk.GoAway {
			continue
		}
		if pk.PendingRequests == 0 || cnt >= int(pk.MaxConcurrentStreams) {
			cm.wakeDeferred = false
		}
		if pk.PendingRequests > 0 {
			m.feat["request-waiting-for-slot"] = true
			freed := cnt < cm.cntBefore || cm.wakeDeferred
			if freed && cnt < int(pk.MaxConcurrentStreams) && m.closePending() {
				// the clean-up of the request that gave the slot back is parked in its body's Close and
				// has not reached the point where it wakes the waiters: judged when the Close has returned
				cm.wakeDeferred = true
				m.feat["waiter-wake-up-deferred-by-pending-body-close"] = true
			} else if freed && cnt < int(pk.MaxConcurrentStreams) {
				m.fail("wait/waiter-not-started-after-slot-freed/"+m.mode(), "conn %d: %d request(s) still wait for a slot although this step freed one (slots in use %d -> %d, limit %d); history:%s", c.idx, pk.PendingRequests, cm.cntBefore, cnt, pk.MaxConcurrentStreams, h.history())
			}
		}
	}
}

// c17Shapes: request shapes, by the suffix of the Q event (see c17cli.request).
// They differ in how, and whether, the request half of the stream is closed.
var c17Shapes = map[string]string{
	"":  "",          // GET: END_STREAM on the request HEADERS
	"k": "replay",    // body of declared length: END_STREAM on the last DATA frame
	"b": "once",      // body of undeclared length: END_STREAM on an empty DATA frame
	"t": "trl-set",   // body + announced trailer, filled in at EOF: END_STREAM on the trailer HEADERS
	"u": "trl-unset", // body + announced trailer, never filled in: no trailer fields to send
	"e": "trl-empty", // body + empty non-nil Request.Trailer
	"s": "stalled",   // body that does not reach EOF before event D<i>: the request half stays open
	// locally failing requests and slow body Close (event K<i> lets the Close of request i's body return):
	"g": "big",           // GET whose header list exceeds the peer's MAX_HEADER_LIST_SIZE once announced: fails after its stream id was assigned, nothing written
	"c": "slowclose",     // body of undeclared length whose Close blocks until K<i>: the request's clean-up is parked, its slot stays taken
	"h": "big-slowclose", // both: the failed request's clean-up is parked in Close while other requests go on
}

// c17Exec runs one case in the current bubble.
func c17Exec(t testing.TB, w *vx.W, cs c17Case) {
	strict := cs.Mode == "strict"
	h := c17cliNew(t, strict)
	defer h.finish()
	m := &c17Mon{w: w, h: h, strict: strict, cm: map[int]*c17ConnMon{}, feat: map[string]bool{}}
	applied, points, complete := 0, 0, false
	defer func() {
		w.Ctx().AddTransitions(int64(applied))
		w.Ctx().AddStates(int64(points))
		if complete {
			w.Ctx().AddTraces(1)
		}
	}()
	for _, ev := range cs.Ev {
		m.begin()
		conns := h.connList()
		connOf := func(b byte) *c17Conn {
			i := int(b - 'a')
			if i < 0 || i >= len(conns) {
				return nil
			}
			return conns[i]
		}
		if c17SecondWriter(h, conns, ev) {
			// testing/synctest cannot reach quiescence while a goroutine waits for a sync.Mutex
			w.Outcome("pruned:second-writer-on-connection-with-stuck-write")
			return
		}
		switch {
		case ev[0] == 'Q':
			kind, ok := c17Shapes[ev[1:]]
			if !ok {
				panic("unknown request shape " + ev)
			}
			h.request(kind)
			if kind == "big" || kind == "slowclose" || kind == "big-slowclose" {
				m.feat["local-failure-axis"] = true
			} else if kind != "" {
				m.feat["request-with-body"] = true
			}
		case ev[0] == 'D':
			i, _ := strconv.Atoi(ev[1:])
			if i < 1 || i > len(h.reqs) || h.reqs[i-1].stall == nil || !h.reqs[i-1].stall.stalled() {
				w.Outcome("pruned:body-not-stalled")
				return
			}
			h.reqs[i-1].stall.release()
		case ev[0] == 'K':
			i, _ := strconv.Atoi(ev[1:])
			if i < 1 || i > len(h.reqs) || h.reqs[i-1].slow == nil || !h.reqs[i-1].slow.pending() {
				w.Outcome("pruned:body-close-not-pending")
				return
			}
			m.feat["body-close-released"] = true
			if h.reqs[i-1].big && !m.onWire(i-1) {
				m.feat["never-sent-request-body-close-released"] = true
			}
			h.reqs[i-1].slow.release()
		case ev[0] == 'C':
			i, _ := strconv.Atoi(ev[1:])
			if i < 1 || i > len(h.reqs) || h.reqs[i-1].cancelled || h.reqs[i-1].finished() {
				w.Outcome("pruned:cancel-not-applicable")
				return
			}
			h.reqs[i-1].cancelled = true
			h.reqs[i-1].cancel()
		case ev[0] == 'S':
			c := connOf(ev[1])
			if c == nil || !c.usable() {
				w.Outcome("pruned:no-such-conn")
				return
			}
			cm := m.conn(c)
			if ev[2] == 'n' {
				if len(ev) > 3 && ev[3] == 'h' {
					c.settings(Setting{ID: SettingMaxHeaderListSize, Val: c17HeaderListLimit})
				} else {
					c.settings()
				}
			} else {
				k := int64(ev[2] - '0')
				ss := []Setting{{ID: SettingMaxConcurrentStreams, Val: uint32(k)}}
				if len(ev) > 3 && ev[3] == 'h' {
					ss = append(ss, Setting{ID: SettingMaxHeaderListSize, Val: c17HeaderListLimit})
				}
				c.settings(ss...)
				if k < cm.limit && int64(c.openCount()) > k {
					m.feat["limit-lowered-below-open-count"] = true
				}
				cm.limit = k
			}
		case ev[0] == 'E' || ev[0] == 'R' || ev[0] == 'F':
			c := connOf(ev[1])
			j := int(ev[2] - '0')
			if c == nil || !c.usable() || !c.sentSettings || j < 1 || j > len(c.streams) {
				w.Outcome("pruned:no-such-stream")
				return
			}
			st := c.streams[j-1]
			if st.srvEnded || st.srvRst || st.cliRst {
				w.Outcome("pruned:stream-already-closed")
				return
			}
			switch ev[0] {
			case 'E':
				c.respondEnd(st)
			case 'R':
				c.reset(st, ErrCodeCancel)
			case 'F':
				c.reset(st, ErrCodeRefusedStream)
				m.feat["refused-stream-retry"] = true
			}
		case ev[0] == 'P':
			c := connOf(ev[1])
			if c == nil || !c.usable() || !c.sentSettings || len(c.pingsSeen) == 0 {
				w.Outcome("pruned:no-ping-outstanding")
				return
			}
			c.pingAcks()
			m.feat["ping-ack"] = true
		case ev[0] == 'B' || ev[0] == 'U':
			c := connOf(ev[1])
			if c == nil || !c.usable() || c.notReading != (ev[0] == 'U') {
				w.Outcome("pruned:no-such-conn")
				return
			}
			cm := m.conn(c)
			if ev[0] == 'B' {
				c.stopReading()
				cm.hasBlockMax, cm.blockMax = true, cm.limit
				m.feat["server-not-reading"] = true
			} else {
				if len(m.unopened(c)) > 0 {
					m.feat["blocked-requests-released"] = true
				}
				c.resumeReading()
			}
		default:
			panic("unknown event " + ev)
		}
		m.observe(h.settle())
		if ev[0] == 'Q' {
			m.afterRequest()
			for _, c := range conns {
				if cm := m.conn(c); cm.halfBefore > 0 && int64(cm.openBefore) >= cm.allowedBefore {
					m.feat["request-while-slot-held-by-stream-whose-response-ended"] = true
				}
			}
		}
		m.quiescent()
		applied++
		points++
		if w.Failed() {
			return
		}
	}
	// let every retry back-off of the Transport run out (retries 1..6 wait 1+2+4+8+16+32 s plus 10 % jitter):
	// a request that is merely waiting for a slot must still be waiting afterwards
	m.begin()
	for _, c := range h.connList() {
		if c.notReading && c.usable() {
			c.resumeReading() // every case ends with the server reading again: what was stuck reaches the wire and is checked
		}
	}
	for _, r := range h.reqs {
		if r.slow != nil {
			r.slow.release() // and with every body Close returning: parked clean-ups finish, waiters behind them start and are checked
		}
	}
	time.Sleep(120 * time.Second)
	m.observe(h.settle())
	m.quiescent()
	points++
	if w.Failed() {
		return
	}
	complete = true
	w.Nontrivial()
	var feats []string
	feats = append(feats, fmt.Sprintf("conns=%d", len(h.connList())))
	for _, k := range []string{"concurrent-streams", "request-waiting-for-slot", "limit-lowered-below-open-count", "refused-stream-retry", "ping-ack", "request-while-connection-full"} {
		if m.feat[k] {
			feats = append(feats, k)
		}
	}
	w.Outcome(strings.Join(feats, "+"))
	if m.feat["request-with-body"] {
		feats = []string{"request-with-body"}
		for _, k := range []string{"stream-open-after-response-ended", "request-while-slot-held-by-stream-whose-response-ended"} {
			if m.feat[k] {
				feats = append(feats, k)
			}
		}
		w.Outcome(strings.Join(feats, "+"))
	}
	if m.feat["local-failure-axis"] {
		feats = []string{"local-failure-axis"}
		for _, r := range h.reqs {
			if r.big && r.finished() && errors.Is(r.err, C17ErrRequestHeaderListSize) && !m.onWire(r.idx) {
				m.feat["request-failed-before-headers"] = true
			}
		}
		for _, k := range []string{"request-failed-before-headers", "stream-opened-while-body-close-pending", "stream-opened-while-clean-up-of-never-sent-request-parked", "stream-opened-after-never-sent-request-cleaned-up"} {
			if m.feat[k] {
				feats = append(feats, k)
			}
		}
		w.Outcome(strings.Join(feats, "+"))
	}
	if m.feat["server-not-reading"] {
		feats = []string{"server-not-reading"}
		for _, k := range []string{"request-queued-behind-stuck-write", "blocked-requests-released", "request-while-connection-full-of-unopened-requests"} {
			if m.feat[k] {
				feats = append(feats, k)
			}
		}
		w.Outcome(strings.Join(feats, "+"))
	}
}

// c17SecondWriter reports whether event ev could make a second client goroutine
// want the write lock (wmu) of a connection whose server is not reading while
// another goroutine is, or is about to be, stuck in a write holding that lock.
// The second goroutine would block on a sync.Mutex, which testing/synctest does
// not treat as durably blocked, so the case could never settle; such cases are
// outside the explored space (recorded as an assumption).
//
// On a not-reading connection c: stuck = a write is stuck (wmu held), hdr = the
// new-request lock (reqHeaderMu, a channel) is held, pend = a request holding
// the new-request lock waits for a free slot (strict mode). What remains
// explorable: new requests while they queue on the channel (the stuck write is
// a request-header write, or nothing is stuck yet), cancellations and server
// frames that lead to at most one write, PING acknowledgements, resume reading,
// and everything on other connections.
func c17SecondWriter(h *c17cli, conns []*c17Conn, ev string) bool {
	var target *c17Conn
	if len(ev) >= 2 && ev[0] != 'C' && ev[0] != 'Q' && ev[0] != 'D' && ev[0] != 'K' {
		if i := int(ev[1] - 'a'); i >= 0 && i < len(conns) {
			target = conns[i]
		}
	}
	for _, c := range conns {
		if !c.notReading || c.cc == nil {
			continue
		}
		stuck, hdr := c.writeStuck()
		pend := c.cc.C17Peek().PendingRequests > 0
		switch ev[0] {
		case 'Q':
			if stuck && !hdr {
				return true // the new request could take the new-request lock and then wait for the write lock
			}
		case 'F':
			if c == target || (stuck && !hdr) {
				return true // the reset request's clean-up takes the write lock while its retry writes HEADERS
			}
		case 'S', 'E', 'R':
			if c == target && (stuck || pend) {
				return true // SETTINGS acknowledgement; clean-up of the finished request; a released waiter writes HEADERS
			}
		case 'P':
			if c == target && stuck && pend {
				return true // the acknowledgement releases pending-reset slots: a waiter may proceed to write HEADERS
			}
		case 'C':
			i, _ := strconv.Atoi(ev[1:])
			last := -1
			for _, a := range h.assignList() {
				if a.req == i-1 {
					last = a.conn
				}
			}
			if last == c.idx && i >= 1 && i <= len(h.reqs) && !h.reqs[i-1].finished() && (stuck || pend) {
				return true // clean-up of the cancelled request takes the write lock; the abort wakes a waiter
			}
		case 'K':
			return true // the released clean-up takes the write lock (slow-Close shapes are not combined with B/U: unreachable)
		case 'D':
			i, _ := strconv.Atoi(ev[1:])
			for _, a := range h.assignList() {
				if a.req == i-1 && a.conn == c.idx {
					return true // the end of the body is written while the server is not reading
				}
			}
		}
	}
	return false
}

func c17RunCase(c *vx.Ctx, w *vx.W, cs c17Case) {
	synctest.Test(c.T, func(t *testing.T) {
		defer func() {
			if r := recover(); r != nil {
				w.Failf("C17/harness/panic", "panic in the harness: %v", r)
			}
		}()
		c17Exec(t, w, cs)
	})
}

// ---- generation -------------------------------------------------------------------------

type c17GenState struct {
	nQ        int
	stalled   [8]bool // request i has a stalled body that has not been released
	slow      [8]bool // request i has a body whose Close blocks and has not been released
	cancelled [8]bool
	nS        [2]int
	nB        [2]int
	blocked   [2]bool
	used      map[string]bool
	retries   int
}

func (st *c17GenState) clone() *c17GenState {
	c := *st
	c.used = map[string]bool{}
	for k, v := range st.used {
		c.used[k] = v
	}
	return &c
}

type c17GenOpts struct {
	maxQ    int
	conns   int
	limits  string // characters among "012n"
	maxS    int    // SETTINGS events per connection
	refused bool
	maxB    int    // "server stops reading" events per connection (each may be followed by "resumes reading")
	shapes  string // request shapes besides the plain GET: suffixes of the Q event (keys of c17Shapes)
	hdrList bool   // every server SETTINGS also carries MAX_HEADER_LIST_SIZE c17HeaderListLimit (event S<conn><k>h)
}

func c17GenNext(st *c17GenState, o c17GenOpts, emit func(ev string, apply func(*c17GenState))) {
	if st.nQ < o.maxQ {
		emit("Q", func(s *c17GenState) { s.nQ++ })
		for _, sh := range o.shapes {
			sh := sh
			emit("Q"+string(sh), func(s *c17GenState) { s.nQ++; s.stalled[s.nQ] = sh == 's'; s.slow[s.nQ] = sh == 'h' || sh == 'c' })
		}
	}
	if st.nQ == 0 {
		return // no connection exists before the first request
	}
	for i := 1; i <= st.nQ; i++ {
		i := i
		if !st.cancelled[i] {
			emit("C"+strconv.Itoa(i), func(s *c17GenState) { s.cancelled[i] = true })
		}
		if st.stalled[i] {
			emit("D"+strconv.Itoa(i), func(s *c17GenState) { s.stalled[i] = false })
		}
		if st.slow[i] {
			emit("K"+strconv.Itoa(i), func(s *c17GenState) { s.slow[i] = false })
		}
	}
	for ci := 0; ci < o.conns; ci++ {
		ci := ci
		cn := string(rune('a' + ci))
		if st.nS[ci] < o.maxS {
			for _, k := range o.limits {
				ev := "S" + cn + string(k)
				if o.hdrList {
					ev += "h"
				}
				emit(ev, func(s *c17GenState) { s.nS[ci]++ })
			}
		}
		if st.blocked[ci] {
			emit("U"+cn, func(s *c17GenState) { s.blocked[ci] = false })
		} else if st.nB[ci] < o.maxB {
			emit("B"+cn, func(s *c17GenState) { s.blocked[ci] = true; s.nB[ci]++ })
		}
		if st.nS[ci] == 0 {
			continue // nothing but SETTINGS may be sent first
		}
		for j := 1; j <= st.nQ+st.retries && j <= 5; j++ {
			key := cn + strconv.Itoa(j)
			if st.used[key] {
				continue
			}
			emit("E"+key, func(s *c17GenState) { s.used[key] = true })
			emit("R"+key, func(s *c17GenState) { s.used[key] = true })
			if o.refused {
				emit("F"+key, func(s *c17GenState) { s.used[key] = true; s.retries++ })
			}
		}
		emit("P"+cn, func(s *c17GenState) {})
	}
}

func c17Gen(mode string, depth int, o c17GenOpts, prefix []string, yield func(c17Case) bool) bool {
	base := &c17GenState{used: map[string]bool{}}
	for _, pe := range prefix {
		found := false
		c17GenNext(base, o, func(ev string, apply func(*c17GenState)) {
			if ev == pe && !found {
				found = true
				ns := base.clone()
				apply(ns)
				*base = *ns
			}
		})
		if !found {
			panic("c17Gen: illegal prefix event " + pe)
		}
	}
	for n := 1; n <= depth; n++ {
		var rec func(st *c17GenState, evs []string) bool
		rec = func(st *c17GenState, evs []string) bool {
			if len(evs) == n {
				return yield(c17Case{Mode: mode, Ev: append(append([]string(nil), prefix...), evs...)})
			}
			ok := true
			c17GenNext(st, o, func(ev string, apply func(*c17GenState)) {
				if !ok {
					return
				}
				ns := st.clone()
				apply(ns)
				ok = rec(ns, append(evs, ev))
			})
			return ok
		}
		if !rec(base, nil) {
			return false
		}
	}
	return true
}

func TestVerif_C17(t *testing.T) {
	vx.Run(t, "C17", func(c *vx.Ctx) {
		depth := vx.Pick(c, 6, 8)
		c.Rule(fmt.Sprintf("every statically legal sequence of 1..%d events (shortest first) over {Q new request (<=%d), C_i cancel request i, S<conn><k> server SETTINGS with MAX_CONCURRENT_STREAMS k in {0,1,2} or without the field (<=2 per connection), E<conn><j> response with END_STREAM on the j-th stream of the connection, R<conn><j> RST_STREAM(CANCEL), F<conn><j> RST_STREAM(REFUSED_STREAM) (thorough), P<conn> acknowledge the client's PINGs, B<conn> the server stops reading from the connection (the client's writes block: a request-header write gets stuck holding the connection's new-request lock and further requests handed to the connection queue behind it; <=1 per connection), U<conn> the server reads again}, in mode strict (Transport.StrictMaxConcurrentStreams, one connection) and mode pool (default Transport, two connections addressable; one level shallower), plus, for the request-shape axis, every sequence of 1..%d (pooled: 1..%d) events over the same alphabet without B/U/F and with limits {1,2}, where a new request is any of Q (GET, END_STREAM on the request HEADERS), Qk (3-byte body of declared length, END_STREAM on the last DATA), Qb (body of undeclared length, END_STREAM on an empty DATA), Qt (body + Request.Trailer announcing a key with a nil value that is filled in when the body reaches EOF, END_STREAM on the trailer HEADERS), Qu (the same, never filled in: no trailer fields to send), Qe (body + empty non-nil Request.Trailer), Qs (body that stalls after 3 bytes: the request half stays open, also after the response has ended) and D_i lets the stalled body of request i reach EOF (<=3 requests), and 1..%d events after the prefix [Q<shape>, Sa1] for each of the six body shapes in both modes (later requests plain or of that shape); plus, for locally failing requests and slow body Close, every sequence of 1..%d (pooled: 1..%d) events from the empty Transport (<=4 requests, <=1 SETTINGS per connection with limit 1 or none) and 1..%d events after the prefixes [Q, Sanh] and [Q, Sa1h] (<=5 requests) in both modes, where every server SETTINGS also carries MAX_HEADER_LIST_SIZE 4096 (S<conn><k>h), a new request is Q, Qg (GET with a 5000-byte header field: once the limit is announced it is assigned a stream id and fails with ErrRequestHeaderListSize before anything is written; before that it is an ordinary request), Qc (3-byte body of undeclared length whose Close does not return before K_i, so the request's clean-up is parked and its slot stays taken) or Qh (both: the clean-up of the never-sent request is parked in Close while other requests open streams; after the prefixes only Q and Qh), and K_i lets the pending body Close of request i return; plus seeded prefixes (three strict and two pooled ones with the server reading; pooled limit 2 with an idle connection whose server has stopped reading, pooled limit 2 with one request stuck in its header write and one queued behind it, strict limit 1 with a waiting request and the server not reading); each case runs a fresh real Transport in its own synctest bubble whose dialled connections end in the harness; every pool decision is observed through httptrace GotConn; at the end of every case the server reads again on every connection and 120 s of fake time pass (every retry back-off of the Transport expires) and the clauses are evaluated again; a case is non-trivial when all its events were applicable at run time", depth, vx.Pick(c, 3, 4), vx.Pick(c, 4, 5), vx.Pick(c, 4, 5), vx.Pick(c, 3, 4), vx.Pick(c, 4, 6), vx.Pick(c, 4, 5), vx.Pick(c, 4, 5)))
		c.Assume("limit in force for a new stream = the larger of the MAX_CONCURRENT_STREAMS values delivered before and during the step in which its HEADERS is observed (no limit before the first SETTINGS); a stream is open on the wire from its HEADERS until END_STREAM both ways or RST_STREAM either way (RFC 9113 5.1, 5.1.2: a stream whose response has ended keeps counting until the client has sent END_STREAM or either side RST_STREAM), whatever the client believes it has sent")
		c.Assume("request shapes: bodies are 3 bytes, so flow control never delays them; trailer shapes use a body of undeclared length (declared length + trailers is not explored); a stalled body ends only by D_i, by the Transport closing it, or at the end of the case; request shapes are not combined with the server not reading (B/U) or REFUSED_STREAM retries")
		c.Assume("locally failing requests: the only local failure explored is a header list larger than the announced MAX_HEADER_LIST_SIZE (deterministic); a request cancelled between the assignment of its stream id and its HEADERS write is not explored (it needs the request to wait for the connection's write mutex behind a stuck write, which testing/synctest cannot settle on, or a particular choice among ready select arms); these shapes are not combined with the server not reading (B/U), REFUSED_STREAM or the other body shapes; a body Close that never returns is not a case: every pending Close is released at the end of the case, before the final evaluation; such a request is not counted as an excess request by the strict clause (it fails with ErrRequestHeaderListSize, by design)")
		c.Assume("while the Transport is inside a request body's Close, the waiter clause is deferred: a slot given back by a request whose clean-up is parked in Close (e.g. the reservation of a cancelled request that was queued for the new-request lock: decrStreamReservations does not wake waiters, the clean-up does so only after Close) need not start a waiter before the Close has returned; the clause is evaluated in the first step at whose end no Close is pending (progress delayed by a slow Close is outside the stated property)")
		c.Assume("pool clause, black box: when a new request arrives, a connection is at its limit if (streams open on the wire) + (requests the pool handed to it on their first attempt, not handed elsewhere since, not finished, whose HEADERS have not appeared on it) >= the largest limit that can be in force at the client; retried attempts that have not opened a stream are not counted (a request in the Transport's retry back-off holds no slot and cannot be told apart from outside), so the count is a lower bound of the slots a correct client accounts for; only the first pool decision of the new request in its own step is judged")
		c.Assume("while the server is not reading, and in the step in which it resumes, the limit in force is taken as the largest of the limit at the moment it stopped reading and every limit sent since (the client's read loop may be stuck writing an acknowledgement; streams admitted earlier reach the wire late)")
		c.Assume("testing/synctest cannot settle while a goroutine waits for a sync.Mutex, so on a connection whose server is not reading at most one client write may be outstanding: events that could make a second goroutine want the connection's write lock while one write is stuck (SETTINGS to be acknowledged, responses/resets/cancellations whose clean-up takes the write lock, anything that could release a strict-mode waiter, a new request that would not queue on the new-request lock) are pruned (outcome pruned:second-writer-on-connection-with-stuck-write); what remains while a header write is stuck: new requests, PING acknowledgements, resume reading, all events on the other connection")
		c.Assume("a pending request that is not woken when the server RAISES the limit by SETTINGS (ClientConn.processSettings does not broadcast) is not reported: the property only states that excess requests wait; the waiter clause fires only when the step itself released a slot (stream closed, request cancelled, PING acknowledged)")
		strictO := c17GenOpts{maxQ: vx.Pick(c, 3, 4), conns: 1, limits: "012n", maxS: 2, refused: !c.Quick(), maxB: 1}
		poolO := c17GenOpts{maxQ: vx.Pick(c, 3, 4), conns: 2, limits: "012", maxS: vx.Pick(c, 1, 2), refused: false, maxB: 1}
		run := func(part, mode string, d int, o c17GenOpts, prefix []string) {
			vx.Enumerate(c, part, vx.Opts{Serial: true, Crumb: true}, func(yield0 func(c17Case) bool) {
				yield := c15Yield(c, yield0)
				if prefix != nil && !yield(c17Case{Mode: mode, Ev: prefix}) {
					return
				}
				c17Gen(mode, d, o, prefix, yield)
			}, func(w *vx.W, cs c17Case) { c17RunCase(c, w, cs) })
		}
		run("strict", "strict", depth, strictO, nil)
		run("pool", "pool", depth-1, poolO, nil)
		// request shapes: how, and whether, the request half of a stream gets closed
		shapeD := vx.Pick(c, 4, 5)
		shapeS := c17GenOpts{maxQ: 3, conns: 1, limits: "12", maxS: vx.Pick(c, 1, 2), shapes: "kbtues"}
		run("strict-shapes", "strict", shapeD, shapeS, nil)
		shapeP := c17GenOpts{maxQ: 3, conns: 2, limits: "12", maxS: 1, shapes: "kbtues"}
		run("pool-shapes", "pool", vx.Pick(c, 4, 5), shapeP, nil)
		// one level deeper per shape: the connection is at limit 1 with a request of that shape; later requests are plain or of the same shape
		for _, sh := range "kbtues" {
			first := "Q" + string(sh)
			o := c17GenOpts{maxQ: 4, conns: 1, limits: "12", maxS: 2, shapes: string(sh)}
			run("seed-strict-limit1-shape-"+string(sh), "strict", vx.Pick(c, 3, 4), o, []string{first, "Sa1"})
			o.conns = 2
			run("seed-pool-limit1-shape-"+string(sh), "pool", vx.Pick(c, 3, 4), o, []string{first, "Sa1"})
		}
		// locally failing requests (stream id assigned, nothing written) and slow body Close
		lfS := c17GenOpts{maxQ: 4, conns: 1, limits: "1n", maxS: 1, shapes: "gch", hdrList: true}
		run("strict-localfail", "strict", vx.Pick(c, 4, 6), lfS, nil)
		lfP := c17GenOpts{maxQ: 4, conns: 2, limits: "1n", maxS: 1, shapes: "gch", hdrList: true}
		run("pool-localfail", "pool", vx.Pick(c, 4, 5), lfP, nil)
		// deeper after the server has announced its header-list limit, with no stream limit and with limit 1; later requests plain or oversized with a slow Close
		for _, lim := range "n1" {
			pre := []string{"Q", "Sa" + string(lim) + "h"}
			o := c17GenOpts{maxQ: 5, conns: 1, limits: "1n", maxS: 2, shapes: "h", hdrList: true}
			run("seed-strict-hdrlimit-streams-"+string(lim), "strict", vx.Pick(c, 4, 5), o, pre)
			o.conns, o.maxS = 2, 1
			run("seed-pool-hdrlimit-streams-"+string(lim), "pool", vx.Pick(c, 4, 5), o, pre)
		}
		sd := vx.Pick(c, 3, 4)
		seedO := c17GenOpts{maxQ: 4, conns: 1, limits: "012n", maxS: 3, refused: true}
		run("seed-strict-limit1-two-waiting", "strict", sd, seedO, []string{"Q", "Sa1", "Q", "Q"})
		run("seed-strict-limit2-lowered", "strict", sd, seedO, []string{"Q", "Sa2", "Q", "Sa1"})
		run("seed-strict-cancelled-unacked", "strict", sd, seedO, []string{"Q", "Sa1", "C1", "Q"})
		seedP := c17GenOpts{maxQ: 4, conns: 2, limits: "012", maxS: 2, refused: true}
		run("seed-pool-limit1-second-conn", "pool", sd, seedP, []string{"Q", "Sa1", "Q"})
		run("seed-pool-limit2-full", "pool", sd, seedP, []string{"Q", "Sa2", "Q", "Q"})
		// the server stops reading: request-header writes block, requests queue up behind them
		seedPB := c17GenOpts{maxQ: 5, conns: 2, limits: "012", maxS: 2, refused: true, maxB: 1}
		run("seed-pool-limit2-idle-not-reading", "pool", sd, seedPB, []string{"Q", "Sa2", "Ea1", "Ba"})
		run("seed-pool-limit2-write-stuck-one-queued", "pool", sd, seedPB, []string{"Q", "Sa2", "Ea1", "Ba", "Q", "Q"})
		seedSB := c17GenOpts{maxQ: 4, conns: 1, limits: "012n", maxS: 3, refused: true, maxB: 1}
		run("seed-strict-limit1-waiting-not-reading", "strict", sd, seedSB, []string{"Q", "Sa1", "Ba", "Q"})
	})
}
