package http2

// C14 — dimensions of the (configuration × message shape) space and a
// deterministic greedy generator of strength-t covering arrays over it
// (every valid combination of values of any t dimensions occurs in a case).

import "fmt"

// c14Trl is a value of the trailer dimensions: N as c14Case.ReqTrl/ResTrl,
// Pad as ReqTrlPad/ResTrlPad.
type c14Trl struct{ N, Pad int }

type c14Dim struct {
	name string
	n    int
	set  func(x *c14Case, i int)
	str  func(i int) string
}

func c14DimOf[T any](name string, vals []T, set func(x *c14Case, v T)) c14Dim {
	return c14Dim{name: name, n: len(vals),
		set: func(x *c14Case, i int) { set(x, vals[i]) },
		str: func(i int) string { return fmt.Sprint(vals[i]) }}
}

// c14Dims returns the dimensions; wide selects the thorough value sets
// (supersets, same order, so that quick values keep their indices).
func c14Dims(wide bool) []c14Dim {
	pick := func(q, th []int) []int {
		if wide {
			return th
		}
		return q
	}
	bodies := pick(
		[]int{0, 1, 1000, 16384, 16385, 65535, 65536, 70001},
		[]int{0, 1, 1000, 16384, 16385, 65535, 65536, 70001, 16383, 4095, 4096, 4097, 140001})
	hdrs := pick([]int{0, 1, 2, 3, 4, 5, 6}, []int{0, 1, 2, 3, 4, 5, 6, 7, 8})
	methods := []string{"POST", "GET", "HEAD"}
	if wide {
		methods = append(methods, "PUT", "DELETE", "OPTIONS")
	}
	tbl := pick([]int{4096, 64}, []int{4096, 64, 1, 65536})
	frames := pick([]int{16384, 1<<24 - 1}, []int{16384, 1<<24 - 1, 16385, 65536})
	// trailers: none, one field, 20 fields, (response) via http.TrailerPrefix,
	// and - like the header sets - a trailer block larger than one frame, which
	// travels as HEADERS(END_STREAM) + CONTINUATION
	reqTrl := []c14Trl{{0, 0}, {1, 0}, {20, 0}, {1, 17000}}
	resTrl := []c14Trl{{0, 0}, {1, 0}, {20, 0}, {-1, 0}, {1, 17000}}
	if wide {
		reqTrl = append(reqTrl, c14Trl{20, 33000})
		resTrl = append(resTrl, c14Trl{-1, 17000}, c14Trl{20, 33000})
	}
	return []c14Dim{
		c14DimOf("s_frame", frames, func(x *c14Case, v int) { x.SFrame = uint32(v) }),
		c14DimOf("s_win", []int{1 << 20, 100, 1}, func(x *c14Case, v int) { x.SWin = int32(v) }),
		c14DimOf("s_conn", []int{1 << 20, 65535}, func(x *c14Case, v int) { x.SConn = int32(v) }),
		c14DimOf("s_tbl", tbl, func(x *c14Case, v int) { x.STbl = uint32(v) }),
		c14DimOf("sched", []int{0, 1, 2, 3}, func(x *c14Case, v int) { x.Sched = v }),
		c14DimOf("c_frame", frames, func(x *c14Case, v int) { x.CFrame = uint32(v) }),
		c14DimOf("c_win", []int{4 << 20, 100, 1}, func(x *c14Case, v int) { x.CWin = v }),
		c14DimOf("c_conn", []int{0, 65535}, func(x *c14Case, v int) { x.CConn = v }),
		c14DimOf("c_tbl", tbl, func(x *c14Case, v int) { x.CTbl = uint32(v) }),
		c14DimOf("early", []bool{false, true}, func(x *c14Case, v bool) { x.Early = v }),
		c14DimOf("method", methods, func(x *c14Case, v string) { x.Method = v }),
		c14DimOf("path", []int{0, 1, 2}, func(x *c14Case, v int) { x.Path = v }),
		c14DimOf("req_hdr", hdrs, func(x *c14Case, v int) { x.ReqHdr = v }),
		c14DimOf("req_body", bodies, func(x *c14Case, v int) { x.ReqBody = v }),
		c14DimOf("req_decl", []bool{true, false}, func(x *c14Case, v bool) { x.ReqDecl = v }),
		c14DimOf("req_chunk", pick([]int{0, 1000, 16384}, []int{0, 1000, 16384, 1}), func(x *c14Case, v int) { x.ReqChunk = v }),
		c14DimOf("req_trl", reqTrl, func(x *c14Case, v c14Trl) { x.ReqTrl, x.ReqTrlPad = v.N, v.Pad }),
		c14DimOf("status", pick([]int{200, 404, 204, 304}, []int{200, 404, 204, 304, 201, 500}), func(x *c14Case, v int) { x.Status = v }),
		c14DimOf("info", []bool{false, true}, func(x *c14Case, v bool) { x.Info = v }),
		c14DimOf("res_hdr", hdrs, func(x *c14Case, v int) { x.ResHdr = v }),
		c14DimOf("res_body", bodies, func(x *c14Case, v int) { x.ResBody = v }),
		c14DimOf("res_decl", []bool{false, true}, func(x *c14Case, v bool) { x.ResDecl = v }),
		c14DimOf("res_chunk", pick([]int{0, 1000, 16384}, []int{0, 1000, 16384, 1}), func(x *c14Case, v int) { x.ResChunk = v }),
		c14DimOf("res_flush", []bool{false, true}, func(x *c14Case, v bool) { x.ResFlush = v }),
		c14DimOf("res_trl", resTrl, func(x *c14Case, v c14Trl) { x.ResTrl, x.ResTrlPad = v.N, v.Pad }),
		c14DimOf("order", []int{0, 1}, func(x *c14Case, v int) { x.Order = v }),
		c14DimOf("repeat", pick([]int{1, 2}, []int{1, 2, 3}), func(x *c14Case, v int) { x.Repeat = v }),
	}
}

// c14Neutral is the case used for the dimensions a partial assignment has not
// chosen yet: values that take part in no exclusion.
func c14Neutral() c14Case {
	return c14Case{Method: "POST", ReqBody: 1, Status: 200}
}

// c14Build makes the case of a (possibly partial: -1) row.
func c14Build(dims []c14Dim, row []int) c14Case {
	x := c14Neutral()
	for d, v := range row {
		if v >= 0 {
			dims[d].set(&x, v)
		}
	}
	return x
}

func c14RowValid(dims []c14Dim, row []int) bool {
	x := c14Build(dims, row)
	return c14Invalid(&x) == ""
}

// c14Cover enumerates a covering array of strength t (2 or 3) over dims and
// calls yield with each row. It returns the number of value tuples covered and
// the number excluded because no valid case contains them.
//
// Greedy, deterministic: the first still-uncovered tuple (lexicographic order)
// seeds a row; every other dimension then takes the valid value that covers
// most still-uncovered tuples together with the dimensions already chosen (ties:
// rotated by the row number so that defaults are not favoured).
func c14Cover(dims []c14Dim, t int, yield func(row []int) bool) (covered, excluded, rows int) {
	D := len(dims)
	V := 0
	off := make([]int, D+1) // slot index of (dim, value)
	for d, dm := range dims {
		off[d+1] = off[d] + dm.n
		if dm.n > V {
			V = dm.n
		}
	}
	S := off[D]
	slotDim := make([]int, S)
	for d := 0; d < D; d++ {
		for s := off[d]; s < off[d+1]; s++ {
			slotDim[s] = d
		}
	}
	size := S * S
	if t == 3 {
		size *= S
	}
	done := make([]uint64, (size+63)/64) // tuple (by slots, ascending dims) covered or excluded
	idx2 := func(a, b int) int { return a*S + b }
	idx3 := func(a, b, c int) int { return (a*S+b)*S + c }
	isDone := func(i int) bool { return done[i>>6]&(1<<(i&63)) != 0 }
	setDone := func(i int) { done[i>>6] |= 1 << (i & 63) }

	row := make([]int, D)
	markRow := func() int {
		n := 0
		for a := 0; a < D; a++ {
			sa := off[a] + row[a]
			for b := a + 1; b < D; b++ {
				sb := off[b] + row[b]
				if t == 2 {
					if i := idx2(sa, sb); !isDone(i) {
						setDone(i)
						n++
					}
					continue
				}
				for c := b + 1; c < D; c++ {
					if i := idx3(sa, sb, off[c]+row[c]); !isDone(i) {
						setDone(i)
						n++
					}
				}
			}
		}
		return n
	}
	// gain of choosing value v for dim d given the assigned dims
	gain := func(d, v int, assigned []int) int {
		sd := off[d] + v
		n := 0
		for i, a := range assigned {
			sa := off[a] + row[a]
			if t == 2 {
				x, y := sa, sd
				if a > d {
					x, y = sd, sa
				}
				if !isDone(idx2(x, y)) {
					n++
				}
				continue
			}
			for _, b := range assigned[i+1:] {
				sb := off[b] + row[b]
				s := [3]int{sa, sb, sd}
				// sort three slots by dimension (slots are ordered by dimension)
				if s[0] > s[1] {
					s[0], s[1] = s[1], s[0]
				}
				if s[1] > s[2] {
					s[1], s[2] = s[2], s[1]
				}
				if s[0] > s[1] {
					s[0], s[1] = s[1], s[0]
				}
				if !isDone(idx3(s[0], s[1], s[2])) {
					n++
				}
			}
		}
		return n
	}
	complete := func(seed []int) bool {
		assigned := append([]int(nil), seed...)
		for d := 0; d < D; d++ {
			if row[d] >= 0 {
				continue
			}
			best, bestG := -1, -1
			for k := 0; k < dims[d].n; k++ {
				v := (k + rows) % dims[d].n
				row[d] = v
				if !c14RowValid(dims, row) {
					continue
				}
				if g := gain(d, v, assigned); g > bestG {
					best, bestG = v, g
				}
			}
			row[d] = best
			if best < 0 {
				return false
			}
			assigned = append(assigned, d)
		}
		return true
	}
	emit := func(seedSlots []int) bool {
		for d := range row {
			row[d] = -1
		}
		var seedDims []int
		for _, s := range seedSlots {
			d := slotDim[s]
			row[d] = s - off[d]
			seedDims = append(seedDims, d)
		}
		if !c14RowValid(dims, row) {
			excluded++
			return true
		}
		if !complete(seedDims) {
			panic(fmt.Sprintf("c14: covering array generator reached a dead end for seed %v", seedSlots))
		}
		covered += markRow()
		rows++
		return yield(append([]int(nil), row...))
	}
	for sa := 0; sa < S; sa++ {
		for sb := off[slotDim[sa]+1]; sb < S; sb++ {
			if t == 2 {
				if i := idx2(sa, sb); !isDone(i) {
					setDone(i)
					before := rows
					if !emit([]int{sa, sb}) {
						return
					}
					if rows > before {
						covered++ // the seed itself (markRow found it already set)
					}
				}
				continue
			}
			for sc := off[slotDim[sb]+1]; sc < S; sc++ {
				if i := idx3(sa, sb, sc); !isDone(i) {
					setDone(i)
					before := rows
					if !emit([]int{sa, sb, sc}) {
						return
					}
					if rows > before {
						covered++
					}
				}
			}
		}
	}
	return
}
