package http2

// C14 — shared machinery: the in-memory connection with controllable read
// sizes, the case description, one complete exchange (real Transport/ClientConn
// against real Server.ServeConn inside a synctest bubble) and the oracle.

import (
	"bytes"
	"context"
	"errors"
	"fmt"
	"io"
	"log"
	"net"
	"net/http"
	"net/http/httptrace"
	"net/textproto"
	"sort"
	"strconv"
	"strings"
	"sync"
	"testing"
	"testing/synctest"
	"time"

	"golang.org/x/net/internal/zzverif/vx"
)

// ---------------------------------------------------------------------------
// in-memory full-duplex connection

type c14Addr string

func (a c14Addr) Network() string { return "c14" }
func (a c14Addr) String() string  { return string(a) }

// c14Wire follows the frames written into one direction (without
// interpreting them beyond the 9-byte frame header).
type c14Wire struct {
	skip    int // bytes of client preface still to skip
	hdr     [9]byte
	nh      int
	payload int // payload bytes of the current frame still to come
	types   [16]int
	maxData int
	trace   []byte // frame type sequence (D DATA, H HEADERS, P PRIORITY, R RST_STREAM, S SETTINGS, U PUSH_PROMISE, N PING, G GOAWAY, W WINDOW_UPDATE, C CONTINUATION; '+' = repeated)
	lastT   byte
	lastRun int
	// payload bytes of the first header block (HEADERS + CONTINUATION*)
	firstBlock int
	blockState int // 0 before, 1 inside, 2 after the first header block
	// payload bytes of the most recent header block, the number of header
	// blocks, and the number of header blocks whose HEADERS frame carries
	// END_STREAM without END_HEADERS (the stream ends with a block that
	// continues in CONTINUATION frames)
	lastBlock  int
	blocks     int
	endStreamC int
	// error codes of the first RST_STREAM and the first GOAWAY (-1: none seen)
	rstCode, goAwayCode int64
	capType             byte
	capWant             int
	capBuf              []byte
	// fed: bytes fed so far (preface included). holdStream != 0: the reader of
	// this direction gets nothing from the HEADERS frame that opens that stream
	// onwards (holdAt = offset of that frame's first byte, -1 until it is
	// written) until the hold is released: "these frames are still in flight".
	fed        int
	holdStream uint32
	holdAt     int
}

func (s *c14Wire) feed(p []byte) {
	for len(p) > 0 {
		if s.skip > 0 {
			n := min(s.skip, len(p))
			s.skip -= n
			s.fed += n
			p = p[n:]
			continue
		}
		if s.payload > 0 {
			n := min(s.payload, len(p))
			s.fed += n
			if s.capWant > 0 {
				k := min(s.capWant, n)
				s.capBuf = append(s.capBuf, p[:k]...)
				s.capWant -= k
				if s.capWant == 0 {
					code := int64(s.capBuf[len(s.capBuf)-4])<<24 | int64(s.capBuf[len(s.capBuf)-3])<<16 | int64(s.capBuf[len(s.capBuf)-2])<<8 | int64(s.capBuf[len(s.capBuf)-1])
					if FrameType(s.capType) == FrameRSTStream && s.rstCode < 0 {
						s.rstCode = code
					}
					if FrameType(s.capType) == FrameGoAway && s.goAwayCode < 0 {
						s.goAwayCode = code
					}
				}
			}
			s.payload -= n
			p = p[n:]
			continue
		}
		n := copy(s.hdr[s.nh:], p)
		s.nh += n
		s.fed += n
		p = p[n:]
		if s.nh == 9 {
			s.nh = 0
			l := int(s.hdr[0])<<16 | int(s.hdr[1])<<8 | int(s.hdr[2])
			t := s.hdr[3]
			if id := (uint32(s.hdr[5])<<24 | uint32(s.hdr[6])<<16 | uint32(s.hdr[7])<<8 | uint32(s.hdr[8])) & (1<<31 - 1); FrameType(t) == FrameHeaders && s.holdStream != 0 && id == s.holdStream && s.holdAt < 0 {
				s.holdAt = s.fed - 9
			}
			s.payload = l
			if t < 16 {
				s.types[t]++
			}
			if FrameType(t) == FrameData && l > s.maxData {
				s.maxData = l
			}
			s.capWant, s.capBuf = 0, s.capBuf[:0]
			if FrameType(t) == FrameRSTStream && l == 4 {
				s.capType, s.capWant = t, 4
			}
			if FrameType(t) == FrameGoAway && l >= 8 {
				s.capType, s.capWant = t, 8
			}
			switch FrameType(t) {
			case FrameHeaders:
				s.blocks++
				s.lastBlock = l
				if s.hdr[4]&byte(FlagHeadersEndStream) != 0 && s.hdr[4]&byte(FlagHeadersEndHeaders) == 0 {
					s.endStreamC++
				}
			case FrameContinuation:
				s.lastBlock += l
			}
			switch {
			case s.blockState == 0 && FrameType(t) == FrameHeaders:
				s.blockState, s.firstBlock = 1, l
			case s.blockState == 1 && FrameType(t) == FrameContinuation:
				s.firstBlock += l
			case s.blockState == 1:
				s.blockState = 2
			}
			if t == s.lastT && len(s.trace) > 0 {
				s.lastRun++
				if s.lastRun == 2 {
					s.trace = append(s.trace, '+')
				}
			} else {
				s.lastT, s.lastRun = t, 1
				s.trace = append(s.trace, "DHPRSUNGWCxxxxxxx"[min(int(t), 16)])
			}
		}
	}
}

// c14Half is one direction of the connection: an unbounded byte queue.
type c14Half struct {
	mu      sync.Mutex
	cond    *sync.Cond
	buf     []byte
	off     int
	wclosed bool // writer closed: reader drains, then io.EOF
	rclosed bool // reader closed: writes fail, pending reads fail
	gated   bool // delivery held back: reads block although bytes are queued
	reads   int  // Read calls that returned data so far
	rdAbs   int  // bytes handed to the reader so far
	short   map[int]int
	fired   int // short reads that really truncated
	wire    c14Wire
}

func c14NewHalf(preface bool) *c14Half {
	h := &c14Half{}
	h.wire.rstCode, h.wire.goAwayCode = -1, -1
	h.wire.holdAt = -1
	h.cond = sync.NewCond(&h.mu)
	if preface {
		h.wire.skip = len(ClientPreface)
	}
	return h
}

// avail is the number of queued bytes the reader may have now (mu held).
func (h *c14Half) avail() int {
	n := len(h.buf) - h.off
	if h.wire.holdAt >= 0 && !h.wclosed {
		n = min(n, h.wire.holdAt-h.rdAbs)
	}
	return n
}

// hold keeps everything from the HEADERS frame opening the stream onwards
// away from the reader until releaseHold.
func (h *c14Half) hold(stream uint32) {
	h.mu.Lock()
	h.wire.holdStream = stream
	h.mu.Unlock()
}

func (h *c14Half) releaseHold() {
	h.mu.Lock()
	h.wire.holdStream, h.wire.holdAt = 0, -1
	h.cond.Broadcast()
	h.mu.Unlock()
}

func (h *c14Half) read(p []byte) (int, error) {
	h.mu.Lock()
	defer h.mu.Unlock()
	for (h.avail() == 0 || h.gated) && !h.wclosed && !h.rclosed {
		h.cond.Wait()
	}
	if h.rclosed {
		return 0, net.ErrClosed
	}
	if h.off == len(h.buf) {
		return 0, io.EOF
	}
	if len(p) == 0 {
		return 0, nil
	}
	idx := h.reads
	h.reads++
	n := min(len(p), h.avail())
	if k, ok := h.short[idx]; ok && n > k {
		n = k
		h.fired++
	}
	copy(p, h.buf[h.off:h.off+n])
	h.off += n
	h.rdAbs += n
	if h.off == len(h.buf) {
		h.buf, h.off = h.buf[:0], 0
	}
	return n, nil
}

func (h *c14Half) release() {
	h.mu.Lock()
	h.gated = false
	h.cond.Broadcast()
	h.mu.Unlock()
}

func (h *c14Half) write(p []byte) (int, error) {
	h.mu.Lock()
	defer h.mu.Unlock()
	if h.wclosed || h.rclosed {
		return 0, errors.New("c14: write on closed connection")
	}
	h.wire.feed(p)
	h.buf = append(h.buf, p...)
	h.cond.Broadcast()
	return len(p), nil
}

type c14Conn struct {
	in, out *c14Half
	name    string
}

func (c *c14Conn) Read(p []byte) (int, error)  { return c.in.read(p) }
func (c *c14Conn) Write(p []byte) (int, error) { return c.out.write(p) }
func (c *c14Conn) Close() error {
	c.in.mu.Lock()
	c.in.rclosed = true
	c.in.cond.Broadcast()
	c.in.mu.Unlock()
	c.out.mu.Lock()
	c.out.wclosed = true
	c.out.cond.Broadcast()
	c.out.mu.Unlock()
	return nil
}
func (c *c14Conn) LocalAddr() net.Addr              { return c14Addr(c.name) }
func (c *c14Conn) RemoteAddr() net.Addr             { return c14Addr(c.name + "-peer") }
func (c *c14Conn) SetDeadline(time.Time) error      { return nil }
func (c *c14Conn) SetReadDeadline(time.Time) error  { return nil }
func (c *c14Conn) SetWriteDeadline(time.Time) error { return nil }

// c14Short is one network deviation: the Index-th data-returning Read in
// direction Dir ("c2s": the server's reads, "s2c": the client's reads) returns
// at most N bytes.
type c14Short struct {
	Dir   string `json:"dir"`
	Index int    `json:"read_index"`
	N     int    `json:"max_bytes"`
}

// ---------------------------------------------------------------------------
// case description

type c14Case struct {
	// configuration
	SFrame uint32 `json:"srv_max_read_frame"`
	SWin   int32  `json:"srv_stream_window"`
	SConn  int32  `json:"srv_conn_window"`
	STbl   uint32 `json:"srv_header_table"`
	Sched  int    `json:"srv_scheduler"` // 0 default(9218) 1 round-robin 2 random 3 rfc7540
	CFrame uint32 `json:"cli_max_read_frame"`
	CWin   int    `json:"cli_stream_window"`
	CConn  int    `json:"cli_conn_window"` // 0 = default
	CTbl   uint32 `json:"cli_header_table"`
	Early  bool   `json:"request_before_settings_exchange"`
	// request
	Method   string `json:"method"`
	Path     int    `json:"path"`
	ReqHdr   int    `json:"req_headers"`
	ReqBody  int    `json:"req_body_len"`
	ReqDecl  bool   `json:"req_len_declared"`
	ReqChunk int    `json:"req_chunk"` // bytes per body Read, 0 = as much as asked for
	ReqTrl   int    `json:"req_trailers"`
	// response
	Status   int  `json:"status"`
	Info     bool `json:"early_hints_103"`
	ResHdr   int  `json:"res_headers"`
	ResBody  int  `json:"res_body_len"`
	ResDecl  bool `json:"res_len_declared"`
	ResChunk int  `json:"res_chunk"` // bytes per Write, 0 = one Write
	ResFlush bool `json:"res_flush_each_write"`
	ResTrl   int  `json:"res_trailers"`  // 0 none, 1/20 declared fields, -1 one field via http.TrailerPrefix
	Order    int  `json:"handler_order"` // 0 read request then respond, 1 flush response headers first
	// Repeat > 1: the same exchange is repeated sequentially on the connection
	// (header compression state, connection windows carry over)
	Repeat int `json:"sequential_requests,omitempty"`
	// Seq non-empty: a history of len(Seq) sequential exchanges on the one
	// connection, exchange i with a request body of Seq[i].Req and a response
	// body of Seq[i].Res bytes (instead of Repeat x ReqBody/ResBody); everything
	// else is the same in each exchange
	Seq []c14Lens `json:"body_len_sequence,omitempty"`
	// ResRead > 0: the client reads the response body with Read calls on a
	// buffer of that many bytes (0: io.ReadAll, whose buffer starts at 512
	// bytes and grows), i.e. how much one Read call may take at once
	ResRead int `json:"res_read_buf,omitempty"`
	// ReqPad/ResPad > 0: an extra field X-Pad of that many 0xFE bytes (never
	// Huffman-coded, so the header block grows by one byte per byte)
	ReqPad int `json:"req_pad_field,omitempty"`
	ResPad int `json:"res_pad_field,omitempty"`
	// ReqTrlPad/ResTrlPad > 0: an extra trailer field X-Tq-Pad / X-Ts-Pad of
	// that many 0xFE bytes (the trailer block grows by one byte per byte);
	// declared like the other trailers (ResTrl < 0: set via http.TrailerPrefix)
	ReqTrlPad int `json:"req_trailer_pad_field,omitempty"`
	ResTrlPad int `json:"res_trailer_pad_field,omitempty"`
	// network deviations
	Short []c14Short `json:"short_reads,omitempty"`
}

// c14Lens are the body lengths of one exchange of a history.
type c14Lens struct {
	Req int `json:"req"`
	Res int `json:"res"`
}

// c14At returns the case as exchange i of its history sees it.
func c14At(x *c14Case, i int) *c14Case {
	if len(x.Seq) == 0 {
		return x
	}
	y := *x
	y.ReqBody, y.ResBody = x.Seq[i].Req, x.Seq[i].Res
	return &y
}

var c14Paths = []string{"/", "/p/a%20b/c?q=1&r=%2F&s=", "/" + strings.Repeat("seg/", 80) + "end?x=" + strings.Repeat("y", 200)}

const c14NHdrSets = 9

// c14HeaderSet returns header set id for one side ("q" request, "s"
// response). Keys are exactly as the application stores them in the map
// (some deliberately not canonical). No two keys of one set are equal after
// canonicalisation.
func c14HeaderSet(id int, side string) http.Header {
	h := http.Header{}
	switch id {
	case 0: // none
	case 1: // three small fields
		h["X-A"] = []string{"1"}
		h["X-Bb"] = []string{"two words"}
		if side == "q" {
			h["Accept-Language"] = []string{"en"}
		} else {
			h["Cache-Control"] = []string{"no-store"}
		}
	case 2: // one value whose Huffman coding (about 6.1 bits per byte) is larger than a frame: forces CONTINUATION
		h["X-Big"] = []string{c14Fill(24000, 7)}
	case 3: // 50 fields
		for i := 0; i < 50; i++ {
			h[fmt.Sprintf("X-F%02d", i)] = []string{fmt.Sprintf("v%d-%s", i, side)}
		}
	case 4: // repeated names, empty values, order of values
		h["X-R"] = []string{"a", "b", "a", "", "c"}
		h["X-S"] = []string{"1", "1"}
		h["X-E"] = []string{""}
	case 5: // names needing canonicalisation
		h["x-lower"] = []string{"l"}
		h["X-UPPER-CASE"] = []string{"u"}
		h["x-MiXed-cAsE"] = []string{"m"}
		h["X-With_Underscore.dot"] = []string{"w"}
		h["x-1a-b2"] = []string{"d", "e"}
	case 6: // cookies
		if side == "q" {
			h["Cookie"] = []string{"a=1; b=2; c=three"}
		} else {
			h["Set-Cookie"] = []string{"a=1; Path=/", "b=2; HttpOnly"}
		}
	case 7: // value bytes: tab, high bytes, separators
		h["X-Bytes"] = []string{"a\tb", "caf\xc3\xa9 \xff\x80", "a,b;c=\"d\"", "x  y"}
		h["X-Static"] = []string{"gzip, deflate"} // value present in the hpack static table under another name
	case 8: // several values larger than a frame
		h["X-Big1"] = []string{c14Fill(30000, 1)}
		h["X-Big2"] = []string{c14Fill(16384, 2), c14Fill(16385, 3)}
		h["X-Small"] = []string{"s"}
	default:
		panic("c14: header set")
	}
	return h
}

// c14Fill returns n printable bytes that depend on the position.
func c14Fill(n, seed int) string {
	b := make([]byte, n)
	for i := range b {
		b[i] = byte('a' + (i*7+i/26+seed)%26)
	}
	return string(b)
}

func c14Body(n, seed int) []byte {
	b := make([]byte, n)
	for i := range b {
		b[i] = byte(i*31 + i>>8 + seed)
	}
	return b
}

func c14Trailers(n, pad int, side string) http.Header {
	if n < 0 {
		n = -n
	}
	h := http.Header{}
	if pad > 0 {
		h["X-T"+side+"-Pad"] = []string{strings.Repeat("\xfe", pad)}
	}
	for i := 0; i < n; i++ {
		k := fmt.Sprintf("X-T%s-%02d", side, i)
		switch i % 4 {
		case 0:
			h[k] = []string{fmt.Sprintf("t%d", i)}
		case 1:
			h[k] = []string{"p", "q"}
		case 2:
			h[k] = []string{""}
		case 3:
			h[k] = []string{c14Fill(300, i)}
		}
	}
	return h
}

// c14Invalid explains why a combination is outside the enumerated domain
// (returns "" for a valid case). A field < 0 / "" means "not chosen yet" so
// that the covering-array generator can test partial assignments.
func c14Invalid(x *c14Case) string {
	if (x.ReqTrl > 0 || x.ReqTrlPad > 0) && x.ReqDecl && x.ReqBody == 0 {
		return "request trailers need a request body stream"
	}
	if x.SWin > 0 && x.ReqBody > 0 && x.ReqBody/int(x.SWin) > 4000 {
		return "cost: request body needs more than 4000 window refills"
	}
	if x.CWin > 0 && x.ResBody > 0 && x.ResBody/x.CWin > 4000 {
		return "cost: response body needs more than 4000 window refills"
	}
	if x.ReqChunk > 0 && x.ReqBody/x.ReqChunk > 4000 {
		return "cost: request body delivered in more than 4000 Reads"
	}
	if x.ResChunk > 0 && x.ResBody/x.ResChunk > 4000 {
		return "cost: response body written in more than 4000 Writes"
	}
	if x.Status == 204 || x.Status == 304 {
		if x.ResBody > 0 || x.ResTrl != 0 || x.ResTrlPad > 0 || x.ResDecl {
			return "204/304 carry no content"
		}
	}
	if x.Sched == 3 && c14Situation(x) != "" {
		return "the deprecated RFC 7540 priority scheduler with a stream that is reset while its handler is writing can crash the server (the C12 finding: Pop returns an empty request after CloseStream); left to C12/C16"
	}
	if x.Order == 1 && x.Method == "HEAD" {
		return "a HEAD response is complete once its header block is flushed; the server then aborts the rest of the request (RFC 9113 8.1), so such handlers read the request first"
	}
	for i := range x.Seq {
		if i == 0 && x.Repeat > 1 {
			return "a history is given either by Repeat or by Seq"
		}
		y := *c14At(x, i)
		y.Seq = nil
		if why := c14Invalid(&y); why != "" {
			return why
		}
	}
	if x.Order == 1 && x.Status > 299 {
		return "the Transport stops sending the request body on a status > 299 (documented heuristic); such handlers read the request first"
	}
	return ""
}

// ---------------------------------------------------------------------------
// one exchange

type c14Seen struct {
	// handler side
	method     string
	uri        string
	host       string
	proto      string
	header     http.Header
	cl         int64
	body       []byte
	bodyErr    error
	trailer    http.Header
	preTrailer []string // keys announced before the body was read
	writeErr   error
	conn       int // index of the connection the request arrived on (shutdown part)
	// set by record: the response body of this invocation, if it is not the
	// handler's fixed one (histories with per-exchange body lengths)
	resBody    []byte
	resBodySet bool
	readDone   bool // the handler's read of the request body has returned
}

type c14Stats struct {
	c2s, s2c         c14Wire
	c2sReads, s2cRds int
	fired            int
}

// c14ChunkReader is the request body: returns at most chunk bytes per Read
// and the final data together with a nil error (EOF comes on the next Read);
// at EOF it fills in the request trailers, as net/http documents.
type c14ChunkReader struct {
	data   []byte
	chunk  int
	atEOF  func()
	closed bool
}

func (r *c14ChunkReader) Read(p []byte) (int, error) {
	if len(r.data) == 0 {
		if r.atEOF != nil {
			r.atEOF()
			r.atEOF = nil
		}
		return 0, io.EOF
	}
	n := len(p)
	if r.chunk > 0 && n > r.chunk {
		n = r.chunk
	}
	n = copy(p[:n], r.data)
	r.data = r.data[n:]
	return n, nil
}
func (r *c14ChunkReader) Close() error { r.closed = true; return nil }

const c14Hang = 10 * time.Minute // fake time

// c14Run executes the case in a fresh synctest bubble and checks the oracle.
func c14Run(w *vx.W, x c14Case) (st c14Stats, completed bool) {
	if why := c14Invalid(&x); why != "" {
		w.Outcome("excluded")
		return
	}
	defer func() {
		// synctest.Test panics on the calling goroutine when bubbled goroutines
		// stay blocked for ever after the exchange was torn down.
		if r := recover(); r != nil {
			s := fmt.Sprint(r)
			if strings.Contains(s, "deadlock") {
				w.Failf("C14/liveness/goroutines-blocked-after-teardown", "%v", r)
				return
			}
			panic(r)
		}
	}()
	synctest.Test(w.Ctx().T, func(t *testing.T) {
		st, completed = c14Exchange(w, &x)
	})
	return
}

// c14Situation names the two abstract situations of the known findings: the
// Transport sent its request before it could have received the server's
// SETTINGS, and the server enforces a value from those SETTINGS that is
// stricter than the protocol default. (Also used to keep the deprecated
// scheduler out of these situations, see c14Invalid.)
func c14Situation(x *c14Case) string {
	if c14SitWindow(x) {
		return c14SigWindow
	}
	if c14SitTable(x) {
		return c14SigTable
	}
	return ""
}

const (
	c14SigWindow = "C14/exchange-fails/request-data-sent-before-server-settings-exceeds-advertised-smaller-window"
	c14SigTable  = "C14/exchange-fails/request-header-block-sent-before-server-settings-vs-smaller-server-header-table"
)

// the client may send up to 65535 bytes per stream until it has received the
// server's smaller SETTINGS_INITIAL_WINDOW_SIZE
func c14SitWindow(x *c14Case) bool {
	return x.Early && x.SWin < 65535 && x.ReqBody > int(x.SWin)
}

// until the client has received SETTINGS_HEADER_TABLE_SIZE its encoder may
// use (and announce) a dynamic table of up to 4096 bytes
func c14SitTable(x *c14Case) bool { return x.Early && x.STbl < min(x.CTbl, 4096) }

// c14Failer reports failures. A failure is filed under the signature of a
// known-finding situation only if the case is in that situation AND the wire
// shows the root-cause symptom itself (the server answered with RST_STREAM
// FLOW_CONTROL_ERROR resp. GOAWAY COMPRESSION_ERROR); which oracle clause
// trips first then depends on timing only. Every other failure keeps its own
// signature, so nothing else hides behind the two.
type c14Failer struct {
	w   *vx.W
	x   *c14Case
	s2c *c14Half
}

func (f c14Failer) Failf(sig, format string, a ...any) {
	f.s2c.mu.Lock()
	rst, goAway := f.s2c.wire.rstCode, f.s2c.wire.goAwayCode
	f.s2c.mu.Unlock()
	flow, comp := rst == int64(ErrCodeFlowControl), goAway == int64(ErrCodeCompression)
	switch {
	case c14SitWindow(f.x) && c14SitTable(f.x) && (flow || comp):
		// in both situations at once: which of the two server reactions gets
		// onto the wire first depends on timing; filed under one fixed signature
		f.w.Failf(c14SigTable, "["+sig+"] "+format, a...)
	case c14SitWindow(f.x) && rst == int64(ErrCodeFlowControl):
		f.w.Failf(c14SigWindow, "["+sig+"] "+format, a...)
	case c14SitTable(f.x) && goAway == int64(ErrCodeCompression):
		f.w.Failf(c14SigTable, "["+sig+"] "+format, a...)
	default:
		f.w.Failf(sig, format, a...)
	}
}

type c14Info struct {
	code int
	h    textproto.MIMEHeader
}

// c14CliResult is what the client observed for one request.
type c14CliResult struct {
	started bool
	res     *http.Response
	err     error
	body    []byte
	bodyErr error
	trailer http.Header
	infos   []c14Info
	stageMu sync.Mutex
	stage   string
}

func (r *c14CliResult) setStage(s string) {
	r.stageMu.Lock()
	r.stage = s
	r.stageMu.Unlock()
}

func (r *c14CliResult) getStage() string {
	r.stageMu.Lock()
	defer r.stageMu.Unlock()
	return r.stage
}

const c14Link = "</style.css>; rel=preload; as=style"

// c14Handler is the handler of every part: it records exactly what it
// received (record is called once per invocation, before anything else) and
// sends the response the case prescribes.
func c14Handler(x *c14Case, resHdr, resTrl http.Header, resBody []byte, record func(*c14Seen)) http.Handler {
	return http.HandlerFunc(func(rw http.ResponseWriter, r *http.Request) {
		seen := &c14Seen{}
		record(seen)
		seen.method, seen.uri, seen.host, seen.proto = r.Method, r.RequestURI, r.Host, r.Proto
		seen.header = r.Header.Clone()
		seen.cl = r.ContentLength
		resBody := resBody
		if seen.resBodySet {
			resBody = seen.resBody
		}
		for k := range r.Trailer {
			seen.preTrailer = append(seen.preTrailer, k)
		}
		h := rw.Header()
		for k, vv := range resHdr {
			h[k] = append([]string(nil), vv...)
		}
		h["Content-Type"] = []string{"application/x-c14"}
		if x.ResDecl {
			h["Content-Length"] = []string{strconv.Itoa(len(resBody))}
		}
		if x.ResTrl >= 0 && len(resTrl) > 0 {
			keys := make([]string, 0, len(resTrl))
			for k := range resTrl {
				keys = append(keys, k)
			}
			sort.Strings(keys)
			if len(keys) > 3 {
				// two Trailer fields, one of them a list
				h["Trailer"] = []string{keys[0], strings.Join(keys[1:], ", ")}
			} else {
				h["Trailer"] = []string{strings.Join(keys, ",")}
			}
		}
		fl, _ := rw.(http.Flusher)
		readReq := func() {
			seen.body, seen.bodyErr = io.ReadAll(r.Body)
			seen.trailer = r.Trailer.Clone()
			seen.readDone = true
		}
		if x.Order == 0 {
			readReq()
		}
		if x.Info {
			h["Link"] = []string{c14Link}
			rw.WriteHeader(103)
		}
		rw.WriteHeader(x.Status)
		if x.Order == 1 {
			if fl != nil {
				fl.Flush()
			}
			readReq()
		}
		rest := resBody
		for len(rest) > 0 {
			n := len(rest)
			if x.ResChunk > 0 && n > x.ResChunk {
				n = x.ResChunk
			}
			if _, err := rw.Write(rest[:n]); err != nil {
				seen.writeErr = err
				break
			}
			rest = rest[n:]
			if x.ResFlush && fl != nil {
				fl.Flush()
			}
		}
		for k, vv := range resTrl {
			if x.ResTrl < 0 {
				k = http.TrailerPrefix + k
			}
			h[k] = append([]string(nil), vv...)
		}
	})
}

func c14Exchange(vw *vx.W, x *c14Case) (st c14Stats, completed bool) {
	c2s, s2c := c14NewHalf(true), c14NewHalf(false)
	w := c14Failer{vw, x, s2c}
	for _, s := range x.Short {
		h := c2s
		if s.Dir == "s2c" {
			h = s2c
		}
		if h.short == nil {
			h.short = map[int]int{}
		}
		h.short[s.Index] = s.N
	}
	// Early: nothing the server sends reaches the client before the client has
	// sent as much of its (first) request as the protocol defaults allow (a
	// client need not wait for the server's SETTINGS). Otherwise the request
	// starts after both SETTINGS frames were exchanged and acknowledged. Both
	// are deterministic extremes of the real race.
	s2c.gated = x.Early
	cliConn := &c14Conn{in: s2c, out: c2s, name: "client"}
	srvConn := &c14Conn{in: c2s, out: s2c, name: "server"}

	var logMu sync.Mutex
	var logBuf bytes.Buffer
	logw := c14LockedWriter{&logMu, &logBuf}

	reps := max(1, x.Repeat)
	if len(x.Seq) > 0 {
		reps = len(x.Seq)
	}
	reqHdr := c14HeaderSet(x.ReqHdr, "q")
	reqTrl := c14Trailers(x.ReqTrl, x.ReqTrlPad, "q")
	resHdr := c14HeaderSet(x.ResHdr, "s")
	resTrl := c14Trailers(x.ResTrl, x.ResTrlPad, "s")
	// bodies of exchange i (the seed varies with i so that bytes of one
	// exchange turning up in another are noticed)
	reqBodies, resBodies := make([][]byte, reps), make([][]byte, reps)
	for i := range reqBodies {
		xi, k := c14At(x, i), 0
		if len(x.Seq) > 0 {
			k = 2 * i
		}
		reqBodies[i], resBodies[i] = c14Body(xi.ReqBody, 1+k), c14Body(xi.ResBody, 2+k)
	}
	if x.ReqPad > 0 {
		reqHdr["X-Pad"] = []string{strings.Repeat("\xfe", x.ReqPad)}
	}
	if x.ResPad > 0 {
		resHdr["X-Pad"] = []string{strings.Repeat("\xfe", x.ResPad)}
	}

	// ---- server
	var seenMu sync.Mutex
	var seenAll []*c14Seen
	handler := c14Handler(x, resHdr, resTrl, resBodies[0], func(seen *c14Seen) {
		seenMu.Lock()
		if i := len(seenAll); i < reps {
			seen.resBody, seen.resBodySet = resBodies[i], true
		}
		seenAll = append(seenAll, seen)
		seenMu.Unlock()
	})
	h1 := &http.Server{ErrorLog: log.New(logw, "srv: ", 0)}
	h2 := &Server{
		MaxReadFrameSize:             x.SFrame,
		MaxUploadBufferPerStream:     x.SWin,
		MaxUploadBufferPerConnection: x.SConn,
		MaxDecoderHeaderTableSize:    x.STbl,
		MaxEncoderHeaderTableSize:    x.STbl,
	}
	switch x.Sched {
	case 1:
		h2.NewWriteScheduler = newRoundRobinWriteScheduler
	case 2:
		h2.NewWriteScheduler = NewRandomWriteScheduler
	case 3:
		h2.NewWriteScheduler = func() WriteScheduler { return NewPriorityWriteScheduler(nil) }
	}
	if err := ConfigureServer(h1, h2); err != nil {
		panic(err)
	}
	srvDone := make(chan struct{})
	go func() {
		defer close(srvDone)
		h2.ServeConn(srvConn, &ServeConnOpts{BaseConfig: h1, Handler: handler})
	}()

	// ---- client
	t1 := &http.Transport{
		DisableCompression: true,
		HTTP2: &http.HTTP2Config{
			MaxReadFrameSize:              int(x.CFrame),
			MaxReceiveBufferPerStream:     x.CWin,
			MaxReceiveBufferPerConnection: x.CConn,
			MaxDecoderHeaderTableSize:     int(x.CTbl),
			MaxEncoderHeaderTableSize:     int(x.CTbl),
		},
	}
	t2, err := ConfigureTransports(t1)
	if err != nil {
		panic(err)
	}
	cc, err := t2.NewClientConn(cliConn)
	if err != nil {
		w.Failf("C14/setup/new-client-conn", "NewClientConn: %v", err)
		cliConn.Close()
		<-srvDone
		return
	}
	if !x.Early {
		synctest.Wait() // SETTINGS exchanged and acknowledged in both directions
	}

	results := make([]c14CliResult, reps)
	one := func(cr1 *c14CliResult, x *c14Case, reqBody []byte) {
		cr1.started = true
		ctx := httptrace.WithClientTrace(context.Background(), &httptrace.ClientTrace{
			Got1xxResponse: func(code int, h textproto.MIMEHeader) error {
				cr1.infos = append(cr1.infos, c14Info{code, h})
				return nil
			},
		})
		req, err := http.NewRequestWithContext(ctx, x.Method, "https://c14.example"+c14Paths[x.Path], nil)
		if err != nil {
			panic(err)
		}
		var cr *c14ChunkReader
		if x.ReqDecl && x.ReqBody == 0 {
			req.Body = http.NoBody
		} else {
			cr = &c14ChunkReader{data: reqBody, chunk: x.ReqChunk}
			req.Body = cr
		}
		req.ContentLength = 0
		if x.ReqDecl {
			req.ContentLength = int64(x.ReqBody)
		}
		for k, vv := range reqHdr {
			req.Header[k] = append([]string(nil), vv...)
		}
		if len(reqTrl) > 0 {
			req.Trailer = http.Header{}
			for k := range reqTrl {
				req.Trailer[k] = nil
			}
			cr.atEOF = func() {
				for k, vv := range reqTrl {
					req.Trailer[k] = append([]string(nil), vv...)
				}
			}
		}
		cr1.setStage("roundtrip")
		cr1.res, cr1.err = cc.RoundTrip(req)
		if cr1.err != nil {
			return
		}
		cr1.setStage("read-body")
		if x.ResRead > 0 {
			buf := make([]byte, x.ResRead)
			for cr1.bodyErr == nil {
				var n int
				n, cr1.bodyErr = cr1.res.Body.Read(buf)
				cr1.body = append(cr1.body, buf[:n]...)
			}
			if cr1.bodyErr == io.EOF {
				cr1.bodyErr = nil
			}
		} else {
			cr1.body, cr1.bodyErr = io.ReadAll(cr1.res.Body)
		}
		cr1.trailer = cr1.res.Trailer.Clone()
		cr1.setStage("close-body")
		cr1.res.Body.Close()
		cr1.setStage("done")
	}
	// requests are sequential: the next one starts when the previous exchange
	// is complete and both endpoints are quiescent
	// hung: the client made no progress for c14Hang of fake time; hungStage is
	// where it was stuck at that moment (the tear-down below unblocks it)
	hung, hungStage := false, ""
	var cliDone chan struct{}
	for i := range results {
		done := make(chan struct{})
		cliDone = done
		go func() {
			defer close(done)
			one(&results[i], c14At(x, i), reqBodies[i])
		}()
		if x.Early && i == 0 {
			synctest.Wait() // the client has sent all it can without hearing from the server
			s2c.release()
		}
		select {
		case <-cliDone:
		case <-time.After(c14Hang):
			hung, hungStage = true, results[i].getStage()
		}
		if hung || results[i].err != nil || results[i].bodyErr != nil {
			break
		}
		// let the handler return and the server finish its bookkeeping
		synctest.Wait()
	}
	// tear down
	cc.Close()
	cliConn.Close()
	select {
	case <-srvDone:
	case <-time.After(c14Hang):
		srvConn.Close()
		w.Failf("C14/liveness/server-conn-does-not-end-after-close", "ServeConn did not return within %v (fake) of the client closing the connection", c14Hang)
	}
	srvConn.Close()
	<-cliDone
	synctest.Wait()

	st = c14Stats{c2s: c2s.wire, s2c: s2c.wire, c2sReads: c2s.reads, s2cRds: s2c.reads, fired: c2s.fired + s2c.fired}
	logMu.Lock()
	srvLog := logBuf.String()
	logMu.Unlock()
	ctxt := func() string {
		s := fmt.Sprintf("wire c2s=%s s2c=%s", st.c2s.trace, st.s2c.trace)
		if srvLog != "" {
			s += " server-log=" + strconv.Quote(c14Trunc(srvLog, 300))
		}
		return s
	}
	seenMu.Lock()
	defer seenMu.Unlock()
	for i := range results {
		cr1 := &results[i]
		if !cr1.started {
			break
		}
		// which: first request of a connection, or a later one (abstract trigger)
		which := ""
		if i > 0 {
			which = "/later-request-on-connection"
		}
		fail := func(sig, format string, a ...any) {
			w.Failf(sig+which, fmt.Sprintf("request #%d: ", i+1)+format, a...)
		}
		if last := i+1 == len(results) || !results[i+1].started; hung && last && hungStage != "done" {
			nb := 0
			if i < len(seenAll) {
				nb = len(seenAll[i].body)
			}
			fail("C14/liveness/exchange-hangs:"+hungStage, "client stuck in stage %q for %v of fake time; handler calls=%d, request bytes seen by handler=%d; %s", hungStage, c14Hang, len(seenAll), nb, ctxt())
			return
		}
		if cr1.err != nil {
			fail("C14/client/roundtrip-error:"+c14ErrClass(cr1.err), "RoundTrip: %v; %s", cr1.err, ctxt())
			return
		}
		if i >= len(seenAll) {
			fail("C14/request/handler-calls", "the client got a response although the handler ran %d times only; %s", len(seenAll), ctxt())
			return
		}
		c14Compare(fail, c14At(x, i), seenAll[i], cr1, reqHdr, reqTrl, reqBodies[i], resHdr, resTrl, resBodies[i], ctxt)
		if vw.Failed() {
			return
		}
	}
	if len(seenAll) != reps {
		w.Failf("C14/request/handler-calls", "handler ran %d times for %d requests; %s", len(seenAll), reps, ctxt())
	}
	completed = !vw.Failed()
	return
}

// c14Compare is the oracle for one request/response pair.
func c14Compare(fail func(sig, format string, a ...any), x *c14Case, seen *c14Seen, cr1 *c14CliResult,
	reqHdr, reqTrl http.Header, reqBody []byte, resHdr, resTrl http.Header, resBody []byte, ctxt func() string) {
	c14CompareReq(fail, x, seen, reqHdr, reqTrl, reqBody, ctxt)
	c14CompareRes(fail, x, cr1, resHdr, resTrl, resBody, ctxt)
}

// c14CompareReq: the handler observed exactly the request that was sent.
func c14CompareReq(fail func(sig, format string, a ...any), x *c14Case, seen *c14Seen,
	reqHdr, reqTrl http.Header, reqBody []byte, ctxt func() string) {
	if seen.method != x.Method {
		fail("C14/request/method", "handler saw method %q, sent %q", seen.method, x.Method)
	}
	if seen.uri != c14Paths[x.Path] {
		fail("C14/request/path", "handler saw request URI %q, sent %q", seen.uri, c14Paths[x.Path])
	}
	if seen.host != "c14.example" {
		fail("C14/request/authority", "handler saw host %q, sent c14.example", seen.host)
	}
	wantReq := c14Canon(reqHdr)
	if _, ok := wantReq["User-Agent"]; !ok {
		wantReq["User-Agent"] = []string{"Go-http-client/2.0"} // documented default
	}
	gotReq := seen.header.Clone()
	if cl, ok := gotReq["Content-Length"]; ok {
		// allow-list: the Transport adds Content-Length when the length is known
		if len(cl) != 1 || cl[0] != strconv.Itoa(x.ReqBody) || !x.ReqDecl {
			fail("C14/request/content-length-field", "handler saw Content-Length %q for a request body of %d bytes (declared=%v)", cl, x.ReqBody, x.ReqDecl)
		}
		delete(gotReq, "Content-Length")
	}
	if d := c14DiffHeader(wantReq, gotReq); d != "" {
		fail("C14/request/header-fields", "request header fields differ (set %d): %s", x.ReqHdr, d)
	}
	switch {
	case x.ReqDecl && x.ReqBody > 0 && seen.cl != int64(x.ReqBody):
		fail("C14/request/content-length", "Request.ContentLength = %d, declared %d", seen.cl, x.ReqBody)
	case (!x.ReqDecl || x.ReqBody == 0) && seen.cl != -1 && seen.cl != 0:
		fail("C14/request/content-length", "Request.ContentLength = %d for an undeclared/empty body", seen.cl)
	}
	if seen.bodyErr != nil {
		fail("C14/request/body-read-error", "handler's read of the request body failed after %d of %d bytes: %v; %s", len(seen.body), x.ReqBody, seen.bodyErr, ctxt())
	} else if !bytes.Equal(seen.body, reqBody) {
		fail("C14/request/body-bytes", "handler read %d body bytes, sent %d; first difference at %d; %s", len(seen.body), len(reqBody), c14FirstDiff(seen.body, reqBody), ctxt())
	}
	if d := c14DiffHeader(c14Canon(reqTrl), c14DropNil(seen.trailer)); d != "" {
		fail("C14/request/trailers", "request trailers differ (%d sent): %s", len(reqTrl), d)
	}
	if len(reqTrl) > 0 && len(seen.preTrailer) != len(reqTrl) {
		fail("C14/request/trailer-announcement", "handler saw %d announced trailer keys before reading the body, client declared %d", len(seen.preTrailer), len(reqTrl))
	}
}

// c14CompareRes: the client received exactly the handler's response.
func c14CompareRes(fail func(sig, format string, a ...any), x *c14Case, cr1 *c14CliResult,
	resHdr, resTrl http.Header, resBody []byte, ctxt func() string) {
	res := cr1.res
	if res.StatusCode != x.Status {
		fail("C14/response/status", "client saw status %d, handler wrote %d", res.StatusCode, x.Status)
	}
	wantRes := c14Canon(resHdr)
	wantRes["Content-Type"] = []string{"application/x-c14"}
	if x.Info {
		wantRes["Link"] = []string{c14Link}
	}
	wantBody := resBody
	if x.Method == "HEAD" {
		wantBody = nil
	}
	gotRes := res.Header.Clone()
	delete(gotRes, "Date") // allow-list: added by the server
	if x.ResDecl {
		wantRes["Content-Length"] = []string{strconv.Itoa(len(resBody))}
		if res.ContentLength != int64(len(resBody)) {
			fail("C14/response/content-length", "Response.ContentLength = %d, handler declared %d", res.ContentLength, len(resBody))
		}
	} else if cl, ok := gotRes["Content-Length"]; ok {
		// allow-list: the server adds Content-Length when the handler finished before the headers went out
		if len(cl) != 1 || cl[0] != strconv.Itoa(len(resBody)) {
			fail("C14/response/added-content-length", "server added Content-Length %q to a response whose handler wrote %d bytes", cl, len(resBody))
		}
		delete(gotRes, "Content-Length")
	}
	if d := c14DiffHeader(wantRes, gotRes); d != "" {
		fail("C14/response/header-fields", "response header fields differ (set %d): %s", x.ResHdr, d)
	}
	if cr1.bodyErr != nil {
		fail("C14/response/body-read-error", "client's read of the response body failed after %d of %d bytes: %v; %s", len(cr1.body), len(wantBody), cr1.bodyErr, ctxt())
	} else if !bytes.Equal(cr1.body, wantBody) {
		fail("C14/response/body-bytes", "client read %d body bytes, handler wrote %d; first difference at %d; %s", len(cr1.body), len(wantBody), c14FirstDiff(cr1.body, wantBody), ctxt())
	}
	wantTrl := c14Canon(resTrl)
	if x.Method == "HEAD" {
		wantTrl = http.Header{}
	}
	if d := c14DiffHeader(wantTrl, c14DropNil(cr1.trailer)); d != "" {
		fail("C14/response/trailers", "response trailers differ (mode %d, pad field %d): %s; %s", x.ResTrl, x.ResTrlPad, d, ctxt())
	}
	if x.Info {
		if len(cr1.infos) != 1 || cr1.infos[0].code != 103 || strings.Join(cr1.infos[0].h["Link"], "|") != c14Link {
			fail("C14/response/informational", "client saw 1xx responses %v, handler sent one 103 with a Link field", cr1.infos)
		}
	} else if len(cr1.infos) != 0 {
		fail("C14/response/informational", "client saw unexpected 1xx responses %v", cr1.infos)
	}
}

// c14ErrClass names the HTTP/2 error code an error mentions (abstract class
// for signatures).
func c14ErrClass(err error) string {
	s := err.Error()
	for _, code := range []string{"PROTOCOL_ERROR", "INTERNAL_ERROR", "FLOW_CONTROL_ERROR", "SETTINGS_TIMEOUT", "STREAM_CLOSED", "FRAME_SIZE_ERROR", "REFUSED_STREAM", "CANCEL", "COMPRESSION_ERROR", "ENHANCE_YOUR_CALM", "NO_ERROR"} {
		if strings.Contains(s, code) {
			return code
		}
	}
	if strings.Contains(s, "header list") {
		return "header-list-size"
	}
	return "other"
}

type c14LockedWriter struct {
	mu *sync.Mutex
	b  *bytes.Buffer
}

func (l c14LockedWriter) Write(p []byte) (int, error) {
	l.mu.Lock()
	defer l.mu.Unlock()
	if l.b.Len() < 4096 {
		l.b.Write(p)
	}
	return len(p), nil
}

func c14Trunc(s string, n int) string {
	if len(s) > n {
		return s[:n] + "…"
	}
	return s
}

// c14Canon returns h with canonical keys (as net/http presents them).
func c14Canon(h http.Header) http.Header {
	out := http.Header{}
	for k, vv := range h {
		ck := http.CanonicalHeaderKey(k)
		out[ck] = append(out[ck], vv...)
	}
	return out
}

func c14DropNil(h http.Header) http.Header {
	out := http.Header{}
	for k, vv := range h {
		if len(vv) > 0 {
			out[k] = vv
		}
	}
	return out
}

// c14DiffHeader compares field name → ordered value list; "" when equal.
func c14DiffHeader(want, got http.Header) string {
	var d []string
	for k, wv := range want {
		gv, ok := got[k]
		if !ok {
			d = append(d, fmt.Sprintf("missing %q (want %d values)", k, len(wv)))
			continue
		}
		if len(gv) != len(wv) {
			d = append(d, fmt.Sprintf("%q has %d values, want %d", k, len(gv), len(wv)))
			continue
		}
		for i := range wv {
			if gv[i] != wv[i] {
				d = append(d, fmt.Sprintf("%q value %d is %s, want %s", k, i, strconv.Quote(c14Trunc(gv[i], 40)), strconv.Quote(c14Trunc(wv[i], 40))))
				break
			}
		}
	}
	for k, gv := range got {
		if _, ok := want[k]; !ok {
			d = append(d, fmt.Sprintf("unexpected %q = %s", k, strconv.Quote(c14Trunc(strings.Join(gv, "|"), 60))))
		}
	}
	sort.Strings(d)
	if len(d) > 6 {
		d = append(d[:6], fmt.Sprintf("… %d more", len(d)-6))
	}
	return strings.Join(d, "; ")
}

func c14FirstDiff(a, b []byte) int {
	n := min(len(a), len(b))
	for i := 0; i < n; i++ {
		if a[i] != b[i] {
			return i
		}
	}
	return n
}
