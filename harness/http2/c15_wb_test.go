//go:build !(go1.27 && !http2legacy)

package http2

// White-box accessors for the HTTP/2 connection-control harnesses
// (C15–C18). They only read state; they are meant to be called at a
// testing/synctest quiescent point (every goroutine of the bubble durably
// blocked), where the serve goroutine / ClientConn owner is not running.

// C15SrvPeek is a snapshot of serve-loop-owned counters of a serverConn.
type C15SrvPeek struct {
	QueuedControlFrames int
	CurHandlers         uint32
	AdvMaxStreams       uint32
	CurClientStreams    uint32
	Unstarted           int
	Streams             int
	InGoAway            bool
	GoAwayErr           bool // inGoAway with an error code (set without a second GOAWAY when the error follows a graceful one)
	WritingFrame        bool
}

// C15Peek reads the counters directly (quiescent points only).
func (sc *serverConn) C15Peek() C15SrvPeek {
	return C15SrvPeek{
		QueuedControlFrames: sc.queuedControlFrames,
		CurHandlers:         sc.curHandlers,
		AdvMaxStreams:       sc.advMaxStreams,
		CurClientStreams:    sc.curClientStreams,
		Unstarted:           len(sc.unstartedHandlers),
		Streams:             len(sc.streams),
		InGoAway:            sc.inGoAway,
		GoAwayErr:           sc.inGoAway && sc.goAwayCode != ErrCodeNo,
		WritingFrame:        sc.writingFrame,
	}
}

// C15ServeDone reports whether the serve loop of the connection has returned.
func (sc *serverConn) C15ServeDone() bool {
	select {
	case <-sc.doneServing:
		return true
	default:
		return false
	}
}

// C15ServeProbe posts a no-op message to the serve loop and reports
// through the returned channel when the loop has executed it. A serve loop
// that has returned closes the channel as well.
func (sc *serverConn) C15ServeProbe() <-chan struct{} {
	ch := make(chan struct{})
	go func() {
		select {
		case sc.serveMsgCh <- func(int) { close(ch) }:
		case <-sc.doneServing:
			close(ch)
		}
	}()
	return ch
}

// C17CliPeek is a snapshot of ClientConn state (taken under cc.mu).
type C17CliPeek struct {
	Streams              int
	NextStreamID         uint32
	MaxConcurrentStreams uint32
	PendingResets        int
	PendingRequests      int
	StreamsReserved      int
	Closed               bool
	Closing              bool
	GoAway               bool
	DoNotReuse           bool
	SeenSettings         bool
}

func (cc *ClientConn) C17Peek() C17CliPeek {
	cc.mu.Lock()
	defer cc.mu.Unlock()
	return C17CliPeek{
		Streams:              len(cc.streams),
		NextStreamID:         cc.nextStreamID,
		MaxConcurrentStreams: cc.maxConcurrentStreams,
		PendingResets:        cc.pendingResets,
		PendingRequests:      cc.pendingRequests,
		StreamsReserved:      cc.streamsReserved,
		Closed:               cc.closed,
		Closing:              cc.closing,
		GoAway:               cc.goAway != nil,
		DoNotReuse:           cc.doNotReuse,
		SeenSettings:         cc.seenSettings,
	}
}
