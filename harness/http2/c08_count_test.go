//go:build !(go1.27 && !http2legacy)

package http2_test

import "testing"

func TestC08Count(t *testing.T) {
	iws := []int64{0, 3, 10, 65535}
	mfss := []int64{c08InitMFS, c08BigMFS}
	wus := []int64{1, 4, 100, c08MaxWin}
	small := []int64{1, 5, 20}
	for d := 1; d <= 6; d++ {
		n := 0
		c08Gen(c08srvCfg{}, nil, c08Alphabet(iws, mfss, small, wus), d, nil, func(c08srvCase) bool { n++; return true })
		t.Logf("empty depth<=%d: %d", d, n)
	}
	for d := 1; d <= 5; d++ {
		n := 0
		c08Gen(c08srvCfg{}, []string{"SETIW(3)", "H", "H", "W(1,5)"}, c08Alphabet(iws, nil, small, wus), d, nil, func(c08srvCase) bool { n++; return true })
		t.Logf("two depth<=%d: %d", d, n)
	}
}
