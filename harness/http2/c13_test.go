// C13 — the RFC 9218 write scheduler respects urgency and serves every ready
// stream.
//
// Three disciplines on the real priorityWriteSchedulerRFC9218:
//   - SEQ: every contract-respecting history up to a depth (from the empty
//     scheduler, and from 64 seeded states with three open streams), with a
//     priority-aware monitor on every Pop (urgency order, non-incremental
//     streams served to completion);
//   - LASSO: seed x prefix x cycle^R enumeration for the bounded-wait claim
//     (a starvation needs a repeating environment that depth-bounded search
//     does not reach);
//   - IN: parseRFC9218Priority on every dictionary of <= 3 members over a
//     member alphabet, against RFC 9218 section 4 semantics.
//
// The FIFO model of C12 runs underneath (it knows which stream heads are
// sendable); its own divergences are C12's business and only end the history.

//go:build !(go1.27 && !http2legacy)

package http2

import (
	"fmt"
	"strings"
	"testing"

	"golang.org/x/net/internal/zzverif/vx"
)

// c13Mon is the priority-aware monitor.
type c13Mon struct {
	w    *c12World
	prio [c12MaxID + 1]c12Prio // priority the scheduler must be using for each open stream
	buf  struct {              // the buffered PRIORITY_UPDATE for a not-yet-opened stream
		set bool
		id  uint32
		p   c12Prio
	}
	curNI      [8]uint32         // per urgency: non-incremental stream being served to completion (0 = none)
	wait       [c12MaxID + 1]int // per stream: same-urgency Pops that served someone else while it was sendable
	others     [c12MaxID + 1]int // per stream: Pops of other urgencies in the same period
	classWait  [8]int            // per urgency: same-urgency Pops serving incremental streams while a non-incremental one was sendable
	classOther [8]int
	inCycle    bool // LASSO: the repeated part has begun
}

func (m *c13Mon) resetWaits() {
	m.wait, m.others = [c12MaxID + 1]int{}, [c12MaxID + 1]int{}
	m.classWait, m.classOther = [8]int{}, [8]int{}
}

// streamsAt counts the open streams of urgency u.
func (m *c13Mon) streamsAt(u uint8) int {
	n := 0
	for id := range m.w.streams {
		if m.w.streams[id].state == 1 && m.prio[id].U == u {
			n++
		}
	}
	return n
}

func c13Trigger(others int) string {
	if others > 0 {
		return "pops-alternate-with-another-urgency"
	}
	return "same-urgency-pops-only"
}

// step applies op to the world and checks the C13 clauses. It returns false
// when the history must stop.
func (m *c13Mon) step(vw *vx.W, op c12Op) bool {
	w := m.w
	var pre [c12MaxID + 1]bool
	if op.K == c12Pop {
		for id := range w.streams {
			pre[id] = w.sendable(&w.streams[id])
		}
	}
	info, cont := w.apply(vw, op)
	if !cont {
		return false
	}
	switch op.K {
	case c12Open:
		p := op.P
		if m.buf.set && m.buf.id == op.S {
			p, m.buf.set = m.buf.p, false
		}
		m.prio[op.S] = p
		m.resetWaits()
	case c12Adjust:
		if w.streams[op.S].state == 1 {
			if u := m.prio[op.S].U; m.curNI[u] == op.S {
				m.curNI[u] = 0
			}
			m.prio[op.S] = op.P
		} else {
			m.buf.set, m.buf.id, m.buf.p = true, op.S, op.P
		}
		m.resetWaits()
	case c12Close:
		if u := m.prio[op.S].U; m.curNI[u] == op.S {
			m.curNI[u] = 0
		}
		m.resetWaits()
	case c12Pop:
		if info.OK && !info.Ctl {
			if !m.checkPop(vw, info.SID, &pre) {
				return false
			}
		}
	}
	// continuity: a stream that is not sendable now starts afresh
	var niSendable [8]bool
	for id := range w.streams {
		s := &w.streams[id]
		if w.sendable(s) {
			if !m.prio[id].I {
				niSendable[m.prio[id].U] = true
			}
			continue
		}
		m.wait[id], m.others[id] = 0, 0
		if s.state == 1 {
			if u := m.prio[id].U; m.curNI[u] == uint32(id) {
				m.curNI[u] = 0
			}
		}
	}
	for u := range niSendable {
		if !niSendable[u] {
			m.classWait[u], m.classOther[u] = 0, 0
		}
	}
	return true
}

func (m *c13Mon) fail(vw *vx.W, sig, format string, a ...any) bool {
	m.w.failed = true
	vw.Failf("C13/"+sig, format, a...)
	return false
}

func (m *c13Mon) describe() string {
	var b strings.Builder
	for id := range m.w.streams {
		if s := &m.w.streams[id]; s.state == 1 {
			fmt.Fprintf(&b, " stream %d: u=%d i=%v queued=%d win=%d;", id, m.prio[id].U, m.prio[id].I, len(s.q), s.win)
		}
	}
	return b.String()
}

// checkPop: sid was served; pre[] is which streams had a sendable head before.
func (m *c13Mon) checkPop(vw *vx.W, sid uint32, pre *[c12MaxID + 1]bool) bool {
	w := m.w
	p := m.prio[sid]
	u := p.U
	// (a) urgency order
	for id := range w.streams {
		if uint32(id) != sid && pre[id] && m.prio[id].U < u {
			return m.fail(vw, "urgency-order/served-while-more-urgent-stream-sendable",
				"Pop served stream %d (u=%d) while stream %d (u=%d) had a sendable frame;%s", sid, u, id, m.prio[id].U, m.describe())
		}
	}
	// (b) a non-incremental stream, once served, is served until it has nothing sendable
	if !p.I {
		if c := m.curNI[u]; c != 0 && c != sid && pre[c] {
			return m.fail(vw, "non-incremental/switched-away-from-sendable-stream",
				"Pop served non-incremental stream %d (u=%d) although non-incremental stream %d of the same urgency was being served and still has a sendable frame;%s", sid, u, c, m.describe())
		}
		m.curNI[u] = sid
	}
	// (c) bounded wait among equal urgency
	m.wait[sid], m.others[sid] = 0, 0
	niWaiting := false
	for id := range w.streams {
		if uint32(id) == sid || !pre[id] {
			continue
		}
		q := m.prio[id]
		if q.U == u {
			m.wait[id]++
			if !q.I {
				niWaiting = true
			}
		} else {
			m.others[id]++
		}
	}
	for uu := range m.classWait {
		if uint8(uu) == u {
			if !p.I {
				m.classWait[uu], m.classOther[uu] = 0, 0
			} else if niWaiting {
				m.classWait[uu]++
			}
		} else {
			m.classOther[uu]++
		}
	}
	bound := 2 * m.streamsAt(u)
	for id := range w.streams {
		if q := m.prio[id]; q.I && q.U == u && pre[id] && m.wait[id] > bound {
			return m.fail(vw, "bounded-wait/sendable-stream-starved/"+c13Trigger(m.others[id]),
				"incremental stream %d (u=%d) had a sendable frame throughout but %d consecutive Pops of urgency %d served other streams (bound 2 x %d streams of that urgency; %d Pops of other urgencies in between);%s",
				id, u, m.wait[id], u, bound/2, m.others[id], m.describe())
		}
	}
	if m.classWait[u] > bound {
		return m.fail(vw, "bounded-wait/sendable-stream-starved/"+c13Trigger(m.classOther[u]),
			"a non-incremental stream of urgency %d had a sendable frame throughout but %d consecutive Pops of that urgency served incremental streams only (bound 2 x %d streams; %d Pops of other urgencies in between);%s",
			u, m.classWait[u], bound/2, m.classOther[u], m.describe())
	}
	return true
}

// ---------------------------------------------------------------------------
// SEQ

var c13Prios = []c12Prio{{U: 3}, {U: 3, I: true}, {U: 0}, {U: 7, I: true}}

// c13Contract narrows the C12 contract to the sub-domain where RFC 9218
// leaves no freedom: at most one PRIORITY_UPDATE is buffered at a time and
// none is sent for a closed stream.
type c13Contract struct {
	c12Contract
	bufID uint32
}

func (ct *c13Contract) enabled(op c12Op) bool {
	if !ct.c12Contract.enabled(op) {
		return false
	}
	if op.K == c12Adjust && ct.st[op.S] != 1 {
		return ct.st[op.S] == 0 && (ct.bufID == 0 || ct.bufID == op.S)
	}
	return true
}

func (ct *c13Contract) apply(op c12Op) {
	ct.c12Contract.apply(op)
	switch {
	case op.K == c12Adjust && ct.st[op.S] == 0:
		ct.bufID = op.S
	case op.K == c12Open && ct.bufID == op.S:
		ct.bufID = 0
	}
}

func c13GenSeqs(canOpen []uint32, seed, ops []c12Op, n int, yield func([]c12Op) bool) bool {
	base := c13Contract{c12Contract: c12Contract{canOpen: canOpen}}
	for _, op := range seed {
		if !base.enabled(op) {
			panic(fmt.Sprintf("c13: seed op %v violates the contract", op))
		}
		base.apply(op)
	}
	buf := append([]c12Op(nil), seed...)
	var rec func(ct c13Contract, left int) bool
	rec = func(ct c13Contract, left int) bool {
		if left == 0 {
			return yield(append([]c12Op(nil), buf...))
		}
		for _, op := range ops {
			if !ct.enabled(op) {
				continue
			}
			nct := ct
			nct.apply(op)
			buf = append(buf, op)
			ok := rec(nct, left-1)
			buf = buf[:len(buf)-1]
			if !ok {
				return false
			}
		}
		return true
	}
	return rec(base, n)
}

type c13SeqCase struct {
	Ops []c12Op `json:"ops"`
}

var c13SeqEnv = c12Env{Name: "seq", MaxFrame: 4, ConnWin: 1 << 20, StreamWin: 8}

func c13SeqOps(ids []uint32, withOpen bool) []c12Op {
	var ops []c12Op
	ops = append(ops, c12Op{K: c12Pop})
	if withOpen {
		for _, s := range ids {
			for _, p := range c13Prios {
				ops = append(ops, c12Op{K: c12Open, S: s, P: p})
			}
		}
	}
	for _, s := range ids {
		ops = append(ops, c12Op{K: c12Data, S: s, N: 6})
	}
	for _, s := range ids {
		// a SETTINGS_INITIAL_WINDOW_SIZE decrease blocks the stream, an increase re-arms it
		ops = append(ops, c12Op{K: c12Win, S: s, N: -100}, c12Op{K: c12Win, S: s, N: 100})
	}
	for _, s := range ids {
		for _, p := range c13Prios {
			ops = append(ops, c12Op{K: c12Adjust, S: s, P: p})
		}
	}
	for _, s := range ids {
		ops = append(ops, c12Op{K: c12Close, S: s})
	}
	ops = append(ops, c12Op{K: c12Ctl})
	return ops
}

func c13RunSeq(vw *vx.W, env c12Env, ops []c12Op, cycleFrom int) {
	w := c12NewWorld("C13", "rfc9218", env)
	defer w.release()
	w.quiet = true
	m := &c13Mon{w: w}
	for i, op := range ops {
		if i == cycleFrom {
			m.inCycle = true
		}
		if !m.step(vw, op) {
			return
		}
	}
	// drain with everything open, still monitored
	const big = 1 << 20
	for id := range w.streams {
		if w.streams[id].state == 1 {
			if !m.step(vw, c12Op{K: c12Win, S: uint32(id), N: big}) {
				return
			}
		}
	}
	for i := 0; i < 4096; i++ {
		pops := w.pops
		if !m.step(vw, c12Op{K: c12Pop}) {
			return
		}
		if w.pops == pops {
			break
		}
	}
	vw.Ctx().AddStates(1)
	vw.Ctx().AddTransitions(int64(len(ops)))
	vw.Ctx().AddTraces(1)
	if w.pops > 0 {
		vw.Nontrivial()
	}
}

// ---------------------------------------------------------------------------
// LASSO

type c13Lasso struct {
	Prio   [3]c12Prio `json:"prio"`     // of streams 1, 3, 5
	Window [3]int32   `json:"window"`   // initial stream windows
	Prefix []c12Op    `json:"prefix"`   // executed once
	Cycle  []c12Op    `json:"cycle"`    // executed R times
	R      int        `json:"repeated"` // R
}

var c13LassoIDs = [3]uint32{1, 3, 5}

func c13LassoOps() []c12Op {
	ops := []c12Op{{K: c12Pop}}
	for _, s := range c13LassoIDs {
		ops = append(ops, c12Op{K: c12Win, S: s, N: 4})
	}
	for _, s := range c13LassoIDs {
		ops = append(ops, c12Op{K: c12Data, S: s, N: 4})
	}
	ops = append(ops, c12Op{K: c12Ctl})
	return ops
}

func c13RunLasso(vw *vx.W, x c13Lasso) {
	env := c12Env{Name: "lasso", MaxFrame: 4, ConnWin: 1 << 24, StreamWin: 0}
	var ops []c12Op
	for i, s := range c13LassoIDs {
		ops = append(ops, c12Op{K: c12Open, S: s, P: x.Prio[i]})
		if x.Window[i] != 0 {
			ops = append(ops, c12Op{K: c12Win, S: s, N: x.Window[i]})
		}
		ops = append(ops, c12Op{K: c12Data, S: s, N: 400, End: true})
	}
	ops = append(ops, x.Prefix...)
	from := len(ops)
	for r := 0; r < x.R; r++ {
		ops = append(ops, x.Cycle...)
	}
	w := c12NewWorld("C13", "rfc9218", env)
	defer w.release()
	w.quiet = true
	m := &c13Mon{w: w}
	for i, op := range ops {
		if i == from {
			m.inCycle = true
		}
		if !m.step(vw, op) {
			return
		}
	}
	vw.Ctx().AddStates(1)
	vw.Ctx().AddTransitions(int64(len(ops)))
	vw.Ctx().AddTraces(1)
	if w.pops > 0 {
		vw.Nontrivial()
	}
	vw.Outcome(fmt.Sprintf("lasso-pops>=%d", min(w.pops/8*8, 32)))
}

// ---------------------------------------------------------------------------
// IN: parseRFC9218Priority

type c13Member struct {
	Text string `json:"text"`
	// reference semantics of the member
	Bad  bool   `json:"-"` // not a structured-field dictionary member: the whole field is unparsable
	Key  string `json:"-"`
	Kind byte   `json:"-"` // 'i' integer, 'b' boolean, 'o' any other type
	Int  int64  `json:"-"`
	Bool bool   `json:"-"`
}

func c13Members() []c13Member {
	var ms []c13Member
	for v := int64(0); v <= 8; v++ {
		ms = append(ms, c13Member{Text: fmt.Sprintf("u=%d", v), Key: "u", Kind: 'i', Int: v})
	}
	ms = append(ms,
		c13Member{Text: "u=-1", Key: "u", Kind: 'i', Int: -1},
		c13Member{Text: "u=a", Key: "u", Kind: 'o'},       // token
		c13Member{Text: "u=3.0", Key: "u", Kind: 'o'},     // decimal
		c13Member{Text: "u=?1", Key: "u", Kind: 'b', Bool: true},
		c13Member{Text: "u", Key: "u", Kind: 'b', Bool: true}, // bare key = boolean true
		c13Member{Text: "i", Key: "i", Kind: 'b', Bool: true},
		c13Member{Text: "i=?0", Key: "i", Kind: 'b', Bool: false},
		c13Member{Text: "i=?1", Key: "i", Kind: 'b', Bool: true},
		c13Member{Text: "i=1", Key: "i", Kind: 'i', Int: 1},
		c13Member{Text: "i=?1;x=1", Key: "i", Kind: 'b', Bool: true}, // parameters are allowed and ignored
		c13Member{Text: "x", Key: "x", Kind: 'b', Bool: true},
		c13Member{Text: "x=1", Key: "x", Kind: 'i', Int: 1},
		c13Member{Text: "U=1", Bad: true},  // keys are lower case
		c13Member{Text: "u=", Bad: true},   // missing value
		c13Member{Text: "=1", Bad: true},   // missing key
		c13Member{Text: "i=?2", Bad: true}, // not a boolean
	)
	return ms
}

type c13ParseCase struct {
	Members []int  `json:"members"` // indices into the member alphabet
	Sep     string `json:"sep"`
	Field   string `json:"field"` // the resulting field value (for the reader)
	Default bool   `json:"can_use_default"`
}

// c13RefParse is RFC 9218 section 4 on top of RFC 8941 dictionary semantics:
// an unparsable field yields the defaults; of duplicate keys the last one
// wins; u applies if it is an integer in 0..7, i if it is a boolean; every
// other member is ignored.
func c13RefParse(ms []c13Member, x c13ParseCase) (u uint8, inc bool, ok bool, ambiguous bool) {
	u, inc = 3, !x.Default
	last := map[string]c13Member{}
	valid := map[string]int{}
	for _, mi := range x.Members {
		m := ms[mi]
		if m.Bad {
			return 3, !x.Default, false, false
		}
		good := (m.Key == "u" && m.Kind == 'i' && m.Int >= 0 && m.Int <= 7) || (m.Key == "i" && m.Kind == 'b')
		if _, dup := last[m.Key]; dup && !good && valid[m.Key] > 0 {
			ambiguous = true // an earlier valid value followed by an invalid duplicate: see Assume
		}
		if good {
			valid[m.Key]++
		}
		last[m.Key] = m
	}
	if m, have := last["u"]; have && m.Kind == 'i' && m.Int >= 0 && m.Int <= 7 {
		u = uint8(m.Int)
	}
	if m, have := last["i"]; have && m.Kind == 'b' {
		inc = m.Bool
	}
	return u, inc, true, ambiguous
}

// ---------------------------------------------------------------------------

func TestVerif_C13(t *testing.T) {
	vx.Run(t, "C13", func(c *vx.Ctx) {
		c.Rule("SEQ: every contract-respecting history of length <= depth on a fresh RFC 9218 scheduler (streams 1,3,5 opened in order with priority in {u3, u3i, u0, u7i}; AdjustStream to the same four on open streams and on not-yet-opened ones; DATA of 6 bytes with maxFrameSize 4 and initial stream window 8; win(s,-100) blocks a stream and win(s,+100) re-arms it; close; control frame; Pop), from the empty scheduler, from 'stream 1 open (u3) with one DATA frame' and from each of the seeds 'three open streams with priorities in {u3,u3i,u0}^3 (thorough: {u3,u3i,u0,u7i}^3), each holding one DATA frame'; every history ends in a monitored drain. LASSO: every seed (3 open streams, priority in {u0,u0i,u3,u3i}^3, 400 bytes queued each, initial window in {0,large}^3) x prefix (<= p ops) x cycle (<= 3 ops, at least one Pop) over {Pop, win(s,+4), data(s,4), control}, cycle repeated R=16 times. Monitor on every Pop of a stream frame: no stream with a smaller urgency value had a sendable head; a non-incremental stream that was served stays the only non-incremental stream of its urgency served while it remains sendable; a continuously sendable stream is not passed over by more than 2 x (streams of its urgency) consecutive Pops of its urgency (incremental streams individually, non-incremental streams as a class). IN: parseRFC9218Priority on every dictionary of <= 3 members over 25 members x 2 separators x canUseDefault. Non-trivial = history with at least one checked Pop / field that was parsed and compared")
		c.Assume("PRIORITY_UPDATE buffering: histories keep at most one update buffered for a not-yet-opened stream at a time and send none for closed streams (RFC 9218 lets an endpoint limit buffering; the scheduler documents a single most-recent slot)")
		c.Assume("bounded-wait counters restart at every OpenStream/CloseStream/AdjustStream and whenever the waiting stream is not sendable; the bound is 2 x number of open streams of that urgency")
		c.Assume("parse: a dictionary in which a valid u/i member is followed by an invalid duplicate of the same key (e.g. 'u=1, u=9') is excluded: RFC 8941 'last one wins' + RFC 9218 'ignore out-of-range' can be read both ways")
		defer c12Ballast()()

		ids := []uint32{1, 3, 5}
		// --- IN
		{
			ms := c13Members()
			vx.Enumerate(c, "parse", vx.Opts{}, func(yield func(c13ParseCase) bool) {
				idx := make([]int, len(ms))
				for i := range idx {
					idx[i] = i
				}
				for _, def := range []bool{true, false} {
					for _, sep := range []string{", ", ","} {
						ok := vx.Strings(idx, 0, 3, func(sel []int) bool {
							if len(sel) < 2 && sep != ", " {
								return true
							}
							parts := make([]string, len(sel))
							for i, mi := range sel {
								parts[i] = ms[mi].Text
							}
							return yield(c13ParseCase{Members: sel, Sep: sep, Field: strings.Join(parts, sep), Default: def})
						})
						if !ok {
							return
						}
					}
				}
			}, func(w *vx.W, x c13ParseCase) {
				wu, wi, wok, amb := c13RefParse(ms, x)
				if amb {
					w.Outcome("parse:excluded-ambiguous-duplicate")
					return
				}
				p, ok := parseRFC9218Priority(x.Field, x.Default)
				if ok != wok {
					w.Failf("C13/parse/ok-flag", "parseRFC9218Priority(%q, %v) ok=%v, RFC 8941 parse result %v", x.Field, x.Default, ok, wok)
					return
				}
				if p.urgency != wu || (p.incremental != 0) != wi || p.incremental > 1 {
					kind := "valid-field"
					if !wok {
						kind = "unparsable-field-must-give-defaults"
					}
					w.Failf("C13/parse/priority-value/"+kind, "parseRFC9218Priority(%q, %v) = (u=%d, i=%d), RFC 9218 section 4 gives (u=%d, i=%v)", x.Field, x.Default, p.urgency, p.incremental, wu, wi)
					return
				}
				if p.StreamDep != 0 || p.Exclusive || p.Weight != 0 {
					w.Failf("C13/parse/rfc7540-fields-set", "parseRFC9218Priority(%q) set RFC 7540 fields: %+v", x.Field, p)
					return
				}
				w.Nontrivial()
				if wok {
					w.Outcome(fmt.Sprintf("parse:u=%d,i=%v", wu, wi))
				} else {
					w.Outcome("parse:unparsable")
				}
			})
		}
		// --- LASSO
		{
			lops := c13LassoOps()
			lprios := []c12Prio{{U: 0}, {U: 0, I: true}, {U: 3}, {U: 3, I: true}}
			maxPrefix := vx.Pick(c, 0, 2)
			const R = 16
			c.Note("lasso.prefix_max", maxPrefix)
			c.Note("lasso.cycle_max", 3)
			c.Note("lasso.R", R)
			c.Note("lasso.alphabet", len(lops))
			vx.Enumerate(c, "lasso", vx.Opts{NoSample: false}, func(yield func(c13Lasso) bool) {
				var prefixes, cycles [][]c12Op
				vx.Strings(lops, 0, maxPrefix, func(s []c12Op) bool { prefixes = append(prefixes, s); return true })
				vx.Strings(lops, 1, 3, func(s []c12Op) bool {
					for _, op := range s {
						if op.K == c12Pop {
							cycles = append(cycles, s)
							break
						}
					}
					return true
				})
				// shortest lassos first
				for _, cyc := range cycles {
					for _, pre := range prefixes {
						for wi := 0; wi < 8; wi++ {
							for pi := 0; pi < 64; pi++ {
								x := c13Lasso{Prefix: pre, Cycle: cyc, R: R}
								for k := 0; k < 3; k++ {
									x.Prio[k] = lprios[(pi>>(2*k))&3]
									if wi>>k&1 == 0 {
										x.Window[k] = 1 << 20
									}
								}
								if !yield(x) {
									return
								}
							}
						}
					}
				}
			}, c13RunLasso)
		}
		// --- SEQ from the empty scheduler
		{
			ops := c13SeqOps(ids, true)
			depth := vx.Pick(c, 4, 5)
			c.Note("seq/from-empty.depth", depth)
			c.Note("seq/from-empty.alphabet", len(ops))
			// the second seed spends the depth on the second stream (buffered
			// PRIORITY_UPDATE before its OpenStream, then data and Pops)
			seeds := [][]c12Op{nil, {{K: c12Open, S: 1, P: c12Prio{U: 3}}, {K: c12Data, S: 1, N: 6}}}
			vx.Enumerate(c, "seq/from-empty", vx.Opts{}, func(yield func(c13SeqCase) bool) {
				for l := 1; l <= depth; l++ {
					for _, seed := range seeds {
						if !c13GenSeqs(ids, seed, ops, l, func(o []c12Op) bool { return yield(c13SeqCase{Ops: o}) }) {
							return
						}
					}
				}
			}, func(w *vx.W, x c13SeqCase) { c13RunSeq(w, c13SeqEnv, x.Ops, -1) })
		}
		// --- SEQ from three open streams
		{
			ops := c13SeqOps(ids, false)
			depth := vx.Pick(c, 3, 4)
			seedPrios := vx.Pick(c, c13Prios[:3], c13Prios)
			c.Note("seq/three-open.seeds", len(seedPrios)*len(seedPrios)*len(seedPrios))
			c.Note("seq/three-open.depth", depth)
			c.Note("seq/three-open.alphabet", len(ops))
			vx.Enumerate(c, "seq/three-open", vx.Opts{}, func(yield func(c13SeqCase) bool) {
				for l := 1; l <= depth; l++ {
					for _, p1 := range seedPrios {
						for _, p3 := range seedPrios {
							for _, p5 := range seedPrios {
								seed := []c12Op{
									{K: c12Open, S: 1, P: p1}, {K: c12Open, S: 3, P: p3}, {K: c12Open, S: 5, P: p5},
									{K: c12Data, S: 1, N: 6}, {K: c12Data, S: 3, N: 6}, {K: c12Data, S: 5, N: 6}}
								if !c13GenSeqs(ids, seed, ops, l, func(o []c12Op) bool { return yield(c13SeqCase{Ops: o}) }) {
									return
								}
							}
						}
					}
				}
			}, func(w *vx.W, x c13SeqCase) { c13RunSeq(w, c13SeqEnv, x.Ops, -1) })
		}
	})
}
