package hpack

// Helpers shared by C02 and C03: wire-format builders for inputs (RFC 7541
// §5.1/§5.2, written independently of encode.go), the fragment alphabet the
// structured blocks are built from, decoder configurations, and the driver
// that feeds the real Decoder and records everything observable.

import (
	"fmt"
	"strings"
)

// c02EncInt is RFC 7541 §5.1 encoding of v with an N-bit prefix; hi holds the
// bits above the prefix in the first octet. pad appends that many redundant
// 0x80 continuation octets before the final one (a non-shortest encoding).
func c02EncInt(hi byte, n uint, v uint64, pad int) []byte {
	max := uint64(1)<<n - 1
	if v < max && pad == 0 {
		return []byte{hi | byte(v)}
	}
	out := []byte{hi | byte(max)}
	if v < max {
		panic("harness: cannot pad an integer that fits the prefix")
	}
	v -= max
	for v >= 128 {
		out = append(out, byte(v%128)|0x80)
		v /= 128
	}
	if pad == 0 {
		return append(out, byte(v))
	}
	out = append(out, byte(v)|0x80)
	for i := 1; i < pad; i++ {
		out = append(out, 0x80)
	}
	return append(out, 0x00)
}

// c02EncStr is RFC 7541 §5.2.
func c02EncStr(s string, huff bool) []byte {
	if !huff {
		return append(c02EncInt(0, 7, uint64(len(s)), 0), s...)
	}
	h := c02RefHuffEncode([]byte(s))
	return append(c02EncInt(0x80, 7, uint64(len(h)), 0), h...)
}

func c02Cat(parts ...[]byte) []byte {
	var out []byte
	for _, p := range parts {
		out = append(out, p...)
	}
	return out
}

// c02Frag is one element of the structured-input alphabet: a complete
// representation (valid or not) with a readable name.
type c02Frag struct {
	Name string
	B    []byte
}

// c02Fragments returns the fragment alphabet, simplest first. wide adds the
// less common shapes used by the thorough tier.
func c02Fragments(wide bool) []c02Frag {
	fr := []c02Frag{
		{"idx2", c02EncInt(0x80, 7, 2, 0)},                                                             // :method GET
		{"lit+idx a=b", c02Cat([]byte{0x40}, c02EncStr("a", false), c02EncStr("b", false))},            // adds (a,b), 34 bytes
		{"idx62", c02EncInt(0x80, 7, 62, 0)},                                                           // newest dynamic entry
		{"upd0", c02EncInt(0x20, 5, 0, 0)},                                                             // table size 0
		{"lit e=f", c02Cat([]byte{0x00}, c02EncStr("e", false), c02EncStr("f", false))},                // without indexing
		{"idx63", c02EncInt(0x80, 7, 63, 0)},                                                           // second dynamic entry
		{"lit+idx n62=c", c02Cat(c02EncInt(0x40, 6, 62, 0), c02EncStr("c", false))},                    // name from dynamic table
		{"upd4096", c02EncInt(0x20, 5, 4096, 0)},                                                       // 3-byte integer
		{"never hq=hv", c02Cat([]byte{0x10}, c02EncStr("hq", true), c02EncStr("hvalue", true))},        // Huffman strings
		{"idx0", c02EncInt(0x80, 7, 0, 0)},                                                             // invalid index 0
		{"idx64", c02EncInt(0x80, 7, 64, 0)},                                                           // beyond a 2-entry table
		{"upd40", c02EncInt(0x20, 5, 40, 0)},                                                           // 2-byte integer; keeps one 34-byte entry
		{"lit n15=gzip", c02Cat(c02EncInt(0x00, 4, 15, 0), c02EncStr("gzip", true))},                   // 4-bit prefix saturated: 0f 00
		{"lit+idx kkkk=0123", c02Cat([]byte{0x40}, c02EncStr("kkkk", false), c02EncStr("0123", true))}, // 40-byte entry: fills a 40-byte table exactly
		{"idx127", c02EncInt(0x80, 7, 127, 0)},                                                         // ff 00
		{"lit badhuff", c02Cat([]byte{0x00}, c02EncStr("x", false), []byte{0x81, 0xff})},               // 8 bits of padding
		{"upd4097", c02EncInt(0x20, 5, 4097, 0)},                                                       // above every configured limit
		{"lit+idx empty", c02Cat([]byte{0x40}, c02EncStr("", false), c02EncStr("", false))},            // 32-byte entry
	}
	if wide {
		fr = append(fr,
			c02Frag{"never n62=s", c02Cat(c02EncInt(0x10, 4, 62, 0), c02EncStr("s", false))},
			c02Frag{"lit n16 padded=v", c02Cat(c02EncInt(0x00, 4, 16, 2), c02EncStr("v", false))},
			c02Frag{"idx190 padded", c02EncInt(0x80, 7, 190, 2)},
			c02Frag{"lit eos", c02Cat([]byte{0x00}, c02EncStr("y", false), []byte{0x84, 0xff, 0xff, 0xff, 0xff})},
			c02Frag{"lit+idx n1=auth", c02Cat(c02EncInt(0x40, 6, 1, 0), c02EncStr("auth", true))},
			c02Frag{"upd68", c02EncInt(0x20, 5, 68, 0)},
		)
	}
	return fr
}

// c02Cfg is one decoder configuration.
type c02Cfg struct {
	Tab    uint32 `json:"table"`   // NewDecoder(Tab): initial and allowed maximum table size
	Pre    int    `json:"preload"` // number of preload blocks fed (each tries to add one 34-byte entry)
	MaxStr int    `json:"maxstr"`  // SetMaxStringLength; 0 = unlimited
}

func (g c02Cfg) String() string {
	return fmt.Sprintf("table=%d preload=%d maxstr=%d", g.Tab, g.Pre, g.MaxStr)
}

var c02Preload = [][]byte{
	c02Cat([]byte{0x40}, c02EncStr("p", false), c02EncStr("1", false)),
	c02Cat([]byte{0x40}, c02EncStr("q", false), c02EncStr("2", true)),
}

// c02ImplRun is everything observable about feeding blocks to a real Decoder.
type c02ImplRun struct {
	Fields  []c02RefField
	Err     error
	ErrAt   string // "write" or "close"
	ErrBlk  int    // block index of the error
	Blocks  int    // blocks completed without error
	Table   []c02RefField
	Size    uint32
	MaxSize uint32
	SaveLen int  // saveBuf.Len() after the last Close that ran
	Resumed bool // some Write returned with bytes retained in saveBuf
	// Bad is the first violation of a per-step invariant ("" if none): the
	// signature suffix and a description.
	BadSig, Bad string

	// Post: reuse mode only, see c02RunImplReuse.
	Post []c02ImplPost

	cfg     c02Cfg
	d       *Decoder
	loading bool
	sink    *[]c02RefField
}

func (r *c02ImplRun) OK() bool { return r.Err == nil }

// c02ImplPost is what the same Decoder did with one block presented after the
// first rejected block (reuse mode only).
type c02ImplPost struct {
	Fields []c02RefField
	Err    error
	ErrAt  string
}

// c02RunImpl builds a fresh Decoder under cfg, preloads it, and feeds blocks;
// each block is a list of chunks, one Write per chunk, then Close. It stops at
// the first error. Every chunk is handed over in a cap==len copy that is
// overwritten as soon as Write returns: the decoder does not own p.
func c02RunImpl(cfg c02Cfg, blocks [][][]byte) *c02ImplRun {
	return c02RunImplReuse(cfg, blocks, false)
}

// c02RunImplReuse is c02RunImpl, except that with reuse set the Decoder is not
// thrown away at the first rejected block: the block is ended with Close (if
// it was Write that failed; the result of that Close is ignored) and every
// remaining block is presented to the same Decoder, each as a new header
// block. Everything recorded up to and including the first error (Fields, Err,
// ErrAt, ErrBlk, Blocks) is exactly what c02RunImpl records; what happens
// afterwards goes to Post, one entry per later block. The per-step invariants
// are checked throughout.
func c02RunImplReuse(cfg c02Cfg, blocks [][][]byte, reuse bool) *c02ImplRun {
	r := &c02ImplRun{cfg: cfg, loading: true}
	d := NewDecoder(cfg.Tab, r.emit)
	r.d = d
	for i := 0; i < cfg.Pre; i++ {
		if _, err := d.Write(c02Exact(c02Preload[i])); err != nil {
			panic(fmt.Sprintf("harness: preload block %d rejected: %v", i, err))
		}
		if err := d.Close(); err != nil {
			panic(fmt.Sprintf("harness: preload block %d rejected at Close: %v", i, err))
		}
	}
	r.loading = false
	d.SetMaxStringLength(cfg.MaxStr)
	r.inv("after preload")
	r.sink = &r.Fields
	for bi, blk := range blocks {
		if r.Err != nil {
			// reuse after a rejected block
			r.Post = append(r.Post, c02ImplPost{})
			post := &r.Post[len(r.Post)-1]
			r.sink = &post.Fields
			var stop bool
			post.Err, post.ErrAt, stop = r.feed(blk, bi+1 < len(blocks))
			if stop {
				break
			}
			continue
		}
		err, at, stop := r.feed(blk, reuse && bi+1 < len(blocks))
		if err != nil {
			r.Err, r.ErrAt, r.ErrBlk = err, at, bi
			if !reuse || stop {
				break
			}
			continue
		}
		r.Blocks++
	}
	return r.finish()
}

// feed presents one header block: one Write per chunk, then Close. It returns
// the first error and where it occurred; stop means the harness refuses to
// feed this Decoder any further. With closeAfterWriteErr, a block that Write
// rejected is still ended with Close so that the Decoder can be given a new
// block.
func (r *c02ImplRun) feed(blk [][]byte, closeAfterWriteErr bool) (err error, at string, stop bool) {
	d := r.d
	fed := 0
	for _, chunk := range blk {
		p := c02Exact(chunk)
		n, err := d.Write(p)
		for i := range p {
			p[i] = 0xaa
		}
		r.inv("after Write")
		fed += len(chunk)
		if d.saveBuf.Len() > fed {
			// saveBuf holds an unparsed suffix of this block; anything larger
			// is runaway growth (stop before it exhausts memory) or bytes of
			// an earlier block
			r.bad("savebuf-larger-than-block", "after %d bytes of the block saveBuf holds %d bytes", fed, d.saveBuf.Len())
			return fmt.Errorf("harness: stopped feeding"), "write", true
		}
		if err != nil {
			if closeAfterWriteErr {
				d.Close()
				r.inv("after Close following a failed Write")
			}
			return err, "write", false
		}
		if n != len(chunk) {
			r.bad("write-count", "Write of %d bytes returned n=%d, nil", len(chunk), n)
		}
		if d.saveBuf.Len() > 0 {
			r.Resumed = true
		}
	}
	err = d.Close()
	r.SaveLen = d.saveBuf.Len()
	r.inv("after Close")
	if err != nil {
		return err, "close", false
	}
	return nil, "", false
}

func (r *c02ImplRun) bad(sig, format string, a ...any) {
	if r.BadSig == "" {
		r.BadSig, r.Bad = sig, fmt.Sprintf(format, a...)
	}
}

func (r *c02ImplRun) emit(f HeaderField) {
	if r.loading {
		return
	}
	if r.cfg.MaxStr != 0 && (len(f.Name) > r.cfg.MaxStr || len(f.Value) > r.cfg.MaxStr) {
		r.bad("emits-over-max-string-length", "emitted %q=%q with SetMaxStringLength(%d)", f.Name, f.Value, r.cfg.MaxStr)
	}
	*r.sink = append(*r.sink, c02RefField{f.Name, f.Value, f.Sensitive})
}

// inv checks the white-box table invariants.
func (r *c02ImplRun) inv(when string) {
	dt := &r.d.dynTab
	var sum uint64
	for _, e := range dt.table.ents {
		sum += uint64(len(e.Name)) + uint64(len(e.Value)) + 32
	}
	if uint64(dt.size) != sum {
		r.bad("table-size-accounting", "%s: dynTab.size=%d but the %d entries sum to %d", when, dt.size, len(dt.table.ents), sum)
	}
	if dt.size > dt.maxSize {
		r.bad("table-exceeds-max-size", "%s: dynTab.size=%d > maxSize=%d", when, dt.size, dt.maxSize)
	}
	if dt.maxSize > dt.allowedMaxSize {
		r.bad("max-size-exceeds-allowed", "%s: dynTab.maxSize=%d > allowedMaxSize=%d", when, dt.maxSize, dt.allowedMaxSize)
	}
}

func (r *c02ImplRun) finish() *c02ImplRun {
	r.Table = c02ImplTable(r.d)
	r.Size, r.MaxSize = r.d.dynTab.size, r.d.dynTab.maxSize
	r.d = nil
	return r
}

// c02RefRun is the reference's view of the same feeding.
type c02RefRun struct {
	Fields  []c02RefField
	Status  string // verdict of the first block that is not ok, else ok
	Detail  string
	Blocks  int // blocks decoded ok
	LongInt bool
	MaxStr  uint64
	Huff    bool
	Evicted bool
	Reprs   int
	Table   []c02RefField
	MaxSize uint64
	// Per holds the verdict of every block the reference looked at.
	Per []c02RefBlock
}

func c02RunRef(cfg c02Cfg, blocks [][]byte) *c02RefRun {
	rd := c02NewRefDec(uint64(cfg.Tab))
	for i := 0; i < cfg.Pre; i++ {
		if res := rd.Block(c02Preload[i]); res.Status != c02StOK {
			panic("harness: reference rejects preload block: " + res.Status)
		}
	}
	out := &c02RefRun{Status: c02StOK}
	for _, b := range blocks {
		res := rd.Block(b)
		out.Per = append(out.Per, res)
		out.Fields = append(out.Fields, res.Fields...)
		out.LongInt = out.LongInt || res.LongInt
		out.Huff = out.Huff || res.Huff
		out.Evicted = out.Evicted || res.Evicted
		out.Reprs += res.Reprs
		if res.MaxStr > out.MaxStr {
			out.MaxStr = res.MaxStr
		}
		if res.Status != c02StOK {
			out.Status, out.Detail = res.Status, res.Detail
			break
		}
		out.Blocks++
	}
	out.Table, out.MaxSize = rd.dyn, rd.maxSize
	return out
}

func c02FieldList(f []c02RefField) string {
	var sb strings.Builder
	sb.WriteString("[")
	for i, x := range f {
		if i > 0 {
			sb.WriteString(" ")
		}
		if i >= 8 {
			fmt.Fprintf(&sb, "…+%d", len(f)-i)
			break
		}
		sb.WriteString(x.String())
	}
	sb.WriteString("]")
	return sb.String()
}

func c02Chunks(ch [][]byte) string {
	var parts []string
	for _, c := range ch {
		parts = append(parts, c02Hex(c))
	}
	return strings.Join(parts, "|")
}

// c02IsPrefix reports whether a is a prefix of b.
func c02IsPrefix(a, b []c02RefField) bool {
	return len(a) <= len(b) && c02FieldsEqual(a, b[:len(a)])
}
