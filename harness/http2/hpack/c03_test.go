package hpack

import (
	"bytes"
	"fmt"
	"strings"
	"sync/atomic"
	"testing"

	"golang.org/x/net/internal/zzverif/vx"
)

// C03 — decoding is independent of how a header block is split across Write
// calls. Differential inside the implementation: for every block of a stated
// finite set, every partition of a stated family is fed to a fresh Decoder and
// compared with the single-Write run under the same configuration: emitted
// fields, success/failure of the block (any Write or Close error), dynamic
// table afterwards (white-box, and as seen through a follow-up block that
// references every dynamic index), and nothing left in saveBuf after Close.
// Configurations include the emit modes (enabled, disabled, disabled by the
// callback): a Decoder with emitting disabled must maintain its table
// identically. The reference
// decoder of c02_ref_test.go only classifies the blocks (vacuity accounting).

type c03Case struct {
	Desc  string `json:"desc"`
	Block string `json:"block_hex"`
	// MaxStr != 0: a block of part (D); it is run under c03BoundaryConfigs(MaxStr)
	// instead of the general configuration list.
	MaxStr int `json:"maxstr,omitempty"`
	// Padded: a block of part (D) in which some integer (string length or name
	// index) may be in non-shortest form; only distinguishes the signature.
	Padded bool `json:"padded,omitempty"`
}

// c03Partitions calls f with every partition of b in the family: the two
// chunks b[:c], b[c:] for every 0 <= c <= len(b) (c = 0 and c = len(b) give an
// empty Write), every three non-empty chunks when len(b) <= max3, and one byte
// per Write. f returning false stops.
func c03Partitions(b []byte, max3 int, f func(kind string, chunks [][]byte) bool) {
	n := len(b)
	for c := 0; c <= n; c++ {
		if !f("2", [][]byte{b[:c], b[c:]}) {
			return
		}
	}
	if n <= max3 {
		for c1 := 1; c1 < n; c1++ {
			for c2 := c1 + 1; c2 < n; c2++ {
				if !f("3", [][]byte{b[:c1], b[c1:c2], b[c2:]}) {
					return
				}
			}
		}
	}
	if n > 2 {
		ch := make([][]byte, n)
		for i := range ch {
			ch[i] = b[i : i+1]
		}
		f("bytewise", ch)
	}
}

// c03EncoderBlocks returns the header blocks a real Encoder produces for every
// history of two operations (field writes and table size changes) — input
// generation only.
func c03EncoderBlocks() []c03Case {
	type op struct {
		name string
		f    *HeaderField
		size uint32
	}
	hf := func(n, v string, s bool) *HeaderField { return &HeaderField{Name: n, Value: v, Sensitive: s} }
	ops := []op{
		{":method=GET", hf(":method", "GET", false), 0},
		{":method=X", hf(":method", "X", false), 0},
		{"cookie=v", hf("cookie", "v", false), 0},
		{"k=v", hf("k", "v", false), 0},
		{"k=w", hf("k", "w", false), 0},
		{"=", hf("", "", false), 0},
		{"n=", hf("n", "", false), 0},
		{"h=aaaaaaaa", hf("h", "aaaaaaaa", false), 0},
		{"b=f8f9fa", hf("b", "\xf8\xf9\xfa", false), 0},
		{"big=z*100", hf("big", strings.Repeat("z", 100), false), 0},
		{"raw=fe*130", hf("raw", strings.Repeat("\xfe", 130), false), 0}, // 2-byte string length, not Huffman coded
		{"!k=v", hf("k", "v", true), 0},
		{"!cookie=v", hf("cookie", "v", true), 0},
		{"!accept-charset=u", hf("accept-charset", "u", true), 0},
		{"size0", nil, 0},
		{"size100", nil, 100},
		{"size4096", nil, 4096},
	}
	var out []c03Case
	for _, a := range ops {
		for _, b := range ops {
			var buf bytes.Buffer
			enc := NewEncoder(&buf)
			for _, o := range []op{a, b} {
				if o.f != nil {
					enc.WriteField(*o.f)
				} else {
					enc.SetMaxDynamicTableSize(o.size)
				}
			}
			if a.f == nil && b.f == nil {
				// nothing on the wire yet: flush the pending update with one field
				enc.WriteField(HeaderField{Name: "k", Value: "v"})
			}
			out = append(out, c03Case{Desc: "enc " + a.name + " " + b.name, Block: c02Hex(buf.Bytes())})
		}
	}
	return out
}

// c03Cfg is a decoder configuration of C03: a c02Cfg plus how emitting is
// configured while the block under test is fed.
type c03Cfg struct {
	c02Cfg
	// Emit: "on" (default of NewDecoder); "off" = SetEmitEnabled(false) before
	// the block; "off-after-1" = the emit callback calls SetEmitEnabled(false)
	// when it receives the first field of the block (what the HTTP/2 server and
	// Transport do once MAX_HEADER_LIST_SIZE is exceeded).
	Emit string
}

func (g c03Cfg) String() string { return g.c02Cfg.String() + " emit=" + g.Emit }

func c03Configs(quick bool) []c03Cfg {
	if quick {
		return []c03Cfg{
			{c02Cfg{4096, 0, 0}, "on"}, {c02Cfg{4096, 2, 0}, "on"}, {c02Cfg{40, 2, 0}, "on"}, {c02Cfg{4096, 2, 2}, "on"},
			{c02Cfg{4096, 2, 0}, "off"}, {c02Cfg{40, 2, 0}, "off"}, {c02Cfg{4096, 2, 2}, "off"},
			{c02Cfg{4096, 2, 0}, "off-after-1"},
		}
	}
	var out []c03Cfg
	for _, ms := range []int{0, 2, 6} {
		for _, tab := range []uint32{4096, 40} {
			for _, pre := range []int{0, 2} {
				out = append(out, c03Cfg{c02Cfg{tab, pre, ms}, "on"})
				if ms != 6 && (pre == 2 || ms == 0) {
					out = append(out, c03Cfg{c02Cfg{tab, pre, ms}, "off"})
				}
				if pre == 2 && (ms == 0 || tab == 4096) {
					out = append(out, c03Cfg{c02Cfg{tab, pre, ms}, "off-after-1"})
				}
			}
		}
	}
	return append(out, c03Cfg{c02Cfg{4096, 1, 0}, "on"}, c03Cfg{c02Cfg{0, 2, 0}, "on"}, c03Cfg{c02Cfg{0, 2, 0}, "off"})
}

// c03Fragments is the fragment alphabet of C03: C02's, plus literals whose
// string CONTENT is itself a well-formed sequence of representations that
// would change the table (so a decoder that resumes inside a string after a
// split goes wrong silently rather than with an error).
func c03Fragments(wide bool) []c02Frag {
	fr := c02Fragments(wide)
	// value = 01 'z' 40 00 00; read from the value's length octet the bytes
	// 05 01 7a 40 00 00 are "literal name=idx5 value=z, literal+indexing ''=''",
	// read from the value's first octet "literal name=idx1 value=z, literal+indexing ''=''"
	fr = append(fr, c02Frag{"lit v=<reprs>", c02Cat([]byte{0x00}, c02EncStr("v", false), c02EncStr("\x01z\x40\x00\x00", false))})
	if wide {
		// the same in the name of an incrementally indexed literal
		fr = append(fr, c02Frag{"lit+idx <reprs>=w", c02Cat([]byte{0x40}, c02EncStr("\x01z\x40\x00\x00", false), c02EncStr("w", false))})
	}
	return fr
}

// c03Str is one encoded string (RFC 7541 §5.2: length prefix + data) of the
// max-string-length boundary alphabet.
type c03Str struct {
	Name string
	B    []byte
}

// c03BoundaryStrings returns the encoded strings whose lengths sit on both
// sides of a max string length n (n >= 4), simplest first:
//   - not Huffman coded, L octets for L in {1, n-1, n, n+1};
//   - Huffman coded 'X' (8-bit code) x L for L in {n-1, n, n+1}: encoded and
//     decoded length are both L;
//   - Huffman coded 'a' (5-bit code) x L for L in {n-1, n, n+1}: the DECODED
//     length straddles n while the encoded length is well below it;
//   - Huffman coded HTAB (24-bit code) x E/3 followed by 'X' x E%3 for E in
//     {n-1, n, n+1}: the ENCODED length E straddles n while the decoded length
//     is well below it.
//
// The decoder compares the encoded length with its limit when it reads the
// length prefix and the decoded length while/after Huffman decoding.
func c03BoundaryStrings(n int) []c03Str {
	if n < 4 {
		panic("harness: c03BoundaryStrings needs n >= 4")
	}
	var out []c03Str
	out = append(out, c03Str{"raw*1", c02EncStr("v", false)})
	for _, l := range []int{n - 1, n, n + 1} {
		out = append(out, c03Str{fmt.Sprintf("raw*%d", l), c02EncStr(strings.Repeat("v", l), false)})
	}
	huff := func(name, s string, wantEnc int) {
		b := c02EncStr(s, true)
		hdr := 1
		if wantEnc >= 127 {
			hdr = len(c02EncInt(0x80, 7, uint64(wantEnc), 0))
		}
		if len(b) != hdr+wantEnc {
			panic(fmt.Sprintf("harness: Huffman string %s encodes to %d octets, expected %d", name, len(b)-hdr, wantEnc))
		}
		out = append(out, c03Str{name, b})
	}
	for _, l := range []int{n - 1, n, n + 1} {
		huff(fmt.Sprintf("huff'X'*%d", l), strings.Repeat("X", l), l)
	}
	for _, l := range []int{n - 1, n, n + 1} {
		huff(fmt.Sprintf("huff'a'*%d", l), strings.Repeat("a", l), (5*l+7)/8)
	}
	for _, e := range []int{n - 1, n, n + 1} {
		huff(fmt.Sprintf("huff(HTAB*%d,'X'*%d)", e/3, e%3), strings.Repeat("\t", e/3)+strings.Repeat("X", e%3), e)
	}
	return out
}

// c03IntWidths are the total octet counts of the integers of the padded
// sub-part of (D); 0 stands for the shortest form, -1 for shortest+1 (the
// smallest redundant form). readVarInt accepts at most 10 octets (prefix
// octet, 8 continuation octets with the high bit set, final octet) and rejects
// 11 as an overflow; 6/7 and 9/10 sit on both sides of what Decoder.Write's
// bound on the bytes retained in saveBuf allows for (8 octets of integer per
// string: with a 10-octet length on the other string, 6 is within 2*8 and 7 is
// not).
var c03IntWidths = []int{0, -1, 6, 7, 9, 10, 11}

// c03EncIntW is c02EncInt producing exactly width octets (0 = shortest, -1 =
// shortest+1). A wider-than-shortest form exists only for values that
// saturate the prefix.
func c03EncIntW(hi byte, n uint, v uint64, width int) []byte {
	short := c02EncInt(hi, n, v, 0)
	switch {
	case width == 0 || width == len(short):
		return short
	case width == -1:
		width = len(short) + 1
	}
	if width < len(short) {
		panic(fmt.Sprintf("harness: %d does not fit %d octets", v, width))
	}
	b := c02EncInt(hi, n, v, width-len(short))
	if len(b) != width {
		panic(fmt.Sprintf("harness: padded integer %d has %d octets, wanted %d", v, len(b), width))
	}
	return b
}

// c03EncStrW is c02EncStr with the length integer written in exactly width
// octets (see c03EncIntW); w is the number of octets the length took.
func c03EncStrW(s string, huff bool, width int) (enc []byte, w int) {
	data, hi := []byte(s), byte(0)
	if huff {
		data, hi = c02RefHuffEncode([]byte(s)), 0x80
	}
	pre := c03EncIntW(hi, 7, uint64(len(data)), width)
	return append(pre, data...), len(pre)
}

// c03PaddedStrings returns the strings of the padded sub-part of (D) for a max
// string length n >= 127 (below that no length <= n+1 has a non-shortest
// form): not Huffman coded n-1 octets (shortest form), n octets with the
// length in every width of c03IntWidths, n+1 octets (over the limit) in
// shortest and 10-octet form, and Huffman coded 'X' x n (encoded = decoded = n)
// in shortest and 10-octet form.
func c03PaddedStrings(n int) []c03Str {
	if n < 127 {
		panic("harness: c03PaddedStrings needs n >= 127")
	}
	var out []c03Str
	add := func(name, s string, huff bool, width int) {
		b, w := c03EncStrW(s, huff, width)
		out = append(out, c03Str{fmt.Sprintf("%s(len in %d octets)", name, w), b})
	}
	add(fmt.Sprintf("raw*%d", n-1), strings.Repeat("v", n-1), false, 0)
	for _, w := range c03IntWidths {
		add(fmt.Sprintf("raw*%d", n), strings.Repeat("v", n), false, w)
	}
	for _, w := range []int{0, 10} {
		add(fmt.Sprintf("raw*%d", n+1), strings.Repeat("v", n+1), false, w)
	}
	for _, w := range []int{0, 10} {
		add(fmt.Sprintf("huff'X'*%d", n), strings.Repeat("X", n), true, w)
	}
	return out
}

// c03BoundaryBlocks generates part (D) for one max string length n: every
// literal representation kind (incremental indexing / without indexing / never
// indexed) with a literal name and a literal value both taken (every pair)
// from c03BoundaryStrings(n) - or, with padded set, from c03PaddedStrings(n) -
// and with an indexed name and every such value; each alone, followed by an
// indexed field, and preceded by one. Not padded: the name index is static
// index 1 in shortest form. Padded: the name index is the smallest index that
// saturates the prefix (63 for the 6-bit prefix: the second dynamic entry, valid
// with two preloaded entries only; 15 for the 4-bit prefixes: static) written
// in every width of c03IntWidths.
func c03BoundaryBlocks(n int, padded bool, yield func(c03Case) bool) bool {
	strs := c03BoundaryStrings(n)
	tag := fmt.Sprintf("maxstr=%d: ", n)
	if padded {
		strs = c03PaddedStrings(n)
		tag = fmt.Sprintf("maxstr=%d padded: ", n)
	}
	kinds := []struct {
		name   string
		hi     byte
		prefix uint
	}{{"lit+idx", 0x40, 6}, {"lit", 0x00, 4}, {"never", 0x10, 4}}
	idx2 := []byte{0x82}
	emit := func(desc string, rep []byte) bool {
		desc = tag + desc
		return yield(c03Case{desc, c02Hex(rep), n, padded}) &&
			yield(c03Case{desc + ", idx2", c02Hex(c02Cat(rep, idx2)), n, padded}) &&
			yield(c03Case{"idx2, " + desc, c02Hex(c02Cat(idx2, rep)), n, padded})
	}
	for _, k := range kinds {
		var idxs []c03Str
		if !padded {
			idxs = []c03Str{{"n1", c02EncInt(k.hi, k.prefix, 1, 0)}}
		} else {
			idx := uint64(1)<<k.prefix - 1
			for _, w := range c03IntWidths {
				b := c03EncIntW(k.hi, k.prefix, idx, w)
				idxs = append(idxs, c03Str{fmt.Sprintf("n%d(in %d octets)", idx, len(b)), b})
			}
		}
		for _, ix := range idxs {
			for _, v := range strs {
				if !emit(fmt.Sprintf("%s %s=%s", k.name, ix.Name, v.Name), c02Cat(ix.B, v.B)) {
					return false
				}
			}
		}
		for _, nm := range strs {
			for _, v := range strs {
				if !emit(fmt.Sprintf("%s %s=%s", k.name, nm.Name, v.Name), c02Cat([]byte{k.hi}, nm.B, v.B)) {
					return false
				}
			}
		}
	}
	return true
}

// c03BoundaryConfigs are the decoder configurations of part (D) for blocks
// whose string lengths straddle n: max string length n under every emit mode
// and both table sizes, and the same blocks without a max string length.
func c03BoundaryConfigs(n int) []c03Cfg {
	return []c03Cfg{
		{c02Cfg{4096, 0, n}, "on"},
		{c02Cfg{4096, 2, n}, "off"},
		{c02Cfg{40, 2, n}, "on"},
		{c02Cfg{4096, 2, n}, "off-after-1"},
		{c02Cfg{4096, 0, 0}, "on"},
	}
}

// c03ImplRun is c02ImplRun for one block under a c03Cfg, plus what the same
// Decoder emitted for a follow-up block.
type c03ImplRun struct {
	*c02ImplRun
	// Follow-up (only when the block under test succeeded): after Close,
	// emitting is re-enabled, the emit function is replaced, and one more
	// header block consisting of an indexed field for every dynamic table
	// entry the Decoder has (at most 8: indexes 62, 63, ...) is fed in a
	// single Write and closed. FollowN is the number of indexes referenced.
	FollowN      int
	FollowFields []c02RefField
	FollowErr    error
}

// c03RunImpl builds a fresh Decoder under cfg (preload blocks fed through the
// emit function given to NewDecoder, then SetEmitFunc to the recording one,
// SetMaxStringLength, emit mode), feeds chunks as one header block (one Write
// per chunk, then Close; see c02ImplRun.feed) and, if that succeeded, the
// follow-up block. Table, Size, MaxSize are the white-box table state after
// the block under test, before the follow-up.
func c03RunImpl(cfg c03Cfg, chunks [][]byte) *c03ImplRun {
	r := &c02ImplRun{cfg: cfg.c02Cfg}
	out := &c03ImplRun{c02ImplRun: r}
	d := NewDecoder(cfg.Tab, func(HeaderField) {})
	r.d = d
	for i := 0; i < cfg.Pre; i++ {
		if _, err := d.Write(c02Exact(c02Preload[i])); err != nil {
			panic(fmt.Sprintf("harness: preload block %d rejected: %v", i, err))
		}
		if err := d.Close(); err != nil {
			panic(fmt.Sprintf("harness: preload block %d rejected at Close: %v", i, err))
		}
	}
	d.SetMaxStringLength(cfg.MaxStr)
	r.sink = &r.Fields
	switch cfg.Emit {
	case "on":
		d.SetEmitFunc(r.emit)
	case "off":
		d.SetEmitFunc(r.emit)
		d.SetEmitEnabled(false)
	case "off-after-1":
		d.SetEmitFunc(func(f HeaderField) {
			r.emit(f)
			d.SetEmitEnabled(false)
		})
	default:
		panic("harness: unknown emit mode " + cfg.Emit)
	}
	r.inv("after preload")
	err, at, _ := r.feed(chunks, false)
	if err != nil {
		r.Err, r.ErrAt = err, at
		r.finish()
		return out
	}
	r.Blocks++
	if cfg.Emit == "off" && len(r.Fields) > 0 {
		r.bad("emits-while-disabled", "emitted %s with SetEmitEnabled(false)", c02FieldList(r.Fields))
	}
	if cfg.Emit == "off-after-1" && len(r.Fields) > 1 {
		r.bad("emits-while-disabled", "emitted %s although the callback disabled emitting at the first field", c02FieldList(r.Fields))
	}
	saveLen := r.SaveLen
	r.finish() // snapshots the table; clears r.d
	r.d = d
	out.FollowN = min(len(d.dynTab.table.ents), 8)
	if out.FollowN > 0 {
		d.SetEmitEnabled(true)
		d.SetEmitFunc(func(f HeaderField) {
			out.FollowFields = append(out.FollowFields, c02RefField{f.Name, f.Value, f.Sensitive})
		})
		fb := make([]byte, out.FollowN)
		for i := range fb {
			fb[i] = 0x80 | byte(62+i)
		}
		_, out.FollowErr = d.Write(c02Exact(fb))
		r.inv("after the follow-up Write")
		if cerr := d.Close(); out.FollowErr == nil {
			out.FollowErr = cerr
		}
	}
	r.SaveLen = saveLen
	r.d = nil
	return out
}

func TestVerif_C03(t *testing.T) {
	vx.Run(t, "C03", func(c *vx.Ctx) {
		quick := c.Quick()
		cfgs := c03Configs(quick)
		max3 := vx.Pick(c, 12, 20)
		byteL := vx.Pick(c, 4, 5)
		maxStrs := vx.Pick(c, []int{8, 16, 64}, []int{7, 8, 16, 64, 127})
		const padN = 127 // the smallest max string length with a paddable length <= it
		c.Rule(fmt.Sprintf("blocks: (A) every sequence of 1..3 fragments of the %d-element fragment alphabet (thorough: the %d-element wide alphabet, plus every 4-sequence over the first 12 fragments), each also with its last fragment cut at every byte (truncated blocks); (C) the real Encoder's output for every 2-operation history over 17 operations, each also with every one of its first 24 bytes xor 01 / xor 80 / set to ff and every truncation to < 24 bytes; (B) every byte string of length 1..%d over {00,01,0f,3f,40,7f,80,82,be,ff}; (D) for every max string length n in %v: every literal representation (incremental indexing / without indexing / never indexed) with a literal name and a literal value both drawn (every pair) from the %d strings whose lengths straddle n - not Huffman coded of 1, n-1, n, n+1 octets; Huffman coded with encoded = decoded length n-1, n, n+1 (8-bit codes); Huffman coded with decoded length n-1, n, n+1 and a shorter encoding (5-bit codes); Huffman coded with encoded length n-1, n, n+1 and a shorter decoded string (24-bit codes) - and with the name from static index 1 and every such value; each alone, followed by an indexed field, and preceded by one; run under SetMaxStringLength(n) (table 4096 / 40, 0 / 2 preloaded entries, each emit mode) and without a max string length; and, for n = %d (the smallest n for which a length <= n has a non-shortest form), the same literal shapes over the %d strings {not Huffman coded n-1 octets; n octets with the length integer in shortest, shortest+1, 6, 7, 9, 10 (longest accepted) and 11 (overflow) octets; n+1 octets in shortest and 10-octet form; Huffman coded encoded = decoded = n in shortest and 10-octet form} (every pair), and with the name index (63 / 15: saturating the 6- / 4-bit prefix) written in each of those widths and every such value. "+
			"partitions of each block: every 2-partition including an empty chunk, every 3-partition into non-empty chunks for blocks of <= %d bytes, and one byte per Write (so every split position of the long blocks of (D) is a 2-partition); (A)-(C) under each of %d decoder configurations (initial/allowed table size, 0-2 preloaded entries, max string length set/unset, emitting on / SetEmitEnabled(false) before the block / disabled by the emit callback at the first field of the block; the emit function is replaced with SetEmitFunc after the preload and again before the follow-up). Each partition is compared with the single-Write run of the same configuration: block success/failure, emitted fields, white-box dynamic table (entries, size, maxSize), and - when the block succeeded - the outcome and fields of a follow-up block, fed in one Write with emitting re-enabled, that references every dynamic index the Decoder then has (at most 8); saveBuf empty after Close. The fragment alphabet is that of C02 plus literals whose string content is itself a table-changing representation sequence. non-trivial = block whose single-Write run emitted a field or changed the table or was retained in saveBuf by some partition", len(c03Fragments(false)), len(c03Fragments(true)), byteL, maxStrs, len(c03BoundaryStrings(maxStrs[0])), padN, len(c03PaddedStrings(padN)), max3, len(cfgs)))
		c.Assume("after the first error of a block the decoder is not used again (callers must tear the connection down); the success/failure of a block is compared, not which error value is returned")
		c.Assume("non-shortest (padded) integers are enumerated for string lengths n and n+1 and the name index at max string length 127 only, in the listed widths; padded integers in size updates and indexed fields are those of the fragment alphabet")
		c.Assume("purely differential: a defect that misbehaves identically for every partition is invisible here by construction")

		var runs atomic.Int64
		defer func() { c.Note("decoder_runs", runs.Load()) }()
		check := func(w *vx.W, x c03Case) {
			blk := c02Unhex(x.Block)
			nruns := int64(0)
			defer func() { runs.Add(nruns) }()
			anyResumed, anyEffect := false, false
			cfgs := cfgs
			if x.MaxStr != 0 {
				cfgs = c03BoundaryConfigs(x.MaxStr)
			}
			for _, cfg := range cfgs {
				base := c03RunImpl(cfg, [][]byte{blk})
				nruns++
				if base.BadSig != "" {
					w.Failf("C03/single-write/"+base.BadSig, "%s; block %s (%s) %v", base.Bad, x.Block, x.Desc, cfg)
					return
				}
				if base.OK() && base.SaveLen != 0 {
					w.Failf("C03/savebuf-not-empty-after-close/single", "block %s (%s) %v: %d bytes left in saveBuf after a successful Close", x.Block, x.Desc, cfg, base.SaveLen)
					return
				}
				ref := c02RunRef(cfg.c02Cfg, [][]byte{blk})
				if len(base.Fields) > 0 || ref.Reprs > 0 {
					anyEffect = true
				}
				w.Outcome("single=" + c02ErrClass(base.Err) + " ref=" + ref.Status)
				stop := false
				c03Partitions(blk, max3, func(kind string, chunks [][]byte) bool {
					sp := c03RunImpl(cfg, chunks)
					nruns++
					if sp.Resumed {
						anyResumed = true
					}
					trig := "single-write-ok"
					if !base.OK() {
						trig = "single-write-fails"
					}
					if x.Padded {
						trig += "/padded-integers"
					}
					switch {
					case sp.BadSig != "":
						w.Failf("C03/split-write/"+sp.BadSig, "%s; chunks %s (%s) %v", sp.Bad, c02Chunks(chunks), x.Desc, cfg)
					case base.OK() != sp.OK():
						w.Failf("C03/outcome-differs/"+trig, "block %s (%s) %v: single Write -> %v; chunks %s -> %v (at %s)", x.Block, x.Desc, cfg, base.Err, c02Chunks(chunks), sp.Err, sp.ErrAt)
					case !c02FieldsEqual(base.Fields, sp.Fields):
						w.Failf("C03/emitted-differs/"+trig, "block %s (%s) %v: single Write emits %s; chunks %s emit %s", x.Block, x.Desc, cfg, c02FieldList(base.Fields), c02Chunks(chunks), c02FieldList(sp.Fields))
					case !c02FieldsEqual(base.Table, sp.Table) || base.Size != sp.Size || base.MaxSize != sp.MaxSize:
						w.Failf("C03/table-differs/"+trig, "block %s (%s) %v: single Write leaves table %s size=%d max=%d; chunks %s leave %s size=%d max=%d", x.Block, x.Desc, cfg, c02FieldList(base.Table), base.Size, base.MaxSize, c02Chunks(chunks), c02FieldList(sp.Table), sp.Size, sp.MaxSize)
					case base.FollowN != sp.FollowN || (base.FollowErr == nil) != (sp.FollowErr == nil) || !c02FieldsEqual(base.FollowFields, sp.FollowFields):
						w.Failf("C03/follow-up-block-differs/"+trig, "block %s (%s) %v: after a single Write a follow-up block referencing dynamic indexes 62..%d emits %s err=%v; after chunks %s the follow-up referencing 62..%d emits %s err=%v", x.Block, x.Desc, cfg, 61+base.FollowN, c02FieldList(base.FollowFields), base.FollowErr, c02Chunks(chunks), 61+sp.FollowN, c02FieldList(sp.FollowFields), sp.FollowErr)
					case sp.ErrAt != "write" && sp.SaveLen != 0:
						w.Failf("C03/savebuf-not-empty-after-close/split", "chunks %s (%s) %v: %d bytes left in saveBuf after Close (err=%v)", c02Chunks(chunks), x.Desc, cfg, sp.SaveLen, sp.Err)
					default:
						return true
					}
					stop = true
					return false
				})
				if stop {
					return
				}
			}
			if anyEffect && anyResumed {
				w.Nontrivial()
			}
			if anyResumed {
				w.Outcome("some partition resumed from saveBuf")
			}
		}

		// (D) literals whose name/value lengths straddle the max string length
		// (the smallest part: run first so that a deadline never cuts it)
		vx.Enumerate(c, "max-string-length-boundary", vx.Opts{}, func(yield func(c03Case) bool) {
			for _, n := range maxStrs {
				if !c03BoundaryBlocks(n, false, yield) {
					return
				}
			}
			c03BoundaryBlocks(padN, true, yield)
		}, check)
		// (A) fragment sequences
		genFragSeq := func(seq []c02Frag, yield func(c03Case) bool) bool {
			{
				var head []byte
				var names []string
				for _, f := range seq[:len(seq)-1] {
					head = append(head, f.B...)
					names = append(names, f.Name)
				}
				last := seq[len(seq)-1]
				names = append(names, last.Name)
				desc := strings.Join(names, ", ")
				for cut := len(last.B); cut >= 1; cut-- {
					d := desc
					if cut < len(last.B) {
						d = fmt.Sprintf("%s (last cut to %d)", desc, cut)
					}
					if !yield(c03Case{Desc: d, Block: c02Hex(append(head[:len(head):len(head)], last.B[:cut]...))}) {
						return false
					}
				}
				return true
			}
		}
		genFrags := func(fr []c02Frag, k int, yield func(c03Case) bool) bool {
			return vx.Strings(fr, 1, k, func(seq []c02Frag) bool { return genFragSeq(seq, yield) })
		}
		vx.Enumerate(c, "fragments", vx.Opts{}, func(yield func(c03Case) bool) {
			if quick {
				genFrags(c03Fragments(false), 3, yield)
				return
			}
			if !genFrags(c03Fragments(true), 3, yield) {
				return
			}
			vx.Strings(c03Fragments(false)[:12], 4, 4, func(seq []c02Frag) bool { return genFragSeq(seq, yield) })
		}, check)

		// (C) encoder output, intact and damaged
		vx.Enumerate(c, "encoder-output", vx.Opts{}, func(yield func(c03Case) bool) {
			for _, cs := range c03EncoderBlocks() {
				if !yield(cs) {
					return
				}
				b := c02Unhex(cs.Block)
				for i := 0; i < len(b) && i < 24; i++ {
					for _, m := range []string{"^01", "^80", "=ff"} {
						d := append([]byte(nil), b...)
						switch m {
						case "^01":
							d[i] ^= 0x01
						case "^80":
							d[i] ^= 0x80
						default:
							if d[i] == 0xff {
								continue
							}
							d[i] = 0xff
						}
						if !yield(c03Case{Desc: fmt.Sprintf("%s byte %d %s", cs.Desc, i, m), Block: c02Hex(d)}) {
							return
						}
					}
					if i >= 1 {
						if !yield(c03Case{Desc: fmt.Sprintf("%s truncated to %d", cs.Desc, i), Block: c02Hex(b[:i])}) {
							return
						}
					}
				}
			}
		}, check)
		// (B) byte strings
		vx.Enumerate(c, "bytes", vx.Opts{}, func(yield func(c03Case) bool) {
			vx.Strings([]byte{0x00, 0x01, 0x0f, 0x3f, 0x40, 0x7f, 0x80, 0x82, 0xbe, 0xff}, 1, byteL, func(b []byte) bool {
				return yield(c03Case{Desc: "bytes", Block: c02Hex(b)})
			})
		}, check)

	})
}
