package hpack

import (
	"fmt"
	"strings"
	"sync/atomic"
	"testing"

	"golang.org/x/net/internal/zzverif/vx"
)

// C02 — the Decoder is memory-safe and honours its limits on any input, and
// reports malformed input instead of fabricating fields.
//
// Every input of a stated finite set is presented, under every configuration
// of a grid (max string length x table size x preloaded entries), as one header
// block and as two header blocks split at every position. Oracle, per run:
//   - no panic, no read outside the input (cap==len copies, overwritten after Write);
//   - after every Write/Close: size <= maxSize <= allowedMaxSize, size == sum of entries;
//   - no emitted name/value longer than the configured maximum;
//   - against the bit-by-bit RFC 7541 reference decoder (c02_ref_test.go): the
//     emitted fields are a prefix of the reference's; a block the reference
//     finds malformed (bad index, bad Huffman incl. EOS/padding, oversized table
//     update, truncated at Close) is not accepted; a block the reference decodes
//     is rejected only with the decoder's own limit errors; on overall success
//     the fields and the dynamic table equal the reference's;
//   - reuse: when the first of two blocks is rejected (by Write or by Close) the
//     same Decoder is given the second block as a new header block; nothing of
//     the rejected block may show in it: fields, acceptance and rejection of the
//     second block are judged against the reference decoding that block alone.

type c02Case struct {
	Desc  string `json:"desc"`
	Block string `json:"block_hex"`
	// Cut > 0: present the input only as the two blocks Block[:Cut], Block[Cut:].
	Cut int `json:"cut,omitempty"`
}

func c02Grid(thorough bool) []c02Cfg {
	tabs, strs, pres := []uint32{4096, 40, 0}, []int{0, 1, 5}, []int{2, 0}
	if thorough {
		tabs, strs = []uint32{4096, 40, 0, 70}, []int{0, 1, 2, 5}
	}
	var out []c02Cfg
	for _, ms := range strs {
		for _, tab := range tabs {
			for _, pre := range pres {
				out = append(out, c02Cfg{tab, pre, ms})
			}
		}
	}
	return out
}

// c02Judge applies the oracle to one run. It returns false after reporting.
func c02Judge(w *vx.W, x c02Case, cfg c02Cfg, blocks [][]byte, impl *c02ImplRun, ref *c02RefRun, det func(bi int) *c02RefBlock) bool {
	ctx := func() string {
		s := fmt.Sprintf("blocks %s (%s) %v: decoder %s after %d ok blocks, emitted %s; reference %s (%s) after %d ok blocks, fields %s",
			c02Chunks(blocks), x.Desc, cfg, c02ErrClass(impl.Err), impl.Blocks, c02FieldList(impl.Fields), ref.Status, ref.Detail, ref.Blocks, c02FieldList(ref.Fields))
		for i, p := range impl.Post {
			s += fmt.Sprintf("; same decoder, block %d as a new header block: %s, emitted %s", impl.ErrBlk+1+i, c02ErrClass(p.Err), c02FieldList(p.Fields))
		}
		return s
	}
	if impl.BadSig != "" {
		w.Failf("C02/invariant/"+impl.BadSig, "%s; %s", impl.Bad, ctx())
		return false
	}
	return c02JudgePrefix(w, cfg, impl, ref, ctx) && c02JudgeReuse(w, cfg, impl, det, ctx)
}

// c02JudgeReuse judges the blocks presented to the same Decoder after its
// first rejected block (impl.Post): each is compared with det(block index), the
// reference decoding that block alone in a detached context. One signature per
// oracle clause and kind of rejection: whatever leaks from a rejected block
// shows under every verdict of the next block.
func c02JudgeReuse(w *vx.W, cfg c02Cfg, impl *c02ImplRun, det func(bi int) *c02RefBlock, ctx func() string) bool {
	if len(impl.Post) == 0 {
		return true
	}
	how := "/after-block-rejected-by-write"
	if impl.ErrAt == "close" {
		how = "/after-block-rejected-by-close"
	}
	for i, p := range impl.Post {
		bi := impl.ErrBlk + 1 + i
		ref := det(bi)
		rctx := func() string {
			return fmt.Sprintf("block %d alone is %s (%s) with fields %s; %s", bi, ref.Status, ref.Detail, c02FieldList(ref.Fields), ctx())
		}
		w.Outcome("reuse: ref=" + ref.Status + " impl=" + c02ErrClass(p.Err))
		if c02StExcluded(ref.Status) {
			n := min(len(p.Fields), len(ref.Fields))
			if !c02FieldsEqual(p.Fields[:n], ref.Fields[:n]) {
				w.Failf("C02/fabricated-field"+how, "fields emitted for block %d before its first table-dependent representation are not those it contains; %s", bi, rctx())
				return false
			}
			continue
		}
		if !c02IsPrefix(p.Fields, ref.Fields) {
			w.Failf("C02/fabricated-field"+how, "fields emitted for block %d are not a prefix of what that block contains; %s", bi, rctx())
			return false
		}
		switch {
		case c02StIsError(ref.Status) && p.Err == nil:
			w.Failf("C02/accepts-malformed"+how, "block %d is malformed but was accepted; %s", bi, rctx())
			return false
		case ref.Status == c02StOK && p.Err != nil:
			cls := c02ErrClass(p.Err)
			justified := false
			switch cls {
			case "string-length":
				justified = cfg.MaxStr != 0 && ref.MaxStr > uint64(cfg.MaxStr)
			case "varint-overflow":
				justified = ref.LongInt
			}
			if !justified {
				w.Failf("C02/rejects-valid"+how, "block %d is valid (largest string %d, long integer %v) but was rejected with %v at %s; %s", bi, ref.MaxStr, ref.LongInt, p.Err, p.ErrAt, rctx())
				return false
			}
		case ref.Status == c02StOK:
			if !c02FieldsEqual(p.Fields, ref.Fields) {
				w.Failf("C02/drops-field"+how, "block %d accepted but with fewer fields than it contains; %s", bi, rctx())
				return false
			}
		}
	}
	return true
}

// c02JudgePrefix judges the run up to and including the first rejected block.
func c02JudgePrefix(w *vx.W, cfg c02Cfg, impl *c02ImplRun, ref *c02RefRun, ctx func() string) bool {
	// no fabrication
	if c02StExcluded(ref.Status) {
		n := min(len(impl.Fields), len(ref.Fields))
		if !c02FieldsEqual(impl.Fields[:n], ref.Fields[:n]) {
			w.Failf("C02/fabricated-field/before-excluded-representation", "%s", ctx())
			return false
		}
		return true // nothing else is defined from here on
	}
	if !c02IsPrefix(impl.Fields, ref.Fields) {
		w.Failf("C02/fabricated-field/ref="+ref.Status, "emitted fields are not a prefix of the reference's; %s", ctx())
		return false
	}
	if c02StIsError(ref.Status) && impl.Blocks > ref.Blocks {
		// the implementation completed (Write and Close without error) the block
		// the reference finds malformed
		w.Failf("C02/accepts-malformed/"+ref.Status, "block %d is malformed but was accepted; %s", ref.Blocks, ctx())
		return false
	}
	if !impl.OK() && impl.ErrBlk < ref.Blocks {
		// rejected a block the reference decodes: only limit errors are allowed
		blk := ref.Per[impl.ErrBlk]
		cls := c02ErrClass(impl.Err)
		justified := false
		switch cls {
		case "string-length":
			justified = cfg.MaxStr != 0 && blk.MaxStr > uint64(cfg.MaxStr)
		case "varint-overflow":
			justified = blk.LongInt
		}
		if !justified {
			w.Failf("C02/rejects-valid/"+cls, "block %d is valid (largest string %d, long integer %v) but was rejected with %v at %s; %s", impl.ErrBlk, blk.MaxStr, blk.LongInt, impl.Err, impl.ErrAt, ctx())
			return false
		}
		return true
	}
	if impl.OK() && ref.Status == c02StOK {
		if !c02FieldsEqual(impl.Fields, ref.Fields) {
			w.Failf("C02/drops-field", "overall success but fewer fields than the reference; %s", ctx())
			return false
		}
		if !c02FieldsEqual(impl.Table, ref.Table) || uint64(impl.MaxSize) != ref.MaxSize {
			w.Failf("C02/table-diverges", "dynamic table %s max=%d, reference %s max=%d; %s", c02FieldList(impl.Table), impl.MaxSize, c02FieldList(ref.Table), ref.MaxSize, ctx())
			return false
		}
	}
	return true
}

func TestVerif_C02(t *testing.T) {
	vx.Run(t, "C02", func(c *vx.Ctx) {
		quick := c.Quick()
		grid := c02Grid(!quick)
		small := []c02Cfg{{4096, 2, 0}, {40, 2, 1}, {4096, 1, 2}, {0, 0, 5}}
		c.Rule(fmt.Sprintf("inputs: (a) every byte string of length <=2 and every 3-byte string over a %d-byte boundary alphabet (thorough: additionally ALL 3-byte strings under the configuration table=4096 preload=2 maxstr=0, unsplit); (b) every sequence of 1..2 fragments of the %d-fragment representation alphabet and every 3-sequence of its first 14 (thorough: every 1..3-sequence of the %d-fragment wide alphabet plus all 4-sequences of the first 10), each also with its last fragment cut at every byte; every byte string of length 4 over a 10-byte (thorough: 12-byte) representation-aware alphabet (thorough: also length 5 under 4 configurations incl. one with a single preloaded entry); (c) integers with 1..11 continuation octets in every integer position (index, name index, table size, string lengths) in 4 fill patterns x 4 terminations x {nothing, one field} following. "+
			"(d) rejected-then-next-block: [nothing | one fragment] + one fragment cut at every byte position 1..len (complete included: the malformed fragments) as the first block, and every 1-sequence of the fragment alphabet plus every 2-sequence of its first 8 (thorough: wide alphabet, first 14) as the second block, presented as exactly these two blocks. "+
			"each input under every configuration of max string length {0,1,5} x table size {4096,40,0} x preloaded entries {2,0} (thorough: {0,1,2,5} x {4096,40,0,70} x {2,0}; here %d), as one block and as two blocks (Close in between) split at every interior position. reuse: whenever the first of two blocks is rejected (Write error, then Close to end the block; or Close error on a block that ends inside a representation) the second block is given to the SAME Decoder as a new header block and judged against the reference decoding that block alone. non-trivial = input for which, in some configuration, the reference decoded at least one complete representation and the run was compared",
			len(c02ByteAlphabet(quick)), len(c02Fragments(false)), len(c02Fragments(true)), len(grid)))
		c.Assume("a table size update that follows a field representation in the same block is outside the compared domain: RFC 7541 §4.2 says where an encoder must put it but not what a decoder does otherwise (the implementation accepts it iff its table is empty); fields emitted before it are still compared")
		c.Assume("reuse after a rejected block: RFC 7541 defines no dynamic table state after a decoding error, so the block that follows a rejected block is compared only as far as it is table-independent: static-table references and literals are compared (emitted fields, acceptance of malformed input, rejection of valid input); from its first reference to a dynamic table index (>61) or dynamic table size update onwards nothing is compared (only the fields emitted before it), and the dynamic table after such a run is not compared (its size invariants are still checked after every call). A block rejected by Write is ended with Close (result ignored) before the next block; the decoder is not used again after a second rejected block")
		c.Assume("limit errors accepted for a well-formed block: ErrStringLength when some string of that block (wire length, decoded length, or a referenced table entry's name/value) exceeds the configured maximum, varint overflow when an integer uses more than 9 continuation octets (RFC 7541 §5.1 permits implementation limits)")
		c.Assume("Write-level splits inside a block are C03's subject; here every block is one Write")

		var runs, reuses atomic.Int64
		defer func() {
			c.Note("decoder_runs", runs.Load())
			c.Note("runs_reusing_the_decoder_after_a_rejected_block", reuses.Load())
		}()
		mkCheck := func(cfgs []c02Cfg, split bool) func(w *vx.W, x c02Case) {
			return func(w *vx.W, x c02Case) {
				b := c02Unhex(x.Block)
				nruns, reused := int64(0), int64(0)
				defer func() { runs.Add(nruns); reuses.Add(reused) }()
				reached := false
				// the reference does not depend on the string limit: one
				// reference run per (table, preload, split)
				type refKey struct {
					tab      uint32
					pre, cut int
				}
				refs := map[refKey]*c02RefRun{}
				// nor does the detached reference for the block after a rejected
				// one depend on the configuration at all: one per split
				dets := map[int]*c02RefBlock{}
				for _, cfg := range cfgs {
					first, last := 0, 0
					if split {
						last = len(b) - 1
					}
					if x.Cut > 0 {
						first, last = x.Cut, x.Cut
					}
					for cut := first; cut <= last; cut++ {
						blocks := [][]byte{b}
						chunks := [][][]byte{{b}}
						if cut > 0 {
							blocks = [][]byte{b[:cut], b[cut:]}
							chunks = [][][]byte{{b[:cut]}, {b[cut:]}}
						}
						impl := c02RunImplReuse(cfg, chunks, true)
						ref := refs[refKey{cfg.Tab, cfg.Pre, cut}]
						if ref == nil {
							ref = c02RunRef(cfg, blocks)
							refs[refKey{cfg.Tab, cfg.Pre, cut}] = ref
						}
						det := func(bi int) *c02RefBlock {
							// two blocks at most: bi == 1
							if dets[cut] == nil {
								res := c02NewDetachedRefDec().Block(blocks[bi])
								dets[cut] = &res
							}
							return dets[cut]
						}
						nruns++
						if !c02Judge(w, x, cfg, blocks, impl, ref, det) {
							return
						}
						if ref.Reprs > 0 || len(impl.Post) > 0 && det(1).Reprs > 0 {
							reached = true
						}
						if len(impl.Post) > 0 {
							reused++
						}
						w.Outcome("ref=" + ref.Status + " impl=" + c02ErrClass(impl.Err))
					}
				}
				if reached {
					w.Nontrivial()
				}
			}
		}
		check := mkCheck(grid, true)

		// (b) structured inputs first: they give the shortest readable counterexamples
		genFragSeq := func(seq []c02Frag, yield func(c02Case) bool) bool {
			var head []byte
			var names []string
			for _, f := range seq[:len(seq)-1] {
				head = append(head, f.B...)
				names = append(names, f.Name)
			}
			last := seq[len(seq)-1]
			desc := strings.Join(append(names, last.Name), ", ")
			for cut := len(last.B); cut >= 1; cut-- {
				d := desc
				if cut < len(last.B) {
					d = fmt.Sprintf("%s (last cut to %d)", desc, cut)
				}
				if !yield(c02Case{Desc: d, Block: c02Hex(append(head[:len(head):len(head)], last.B[:cut]...))}) {
					return false
				}
			}
			return true
		}
		vx.Enumerate(c, "fragments", vx.Opts{}, func(yield func(c02Case) bool) {
			gen := func(seq []c02Frag) bool { return genFragSeq(seq, yield) }
			if quick {
				fr := c02Fragments(false)
				if vx.Strings(fr, 1, 2, gen) {
					vx.Strings(fr[:14], 3, 3, gen)
				}
				return
			}
			if vx.Strings(c02Fragments(true), 1, 3, gen) {
				vx.Strings(c02Fragments(false)[:10], 4, 4, gen)
			}
		}, check)

		// (b2) reuse after a rejected block: a first block that ends inside a
		// field representation (rejected by Close) or holds a malformed one
		// (rejected by Write), then a complete second block for the same Decoder
		vx.Enumerate(c, "rejected-then-next-block", vx.Opts{}, func(yield func(c02Case) bool) {
			fr := c02Fragments(!quick)
			tail2 := fr[:vx.Pick(c, 8, 14)]
			var tails [][]c02Frag
			for _, f := range fr {
				tails = append(tails, []c02Frag{f})
			}
			for _, f := range tail2 {
				for _, g := range tail2 {
					tails = append(tails, []c02Frag{f, g})
				}
			}
			heads := append([]c02Frag{{}}, fr...)
			for _, h := range heads {
				for _, m := range fr {
					for cut := len(m.B); cut >= 1; cut-- {
						first := append(append([]byte(nil), h.B...), m.B[:cut]...)
						d := m.Name
						if cut < len(m.B) {
							d = fmt.Sprintf("%s (cut to %d)", m.Name, cut)
						}
						if h.Name != "" {
							d = h.Name + ", " + d
						}
						for _, t := range tails {
							b, names := first[:len(first):len(first)], []string(nil)
							for _, f := range t {
								b = append(b, f.B...)
								names = append(names, f.Name)
							}
							if !yield(c02Case{Desc: d + " | " + strings.Join(names, ", "), Block: c02Hex(b), Cut: len(first)}) {
								return
							}
						}
					}
				}
			}
		}, check)

		// (c) integers with long tails in every integer position
		vx.Enumerate(c, "integer-tails", vx.Opts{}, func(yield func(c02Case) bool) {
			heads := []struct {
				name string
				b    []byte
			}{
				{"index", []byte{0xff}},
				{"incremental name index", []byte{0x7f}},
				{"plain name index", []byte{0x0f}},
				{"never-indexed name index", []byte{0x1f}},
				{"table size", []byte{0x3f}},
				{"name length", []byte{0x00, 0x7f}},
				{"huffman name length", []byte{0x00, 0xff}},
				{"value length", []byte{0x00, 0x00, 0x7f}},
			}
			for _, h := range heads {
				for k := 1; k <= 11; k++ {
					for _, fill := range []string{"80", "ff", "81,80", "ff,80"} {
						for _, term := range []string{"00", "01", "7f", "none"} {
							for _, tail := range []string{"", "82"} {
								b := append([]byte(nil), h.b...)
								for i := 0; i < k; i++ {
									switch {
									case fill == "80", (fill == "81,80" || fill == "ff,80") && i > 0:
										b = append(b, 0x80)
									case fill == "ff", fill == "ff,80":
										b = append(b, 0xff)
									default:
										b = append(b, 0x81)
									}
								}
								if term != "none" {
									b = append(b, c02Unhex(term)...)
								} else if tail != "" {
									continue
								}
								b = append(b, c02Unhex(tail)...)
								if !yield(c02Case{Desc: fmt.Sprintf("%s integer: %d continuation octets %s, end %s, then %q", h.name, k, fill, term, tail), Block: c02Hex(b)}) {
									return
								}
							}
						}
					}
				}
			}
		}, check)

		// (a) all short byte strings
		all := make([]byte, 256)
		for i := range all {
			all[i] = byte(i)
		}
		vx.Enumerate(c, "short-bytes", vx.Opts{NoSample: true}, func(yield func(c02Case) bool) {
			if !vx.Strings(all, 0, 2, func(b []byte) bool { return yield(c02Case{Desc: "bytes", Block: c02Hex(b)}) }) {
				return
			}
			vx.Strings(c02ByteAlphabet(quick), 3, 3, func(b []byte) bool { return yield(c02Case{Desc: "bytes", Block: c02Hex(b)}) })
		}, check)

		// (b') representation-aware byte strings
		aware := []byte{0x00, 0x82, 0x40, 0xbe, 0x7f, 0x80, 0x20, 0x3f, 0xff, 0x61, 0x01, 0x1f}
		if quick {
			aware = aware[:10]
		}
		vx.Enumerate(c, "aware-bytes", vx.Opts{NoSample: true}, func(yield func(c02Case) bool) {
			vx.Strings(aware, 4, 4, func(b []byte) bool { return yield(c02Case{Desc: "bytes", Block: c02Hex(b)}) })
		}, check)

		if !quick {
			vx.Enumerate(c, "aware-bytes-5", vx.Opts{NoSample: true}, func(yield func(c02Case) bool) {
				vx.Strings(aware, 5, 5, func(b []byte) bool { return yield(c02Case{Desc: "bytes", Block: c02Hex(b)}) })
			}, mkCheck(small, true))
			vx.Enumerate(c, "all-3-bytes", vx.Opts{NoSample: true}, func(yield func(c02Case) bool) {
				vx.Strings(all, 3, 3, func(b []byte) bool { return yield(c02Case{Desc: "bytes", Block: c02Hex(b)}) })
			}, mkCheck(small[:1], false))
		}
	})
}

// c02ByteAlphabet is the boundary alphabet for 3-byte strings: one first octet
// on each side of every representation / prefix-saturation / table-index
// boundary, plus continuation, string-length and Huffman payload octets.
func c02ByteAlphabet(quick bool) []byte {
	a := []byte{
		0x80, 0x81, 0xbd, 0xbe, 0xbf, 0xc0, 0xff, // indexed: 0, 1, 61, 62, 63, 64, saturated
		0x40, 0x41, 0x7e, 0x7f, // incremental: new name, 1, 62, saturated
		0x00, 0x01, 0x0f, // without indexing: new name, 1, saturated
		0x10, 0x1f, // never indexed
		0x20, 0x3f, // table size 0, saturated
		0x02, 0x2f, 0x09, 0x29, // lengths / continuation values (0f 2f = 62, 3f 09 = 40, 3f 29 = 72)
		0x82, 0x83, 0x84, // Huffman string lengths
		0x61, 0x1f, 0x07, 0xfc, // 'a', Huffman 'a'+padding, Huffman '0'+padding, 6 ones + 00
		0x1e, 0x06, // Huffman 'a' / '0' followed by padding whose last bit is 0
	}
	if !quick {
		a = append(a, 0xfe, 0x7d, 0x0e, 0x11, 0x21, 0x3e, 0x03) // indexed 126, name index 61 / 14, never-indexed 1, table size 1 / 30, length 3
		for v := 0; v < 256; v += 8 {
			a = append(a, byte(v+5))
		}
	}
	seen := map[byte]bool{}
	var out []byte
	for _, v := range a {
		if !seen[v] {
			seen[v] = true
			out = append(out, v)
		}
	}
	return out
}
