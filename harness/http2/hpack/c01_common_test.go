package hpack

// Shared driver of the C01 (round trip) and C05 (sensitive fields) checks:
// one real Encoder and one real Decoder run in lock-step under an operation
// sequence search (vx.Seq); a boring RFC 7541 reference decoder reads the same
// wire bytes and is the model both real tables are compared with.

import (
	"bytes"
	"fmt"
	"sort"
	"strconv"
	"strings"
	"sync"

	"golang.org/x/net/internal/zzverif/vx"
)

// ---------------------------------------------------------------------------
// Operation alphabet
// ---------------------------------------------------------------------------

type c01Kind uint8

const (
	c01KField c01Kind = iota // enc.WriteField(f)
	c01KEnd                  // close the header block: decode, compare
	c01KPeer                 // SETTINGS exchange: dec.SetAllowedMaxDynamicTableSize(v) + enc.SetMaxDynamicTableSize(v)
	c01KLimit                // enc.SetMaxDynamicTableSizeLimit(v) (encoder-local)
	c01KBlock                // a whole one-field header block: Field immediately followed by End
	c01KFill                 // a whole header block of many small distinct fields (fs), used as a seed prefix that fills the table
)

type c01OpDef struct {
	label string // ASCII, the JSON form of the op
	kind  c01Kind
	f     HeaderField
	v     uint32
	fs    []HeaderField // c01KFill
}

// c01Op indexes c01OpTab (immutable).
type c01Op uint16

func c01F(label, n, v string) c01OpDef {
	return c01OpDef{label: "F(" + label + ")", kind: c01KField, f: HeaderField{Name: n, Value: v}}
}
func c01S(label, n, v string) c01OpDef {
	return c01OpDef{label: "S(" + label + ")", kind: c01KField, f: HeaderField{Name: n, Value: v, Sensitive: true}}
}
func c01B(label, n, v string, sens bool) c01OpDef {
	return c01OpDef{label: "B(" + label + ")", kind: c01KBlock, f: HeaderField{Name: n, Value: v, Sensitive: sens}}
}
func c01P(v uint32) c01OpDef {
	return c01OpDef{label: fmt.Sprintf("Peer(%d)", v), kind: c01KPeer, v: v}
}
func c01L(v uint32) c01OpDef {
	return c01OpDef{label: fmt.Sprintf("Limit(%d)", v), kind: c01KLimit, v: v}
}

// Entry sizes (RFC 7541 §4.1: len(name)+len(value)+32):
// (=)32 (n=)33 (k=)33 (=e)33 (k=v)34 (k=w)34 (b=…)36 (:method=X)40 (cookie=v)39 (h=aaaaaaaa)41 (big=…)135.
// Table sizes 33 / 70 therefore hold exactly the empty entry / two of the
// small ones, and 30 / 31 sit on the two sides of the 5-bit prefix boundary.
var c01OpTab = []c01OpDef{
	c01F(":method=GET", ":method", "GET"),              // static full match (index 2)
	c01F(":method=X", ":method", "X"),                  // static name-only match (pseudo header)
	c01F("cookie=v", "cookie", "v"),                    // static name-only match (index 32)
	c01F("cookie=w", "cookie", "w"),                    // static name vs dynamic name of the sibling
	c01F("k=v", "k", "v"),                              // no static match
	c01F("k=w", "k", "w"),                              // same name, other value (dynamic name-only match, newest wins)
	c01F("=", "", ""),                                  // empty name and value (size 32)
	c01F("n=", "n", ""),                                // empty value
	c01F("=e", "", "e"),                                // empty name
	c01F("h=aaaaaaaa", "h", "aaaaaaaa"),                // Huffman is shorter
	c01F("b=0xf8f9fa", "b", "\xf8\xf9\xfa"),            // Huffman is longer
	c01F("big=z*100", "big", strings.Repeat("z", 100)), // larger than the small tables
	c01S(":method=GET", ":method", "GET"),
	c01S("cookie=v", "cookie", "v"), // name index 32 >= 15: multi-byte 4-bit-prefix integer
	c01S("k=v", "k", "v"),
	c01S("k=w", "k", "w"),
	c01S("h=aaaaaaaa", "h", "aaaaaaaa"),
	c01S("accept-charset=u", "accept-charset", "u"), // name index 15: exactly the 4-bit prefix boundary
	c01S(":status=5", ":status", "5"),               // name index 14: just below it
	c01S("=", "", ""),
	// C05: the empty value on each side of every table-match situation (most static entries are (name, "")).
	c01F("k=", "k", ""),                   // size 33; with k=v / k=w: dynamic name-only match, then dynamic full match of its sensitive twin
	c01S("k=", "k", ""),                   // no match / dynamic name match / dynamic full match, empty value
	c01F("cookie=", "cookie", ""),         // static full match with an empty value (index 32)
	c01S("cookie=", "cookie", ""),         // ... sensitive: identical static entry exists, index >= 15
	c01S(":authority=", ":authority", ""), // ... index 1 < 15
	c01S(":method=", ":method", ""),       // static name-only match, empty value
	c01B("k=v", "k", "v", false), c01B("k=w", "k", "w", false), c01B("=", "", "", false), c01B("cookie=v", "cookie", "v", false),
	c01B("big=z*100", "big", strings.Repeat("z", 100), false), c01B("S:k=v", "k", "v", true),
	{label: "End", kind: c01KEnd},
	c01P(0), c01P(33), c01P(70), c01P(4096), c01P(8192), c01P(30), c01P(31),
	c01L(0), c01L(70), c01L(4096), c01L(16384),
}

// ---------------------------------------------------------------------------
// Prefixed-integer boundary alphabet (RFC 7541 §5.1). Every integer the
// Encoder writes (string length: 7-bit prefix; indexed field: 7; name index
// of an incremental literal: 6, of a never-indexed / without-indexing
// literal: 4; table size update: 5) changes shape at prefix-max = 2^N-1
// (one byte -> prefix + continuation) and again wherever the remainder
// i-(2^N-1) crosses a power of 128 (128, 16384: one more continuation
// byte). The fields below put one value on each side of (and on) each of
// these boundaries.
// ---------------------------------------------------------------------------

// c01StrLens are the encoded string lengths around the first two boundaries
// of the 7-bit prefix: prefix-max 127 and remainder 128 (= 255).
var c01StrLens = []int{126, 127, 128, 254, 255, 256}

// c01LongStrLens: around remainder 16384 (= 127+16384), the second
// continuation byte.
var c01LongStrLens = []int{16510, 16511, 16512}

// c01RawStr has encoded length n as a raw literal: 'X' has an 8-bit Huffman
// code (RFC 7541 Appendix B), so Huffman coding is not strictly shorter.
func c01RawStr(n int) string { return strings.Repeat("X", n) }

// c01HufStr is the longest run of 'a' (5-bit code) whose Huffman coding,
// padded to whole octets, is exactly n octets long (n=255: 408 x 'a').
func c01HufStr(n int) string { return strings.Repeat("a", 8*n/5) }

// After the seed block Fill (c01FillN fields x000=v .. x209=v, each a new
// 37-octet entry, in a table of 8192) entry xI sits at HPACK index
// 62+(c01FillN-1-I); c01XAt(idx) is the entry number found at index idx then.
const c01FillN = 210

func c01XName(i int) string { return fmt.Sprintf("x%03d", i) }
func c01XAt(idx int) int    { return c01FillN + 61 - idx }

var (
	c01IdxIndexed     = []int{126, 127, 128, 254, 255, 256} // indexed field, 7-bit prefix: 127, 127+128
	c01IdxIncremental = []int{62, 63, 64, 190, 191, 192}    // name index of a literal with incremental indexing, 6-bit prefix: 63, 63+128
	c01IdxNever       = []int{142, 143, 144}                // name index of a never-indexed literal, 4-bit prefix: 15+128 (14/15/32 are static names above)
)

func c01BoundaryOps() (all, strOps, longOps, idxOps []c01OpDef) {
	for _, coding := range []string{"raw", "huf"} {
		mk := c01RawStr
		if coding == "huf" {
			mk = c01HufStr
		}
		for _, n := range c01StrLens {
			l := fmt.Sprintf("%s%d", coding, n)
			strOps = append(strOps, c01F("k="+l, "k", mk(n)), c01F(l+"=v", mk(n), "v"), c01S("k="+l, "k", mk(n)), c01S(l+"=v", mk(n), "v"))
		}
		for _, n := range c01LongStrLens {
			l := fmt.Sprintf("%s%d", coding, n)
			longOps = append(longOps, c01F("k="+l, "k", mk(n)), c01F(l+"=v", mk(n), "v"))
		}
	}
	fill := c01OpDef{label: fmt.Sprintf("Fill(%s..%s=v)", c01XName(0), c01XName(c01FillN-1)), kind: c01KFill}
	for i := 0; i < c01FillN; i++ {
		fill.fs = append(fill.fs, HeaderField{Name: c01XName(i), Value: "v"})
	}
	idxOps = append(idxOps, fill)
	for _, idx := range c01IdxIndexed {
		n := c01XName(c01XAt(idx))
		idxOps = append(idxOps, c01F(n+"=v", n, "v")) // full match of the entry at index idx
	}
	for _, idx := range c01IdxIncremental {
		n := c01XName(c01XAt(idx))
		idxOps = append(idxOps, c01F(n+"=w", n, "w")) // name matched only by the entry at index idx; indexed as a new entry
	}
	for _, idx := range c01IdxNever {
		n := c01XName(c01XAt(idx))
		idxOps = append(idxOps, c01S(n+"=w", n, "w")) // name matched only by the entry at index idx
	}
	all = append(append(append(all, strOps...), longOps...), idxOps...)
	// table size update, 5-bit prefix: 31 (with 30 above), 31+128
	all = append(all, c01P(32), c01P(158), c01P(159), c01P(160))
	return
}

// ---------------------------------------------------------------------------
// Static-table alphabet (RFC 7541 Appendix A). The Decoder resolves every
// index i through one comparison against the static table length (i <= 61:
// static entry i, else dynamic entry i-61), and the Encoder picks static
// indexes through two maps (name+value, name). The fields below make the
// Encoder emit EVERY static index 1..61 - in particular the first (1) and the
// last (61), whose neighbour 62 is the first dynamic entry - in every
// representation that carries an index:
//   - F(name=value) for each of the 61 entries (most values are ""): an exact
//     match, i.e. the Indexed Header Field i;
//   - F(name=zz) for each of the 52 distinct names: a name-only match, i.e. a
//     literal with incremental indexing (after Peer(0): without indexing) whose
//     name index is the static index the Encoder's name map holds for it;
//   - S(name=zz) for the same names: a never-indexed literal with that name index.
// "zz" is the value of no static entry.
// ---------------------------------------------------------------------------

const c01OtherValue = "zz"

// c01StaticOps returns the op definitions in static-table order (exact match,
// then - at the last entry of each name - the two name-only matches). Some of
// them already exist in c01OpTab under the same label (F(:method=GET), ...);
// init adds only the missing ones.
func c01StaticOps() (defs []c01OpDef) {
	for i, e := range c01Static {
		defs = append(defs, c01F(e.n+"="+e.v, e.n, e.v))
		if i+1 < len(c01Static) && c01Static[i+1].n == e.n {
			continue // equal names are adjacent in Appendix A
		}
		defs = append(defs, c01F(e.n+"="+c01OtherValue, e.n, c01OtherValue), c01S(e.n+"="+c01OtherValue, e.n, c01OtherValue))
	}
	return
}

// c01IdxClass places a table index found in an accepted block relative to the
// static/dynamic boundary (vacuity evidence only).
func c01IdxClass(idx uint64) string {
	switch {
	case idx == 1:
		return "idx:static-first(1)"
	case idx < 61:
		return "idx:static-2..60"
	case idx == 61:
		return "idx:static-last(61)"
	case idx == 62:
		return "idx:dynamic-first(62)"
	}
	return "idx:dynamic-above-62"
}

func c01Labels(ds []c01OpDef) []string {
	var out []string
	for _, d := range ds {
		out = append(out, d.label)
	}
	return out
}

func init() {
	all, _, _, _ := c01BoundaryOps()
	c01OpTab = append(c01OpTab, all...)
	seen := map[string]bool{}
	for _, d := range c01OpTab {
		if seen[d.label] {
			panic("c01: duplicate op label " + d.label)
		}
		seen[d.label] = true
	}
	for _, d := range c01StaticOps() {
		if !seen[d.label] { // a few exist above under the same label (and, by construction of the label, the same field)
			c01OpTab = append(c01OpTab, d)
			seen[d.label] = true
		}
	}
	if len(c01OpTab) > 65535 {
		panic("c01: op table exceeds the uint16 index")
	}
}

func c01OpByLabel(l string) (c01Op, bool) {
	for i, d := range c01OpTab {
		if d.label == l {
			return c01Op(i), true
		}
	}
	return 0, false
}

func c01Ops(labels ...string) []c01Op {
	var out []c01Op
	for _, l := range labels {
		o, ok := c01OpByLabel(l)
		if !ok {
			panic("c01: unknown op label " + l)
		}
		out = append(out, o)
	}
	return out
}

func (o c01Op) def() c01OpDef { return c01OpTab[o] }

func (o c01Op) String() string { return c01OpTab[o].label }

func (o c01Op) MarshalJSON() ([]byte, error) { return []byte(`"` + c01OpTab[o].label + `"`), nil }

func (o *c01Op) UnmarshalJSON(b []byte) error {
	v, ok := c01OpByLabel(strings.Trim(string(b), `"`))
	if !ok {
		return fmt.Errorf("c01: unknown op %s", b)
	}
	*o = v
	return nil
}

// ---------------------------------------------------------------------------
// Reference decoder: a line-by-line transcription of RFC 7541 (§2.3, §4, §5,
// §6, Appendix A), with no resource limits and no knowledge of the package's
// table code. It only shares the Huffman code *table data* with the package
// (C04 checks that table).
// ---------------------------------------------------------------------------

type c01Pair struct{ n, v string }

// RFC 7541 Appendix A.
var c01Static = [61]c01Pair{
	{":authority", ""}, {":method", "GET"}, {":method", "POST"}, {":path", "/"}, {":path", "/index.html"},
	{":scheme", "http"}, {":scheme", "https"}, {":status", "200"}, {":status", "204"}, {":status", "206"},
	{":status", "304"}, {":status", "400"}, {":status", "404"}, {":status", "500"}, {"accept-charset", ""},
	{"accept-encoding", "gzip, deflate"}, {"accept-language", ""}, {"accept-ranges", ""}, {"accept", ""},
	{"access-control-allow-origin", ""}, {"age", ""}, {"allow", ""}, {"authorization", ""}, {"cache-control", ""},
	{"content-disposition", ""}, {"content-encoding", ""}, {"content-language", ""}, {"content-length", ""},
	{"content-location", ""}, {"content-range", ""}, {"content-type", ""}, {"cookie", ""}, {"date", ""}, {"etag", ""},
	{"expect", ""}, {"expires", ""}, {"from", ""}, {"host", ""}, {"if-match", ""}, {"if-modified-since", ""},
	{"if-none-match", ""}, {"if-range", ""}, {"if-unmodified-since", ""}, {"last-modified", ""}, {"link", ""},
	{"location", ""}, {"max-forwards", ""}, {"proxy-authenticate", ""}, {"proxy-authorization", ""}, {"range", ""},
	{"referer", ""}, {"refresh", ""}, {"retry-after", ""}, {"server", ""}, {"set-cookie", ""},
	{"strict-transport-security", ""}, {"transfer-encoding", ""}, {"user-agent", ""}, {"vary", ""}, {"via", ""},
	{"www-authenticate", ""},
}

type c01Ref struct {
	ents      []c01Pair // ents[0] is the newest entry (HPACK index 62)
	size      uint64
	max       uint64
	allowed   uint64
	fieldSeen bool        // a field representation was decoded in the open block
	ints      []c01IntObs // every prefixed integer read by the last decode call (vacuity evidence only)
}

// c01IntObs is one prefixed integer the reference decoder read: prefix bits and value.
type c01IntObs struct {
	n uint
	v uint64
}

// c01IntClass places v relative to the shape boundaries of an n-bit prefix integer.
func c01IntClass(o c01IntObs) string {
	k := uint64(1)<<o.n - 1
	pre := fmt.Sprintf("int%d:", o.n)
	switch rem := o.v - k; {
	case o.v < k:
		return pre + "below-prefix-max"
	case rem == 0:
		return pre + "prefix-max"
	case rem < 127:
		return pre + "rem-1..126"
	case rem == 127 || rem == 128:
		return pre + fmt.Sprintf("rem-%d", rem)
	case rem < 16383:
		return pre + "rem-129..16382"
	case rem == 16383 || rem == 16384:
		return pre + fmt.Sprintf("rem-%d", rem)
	}
	return pre + "rem-above-16384"
}

// c01Repr is one decoded representation.
type c01Repr struct {
	kind byte   // 'I' indexed, 'A' literal with incremental indexing, 'W' literal without indexing, 'N' literal never indexed, 'U' size update
	idx  uint64 // index ('I'), name index (literals, 0 = new name), new size ('U')
	f    HeaderField
}

func c01EntrySize(p c01Pair) uint64 { return uint64(len(p.n)) + uint64(len(p.v)) + 32 }

func (r *c01Ref) at(i uint64) (c01Pair, bool) {
	if i == 0 {
		return c01Pair{}, false
	}
	if i <= 61 {
		return c01Static[i-1], true
	}
	if i-62 < uint64(len(r.ents)) {
		return r.ents[i-62], true
	}
	return c01Pair{}, false
}

func (r *c01Ref) evictTo(limit uint64) {
	for r.size > limit && len(r.ents) > 0 {
		last := r.ents[len(r.ents)-1]
		r.ents = r.ents[:len(r.ents)-1]
		r.size -= c01EntrySize(last)
	}
}

// §4.3
func (r *c01Ref) setMax(v uint64) {
	r.max = v
	r.evictTo(v)
}

// §4.4
func (r *c01Ref) add(p c01Pair) {
	sz := c01EntrySize(p)
	if sz > r.max {
		r.evictTo(0)
		return
	}
	r.evictTo(r.max - sz)
	r.ents = append(r.ents, c01Pair{}) // insert at the front (index 62)
	copy(r.ents[1:], r.ents)
	r.ents[0] = p
	r.size += sz
}

// §5.1
func c01RefInt(p []byte, n uint) (uint64, []byte, string) {
	if len(p) == 0 {
		return 0, nil, "truncated"
	}
	k := uint64(1)<<n - 1
	i := uint64(p[0]) & k
	p = p[1:]
	if i < k {
		return i, p, ""
	}
	var m uint
	for {
		if len(p) == 0 {
			return 0, nil, "truncated"
		}
		b := p[0]
		p = p[1:]
		if m > 56 {
			return 0, nil, "integer-overflow"
		}
		i += uint64(b&127) << m
		m += 7
		if b&128 == 0 {
			return i, p, ""
		}
	}
}

var (
	c01HuffOnce sync.Once
	c01HuffMap  map[uint64]byte // (len<<32 | code) -> symbol
)

// §5.2 + Appendix B, bit by bit.
func c01HuffDecode(b []byte) (string, bool) {
	c01HuffOnce.Do(func() {
		c01HuffMap = make(map[uint64]byte, 256)
		for sym := 0; sym < 256; sym++ {
			c01HuffMap[uint64(huffmanCodeLen[sym])<<32|uint64(huffmanCodes[sym])] = byte(sym)
		}
	})
	var out []byte
	var code uint64
	var n uint
	for _, x := range b {
		for bit := 7; bit >= 0; bit-- {
			code = code<<1 | uint64(x>>uint(bit)&1)
			n++
			if n > 30 {
				return "", false
			}
			if sym, ok := c01HuffMap[uint64(n)<<32|code]; ok {
				out = append(out, sym)
				code, n = 0, 0
			}
		}
	}
	if n > 7 || code != uint64(1)<<n-1 {
		return "", false // EOS inside, padding too long or not all ones
	}
	return string(out), true
}

func c01RefString(p []byte, obs *[]c01IntObs) (string, []byte, string) {
	if len(p) == 0 {
		return "", nil, "truncated"
	}
	huff := p[0]&0x80 != 0
	l, p, e := c01RefInt(p, 7)
	if e != "" {
		return "", nil, e
	}
	*obs = append(*obs, c01IntObs{7, l})
	if uint64(len(p)) < l {
		return "", nil, "truncated"
	}
	raw := p[:l]
	p = p[l:]
	if !huff {
		return string(raw), p, ""
	}
	s, ok := c01HuffDecode(raw)
	if !ok {
		return "", nil, "bad-huffman"
	}
	return s, p, ""
}

// decode consumes a sequence of complete representations.
func (r *c01Ref) decode(p []byte) (reprs []c01Repr, errClass string) {
	r.ints = r.ints[:0]
	for len(p) > 0 {
		c := p[0]
		var rp c01Repr
		var e string
		lit := func(n uint, kind byte) string {
			var idx uint64
			idx, p, e = c01RefInt(p, n)
			if e != "" {
				return e
			}
			r.ints = append(r.ints, c01IntObs{n, idx})
			var name, value string
			if idx != 0 {
				pr, ok := r.at(idx)
				if !ok {
					return "bad-index"
				}
				name = pr.n
			} else {
				name, p, e = c01RefString(p, &r.ints)
				if e != "" {
					return e
				}
			}
			value, p, e = c01RefString(p, &r.ints)
			if e != "" {
				return e
			}
			if kind == 'A' {
				r.add(c01Pair{name, value})
			}
			rp = c01Repr{kind: kind, idx: idx, f: HeaderField{Name: name, Value: value, Sensitive: kind == 'N'}}
			r.fieldSeen = true
			return ""
		}
		switch {
		case c&0x80 != 0: // §6.1
			var idx uint64
			idx, p, e = c01RefInt(p, 7)
			if e == "" {
				r.ints = append(r.ints, c01IntObs{7, idx})
				pr, ok := r.at(idx)
				if !ok {
					e = "bad-index"
				} else {
					rp = c01Repr{kind: 'I', idx: idx, f: HeaderField{Name: pr.n, Value: pr.v}}
					r.fieldSeen = true
				}
			}
		case c&0xc0 == 0x40: // §6.2.1
			e = lit(6, 'A')
		case c&0xf0 == 0x00: // §6.2.2
			e = lit(4, 'W')
		case c&0xf0 == 0x10: // §6.2.3
			e = lit(4, 'N')
		default: // c&0xe0 == 0x20, §6.3
			if r.fieldSeen {
				// §4.2: size updates occur at the beginning of a header block
				// (any number of them, §4.2 speaks of "multiple updates").
				e = "size-update-after-field"
				break
			}
			var v uint64
			v, p, e = c01RefInt(p, 5)
			if e == "" {
				r.ints = append(r.ints, c01IntObs{5, v})
				if v > r.allowed {
					e = "size-update-above-allowed"
				} else {
					r.setMax(v)
					rp = c01Repr{kind: 'U', idx: v}
				}
			}
		}
		if e != "" {
			return reprs, e
		}
		reprs = append(reprs, rp)
	}
	return reprs, ""
}

// ---------------------------------------------------------------------------
// State = real encoder + real decoder + reference decoder + bookkeeping
// ---------------------------------------------------------------------------

type c01State struct {
	id       string // "C01" or "C05": prefix of signatures
	perField bool   // C05: feed the decoder after every field instead of once per block

	enc  *Encoder
	wire bytes.Buffer // sink of the encoder; holds the bytes of the last WriteField
	dec  *Decoder
	got  []HeaderField // emitted by the real decoder in the open block

	ref c01Ref

	pend  []HeaderField // fields written in the open block
	block []byte        // their wire bytes (C01: not yet seen by the decoders)

	// model of the size-change history (from the operations alone)
	mEncMax      uint64 // encoder table size per the documented semantics of the two setters
	mLimit       uint64
	updPending   bool   // a size change happened since the last field
	peerFloor    uint64 // smallest effective Peer() size since the last field (valid if peerSeen)
	peerSeen     bool
	blkPeerFloor uint64 // the same, frozen for the open block
	blkPeerSeen  bool
	limitLowered bool // an encoder-local Limit() shrank the encoder table at some point (see c01Lockstep)

	// C05 (perField) only
	nsWritten map[c01Pair]bool // pairs that were written at least once with Sensitive=false
	open      bool             // a block is open (pend is not kept in this mode)
	openSens  bool             // ... and holds a sensitive field
}

func c01New(id string, perField bool) *c01State {
	s := &c01State{id: id, perField: perField, mEncMax: 4096, mLimit: 4096}
	s.enc = NewEncoder(&s.wire)
	s.dec = NewDecoder(4096, func(f HeaderField) { s.got = append(s.got, f) })
	s.ref = c01Ref{max: 4096, allowed: 4096}
	if perField {
		s.nsWritten = map[c01Pair]bool{}
	}
	return s
}

// c01Q quotes a string; long ones (the length-boundary alphabet) are shortened to head + length.
func c01Q(x string) string {
	if len(x) <= 48 {
		return strconv.Quote(x)
	}
	return fmt.Sprintf("%q...(%d octets)", x[:8], len(x))
}

// c01Hex prints wire bytes; long blocks are shortened to head + tail + length.
func c01Hex(b []byte) string {
	if len(b) <= 160 {
		return fmt.Sprintf("%x", b)
	}
	return fmt.Sprintf("%x...%x(%d octets)", b[:96], b[len(b)-16:], len(b))
}

func c01FieldsString(fs []HeaderField) string {
	var b strings.Builder
	for i, f := range fs {
		if len(fs) > 12 && i == 4 {
			fmt.Fprintf(&b, " ...(%d fields)...", len(fs)-8)
		}
		if len(fs) > 12 && i >= 4 && i < len(fs)-4 {
			continue
		}
		if i > 0 {
			b.WriteString(" ")
		}
		b.WriteString(c01Q(f.Name) + "=" + c01Q(f.Value))
		if f.Sensitive {
			b.WriteString("(S)")
		}
	}
	return "[" + b.String() + "]"
}

func c01EntsString(t *headerFieldTable) string { return c01FieldsString(t.ents) }

func c01RefEntsString(r *c01Ref) string {
	// oldest first, like headerFieldTable.ents
	fs := make([]HeaderField, 0, len(r.ents))
	for i := len(r.ents) - 1; i >= 0; i-- {
		fs = append(fs, HeaderField{Name: r.ents[i].n, Value: r.ents[i].v})
	}
	return c01FieldsString(fs)
}

func c01Canon(s *c01State) string {
	n := 256 + 2*len(s.block)
	for _, t := range []*headerFieldTable{&s.enc.dynTab.table, &s.dec.dynTab.table} {
		for _, e := range t.ents {
			n += 2 * (len(e.Name) + len(e.Value) + 12) // twice: the reference table holds the same entries
		}
	}
	for _, f := range s.pend {
		n += len(f.Name) + len(f.Value) + 12
	}
	b := make([]byte, 0, n)
	num := func(v uint64) { b = strconv.AppendUint(b, v, 10); b = append(b, ',') }
	flag := func(v bool) {
		if v {
			b = append(b, 'T')
		} else {
			b = append(b, 'F')
		}
	}
	str := func(x string) { num(uint64(len(x))); b = append(b, x...) }
	ents := func(t *headerFieldTable) {
		for _, e := range t.ents {
			str(e.Name)
			str(e.Value)
			flag(e.Sensitive)
		}
	}
	b = append(b, 'E')
	ents(&s.enc.dynTab.table)
	b = append(b, '|')
	num(uint64(s.enc.dynTab.size))
	num(uint64(s.enc.dynTab.maxSize))
	num(uint64(s.enc.minSize))
	num(uint64(s.enc.maxSizeLimit))
	flag(s.enc.tableSizeUpdate)
	b = append(b, "|D"...)
	ents(&s.dec.dynTab.table)
	b = append(b, '|')
	num(uint64(s.dec.dynTab.size))
	num(uint64(s.dec.dynTab.maxSize))
	num(uint64(s.dec.dynTab.allowedMaxSize))
	num(uint64(s.dec.saveBuf.Len()))
	flag(s.dec.firstField)
	b = append(b, "|R"...)
	for _, e := range s.ref.ents {
		str(e.n)
		str(e.v)
	}
	b = append(b, '|')
	num(s.ref.size)
	num(s.ref.max)
	num(s.ref.allowed)
	flag(s.ref.fieldSeen)
	b = append(b, "|P"...)
	for _, f := range s.pend {
		str(f.Name)
		str(f.Value)
		flag(f.Sensitive)
	}
	b = append(b, "|B"...)
	num(uint64(len(s.block)))
	b = append(b, s.block...)
	b = append(b, "|M"...)
	num(uint64(len(s.got)))
	num(s.mEncMax)
	num(s.mLimit)
	num(s.peerFloor)
	num(s.blkPeerFloor)
	flag(s.updPending)
	flag(s.peerSeen)
	flag(s.blkPeerSeen)
	flag(s.limitLowered)
	flag(s.open)
	flag(s.openSens)
	if s.nsWritten != nil {
		var ks []string
		for p := range s.nsWritten {
			ks = append(ks, strconv.Itoa(len(p.n))+":"+p.n+"="+p.v)
		}
		sort.Strings(ks)
		b = append(b, "|N"...)
		b = append(b, strings.Join(ks, ";")...)
	}
	return string(b)
}

// c01Enabled: table-size changes happen between header blocks only (that is
// where HTTP/2 applies SETTINGS to the HPACK contexts); an empty block is not
// a transition (it is a no-op on both sides).
func c01Enabled(s *c01State, op c01Op) bool {
	switch op.def().kind {
	case c01KEnd:
		return len(s.pend) > 0
	case c01KPeer, c01KLimit, c01KBlock, c01KFill:
		return len(s.pend) == 0
	}
	return true
}

// c01SizeChange applies Peer / Limit to the real objects and the model.
func c01SizeChange(s *c01State, d c01OpDef) {
	switch d.kind {
	case c01KPeer:
		s.dec.SetAllowedMaxDynamicTableSize(d.v)
		s.enc.SetMaxDynamicTableSize(d.v)
		s.ref.allowed = uint64(d.v)
		eff := min(uint64(d.v), s.mLimit)
		s.mEncMax = eff
		if !s.peerSeen || eff < s.peerFloor {
			s.peerFloor = eff
		}
		s.peerSeen = true
		s.updPending = true
	case c01KLimit:
		s.enc.SetMaxDynamicTableSizeLimit(d.v)
		s.mLimit = uint64(d.v)
		if s.mEncMax > s.mLimit {
			s.mEncMax = s.mLimit
			s.limitLowered = true
			s.updPending = true
		}
	}
}

// c01WriteField runs enc.WriteField(f) and records the bytes.
func c01WriteField(w *vx.W, s *c01State, f HeaderField) ([]byte, bool) {
	s.wire.Reset()
	if err := s.enc.WriteField(f); err != nil {
		w.Failf(s.id+"/encode/write-error", "WriteField(%v) = %v", f, err)
		return nil, false
	}
	out := append([]byte(nil), s.wire.Bytes()...)
	if len(s.pend) == 0 {
		s.blkPeerFloor, s.blkPeerSeen = s.peerFloor, s.peerSeen
		s.peerFloor, s.peerSeen = 0, false
	}
	s.updPending = false
	s.pend = append(s.pend, f)
	return out, true
}

// c01TableCheck: structural invariants of one real dynamic table.
func c01TableCheck(w *vx.W, s *c01State, who string, dt *dynamicTable, after string) bool {
	t := &dt.table
	var sum uint64
	for _, e := range t.ents {
		sum += uint64(len(e.Name)) + uint64(len(e.Value)) + 32
	}
	if uint64(dt.size) != sum {
		w.Failf(s.id+"/table/size-accounting/"+who, "after %s: %s dynTab.size=%d but entries %s sum to %d", after, who, dt.size, c01EntsString(t), sum)
		return false
	}
	if dt.size > dt.maxSize {
		w.Failf(s.id+"/table/size-exceeds-max/"+who, "after %s: %s dynTab.size=%d > maxSize=%d, entries %s", after, who, dt.size, dt.maxSize, c01EntsString(t))
		return false
	}
	// byName / byNameValue must map exactly the names / pairs present in ents
	// to the unique id of their newest occurrence (allocation-free: n is small).
	ok := true
	nNames, nPairs := 0, 0
	for k, e := range t.ents {
		newestName, newestPair := true, true
		for _, l := range t.ents[k+1:] {
			if l.Name == e.Name {
				newestName = false
				if l.Value == e.Value {
					newestPair = false
				}
			}
		}
		id := uint64(k) + t.evictCount + 1
		if newestName {
			nNames++
			if t.byName[e.Name] != id {
				ok = false
			}
		}
		if newestPair {
			nPairs++
			if t.byNameValue[pairNameValue{e.Name, e.Value}] != id {
				ok = false
			}
		}
	}
	if nNames != len(t.byName) || nPairs != len(t.byNameValue) {
		ok = false
	}
	if !ok {
		w.Failf(s.id+"/table/index-maps/"+who, "after %s: %s byName=%v byNameValue=%v do not map exactly the names / pairs of ents=%s (evictCount=%d) to the id (position+evictCount+1) of their newest occurrence",
			after, who, t.byName, t.byNameValue, c01EntsString(t), t.evictCount)
		return false
	}
	return true
}

func c01LeadingUpdates(reprs []c01Repr) (n int, minV uint64) {
	for _, r := range reprs {
		if r.kind != 'U' {
			break
		}
		if n == 0 || r.idx < minV {
			minV = r.idx
		}
		n++
	}
	return
}

func c01ReprFields(reprs []c01Repr) (fs []HeaderField, kinds []byte) {
	for _, r := range reprs {
		if r.kind != 'U' {
			fs = append(fs, r.f)
			kinds = append(kinds, r.kind)
		}
	}
	return
}

func c01FieldReprs(reprs []c01Repr) []c01Repr {
	var out []c01Repr
	for _, r := range reprs {
		if r.kind != 'U' {
			out = append(out, r)
		}
	}
	return out
}

func c01KindName(k byte, idx uint64) string {
	switch k {
	case 'I':
		if idx > 61 {
			return "indexed-dynamic"
		}
		return "indexed-static"
	case 'A', 'W', 'N':
		n := map[byte]string{'A': "incremental", 'W': "without-indexing", 'N': "never-indexed"}[k]
		switch {
		case idx == 0:
			return n + "-new-name"
		case idx > 61:
			return n + "-dynamic-name"
		}
		return n + "-static-name"
	}
	return "size-update"
}

// c01Lockstep compares the three tables after a block that both decoders
// accepted.
//
// real decoder vs reference decoder: always exactly equal (same bytes read).
// encoder vs decoder: maxSize equal; the encoder's entries are the newest
// entries of the decoder's table (index i resolves to the same entry on both
// sides, which is what the round trip needs); and the lists are *equal* as
// long as no encoder-local SetMaxDynamicTableSizeLimit call has shrunk the
// encoder's table in this history: such a shrink is not a protocol event
// (RFC 7541 §4.2 is about the decoder-imposed limit), the encoder does not
// signal its low-water mark, and the decoder may keep older entries that the
// encoder silently dropped, which is harmless for the round trip.
func c01Lockstep(w *vx.W, s *c01State, after string) bool {
	et, dtb := &s.enc.dynTab, &s.dec.dynTab
	// decoder vs reference
	same := len(dtb.table.ents) == len(s.ref.ents) && uint64(dtb.maxSize) == s.ref.max && uint64(dtb.size) == s.ref.size
	if same {
		n := len(s.ref.ents)
		for i, e := range dtb.table.ents {
			r := s.ref.ents[n-1-i]
			if e.Name != r.n || e.Value != r.v {
				same = false
			}
		}
	}
	if !same {
		w.Failf(s.id+"/lockstep/decoder-table-vs-reference", "after %s: decoder table %s size=%d max=%d, RFC reference decoder on the same bytes has %s size=%d max=%d",
			after, c01EntsString(&dtb.table), dtb.size, dtb.maxSize, c01RefEntsString(&s.ref), s.ref.size, s.ref.max)
		return false
	}
	if et.maxSize != dtb.maxSize {
		w.Failf(s.id+"/lockstep/maxSize", "after %s: encoder maxSize=%d, decoder maxSize=%d", after, et.maxSize, dtb.maxSize)
		return false
	}
	ee, de := et.table.ents, dtb.table.ents
	suffix := len(ee) <= len(de)
	if suffix {
		off := len(de) - len(ee)
		for i, e := range ee {
			if e.Name != de[off+i].Name || e.Value != de[off+i].Value {
				suffix = false
			}
		}
	}
	if !suffix {
		w.Failf(s.id+"/lockstep/entries/encoder-not-newest-part-of-decoder", "after %s: encoder table %s, decoder table %s", after, c01EntsString(&et.table), c01EntsString(&dtb.table))
		return false
	}
	if len(ee) != len(de) {
		if !s.limitLowered {
			w.Failf(s.id+"/lockstep/entries/decoder-keeps-entries-encoder-evicted", "after %s: encoder table %s, decoder table %s (no encoder-local limit change in this history)", after, c01EntsString(&et.table), c01EntsString(&dtb.table))
			return false
		}
		w.Outcome("decoder-keeps-older-entries-after-encoder-local-limit-shrink")
	}
	return true
}
