package hpack

// C01 — HPACK encode/decode round trip across table-size changes.
//
// SEQ search (vx.Seq, state dedup): one real Encoder, one real Decoder, a
// reference RFC 7541 decoder reading the same bytes. Operations: write one of
// a fixed set of fields into the open header block, End (feed the block to
// Decoder.Write in one piece, Close, compare), and between blocks Peer(v)
// (SETTINGS exchange) / Limit(w) (encoder-local limit).

import (
	"fmt"
	"sort"
	"strings"
	"testing"

	"golang.org/x/net/internal/zzverif/vx"
)

func c01Apply(w *vx.W, s *c01State, op c01Op) bool {
	d := op.def()
	switch d.kind {
	case c01KPeer, c01KLimit:
		c01SizeChange(s, d)
		return c01TableCheck(w, s, "encoder", &s.enc.dynTab, d.label)
	case c01KField, c01KBlock:
		out, ok := c01WriteField(w, s, d.f)
		if !ok {
			return false
		}
		s.block = append(s.block, out...)
		if !c01TableCheck(w, s, "encoder", &s.enc.dynTab, d.label) {
			return false
		}
		if d.kind == c01KField {
			return true
		}
	case c01KFill:
		// seed prefix: one block of many small new fields (the table checks are
		// made once, at the end of the block; the other parts make them per write)
		for _, f := range d.fs {
			out, ok := c01WriteField(w, s, f)
			if !ok {
				return false
			}
			s.block = append(s.block, out...)
		}
	}
	// End
	after := fmt.Sprintf("block %s (wire %s)", c01FieldsString(s.pend), c01Hex(s.block))
	reprs, rerr := s.ref.decode(s.block)
	s.ref.fieldSeen = false
	lead, minUpd := c01LeadingUpdates(reprs)
	rfields, rkinds := c01ReprFields(reprs)
	freprs := c01FieldReprs(reprs)
	refOK := rerr == "" && c01SameFields(rfields, s.pend) < 0

	_, werr := s.dec.Write(s.block)
	var cerr error
	if werr == nil {
		cerr = s.dec.Close()
	}
	if werr != nil || cerr != nil {
		err := werr
		if err == nil {
			err = cerr
		}
		if refOK {
			cls := "no-size-update"
			switch {
			case lead == 1:
				cls = "one-size-update-at-block-start"
			case lead >= 2:
				cls = "two-size-updates-at-block-start"
			}
			w.Failf("C01/decode-error/"+cls, "%s: Decoder rejects a block that the RFC 7541 reference decoder reads back exactly (%d leading size update(s)): %v; decoder table %s size=%d max=%d allowed=%d",
				after, lead, err, c01EntsString(&s.dec.dynTab.table), s.dec.dynTab.size, s.dec.dynTab.maxSize, s.dec.dynTab.allowedMaxSize)
		} else {
			why := rerr
			if why == "" {
				why = "decodes-to-other-fields"
			}
			w.Failf("C01/encode/invalid-block/"+why, "%s: Decoder error %v and the reference decoder does not read the written fields back either (%s; got %s)", after, err, why, c01FieldsString(rfields))
		}
		return false
	}
	if i := c01SameFields(s.got, s.pend); i >= 0 {
		cls, kind := "count", "none"
		if i < len(s.got) && i < len(s.pend) {
			cls = "name-or-value"
			if s.got[i].Name == s.pend[i].Name && s.got[i].Value == s.pend[i].Value {
				cls = "sensitive-flag"
			}
		}
		if i < len(rkinds) {
			kind = c01KindName(rkinds[i], freprs[i].idx)
		}
		w.Failf("C01/roundtrip/"+cls+"/"+kind, "%s: decoder emitted %s (first difference at field %d)", after, c01FieldsString(s.got), i)
		return false
	}
	if !refOK {
		why := rerr
		if why == "" {
			why = "decodes-to-other-fields"
		}
		w.Failf("C01/wire/reference-decoder-disagrees/"+why, "%s: the package's Decoder returns the written fields but the RFC 7541 reference decoder reads %s (err=%q)", after, c01FieldsString(rfields), rerr)
		return false
	}
	// RFC 7541 §4.2: the smallest size the decoder imposed since the last
	// block must be signalled (this is what keeps evictions in lock-step).
	if s.blkPeerSeen && (lead == 0 || minUpd > s.blkPeerFloor) {
		got := "none"
		if lead > 0 {
			got = fmt.Sprint(minUpd)
		}
		w.Failf("C01/size-update/smallest-size-not-signalled", "%s: SetMaxDynamicTableSize went down to %d since the previous block but the smallest size update at the block start is %s", after, s.blkPeerFloor, got)
		return false
	}
	if !c01TableCheck(w, s, "encoder", &s.enc.dynTab, after) || !c01TableCheck(w, s, "decoder", &s.dec.dynTab, after) {
		return false
	}
	if !c01Lockstep(w, s, after) {
		return false
	}
	ks := map[string]bool{}
	for i, k := range rkinds {
		ks[c01KindName(k, freprs[i].idx)] = true
	}
	var kl []string
	for k := range ks {
		kl = append(kl, k)
	}
	sort.Strings(kl)
	for _, k := range kl {
		w.Outcome("repr:" + k)
	}
	// which shapes of RFC 7541 §5.1 prefixed integers the accepted blocks contained
	for _, o := range s.ref.ints {
		w.Outcome(c01IntClass(o))
	}
	// which side of the static/dynamic index boundary (61 | 62) the accepted blocks referred to
	for _, r := range freprs {
		if r.idx != 0 {
			w.Outcome(c01IdxClass(r.idx))
		}
	}
	w.Outcome(fmt.Sprintf("end:updates=%d,ents=%d", lead, min(len(s.enc.dynTab.table.ents), 4)))
	w.Distinct(strings.Join(kl, ",") + fmt.Sprintf("|%d|%x", lead, s.block))
	s.pend, s.block, s.got = nil, nil, nil
	s.blkPeerSeen, s.blkPeerFloor = false, 0
	return true
}

// c01SameFields returns -1 if the lists are equal, else the first differing index.
func c01SameFields(a, b []HeaderField) int {
	for i := 0; i < len(a) && i < len(b); i++ {
		if a[i] != b[i] {
			return i
		}
	}
	if len(a) != len(b) {
		return min(len(a), len(b))
	}
	return -1
}

func TestVerif_C01(t *testing.T) {
	vx.Run(t, "C01", func(c *vx.Ctx) {
		// The embedded Appendix A table is the reference's; the package's must agree.
		vx.Enumerate(c, "static-table", vx.Opts{Serial: true}, func(yield func(int) bool) {
			for i := 0; i <= 61; i++ {
				if !yield(i) {
					return
				}
			}
		}, func(w *vx.W, i int) {
			if i == 61 {
				if staticTable.len() != 61 {
					w.Failf("C01/static-table/length", "static table has %d entries, RFC 7541 Appendix A has 61", staticTable.len())
				}
				w.Outcome("static-len-ok")
				return
			}
			if i < staticTable.len() {
				e := staticTable.ents[i]
				if e.Name != c01Static[i].n || e.Value != c01Static[i].v {
					w.Failf("C01/static-table/entry", "static table index %d is %q=%q, RFC 7541 Appendix A has %q=%q", i+1, e.Name, e.Value, c01Static[i].n, c01Static[i].v)
				}
			}
			w.Nontrivial()
			w.Outcome("static-entry-ok")
		})

		quickOps := c01Ops(
			"F(:method=GET)", "F(:method=X)", "F(cookie=v)", "F(cookie=w)", "F(k=v)", "F(k=w)", "F(=)", "F(n=)",
			"F(h=aaaaaaaa)", "F(b=0xf8f9fa)", "F(big=z*100)",
			"S(:method=GET)", "S(cookie=v)", "S(k=v)", "S(accept-charset=u)", "S(:status=5)",
			"End",
			"Peer(0)", "Peer(33)", "Peer(70)", "Peer(4096)",
			"Limit(0)", "Limit(70)", "Limit(4096)")
		thoroughOps := append(append([]c01Op(nil), quickOps...), c01Ops("F(=e)", "S(k=w)", "S(h=aaaaaaaa)", "Peer(30)", "Peer(31)", "Peer(8192)", "Limit(16384)")...)
		// thorough only: a smaller alphabet (one op per table/size situation) taken two steps deeper
		coreOps := c01Ops("F(k=v)", "F(k=w)", "F(=)", "F(cookie=v)", "F(big=z*100)", "S(k=v)", "End",
			"Peer(0)", "Peer(33)", "Peer(70)", "Peer(4096)", "Limit(70)", "Limit(4096)")
		// whole one-field blocks: no open-block component in the state, so the search goes much deeper
		blockOps := c01Ops("B(k=v)", "B(k=w)", "B(=)", "B(cookie=v)", "B(big=z*100)", "B(S:k=v)",
			"Peer(0)", "Peer(33)", "Peer(70)", "Peer(4096)", "Limit(0)", "Limit(70)", "Limit(4096)")
		if c.Quick() {
			blockOps = c01Ops("B(k=v)", "B(k=w)", "B(=)", "B(big=z*100)", "B(S:k=v)",
				"Peer(0)", "Peer(33)", "Peer(70)", "Peer(4096)", "Limit(70)", "Limit(4096)")
		}
		dBlocks := vx.Pick(c, 7, 10)
		// sizes above the 4096 default need Limit(16384) first: a small alphabet of their own
		largeOps := c01Ops("B(k=v)", "B(big=z*100)", "Peer(70)", "Peer(4096)", "Peer(8192)", "Limit(4096)", "Limit(16384)")
		dLarge := vx.Pick(c, 6, 12)
		ops := vx.Pick(c, quickOps, thoroughOps)
		seeds := [][]c01Op{
			c01Ops("F(k=v)", "End"),
			c01Ops("F(k=v)", "F(k=w)", "End"),
			c01Ops("F(k=v)", "F(k=w)", "F(b=0xf8f9fa)", "End"),
		}
		lab := func(ops []c01Op) string {
			var labels []string
			for _, o := range ops {
				labels = append(labels, o.String())
			}
			return strings.Join(labels, " ")
		}
		if c.Quick() {
			seeds = seeds[:2]
		}
		d0, d1, dCore := vx.Pick(c, 3, 5), 4, 6

		// Prefixed-integer boundary parts (see c01BoundaryOps).
		_, strDefs, longDefs, idxDefs := c01BoundaryOps()
		// quick: every single boundary field in every representation kind (depth 2 = one-field
		// blocks from three table situations); thorough: depth 3 with the size changes as operations
		strOps := append(c01Ops(c01Labels(strDefs)...), c01Ops("End")...)
		strSeeds := [][]c01Op{nil, c01Ops("F(k=v)", "End"), c01Ops("Peer(0)")}
		dStr := 2
		if !c.Quick() {
			strOps = append(strOps, c01Ops("Peer(0)", "Peer(4096)")...)
			strSeeds = strSeeds[:2]
			dStr = 3
		}
		// blocks of two (thorough: three) boundary fields: whatever follows a length on the wire
		var pairLabels []string
		for _, d := range strDefs {
			if !d.f.Sensitive {
				pairLabels = append(pairLabels, d.label)
			}
		}
		pairOps := append(c01Ops(pairLabels...), c01Ops("End")...)
		dPair := vx.Pick(c, 3, 4)
		longOps := append(c01Ops(c01Labels(longDefs)...), c01Ops("F(k=v)", "End")...)
		longSeeds := strSeeds
		dLong := 2
		if !c.Quick() {
			longOps = append(longOps, c01Ops("Peer(0)")...)
			dLong = 3
		}
		idxOps := append(c01Ops(c01Labels(idxDefs[1:])...), c01Ops("End")...)
		idxSeeds := [][]c01Op{c01Ops("Limit(16384)", "Peer(8192)", idxDefs[0].label)}
		dIdx := vx.Pick(c, 2, 4)
		updOps := c01Ops("B(k=v)", "B(k=w)", "Peer(30)", "Peer(31)", "Peer(32)", "Peer(158)", "Peer(159)", "Peer(160)", "Peer(4096)")
		dUpd := vx.Pick(c, 4, 6)
		// Static-table parts (see c01StaticOps): every static index 1..61 in every representation that
		// carries an index, next to the first dynamic index 62.
		statOps := append(c01Ops(c01Labels(c01StaticOps())...), c01Ops("F(k=v)", "F(k=w)", "S(k=w)", "End")...)
		statSeeds := [][]c01Op{nil, c01Ops("F(k=v)", "End"), c01Ops("Peer(0)")}
		dStat := vx.Pick(c, 2, 3) // quick: every one-field block; thorough: every block of one or two fields
		// the two ends of the static table and the first dynamic entry, deeper and with size changes
		edgeOps := c01Ops("F(:authority=)", "F(:authority=zz)", "S(:authority=zz)", "F(:method=GET)",
			"F(via=)", "F(via=zz)", "F(www-authenticate=)", "F(www-authenticate=zz)", "S(www-authenticate=zz)",
			"F(k=v)", "F(k=w)", "S(k=w)", "End", "Peer(0)", "Peer(4096)")
		dEdge := vx.Pick(c, 5, 6)
		c.Rule(fmt.Sprintf("static table (RFC 7541 Appendix A; an index i <= 61 is static entry i, 62 is the newest dynamic entry), same search and oracle. part seq-static: depth %d from the initial state and from the seeds %v (table empty / holding k=v at index 62 / of size 0, where literals are written without indexing) over {%s}: for each of the 61 static entries F(name=value) is an exact match (Indexed Header Field 1..61), and for each of the 52 distinct static names F(name=%s) / S(name=%s) is a name-only match (literal with incremental indexing / without indexing / never indexed whose name index is the last static index of that name: 1, 3, 5, 7, 14..61); k=v / k=w are the same representations at the first dynamic index 62; depth 2 = every one-field block, depth 3 = every block of one or two such fields and every one-field block followed by a write (at most two fields are written into one block here). part seq-static-edge: depth %d from the initial state over {%s} (first static index 1, last static indexes 60 and 61, first dynamic index 62 - also as entries that were themselves inserted from a static name - with table-size changes). The evidence outcomes idx:<class> list on which side of the 61|62 boundary the indexes of accepted blocks were",
			dStat, statSeeds[1:], lab(statOps), c01OtherValue, c01OtherValue, dEdge, lab(edgeOps)))
		c.Rule(fmt.Sprintf("breadth-first search over every sequence of operations {%s} on one real Encoder + one real Decoder (NewDecoder(4096)) + an RFC 7541 reference decoder: part seq-seeded = depth %d from seed states whose tables hold 1, 2(, 3 in the thorough tier) small entries (seeds %v), part seq = depth %d from the initial state; states deduplicated on (encoder table/maxSize/minSize/tableSizeUpdate/maxSizeLimit, decoder table/maxSize/allowedMax, reference table, open block fields+bytes, size-change model). F/S write a (sensitive) field into the open block; End feeds the block to Decoder.Write in one piece + Close and compares emitted fields, errors, all three tables and the table index maps; Peer(v)=dec.SetAllowedMaxDynamicTableSize(v)+enc.SetMaxDynamicTableSize(v), Limit(w)=enc.SetMaxDynamicTableSizeLimit(w), both only between blocks. non-trivial = an applied transition whose comparisons were made (a branch is pruned after a divergence); distinct = distinct (representation kinds, size updates, block bytes) of accepted blocks", lab(ops), d1, seeds, d0))
		c.Rule(fmt.Sprintf("part seq-blocks: the same search to depth %d from the initial state over {%s}, where B(f) is a complete one-field header block (write f, End)", dBlocks, lab(blockOps)))
		c.Rule(fmt.Sprintf("part seq-large: the same to depth %d over {%s} (table sizes above the 4096 default)", dLarge, lab(largeOps)))
		if !c.Quick() {
			c.Rule(fmt.Sprintf("thorough only, part seq-core: the same search to depth %d from the first two seeds over the smaller alphabet {%s}", dCore, lab(coreOps)))
		}
		c.Rule(fmt.Sprintf("prefixed-integer boundaries (RFC 7541 section 5.1: an N-bit-prefix integer changes shape at 2^N-1 and where the remainder above it reaches 128 and 16384), same search and oracle. part seq-strlen: depth %d from the initial state and from the seeds %v over {%s}, where rawL / hufL is a name or value whose string literal is exactly L octets long on the wire (rawL = L x 'X', not Huffman-shorter; hufL = floor(8L/5) x 'a', Huffman-coded to L octets), L in %v = both sides of and on 127 (prefix max) and 255 (remainder 128), as new-name / dynamic-name literal with incremental indexing, never-indexed literal (S) and, after Peer(0), literal without indexing. part seq-strlen-pairs: depth %d from the initial state over {%s} (blocks of several boundary-length fields). part seq-strlen-long: depth %d from the same seeds over {%s}, L in %v (remainder 16384). part seq-index: depth %d from the seed %v (a table of 8192 holding %d entries x000=v..x%03d=v, xI at index %d-I) over {%s}: xI=v is an indexed field at index %v (7-bit prefix: 127, 255), xI=w a literal with incremental indexing whose name index is %v (6-bit: 63, 191; it inserts an entry, so deeper sequences also reach the neighbouring indexes), S(xI=w) a never-indexed literal with name index %v (4-bit: 143). part seq-sizeupd: depth %d from the initial state over {%s} (5-bit prefix size update: 31, 159). The evidence outcomes intN:<class> list the integer shapes the reference decoder read in accepted blocks",
			dStr, strSeeds[1:], lab(strOps), c01StrLens, dPair, lab(pairOps), dLong, lab(longOps), c01LongStrLens, dIdx, idxSeeds[0], c01FillN, c01FillN-1, c01FillN+61, lab(idxOps), c01IdxIndexed, c01IdxIncremental, c01IdxNever, dUpd, lab(updOps)))
		c.Assume("Table-size changes happen only between header blocks; empty header blocks are not generated; the block is fed to Decoder.Write in one piece (splits are C03).")
		c.Assume("Outside the bound: indexes above 256+depth, string literals longer than 256 octets other than 16510..16512, prefixed integers whose remainder reaches 128^3, table sizes other than {0,30,31,32,33,70,158,159,160,4096,8192}; the length-boundary strings are runs of one octet ('X' raw, 'a' Huffman) in fields whose other half is k or v. Static-table name-only matches use the one value \"zz\"; for the names that occur several times in the static table (:method, :path, :scheme, :status) only the name index the Encoder picks is reached as a literal name index (all 61 indexes are reached as Indexed Header Fields). Decoder string-length limit and SetEmitEnabled(false) are not used.")
		c.Assume("Encoder and decoder entry lists are required to be equal only while no encoder-local SetMaxDynamicTableSizeLimit call has shrunk the encoder table in the history; after such a call the encoder table must still be the newest part of the decoder table (the encoder does not signal that low-water mark; the round trip is unaffected).")
		c.Assume("The Huffman code table data (huffmanCodes/huffmanCodeLen) is shared with the reference decoder; C04 checks it.")

		spec := vx.SeqSpec[*c01State, c01Op]{
			Part:    "seq-blocks",
			New:     func() *c01State { return c01New("C01", false) },
			Ops:     blockOps,
			Enabled: c01Enabled,
			Apply:   c01Apply,
			Canon:   c01Canon,
			Depth:   dBlocks,
		}
		vx.Seq(c, spec)
		spec.Part, spec.Ops, spec.Depth = "seq-large", largeOps, dLarge
		vx.Seq(c, spec)
		spec.Part, spec.Ops, spec.Seeds, spec.Depth = "seq-strlen", strOps, strSeeds, dStr
		vx.Seq(c, spec)
		spec.Part, spec.Ops, spec.Seeds, spec.Depth = "seq-strlen-pairs", pairOps, nil, dPair
		vx.Seq(c, spec)
		spec.Part, spec.Ops, spec.Seeds, spec.Depth = "seq-strlen-long", longOps, longSeeds, dLong
		vx.Seq(c, spec)
		spec.Part, spec.Ops, spec.Seeds, spec.Depth = "seq-index", idxOps, idxSeeds, dIdx
		vx.Seq(c, spec)
		spec.Part, spec.Ops, spec.Seeds, spec.Depth = "seq-sizeupd", updOps, nil, dUpd
		vx.Seq(c, spec)
		spec.Part, spec.Ops, spec.Seeds, spec.Depth = "seq-static", statOps, statSeeds, dStat
		// blocks of at most two fields here: a third write into the open block is not a transition
		spec.Enabled = func(s *c01State, op c01Op) bool {
			return c01Enabled(s, op) && !(op.def().kind == c01KField && len(s.pend) >= 2)
		}
		vx.Seq(c, spec)
		spec.Enabled = c01Enabled
		spec.Part, spec.Ops, spec.Seeds, spec.Depth = "seq-static-edge", edgeOps, nil, dEdge
		vx.Seq(c, spec)
		spec.Part, spec.Ops, spec.Seeds, spec.Depth = "seq-seeded", ops, seeds, d1
		vx.Seq(c, spec)
		if !c.Quick() {
			spec.Part, spec.Ops, spec.Seeds, spec.Depth = "seq-core", coreOps, seeds[:2], dCore
			vx.Seq(c, spec)
		}
		spec.Part, spec.Ops, spec.Seeds, spec.Depth = "seq", ops, nil, d0
		vx.Seq(c, spec)
	})
}
