package hpack

import (
	"bytes"
	"fmt"
	"testing"

	"golang.org/x/net/internal/zzverif/vx"
)

// C04 — Huffman coding is a canonical bijection on byte strings.
//
// Encode direction: AppendHuffmanString / HuffmanEncodeLength are compared with
// the bit-by-bit reference encoder of c02_ref_test.go and round-tripped through
// HuffmanDecode / HuffmanDecodeToString, for complete sets of short strings
// chosen to drive the 64-bit accumulator through every residue of (bits mod 32)
// at a flush and every residue of (bits mod 8) at the padding step.
// Decode direction: complete sets of short byte strings; the implementation
// must accept exactly what the reference decoder accepts (= the canonical
// encodings with < 8 bits of all-ones padding), with the same output, and
// re-encoding the output must reproduce the input.

// c04Reps returns, per distinct code length (ascending), the first and the
// last symbol having that length.
func c04Reps() (first, last []byte) {
	for l := uint8(1); l <= 30; l++ {
		f, la := -1, -1
		for s := 0; s < 256; s++ {
			if c02RefHuffLen[s] == l {
				if f < 0 {
					f = s
				}
				la = s
			}
		}
		if f >= 0 {
			first = append(first, byte(f))
			last = append(last, byte(la))
		}
	}
	return
}

func c04Bits(s []byte) int {
	n := 0
	for _, ch := range s {
		n += int(c02RefHuffLen[ch])
	}
	return n
}

// c04Case names one string compactly (generation must stay cheap): the I-th
// string (digits most significant first) of L symbols over the alphabet named K.
type c04Case struct {
	K string `json:"alphabet"`
	L int    `json:"len"`
	I uint64 `json:"index"`
}

var c04Alphabets = func() map[string][]byte {
	first, last := c04Reps()
	all := make([]byte, 256)
	for i := range all {
		all[i] = byte(i)
	}
	return map[string][]byte{
		"all":   all,
		"first": first,
		"last":  last,
		"runs":  {'0', 0x0a},
		"dec7":  {0x00, 0x1f, 0x3f, 0x7f, 0xf8, 0xfe, 0xff},
		"dec24": {0x00, 0x07, 0x1f, 0x21, 0x3f, 0x45, 0x61, 0x7f, 0x80, 0x9d, 0xa8, 0xc7, 0xe0, 0xf0, 0xf8, 0xfb, 0xfc, 0xfd, 0xfe, 0xff, 0x0f, 0x03, 0x01, 0xbf},
	}
}()

func (x c04Case) bytes() []byte {
	a := c04Alphabets[x.K]
	if a == nil {
		panic("harness: unknown alphabet " + x.K)
	}
	out := make([]byte, x.L)
	i := x.I
	for k := x.L - 1; k >= 0; k-- {
		out[k] = a[i%uint64(len(a))]
		i /= uint64(len(a))
	}
	return out
}

// c04Gen yields every string of minLen..maxLen symbols over alphabet k
// (optionally only those whose first symbol passes keepFirst).
func c04Gen(k string, minLen, maxLen int, keepFirst func(byte) bool, yield func(c04Case) bool) bool {
	a := c04Alphabets[k]
	for l := minLen; l <= maxLen; l++ {
		total := uint64(1)
		for i := 0; i < l; i++ {
			total *= uint64(len(a))
		}
		per := total / uint64(len(a)) // strings per first symbol (l >= 1)
		for i := uint64(0); i < total; i++ {
			if keepFirst != nil && l >= 1 && i%per == 0 && !keepFirst(a[i/per]) {
				i += per - 1
				continue
			}
			if !yield(c04Case{k, l, i}) {
				return false
			}
		}
	}
	return true
}

func c04CheckEncode(w *vx.W, x c04Case) {
	s := x.bytes()
	want := c02RefHuffEncode(s)
	nbits := c04Bits(s)
	trig := fmt.Sprintf("flushed=%v,padded=%v", nbits >= 32, nbits%8 != 0)

	prefix := []byte{0xa5, 0x5a, 0x00}
	got := AppendHuffmanString(c02Exact(prefix), string(s))
	if len(got) < 3 || !bytes.Equal(got[:3], prefix) {
		w.Failf("C04/encode/clobbers-dst-prefix", "AppendHuffmanString(%x, %q) = %x: existing bytes changed", prefix, s, got)
		return
	}
	enc := got[3:]
	if !bytes.Equal(enc, want) {
		w.Failf("C04/encode/differs-from-rfc-encoding/"+trig, "AppendHuffmanString(%q) (%d code bits) = %x, RFC 7541 §5.2 encoding is %x", s, nbits, enc, want)
		return
	}
	// same result when appending into spare capacity and to a nil slice
	roomy := make([]byte, 3, 3+len(want)+8)
	copy(roomy, prefix)
	if g2 := AppendHuffmanString(roomy, string(s)); !bytes.Equal(g2[3:], want) || !bytes.Equal(g2[:3], prefix) {
		w.Failf("C04/encode/depends-on-dst-capacity", "AppendHuffmanString into spare capacity (%q) = %x, want %x%x", s, g2, prefix, want)
		return
	}
	if g3 := AppendHuffmanString(nil, string(s)); !bytes.Equal(g3, want) {
		w.Failf("C04/encode/depends-on-dst-capacity", "AppendHuffmanString(nil, %q) = %x, want %x", s, g3, want)
		return
	}
	if l := HuffmanEncodeLength(string(s)); l != uint64(len(enc)) {
		w.Failf("C04/encode-length/mismatch/"+trig, "HuffmanEncodeLength(%q) = %d but the encoding %x has %d bytes", s, l, enc, len(enc))
		return
	}
	var buf bytes.Buffer
	n, err := HuffmanDecode(&buf, c02Exact(enc))
	if err != nil {
		w.Failf("C04/roundtrip/decode-rejects-own-encoding/"+trig, "HuffmanDecode(AppendHuffmanString(%q) = %x) fails: %v", s, enc, err)
		return
	}
	if !bytes.Equal(buf.Bytes(), s) || n != len(s) {
		w.Failf("C04/roundtrip/wrong-string/"+trig, "HuffmanDecode(AppendHuffmanString(%q) = %x) = %q (n=%d)", s, enc, buf.Bytes(), n)
		return
	}
	ds, err := HuffmanDecodeToString(c02Exact(enc))
	if err != nil || ds != string(s) {
		w.Failf("C04/roundtrip/decode-to-string/"+trig, "HuffmanDecodeToString(%x) = %q, %v; want %q", enc, ds, err, s)
		return
	}
	if back, v := c02RefHuffDecode(want); v != c02HuffOK || !bytes.Equal(back, s) {
		w.Failf("C04/harness/reference-codec-not-a-bijection", "reference decode(reference encode(%q)) = %q, %s", s, back, v)
		return
	}
	if len(s) > 0 {
		w.Nontrivial()
	}
	fl := nbits / 32
	if fl > 3 {
		fl = 3
	}
	w.Outcome(fmt.Sprintf("enc flushes=%d pad=%d", fl, (8-nbits%8)%8))
}

func c04CheckDecode(w *vx.W, x c04Case) {
	in := x.bytes()
	want, verdict := c02RefHuffDecode(in)
	var buf bytes.Buffer
	n, err := HuffmanDecode(&buf, c02Exact(in))
	ds, err2 := HuffmanDecodeToString(c02Exact(in))
	if (err == nil) != (err2 == nil) || (err == nil && ds != buf.String()) {
		w.Failf("C04/decode/entry-points-disagree", "HuffmanDecode(%x) = %q, %v but HuffmanDecodeToString = %q, %v", in, buf.Bytes(), err, ds, err2)
		return
	}
	if verdict != c02HuffOK {
		if err == nil {
			w.Failf("C04/decode/accepts-non-canonical/"+verdict, "HuffmanDecode(%x) = %q, accepted; RFC 7541 §5.2 verdict: %s", in, buf.Bytes(), verdict)
			return
		}
		w.Outcome("dec reject " + verdict)
		return
	}
	if err != nil {
		w.Failf("C04/decode/rejects-canonical-encoding", "HuffmanDecode(%x) fails (%v); it is the canonical encoding of %q", in, err, want)
		return
	}
	if !bytes.Equal(buf.Bytes(), want) {
		w.Failf("C04/decode/wrong-output", "HuffmanDecode(%x) = %q, reference %q", in, buf.Bytes(), want)
		return
	}
	if n != len(want) {
		w.Failf("C04/decode/wrong-count", "HuffmanDecode(%x) returned n=%d for %d decoded bytes", in, n, len(want))
		return
	}
	if re := AppendHuffmanString(nil, ds); !bytes.Equal(re, in) {
		w.Failf("C04/decode/accepted-input-is-not-the-encoding-of-its-output", "HuffmanDecode(%x) = %q but AppendHuffmanString(%q) = %x", in, ds, ds, re)
		return
	}
	if re := c02RefHuffEncode(want); !bytes.Equal(re, in) {
		w.Failf("C04/harness/reference-codec-not-a-bijection", "reference decode(%x) = %q but reference encode gives %x", in, want, re)
		return
	}
	if len(in) > 0 {
		w.Nontrivial()
	}
	w.Outcome(fmt.Sprintf("dec ok pad=%d", len(in)*8-c04Bits(want)))
}

func TestVerif_C04(t *testing.T) {
	vx.Run(t, "C04", func(c *vx.Ctx) {
		if first, _ := c04Reps(); len(first) != 21 {
			t.Fatalf("harness: expected 21 distinct code lengths, got %d", len(first))
		}
		lenL := vx.Pick(c, 4, 5)
		runL := vx.Pick(c, 10, 15)
		c.Rule(fmt.Sprintf("table: each of the 257 symbols — package code/length equals the canonical code derived from the RFC 7541 Appendix B lengths. "+
			"encode: every string of <=2 symbols over all 256 bytes; every string of <=%d symbols over the first symbol of each of the 21 distinct code lengths (thorough: also <=4 over the last symbol of each length); every string of <=%d symbols over {5-bit '0', 30-bit 0x0a}; each compared with a bit-by-bit reference encoder, HuffmanEncodeLength, and round-tripped through HuffmanDecode/HuffmanDecodeToString on cap==len slices. "+
			"decode: every byte string of length <=3 (quick: length 3 restricted to first bytes = 0 mod 4 plus the 0xf8..0xff range), every string of length 4..%d over {00,1f,3f,7f,f8,fe,ff} (thorough adds length 4 over 24 bytes), each compared with a bit-by-bit reference decoder (accept/reject, output) and re-encoded. non-trivial = non-empty input accepted by both and compared", lenL, runL, vx.Pick(c, 5, 6)))
		c.Assume("strings longer than the stated bounds are not executed; the accumulator state of AppendHuffmanString is (bits mod 32, last <=31 bits) and is driven through every residue by the enumerated sets")
		c.Assume("which error value a rejected Huffman string produces is not checked (only that it is rejected)")

		// --- table
		vx.Enumerate(c, "table", vx.Opts{NoSample: true}, func(yield func(int) bool) {
			for s := 0; s <= 256; s++ {
				if !yield(s) {
					return
				}
			}
		}, func(w *vx.W, s int) {
			if s == 256 {
				if c02RefBook.code[256] != 0x3fffffff {
					w.Failf("C04/harness/canonical-derivation-eos", "derived EOS code %x, RFC says 3fffffff", c02RefBook.code[256])
				}
				// completeness: the 257 codes fill the code space exactly
				var sum uint64
				for i := 0; i <= 256; i++ {
					sum += uint64(1) << (30 - uint(c02RefHuffLen[i]))
				}
				if sum != 1<<30 {
					w.Failf("C04/harness/lengths-not-complete", "Kraft sum %d != 2^30", sum)
				}
				w.Outcome("table eos")
				return
			}
			if huffmanCodeLen[s] != c02RefHuffLen[s] {
				w.Failf("C04/table/code-length", "huffmanCodeLen[%d] = %d, RFC 7541 Appendix B says %d", s, huffmanCodeLen[s], c02RefHuffLen[s])
				return
			}
			if huffmanCodes[s] != c02RefBook.code[s] {
				w.Failf("C04/table/code", "huffmanCodes[%d] = %x, canonical code for the Appendix B lengths is %x", s, huffmanCodes[s], c02RefBook.code[s])
				return
			}
			w.Nontrivial()
			w.Outcome("table ok")
		})

		// --- encode direction
		vx.Enumerate(c, "encode-all-symbols", vx.Opts{}, func(yield func(c04Case) bool) {
			c04Gen("all", 0, 2, nil, yield)
		}, c04CheckEncode)
		vx.Enumerate(c, "encode-code-lengths", vx.Opts{}, func(yield func(c04Case) bool) {
			if !c04Gen("first", 3, lenL, nil, yield) {
				return
			}
			if !c.Quick() {
				c04Gen("last", 3, 4, nil, yield)
			}
		}, c04CheckEncode)
		vx.Enumerate(c, "encode-runs", vx.Opts{}, func(yield func(c04Case) bool) {
			c04Gen("runs", 3, runL, nil, yield)
		}, c04CheckEncode)

		// --- decode direction
		vx.Enumerate(c, "decode-all-short", vx.Opts{NoSample: true}, func(yield func(c04Case) bool) {
			if !c04Gen("all", 0, 2, nil, yield) {
				return
			}
			var keep func(byte) bool
			if c.Quick() {
				keep = func(a byte) bool { return a%4 == 0 || a >= 0xf8 }
			}
			c04Gen("all", 3, 3, keep, yield)
		}, c04CheckDecode)
		vx.Enumerate(c, "decode-long", vx.Opts{NoSample: true}, func(yield func(c04Case) bool) {
			if !c04Gen("dec7", 4, vx.Pick(c, 5, 6), nil, yield) {
				return
			}
			if !c.Quick() {
				c04Gen("dec24", 4, 4, nil, yield)
			}
		}, c04CheckDecode)
	})
}
