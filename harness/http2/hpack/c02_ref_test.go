package hpack

// Reference model shared by the C02, C03 and C04 checks: a deliberately boring,
// bit-by-bit transcription of RFC 7541 (integer representation §5.1, string
// literals §5.2 with the Appendix B Huffman code, the five field
// representations of §6, the dynamic table of §2.3/§4, the static table of
// Appendix A). It calls nothing from the package under test.
//
// The Huffman code is derived from the Appendix B *code lengths* alone: HPACK's
// code is canonical (codes of equal length are consecutive in symbol order and
// the first code of each length continues the previous length's sequence), so
// the 257 lengths below determine every code. C04 verifies that the package's
// huffmanCodes/huffmanCodeLen arrays equal this derivation.

import (
	"encoding/hex"
	"fmt"
)

// c02RefHuffLen holds the RFC 7541 Appendix B code length of symbols 0..255
// and of EOS (index 256).
var c02RefHuffLen = [257]uint8{
	13, 23, 28, 28, 28, 28, 28, 28, 28, 24, 30, 28, 28, 30, 28, 28,
	28, 28, 28, 28, 28, 28, 30, 28, 28, 28, 28, 28, 28, 28, 28, 28,
	6, 10, 10, 12, 13, 6, 8, 11, 10, 10, 8, 11, 8, 6, 6, 6,
	5, 5, 5, 6, 6, 6, 6, 6, 6, 6, 7, 8, 15, 6, 12, 10,
	13, 6, 7, 7, 7, 7, 7, 7, 7, 7, 7, 7, 7, 7, 7, 7,
	7, 7, 7, 7, 7, 7, 7, 7, 8, 7, 8, 13, 19, 13, 14, 6,
	15, 5, 6, 5, 6, 5, 6, 6, 6, 5, 7, 7, 6, 6, 6, 5,
	6, 7, 6, 5, 5, 6, 7, 7, 7, 7, 7, 15, 11, 14, 13, 28,
	20, 22, 20, 20, 22, 22, 22, 23, 22, 23, 23, 23, 23, 23, 24, 23,
	24, 24, 22, 23, 24, 23, 23, 23, 23, 21, 22, 23, 22, 23, 23, 24,
	22, 21, 20, 22, 22, 23, 23, 21, 23, 22, 22, 24, 21, 22, 23, 23,
	21, 21, 22, 21, 23, 22, 23, 23, 20, 22, 22, 22, 23, 22, 22, 23,
	26, 26, 20, 19, 22, 23, 22, 25, 26, 26, 26, 27, 27, 26, 24, 25,
	19, 21, 26, 27, 27, 26, 27, 24, 21, 21, 26, 26, 28, 27, 27, 27,
	20, 24, 20, 21, 22, 21, 21, 23, 22, 22, 25, 25, 24, 24, 26, 23,
	26, 27, 26, 26, 27, 27, 27, 27, 27, 28, 27, 27, 27, 27, 27, 26,
	30, // EOS
}

const c02RefEOS = 256

// c02RefHuff is the code book: code[sym] (right-aligned, len[sym] bits) and the
// inverse map keyed by length and code.
type c02RefHuffBook struct {
	code [257]uint32
	sym  map[uint64]int // uint64(len)<<32 | code  ->  symbol
}

var c02RefBook = c02RefBuildBook()

func c02RefBuildBook() *c02RefHuffBook {
	bk := &c02RefHuffBook{sym: map[uint64]int{}}
	next := uint32(0)
	for l := uint8(1); l <= 30; l++ {
		next <<= 1
		for s := 0; s <= 256; s++ {
			if c02RefHuffLen[s] == l {
				bk.code[s] = next
				bk.sym[uint64(l)<<32|uint64(next)] = s
				next++
			}
		}
	}
	return bk
}

// c02RefHuffEncode is RFC 7541 §5.2: the codes of the octets of s, most
// significant bit first, concatenated, then padded to an octet boundary with
// the most significant bits of EOS (all ones).
func c02RefHuffEncode(s []byte) []byte {
	var bits []byte // one element per bit
	for _, ch := range s {
		l := int(c02RefHuffLen[ch])
		for i := l - 1; i >= 0; i-- {
			bits = append(bits, byte(c02RefBook.code[ch]>>uint(i))&1)
		}
	}
	for len(bits)%8 != 0 {
		bits = append(bits, 1)
	}
	out := make([]byte, len(bits)/8)
	for i, b := range bits {
		out[i/8] |= b << uint(7-i%8)
	}
	return out
}

// Huffman decode verdicts.
const (
	c02HuffOK          = "ok"
	c02HuffEOS         = "eos-in-string"       // §5.2: a string containing EOS MUST be a decoding error
	c02HuffLongPad     = "padding-over-7-bits" // §5.2: all-ones trailing bits, more than 7 of them
	c02HuffNotEOSPad   = "padding-not-eos-prefix"
	c02HuffNoSuchCode  = "no-such-code" // unreachable for a complete code; kept for robustness
	c02HuffIncompleteS = "incomplete-symbol-over-7-bits"
)

// c02RefHuffDecode walks the input one bit at a time.
func c02RefHuffDecode(b []byte) ([]byte, string) {
	var out []byte
	code, n := uint32(0), 0
	allOnes := true
	for i := 0; i < len(b)*8; i++ {
		bit := uint32(b[i/8]>>uint(7-i%8)) & 1
		code = code<<1 | bit
		n++
		if bit == 0 {
			allOnes = false
		}
		if s, ok := c02RefBook.sym[uint64(n)<<32|uint64(code)]; ok {
			if s == c02RefEOS {
				return nil, c02HuffEOS
			}
			out = append(out, byte(s))
			code, n, allOnes = 0, 0, true
			continue
		}
		if n >= 30 {
			return nil, c02HuffNoSuchCode
		}
	}
	// n trailing bits that do not complete a symbol
	switch {
	case n == 0:
	case n > 7 && allOnes:
		return nil, c02HuffLongPad
	case n > 7:
		return nil, c02HuffIncompleteS
	case !allOnes:
		return nil, c02HuffNotEOSPad
	}
	return out, c02HuffOK
}

// ---------------------------------------------------------------------------
// HPACK block decoder

type c02RefField struct {
	Name, Value string
	Sensitive   bool
}

func (f c02RefField) String() string {
	s := ""
	if f.Sensitive {
		s = "!"
	}
	return fmt.Sprintf("%q=%q%s", f.Name, f.Value, s)
}

func (f c02RefField) size() uint64 { return uint64(len(f.Name)) + uint64(len(f.Value)) + 32 }

// RFC 7541 Appendix A.
var c02RefStatic = [61][2]string{
	{":authority", ""},
	{":method", "GET"},
	{":method", "POST"},
	{":path", "/"},
	{":path", "/index.html"},
	{":scheme", "http"},
	{":scheme", "https"},
	{":status", "200"},
	{":status", "204"},
	{":status", "206"},
	{":status", "304"},
	{":status", "400"},
	{":status", "404"},
	{":status", "500"},
	{"accept-charset", ""},
	{"accept-encoding", "gzip, deflate"},
	{"accept-language", ""},
	{"accept-ranges", ""},
	{"accept", ""},
	{"access-control-allow-origin", ""},
	{"age", ""},
	{"allow", ""},
	{"authorization", ""},
	{"cache-control", ""},
	{"content-disposition", ""},
	{"content-encoding", ""},
	{"content-language", ""},
	{"content-length", ""},
	{"content-location", ""},
	{"content-range", ""},
	{"content-type", ""},
	{"cookie", ""},
	{"date", ""},
	{"etag", ""},
	{"expect", ""},
	{"expires", ""},
	{"from", ""},
	{"host", ""},
	{"if-match", ""},
	{"if-modified-since", ""},
	{"if-none-match", ""},
	{"if-range", ""},
	{"if-unmodified-since", ""},
	{"last-modified", ""},
	{"link", ""},
	{"location", ""},
	{"max-forwards", ""},
	{"proxy-authenticate", ""},
	{"proxy-authorization", ""},
	{"range", ""},
	{"referer", ""},
	{"refresh", ""},
	{"retry-after", ""},
	{"server", ""},
	{"set-cookie", ""},
	{"strict-transport-security", ""},
	{"transfer-encoding", ""},
	{"user-agent", ""},
	{"vary", ""},
	{"via", ""},
	{"www-authenticate", ""},
}

// Block verdicts of the reference decoder.
const (
	c02StOK        = "ok"
	c02StBadIndex  = "bad-index"
	c02StBadHuff   = "bad-huffman"
	c02StOversized = "oversized-table-update"
	c02StTruncated = "truncated"
	// Sub-domain where RFC 7541 does not fix the decoder's verdict; the
	// reference stops there.
	c02StExclMidUpdate = "excluded:size-update-after-a-field"
	// Detached contexts only (see c02RefDec.detached): the block refers to the
	// dynamic table or resizes it, and the table is not defined there.
	c02StExclDetached = "excluded:dynamic-table-after-a-rejected-block"
)

func c02StIsError(st string) bool {
	return st == c02StBadIndex || st == c02StBadHuff || st == c02StOversized || st == c02StTruncated
}

func c02StExcluded(st string) bool {
	return st == c02StExclMidUpdate || st == c02StExclDetached
}

// c02RefDec is the reference decoding context: the dynamic table (newest entry
// first, as HPACK indexes it), its current maximum size and the protocol limit
// (SETTINGS_HEADER_TABLE_SIZE) a size update may not exceed.
type c02RefDec struct {
	dyn     []c02RefField
	size    uint64
	maxSize uint64
	allowed uint64
	// detached: the context of a header block that follows a REJECTED block.
	// RFC 7541 defines no dynamic table state after a decoding error, so the
	// block is decoded on its own: static-table references and literals are
	// defined, any reference to a dynamic table index (> 61) and any dynamic
	// table size update end the comparison (c02StExclDetached). Entries the
	// block itself adds are not tracked either.
	detached bool
}

// c02NewDetachedRefDec returns the context for a block that follows a rejected
// block: nothing of what went before is visible to it.
func c02NewDetachedRefDec() *c02RefDec {
	return &c02RefDec{detached: true}
}

func c02NewRefDec(maxSize uint64) *c02RefDec {
	return &c02RefDec{maxSize: maxSize, allowed: maxSize}
}

// §4.3 / §4.4
func (r *c02RefDec) evictTo(limit uint64) {
	for r.size > limit && len(r.dyn) > 0 {
		last := r.dyn[len(r.dyn)-1]
		r.dyn = r.dyn[:len(r.dyn)-1]
		r.size -= last.size()
	}
}

func (r *c02RefDec) add(f c02RefField) {
	f.Sensitive = false
	sz := f.size()
	if sz > r.maxSize {
		r.dyn, r.size = nil, 0
		return
	}
	r.evictTo(r.maxSize - sz)
	r.dyn = append([]c02RefField{f}, r.dyn...)
	r.size += sz
}

// §2.3.3
func (r *c02RefDec) lookup(i uint64) (c02RefField, bool) {
	if i == 0 {
		return c02RefField{}, false
	}
	if i <= 61 {
		e := c02RefStatic[i-1]
		return c02RefField{Name: e[0], Value: e[1]}, true
	}
	if i-62 < uint64(len(r.dyn)) {
		return r.dyn[i-62], true
	}
	return c02RefField{}, false
}

// c02RefBlock is what the reference makes of one header block.
type c02RefBlock struct {
	Fields []c02RefField
	Status string
	Detail string
	// Reprs counts the representations processed completely.
	Reprs int
	// LongInt: some integer in the block used more than 9 continuation octets
	// or reached 2^62 (RFC 7541 §5.1 lets an implementation reject integers
	// beyond its own limits).
	LongInt bool
	// MaxStr is the largest string length seen anywhere in the block: wire
	// length of a literal, decoded length, or name/value length of a referenced
	// table entry. Used for classification only.
	MaxStr uint64
	// Huff: at least one Huffman-coded string was decoded successfully.
	Huff bool
	// Evicted: at least one dynamic table entry was evicted.
	Evicted bool
}

const c02Huge = uint64(1) << 62

type c02Bits struct {
	b   []byte
	pos int // in bits
}

func (br *c02Bits) left() int { return len(br.b)*8 - br.pos }

func (br *c02Bits) bits(n int) (uint64, bool) {
	if br.left() < n {
		return 0, false
	}
	var v uint64
	for i := 0; i < n; i++ {
		v = v<<1 | uint64(br.b[br.pos/8]>>uint(7-br.pos%8))&1
		br.pos++
	}
	return v, true
}

// integer is RFC 7541 §5.1 with an N-bit prefix (the prefix bits are the next N
// bits of the reader, which must end on an octet boundary). Values saturate at
// 2^62; long reports an integer beyond common implementation limits.
func (br *c02Bits) integer(n int) (v uint64, long, ok bool) {
	v, ok = br.bits(n)
	if !ok {
		return 0, false, false
	}
	if v < uint64(1)<<uint(n)-1 {
		return v, false, true
	}
	m := uint(0)
	cont := 0
	for {
		o, ok := br.bits(8)
		if !ok {
			return 0, long, false
		}
		cont++
		if cont > 9 {
			long = true
		}
		lo := o & 127
		if lo != 0 && v < c02Huge {
			// v += lo * 2^m, saturating at 2^62
			if m >= 62 || lo>>(62-m) != 0 {
				v = c02Huge
			} else if v+lo<<m >= c02Huge {
				v = c02Huge
			} else {
				v += lo << m
			}
		}
		if m < 1000 {
			m += 7
		}
		if o&128 == 0 {
			break
		}
	}
	if v >= c02Huge {
		long = true
	}
	return v, long, true
}

// str is RFC 7541 §5.2. status is "" on success.
func (br *c02Bits) str(res *c02RefBlock) (s string, status, detail string) {
	h, ok := br.bits(1)
	if !ok {
		return "", c02StTruncated, "string header"
	}
	l, long, ok := br.integer(7)
	if long {
		res.LongInt = true
	}
	if !ok {
		return "", c02StTruncated, "string length"
	}
	if l > res.MaxStr {
		res.MaxStr = l
	}
	if l > uint64(br.left()/8) {
		return "", c02StTruncated, "string data"
	}
	data := br.b[br.pos/8 : br.pos/8+int(l)]
	br.pos += int(l) * 8
	if h == 0 {
		return string(data), "", ""
	}
	dec, verdict := c02RefHuffDecode(data)
	if verdict != c02HuffOK {
		return "", c02StBadHuff, verdict
	}
	res.Huff = true
	if uint64(len(dec)) > res.MaxStr {
		res.MaxStr = uint64(len(dec))
	}
	return string(dec), "", ""
}

// Block decodes one complete header block (everything between two Close calls).
// On any verdict other than ok the context must not be used again.
func (r *c02RefDec) Block(b []byte) c02RefBlock {
	res := c02RefBlock{Status: c02StOK}
	br := &c02Bits{b: b}
	fail := func(st, detail string) c02RefBlock {
		res.Status, res.Detail = st, detail
		return res
	}
	noteEntry := func(f c02RefField) {
		if uint64(len(f.Name)) > res.MaxStr {
			res.MaxStr = uint64(len(f.Name))
		}
		if uint64(len(f.Value)) > res.MaxStr {
			res.MaxStr = uint64(len(f.Value))
		}
	}
	sawField := false
	for br.left() > 0 {
		// the representation is identified by its leading bits (§6)
		if b1, _ := br.bits(1); b1 == 1 {
			// §6.1 indexed header field
			idx, long, ok := br.integer(7)
			res.LongInt = res.LongInt || long
			if !ok {
				return fail(c02StTruncated, "index")
			}
			if r.detached && idx > 61 {
				return fail(c02StExclDetached, fmt.Sprintf("indexed %d", idx))
			}
			f, ok := r.lookup(idx)
			if !ok {
				return fail(c02StBadIndex, fmt.Sprintf("indexed %d with %d dynamic entries", idx, len(r.dyn)))
			}
			noteEntry(f)
			f.Sensitive = false
			res.Fields = append(res.Fields, f)
			res.Reprs++
			sawField = true
			continue
		}
		incremental, never, prefix := false, false, 0
		if b2, _ := br.bits(1); b2 == 1 {
			incremental, prefix = true, 6 // §6.2.1  01
		} else if b3, _ := br.bits(1); b3 == 1 {
			// §6.3 dynamic table size update  001; §4.2 allows several of them
			// at the beginning of a block
			if r.detached {
				return fail(c02StExclDetached, "table size update")
			}
			if sawField {
				return fail(c02StExclMidUpdate, "")
			}
			v, long, ok := br.integer(5)
			res.LongInt = res.LongInt || long
			if !ok {
				return fail(c02StTruncated, "table size")
			}
			if v > r.allowed {
				return fail(c02StOversized, fmt.Sprintf("update to %d, limit %d", v, r.allowed))
			}
			before := len(r.dyn)
			r.maxSize = v
			r.evictTo(v)
			if len(r.dyn) < before {
				res.Evicted = true
			}
			res.Reprs++
			continue
		} else if b4, _ := br.bits(1); b4 == 1 {
			never, prefix = true, 4 // §6.2.3  0001
		} else {
			prefix = 4 // §6.2.2  0000
		}
		idx, long, ok := br.integer(prefix)
		res.LongInt = res.LongInt || long
		if !ok {
			return fail(c02StTruncated, "name index")
		}
		var f c02RefField
		if idx != 0 {
			if r.detached && idx > 61 {
				return fail(c02StExclDetached, fmt.Sprintf("name index %d", idx))
			}
			e, ok := r.lookup(idx)
			if !ok {
				return fail(c02StBadIndex, fmt.Sprintf("name index %d with %d dynamic entries", idx, len(r.dyn)))
			}
			f.Name = e.Name
			if uint64(len(f.Name)) > res.MaxStr {
				res.MaxStr = uint64(len(f.Name))
			}
		} else {
			s, st, detail := br.str(&res)
			if st != "" {
				return fail(st, "name: "+detail)
			}
			f.Name = s
		}
		s, st, detail := br.str(&res)
		if st != "" {
			return fail(st, "value: "+detail)
		}
		f.Value = s
		f.Sensitive = never
		if incremental && !r.detached {
			before := len(r.dyn)
			r.add(f)
			if len(r.dyn) <= before {
				res.Evicted = true
			}
		}
		res.Fields = append(res.Fields, f)
		res.Reprs++
		sawField = true
	}
	return res
}

// ---------------------------------------------------------------------------
// small shared helpers

// c02Exact returns a copy of b whose capacity equals its length so that reads
// past the end of the input panic instead of seeing spare capacity.
func c02Exact(b []byte) []byte {
	out := make([]byte, len(b))
	copy(out, b)
	return out[:len(b):len(b)]
}

func c02Hex(b []byte) string { return hex.EncodeToString(b) }

func c02Unhex(s string) []byte {
	b, err := hex.DecodeString(s)
	if err != nil {
		panic("harness: bad hex case " + s)
	}
	return b
}

// c02ImplTable returns the implementation's dynamic table, newest first.
func c02ImplTable(d *Decoder) []c02RefField {
	ents := d.dynTab.table.ents
	if len(ents) == 0 {
		return nil
	}
	out := make([]c02RefField, 0, len(ents))
	for i := len(ents) - 1; i >= 0; i-- {
		out = append(out, c02RefField{Name: ents[i].Name, Value: ents[i].Value})
	}
	return out
}

func c02FieldsEqual(a, b []c02RefField) bool {
	if len(a) != len(b) {
		return false
	}
	for i := range a {
		if a[i] != b[i] {
			return false
		}
	}
	return true
}

// c02ErrClass names an implementation error coarsely (for signatures/outcomes).
func c02ErrClass(err error) string {
	switch {
	case err == nil:
		return "ok"
	case err == ErrStringLength:
		return "string-length"
	case err == ErrInvalidHuffman:
		return "invalid-huffman"
	case err == error(errVarintOverflow):
		return "varint-overflow"
	}
	if de, ok := err.(DecodingError); ok {
		if _, ok := de.Err.(InvalidIndexError); ok {
			return "invalid-index"
		}
		switch de.Err.Error() {
		case "truncated headers":
			return "truncated"
		case "dynamic table size update too large":
			return "update-too-large"
		case "dynamic table size update MUST occur at the beginning of a header block":
			return "update-not-at-start"
		case "invalid encoding":
			return "invalid-encoding"
		}
		return "decoding-error"
	}
	return "other-error"
}
