package hpack

// C05 — sensitive header fields are never indexed.
//
// Same driver as C01 (c01_common_test.go) in per-field mode: every WriteField
// output is parsed by the RFC 7541 reference decoder and fed to the real
// Decoder at once, so that the effect of each single sensitive field on the
// wire, on the encoder table and on the decoder table is observed in
// isolation. Alphabet: 5 (name,value) pairs x {sensitive, not}, the empty value
// in every table-match situation (none, dynamic name, dynamic full, static name,
// static full), End, and three table sizes.

import (
	"fmt"
	"strings"
	"testing"

	"golang.org/x/net/internal/zzverif/vx"
)

func c05Enabled(s *c01State, op c01Op) bool {
	switch op.def().kind {
	case c01KEnd:
		return s.open
	case c01KPeer, c01KLimit:
		return !s.open // between blocks only
	}
	return true
}

// c05Situation: where an identical pair / name sits before the write: in the
// RFC static table or in the encoder's dynamic table (which, unlike the
// decoder's, has already been shrunk by a pending size change).
func c05Situation(s *c01State, f HeaderField) string {
	name := ""
	for _, p := range c01Static {
		if p.n == f.Name {
			if p.v == f.Value {
				return "static-full-match"
			}
			name = "static-name-match"
		}
	}
	dynName := false
	for _, p := range s.enc.dynTab.table.ents {
		if p.Name == f.Name {
			if p.Value == f.Value {
				return "dynamic-full-match"
			}
			dynName = true
		}
	}
	if name != "" {
		return name
	}
	if dynName {
		return "dynamic-name-match"
	}
	return "no-match"
}

func c05CopyEnts(t *headerFieldTable) []HeaderField { return append([]HeaderField(nil), t.ents...) }

func c05SameEnts(a, b []HeaderField) bool {
	if len(a) != len(b) {
		return false
	}
	for i := range a {
		if a[i] != b[i] {
			return false
		}
	}
	return true
}

// c05EvictTo drops oldest entries (front) until the RFC size fits limit.
func c05EvictTo(ents []HeaderField, limit uint64) []HeaderField {
	var sum uint64
	for _, e := range ents {
		sum += uint64(len(e.Name)) + uint64(len(e.Value)) + 32
	}
	for len(ents) > 0 && sum > limit {
		sum -= uint64(len(ents[0].Name)) + uint64(len(ents[0].Value)) + 32
		ents = ents[1:]
	}
	return ents
}

func c05ShortKind(k byte) string {
	switch k {
	case 'I':
		return "indexed"
	case 'A':
		return "incremental-indexing"
	case 'W':
		return "without-indexing"
	case 'N':
		return "never-indexed"
	}
	return "none"
}

func c05Apply(w *vx.W, s *c01State, op c01Op) bool {
	d := op.def()
	switch d.kind {
	case c01KPeer, c01KLimit:
		c01SizeChange(s, d)
		return true
	case c01KEnd:
		s.ref.fieldSeen = false
		sens := s.openSens
		s.open, s.openSens, s.got = false, false, nil
		if err := s.dec.Close(); err != nil {
			if sens {
				w.Failf("C05/decode/close-error-after-sensitive-field", "Decoder.Close() = %v after a block with a sensitive field", err)
			}
			return false
		}
		return true
	}

	f := d.f
	sit := c05Situation(s, f)
	encBefore := c05CopyEnts(&s.enc.dynTab.table)
	decBefore := c05CopyEnts(&s.dec.dynTab.table)
	out, ok := c01WriteField(w, s, f)
	if !ok {
		return false
	}
	s.pend = s.pend[:0]
	s.blkPeerSeen, s.blkPeerFloor = false, 0
	s.open = true
	if f.Sensitive {
		s.openSens = true
	} else {
		s.nsWritten[c01Pair{f.Name, f.Value}] = true
	}
	after := fmt.Sprintf("%s (%s; wire %x)", d.label, sit, out)

	// --- the wire, as an RFC decoder sees it
	reprs, rerr := s.ref.decode(out)
	freprs := c01FieldReprs(reprs)
	kind := byte(0)
	if rerr == "" && len(freprs) == 1 {
		kind = freprs[0].kind
	}
	if f.Sensitive {
		if kind == 0 {
			w.Failf("C05/encode/sensitive-not-one-representation", "%s: the bytes do not parse as optional size updates + one field representation (reference error %q, %d field representations)", after, rerr, len(freprs))
			return false
		}
		if kind != 'N' {
			w.Failf("C05/encode/sensitive-as-"+c05ShortKind(kind)+"/"+sit, "%s: sensitive field emitted as %s representation instead of a never-indexed literal (0001xxxx)", after, c05ShortKind(kind))
			return false
		}
		// the same on the raw bytes: skip 001xxxxx size updates, then 0001xxxx
		raw := out
		for n, _ := c01LeadingUpdates(reprs); n > 0; n-- {
			_, rest, _ := c01RefInt(raw, 5)
			raw = rest
		}
		if len(raw) == 0 || raw[0]&0xf0 != 0x10 {
			w.Failf("C05/encode/sensitive-type-bits", "%s: first byte of the field representation is not 0001xxxx", after)
			return false
		}
		if freprs[0].f.Name != f.Name || freprs[0].f.Value != f.Value {
			w.Failf("C05/encode/sensitive-literal-altered", "%s: never-indexed literal carries %q=%q", after, freprs[0].f.Name, freprs[0].f.Value)
			return false
		}
		if !c05SameEnts(encBefore, s.enc.dynTab.table.ents) {
			w.Failf("C05/encoder-table/changed-by-sensitive-write/"+sit, "%s: encoder table %s -> %s", after, c01FieldsString(encBefore), c01EntsString(&s.enc.dynTab.table))
			return false
		}
	}
	for _, r := range reprs {
		if r.kind == 'I' && r.idx > 61 && !s.nsWritten[c01Pair{r.f.Name, r.f.Value}] {
			w.Failf("C05/wire/indexed-reference-to-sensitive-only-pair", "%s: indexed representation %d resolves to %q=%q, a pair that was never written non-sensitive", after, r.idx, r.f.Name, r.f.Value)
			return false
		}
	}

	// --- the real decoder
	nGot := len(s.got)
	if _, err := s.dec.Write(out); err != nil {
		if s.openSens {
			w.Failf("C05/decode/error-in-block-with-sensitive-field", "%s: Decoder.Write = %v", after, err)
		} else {
			w.Outcome("pruned:decoder-error-in-block-without-sensitive-field")
		}
		return false
	}
	if f.Sensitive {
		if len(s.got) != nGot+1 {
			w.Failf("C05/decode/sensitive-field-not-emitted-once", "%s: decoder emitted %d fields for it", after, len(s.got)-nGot)
			return false
		}
		g := s.got[nGot]
		if g.Name != f.Name || g.Value != f.Value {
			w.Failf("C05/decode/sensitive-field-altered", "%s: decoder emitted %v", after, g)
			return false
		}
		if !g.Sensitive {
			w.Failf("C05/decode/sensitive-flag-lost", "%s: decoder emitted %v without Sensitive", after, g)
			return false
		}
		// size updates that precede the field evict oldest entries (§4.3); nothing else may change
		want := decBefore
		for _, r := range reprs {
			if r.kind == 'U' {
				want = c05EvictTo(want, r.idx)
			}
		}
		if !c05SameEnts(want, s.dec.dynTab.table.ents) {
			w.Failf("C05/decoder-table/changed-by-sensitive-field/"+sit, "%s: decoder table %s -> %s, expected %s", after, c01FieldsString(decBefore), c01EntsString(&s.dec.dynTab.table), c01FieldsString(want))
			return false
		}
	}
	s.got = s.got[:0]

	// --- globally: a table entry exists only if a non-sensitive write of that pair happened
	for _, t := range []struct {
		who string
		tab *headerFieldTable
	}{{"encoder", &s.enc.dynTab.table}, {"decoder", &s.dec.dynTab.table}} {
		for _, e := range t.tab.ents {
			if !s.nsWritten[c01Pair{e.Name, e.Value}] || e.Sensitive {
				w.Failf("C05/table/entry-without-non-sensitive-write/"+t.who, "%s: %s table %s holds %v, which was only ever written with Sensitive set (or carries the flag)", after, t.who, c01EntsString(t.tab), e)
				return false
			}
		}
	}
	for _, e := range s.ref.ents {
		if !s.nsWritten[c01Pair{e.n, e.v}] {
			w.Failf("C05/table/entry-without-non-sensitive-write/wire", "%s: the wire made an RFC decoder index %q=%q, which was only ever written with Sensitive set", after, e.n, e.v)
			return false
		}
	}
	pre := "F"
	if f.Sensitive {
		pre = "S"
	}
	if f.Value == "" {
		pre += "/empty-value"
	}
	w.Outcome(pre + "/" + sit + "/" + c05ShortKind(kind))
	if f.Sensitive {
		w.Distinct(fmt.Sprintf("%s|%x|%s", sit, out, c01RefEntsString(&s.ref)))
	}
	return true
}

func TestVerif_C05(t *testing.T) {
	vx.Run(t, "C05", func(c *vx.Ctx) {
		ops := c01Ops(
			"F(:method=GET)", "S(:method=GET)", "F(cookie=v)", "S(cookie=v)", "F(k=v)", "S(k=v)", "F(k=w)", "S(k=w)",
			"F(h=aaaaaaaa)", "S(h=aaaaaaaa)",
			// the empty value in every match situation: (k,"") none / dynamic name / dynamic full match,
			// (cookie,"") and (:authority,"") identical static entries, (:method,"") static name only
			"F(k=)", "S(k=)", "S(cookie=)", "S(:authority=)", "S(:method=)",
			"End", "Peer(0)", "Peer(70)", "Peer(4096)")
		if !c.Quick() {
			ops = append(ops, c01Ops("F(=)", "S(=)", "F(cookie=)", "S(accept-charset=u)", "Peer(33)")...)
		}
		var labels []string
		for _, o := range ops {
			labels = append(labels, o.String())
		}
		depth := 1 << 20 // until the reachable state space is closed
		c.Rule(fmt.Sprintf("breadth-first search to closure (depth bound %d) over every sequence of operations {%s} on one real Encoder + one real Decoder + an RFC 7541 reference decoder, states deduplicated on (encoder/decoder/reference tables and sizes, pending size update, set of pairs written non-sensitive, open-block flags). Each WriteField output is parsed by the reference decoder and fed to Decoder.Write immediately. On every sensitive write: the representation is a never-indexed literal (0001xxxx) carrying the pair, the encoder table is unchanged, the decoder emits it once with Sensitive set and its table is unchanged; after every write: every entry of the encoder, decoder and reference tables is a pair that was written non-sensitive at least once, and every indexed representation resolves to such a pair. non-trivial = an applied and compared transition; distinct = distinct (situation, bytes, table) of sensitive writes", depth, strings.Join(labels, " ")))
		c.Assume("Table-size changes happen between header blocks only; sizes {0,70,4096} (thorough adds 33; encoder-local SetMaxDynamicTableSizeLimit is exercised by C01 only); 5 name/value pairs with a non-empty value (static full match, static name match, two pairs sharing a name, a Huffman-coded value) plus the empty value in every match situation: (k,\"\") written sensitive and not (no match / dynamic name match / dynamic full match), sensitive (cookie,\"\") and (:authority,\"\") (identical static entries, name index >= 15 and < 15), sensitive (:method,\"\") (static name only); thorough adds the empty pair and non-sensitive (cookie,\"\").")
		c.Assume("Round-trip fidelity of non-sensitive fields is C01's subject and is not judged here.")
		vx.Seq(c, vx.SeqSpec[*c01State, c01Op]{
			Part:    "seq",
			New:     func() *c01State { return c01New("C05", true) },
			Ops:     ops,
			Enabled: c05Enabled,
			Apply:   c05Apply,
			Canon:   c01Canon,
			Depth:   depth,
		})
	})
}
