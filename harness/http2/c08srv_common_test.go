//go:build !(go1.27 && !http2legacy)

package http2_test

// Shared event-level (EV) harness for the server-side flow-control checks
// C08, C10 (server part) and C11 (server part).
//
// One case = one event sequence executed against a fresh, real http2.Server
// serving one in-memory connection inside its own testing/synctest bubble.
// The harness is the client (real Framer for encoding, its own non-fatal frame
// reads for observing) and also is every request handler: handler goroutines
// block on a per-stream command channel created inside the bubble and execute
// harness commands. After every event the harness waits for quiescence
// (synctest.Wait), drains every frame the server wrote and hands them to the
// check's monitor.

import (
	"errors"
	"fmt"
	"io"
	"log"
	"net"
	"net/http"
	"os"
	"strconv"
	"strings"
	"sync"
	"sync/atomic"
	"testing"
	"testing/synctest"

	. "golang.org/x/net/http2"
	"golang.org/x/net/internal/zzverif/vx"
)

// c08srvCfg is the server configuration of a case.
type c08srvCfg struct {
	Sched   string `json:"sched"`              // "9218" (default), "rr", "7540", "7540t" (RFC 7540 priorities with ThrottleOutOfOrderWrites), "random"
	ConnWin int32  `json:"conn_win,omitempty"` // Server.MaxUploadBufferPerConnection (0 = default 1<<20)
	StrWin  int32  `json:"str_win,omitempty"`  // Server.MaxUploadBufferPerStream (0 = default 1<<20)
}

// c08srvCase is the replayable form of one case: configuration plus the event
// sequence (seed prefix included) in the textual form "K(a,b,...)".
type c08srvCase struct {
	Cfg     c08srvCfg `json:"cfg"`
	SeedLen int       `json:"seed_len"`
	Evs     []string  `json:"ev"`
}

// c08srvEv is a parsed event.
type c08srvEv struct {
	K string
	A []int64
}

func c08srvMk(k string, a ...int64) string {
	if len(a) == 0 {
		return k
	}
	s := make([]string, len(a))
	for i, v := range a {
		s[i] = strconv.FormatInt(v, 10)
	}
	return k + "(" + strings.Join(s, ",") + ")"
}

func c08srvParse(s string) (c08srvEv, error) {
	i := strings.IndexByte(s, '(')
	if i < 0 {
		return c08srvEv{K: s}, nil
	}
	if !strings.HasSuffix(s, ")") {
		return c08srvEv{}, fmt.Errorf("bad event %q", s)
	}
	ev := c08srvEv{K: s[:i]}
	for _, f := range strings.Split(s[i+1:len(s)-1], ",") {
		v, err := strconv.ParseInt(f, 10, 64)
		if err != nil {
			return c08srvEv{}, fmt.Errorf("bad event %q: %v", s, err)
		}
		ev.A = append(ev.A, v)
	}
	return ev, nil
}

func (e c08srvEv) arg(i int) int64 {
	if i < len(e.A) {
		return e.A[i]
	}
	return 0
}

// c08srvFrame is the harness's own record of one frame written by the server.
type c08srvFrame struct {
	Type   FrameType
	Flags  Flags
	Stream uint32
	Len    uint32 // frame payload length (flow-controlled length for DATA)
	Inc    uint32 // WINDOW_UPDATE
	Code   ErrCode
	Last   uint32 // GOAWAY: last stream id the sender will process
	Ack    bool
	End    bool // END_STREAM
}

func (f c08srvFrame) String() string {
	switch f.Type {
	case FrameData:
		return fmt.Sprintf("DATA(s=%d,len=%d,end=%v)", f.Stream, f.Len, f.End)
	case FrameWindowUpdate:
		return fmt.Sprintf("WINDOW_UPDATE(s=%d,inc=%d)", f.Stream, f.Inc)
	case FrameRSTStream:
		return fmt.Sprintf("RST_STREAM(s=%d,%v)", f.Stream, f.Code)
	case FrameGoAway:
		return fmt.Sprintf("GOAWAY(last=%d,%v)", f.Last, f.Code)
	case FrameSettings:
		return fmt.Sprintf("SETTINGS(ack=%v)", f.Ack)
	case FrameHeaders:
		return fmt.Sprintf("HEADERS(s=%d,end=%v)", f.Stream, f.End)
	}
	return fmt.Sprintf("%v(s=%d,len=%d)", f.Type, f.Stream, f.Len)
}

// c08srvCall is one running request handler.
type c08srvCall struct {
	id       uint32
	w        http.ResponseWriter
	req      *http.Request
	cmd      chan func()
	busy     atomic.Bool
	returned atomic.Bool

	// written by handler commands, read by the harness at quiescence
	readBuf  []byte // every byte Request.Body.Read returned, in order
	readErr  error  // last error returned by Read
	readEOF  bool
	wrErr    error // last error from Write/Flush path (informational)
	panicked bool
}

func (c *c08srvCall) idle() bool { return !c.busy.Load() && !c.returned.Load() }

// c08srvEnv is one server + client pair inside a bubble.
type c08srvEnv struct {
	t  testing.TB
	st *serverTester

	mu    sync.Mutex
	calls map[uint32]*c08srvCall

	connClosed bool   // the server closed the connection (EOF on read or write error)
	harnessErr string // first harness-level inconsistency (must not be ignored)
	wireErr    string // the server wrote something the Framer could not parse
	srvSettings map[SettingID]uint32

	// The application's net/http.Server.ConnState callback, which the server
	// calls on its serve goroutine. It returns at once unless a check armed
	// it (holdIdleHook): then the next StateIdle callback - the server calls
	// it inside closeStream when the last stream leaves its table - does not
	// return before releaseHook. Only C10 arms it.
	hookArmed  atomic.Bool
	hookParked atomic.Bool
	hookRel    chan struct{}
}

func (e *c08srvEnv) connState(_ net.Conn, s http.ConnState) {
	if s != http.StateIdle || !e.hookArmed.CompareAndSwap(true, false) {
		return
	}
	e.hookParked.Store(true)
	<-e.hookRel
	e.hookParked.Store(false)
}

// holdIdleHook: the next ConnState(StateIdle) callback is slow.
func (e *c08srvEnv) holdIdleHook() { e.hookArmed.Store(true) }

// releaseHook lets a parked ConnState callback return and waits for quiescence.
func (e *c08srvEnv) releaseHook() {
	e.hookArmed.Store(false)
	if e.hookParked.Load() {
		e.hookRel <- struct{}{}
		synctest.Wait()
	}
}

func (e *c08srvEnv) herr(format string, a ...any) {
	if e.harnessErr == "" {
		e.harnessErr = fmt.Sprintf(format, a...)
	}
}

func c08srvSched(name string) func() WriteScheduler {
	switch name {
	case "", "9218":
		return nil // package default
	case "rr":
		return NewRoundRobinWriteScheduler
	case "7540":
		return func() WriteScheduler { return NewPriorityWriteScheduler(nil) }
	case "7540t":
		// the RFC 7540 priority scheduler with its documented defaults plus
		// out-of-order write throttling: the one configuration reachable
		// through Server.NewWriteScheduler whose Pop hands
		// FrameWriteRequest.Consume a byte budget other than MaxInt32
		return func() WriteScheduler {
			return NewPriorityWriteScheduler(&PriorityWriteSchedulerConfig{
				MaxClosedNodesInTree:     10,
				MaxIdleNodesInTree:       10,
				ThrottleOutOfOrderWrites: true,
			})
		}
	case "random":
		return NewRandomWriteScheduler
	}
	panic("c08srv: unknown scheduler " + name)
}

// c08srvNew builds the server and performs the connection preface exchange
// with the given initial client SETTINGS. It never calls t.Fatal itself; the
// repository helper newServerTester only does for invalid options.
func c08srvNew(t testing.TB, cfg c08srvCfg, initial ...Setting) *c08srvEnv {
	e := &c08srvEnv{t: t, calls: map[uint32]*c08srvCall{}, srvSettings: map[SettingID]uint32{}, hookRel: make(chan struct{})}
	e.st = newServerTester(t, e.handler,
		func(s *Server) {
			s.NewWriteScheduler = c08srvSched(cfg.Sched)
			s.MaxUploadBufferPerConnection = cfg.ConnWin
			s.MaxUploadBufferPerStream = cfg.StrWin
		},
		func(h *http.Server) {
			h.ErrorLog = log.New(io.Discard, "", 0)
			h.ConnState = e.connState
		},
	)
	if _, err := e.st.cc.Write([]byte(ClientPreface)); err != nil {
		e.herr("writing preface: %v", err)
		return e
	}
	if err := e.st.fr.WriteSettings(initial...); err != nil {
		e.herr("writing initial SETTINGS: %v", err)
		return e
	}
	return e
}

func (e *c08srvEnv) handler(w http.ResponseWriter, req *http.Request) {
	id64, err := strconv.ParseUint(strings.TrimPrefix(req.URL.Path, "/"), 10, 32)
	if err != nil {
		panic("c08srv handler: bad path " + req.URL.Path)
	}
	call := &c08srvCall{id: uint32(id64), w: w, req: req, cmd: make(chan func())}
	e.mu.Lock()
	e.calls[call.id] = call
	e.mu.Unlock()
	defer func() {
		call.returned.Store(true)
		call.busy.Store(false)
	}()
	for f := range call.cmd {
		f()
		call.busy.Store(false)
	}
}

func (e *c08srvEnv) call(id uint32) *c08srvCall {
	e.mu.Lock()
	defer e.mu.Unlock()
	return e.calls[id]
}

// do runs f on the handler goroutine of call and waits for quiescence. The
// handler may still be blocked inside f afterwards (call.busy stays true).
func (e *c08srvEnv) do(call *c08srvCall, f func()) {
	if !call.idle() {
		e.herr("command for busy/returned handler of stream %d", call.id)
		return
	}
	call.busy.Store(true)
	call.cmd <- f
	synctest.Wait()
}

// finish lets the handler return.
func (e *c08srvEnv) finish(call *c08srvCall) {
	if !call.idle() {
		e.herr("Done for busy/returned handler of stream %d", call.id)
		return
	}
	call.busy.Store(true)
	close(call.cmd)
	synctest.Wait()
}

// writeErr classifies an error from writing a frame to the server.
func (e *c08srvEnv) writeErr(err error) bool {
	if err == nil {
		return false
	}
	// The only expected write error is "the server closed the connection".
	e.connClosed = true
	return true
}

// drain reads every frame the server has written so far (non-fatal).
func (e *c08srvEnv) drain() []c08srvFrame {
	var out []c08srvFrame
	for {
		f, err := e.st.fr.ReadFrame()
		if err != nil {
			switch {
			case errors.Is(err, os.ErrDeadlineExceeded):
			case err == io.EOF || errors.Is(err, io.ErrUnexpectedEOF):
				e.connClosed = true
			default:
				if e.wireErr == "" {
					e.wireErr = err.Error()
				}
				e.connClosed = true
			}
			return out
		}
		h := f.Header()
		r := c08srvFrame{Type: h.Type, Flags: h.Flags, Stream: h.StreamID, Len: h.Length}
		switch f := f.(type) {
		case *DataFrame:
			r.End = f.StreamEnded()
		case *HeadersFrame:
			r.End = f.StreamEnded()
		case *WindowUpdateFrame:
			r.Inc = f.Increment
		case *RSTStreamFrame:
			r.Code = f.ErrCode
		case *GoAwayFrame:
			r.Code = f.ErrCode
			r.Last = f.LastStreamID
		case *SettingsFrame:
			r.Ack = f.IsAck()
			if !r.Ack {
				f.ForeachSetting(func(s Setting) error {
					e.srvSettings[s.ID] = s.Val
					return nil
				})
			}
		}
		out = append(out, r)
	}
}

// headers sends a request HEADERS frame for stream id with path "/<id>".
func (e *c08srvEnv) headers(id uint32, endStream bool, extra ...string) bool {
	kv := append([]string{":method", "POST", ":path", "/" + strconv.Itoa(int(id))}, extra...)
	if endStream {
		kv[1] = "GET"
	}
	err := e.st.fr.WriteHeaders(HeadersFrameParam{
		StreamID:      id,
		BlockFragment: e.st.encodeHeader(kv...),
		EndStream:     endStream,
		EndHeaders:    true,
	})
	return !e.writeErr(err)
}

// headersDep sends a GET request HEADERS frame for stream id (path "/<id>")
// carrying the RFC 7540 §5.3 priority field "depends on stream dep, default
// weight, not exclusive".
func (e *c08srvEnv) headersDep(id, dep uint32) bool {
	err := e.st.fr.WriteHeaders(HeadersFrameParam{
		StreamID:      id,
		BlockFragment: e.st.encodeHeader(":method", "GET", ":path", "/"+strconv.Itoa(int(id))),
		EndStream:     true,
		EndHeaders:    true,
		Priority:      PriorityParam{StreamDep: dep, Weight: 15},
	})
	return !e.writeErr(err)
}

// teardown closes the connection and lets every handler return so that no
// goroutine outlives the bubble.
func (e *c08srvEnv) teardown() {
	e.releaseHook() // a serve loop parked in the ConnState callback could never exit
	e.st.cc.Close()
	synctest.Wait()
	e.mu.Lock()
	calls := make([]*c08srvCall, 0, len(e.calls))
	for _, c := range e.calls {
		calls = append(calls, c)
	}
	e.mu.Unlock()
	for _, c := range calls {
		if c.returned.Load() {
			continue
		}
		if c.busy.Load() {
			e.herr("handler of stream %d still blocked after the connection was closed", c.id)
			continue
		}
		c.busy.Store(true)
		close(c.cmd)
	}
	synctest.Wait()
}

// c08srvBubble runs body in a fresh bubble under a sub-test of c.T. A failed
// sub-test (some helper called t.Fatal/t.Error) or a harness inconsistency is
// a harness error: it aborts the whole run (exit status 2 of the driver),
// never a pass and never a violation.
func c08srvBubble(c *vx.Ctx, name string, body func(t testing.TB) (harnessErr string)) {
	var herr string
	ran := false
	ok := c.T.Run(name, func(t *testing.T) {
		synctestTest(t, func(t testing.TB) {
			herr = body(t)
			ran = true
		})
	})
	if herr != "" {
		c.T.Fatalf("HARNESS ERROR in case %s: %s", name, herr)
	}
	if !ok || !ran {
		c.T.Fatalf("HARNESS ERROR: sub-test of case %s failed (a helper called t.Fatal/t.Error); see log above", name)
	}
}

// c08srvPattern returns n bytes whose value depends on the absolute offset,
// so that reordering or duplication of delivered bytes is visible.
func c08srvPattern(off, n int) []byte {
	b := make([]byte, n)
	for i := range b {
		b[i] = byte((off + i) % 251)
	}
	return b
}
